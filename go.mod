module verifmc

go 1.23.3

require (
	github.com/99designs/keyring v1.2.1 // indirect
	github.com/cometbft/cometbft v0.37.5
	github.com/cometbft/cometbft-db v0.8.0
	github.com/confio/ics23/go v0.9.0 // indirect
	github.com/cosmos/cosmos-sdk v0.47.13
	github.com/cosmos/ibc-go/v7 v7.4.0
	github.com/ethereum/go-ethereum v1.14.13
	github.com/gofiber/fiber/v2 v2.52.12
	github.com/gofiber/websocket/v2 v2.0.22
	github.com/gogo/protobuf v1.3.3
	github.com/gorilla/mux v1.8.0
	github.com/grpc-ecosystem/grpc-gateway v1.16.0
	github.com/spf13/cast v1.6.0
	github.com/spf13/cobra v1.8.0
	github.com/stretchr/testify v1.11.1
	google.golang.org/genproto v0.0.0-20240213162025-012b6fc9bca9 // indirect
	google.golang.org/grpc v1.75.0
	google.golang.org/protobuf v1.36.8
	gopkg.in/yaml.v2 v2.4.0
)

require (
	cosmossdk.io/collections v0.4.0
	cosmossdk.io/core v0.10.0
	cosmossdk.io/errors v1.0.1
	cosmossdk.io/math v1.3.0
	github.com/btcsuite/btcd/btcec/v2 v2.3.2
	github.com/caio/go-tdigest/v5 v5.0.0
	github.com/cosmos/cosmos-proto v1.0.0-beta.5
	github.com/cosmos/gogoproto v1.4.10
	github.com/cosmos/ibc-apps/middleware/packet-forward-middleware/v7 v7.1.3
	github.com/decred/dcrd/dcrec/secp256k1/v4 v4.1.0
	github.com/dgraph-io/badger/v4 v4.1.0
	github.com/dgraph-io/ristretto/v2 v2.3.0
	github.com/fullstorydev/grpcurl v1.8.5
	github.com/goccy/go-json v0.10.5
	github.com/gogo/status v1.1.0
	github.com/golang/mock v1.6.0
	github.com/golang/protobuf v1.5.4
	github.com/grafana/pyroscope-go v1.2.7
	github.com/itchyny/gojq v0.12.16
	github.com/jhump/protoreflect v1.15.1
	github.com/joho/godotenv v1.3.0
	github.com/json-iterator/go v1.1.12
	github.com/newrelic/go-agent/v3 v3.20.4
	github.com/soheilhy/cmux v0.1.5
	github.com/spf13/pflag v1.0.5
	github.com/tidwall/gjson v1.16.0
	github.com/tidwall/sjson v1.2.5
	go.opentelemetry.io/contrib/exporters/autoexport v0.63.0
	go.opentelemetry.io/contrib/instrumentation/google.golang.org/grpc/otelgrpc v0.53.0
	go.opentelemetry.io/otel v1.38.0
	go.opentelemetry.io/otel/exporters/otlp/otlplog/otlploghttp v0.14.0
	go.opentelemetry.io/otel/log v0.14.0
	go.opentelemetry.io/otel/sdk v1.38.0
	go.opentelemetry.io/otel/sdk/log v0.14.0
	go.opentelemetry.io/otel/trace v1.38.0
	go.uber.org/goleak v1.3.0
	go.uber.org/mock v0.3.0
	gonum.org/v1/gonum v0.16.0
	google.golang.org/genproto/googleapis/api v0.0.0-20250825161204-c5933d9347a5
	gopkg.in/natefinch/lumberjack.v2 v2.2.1
)

require (
	cloud.google.com/go v0.112.1 // indirect
	cloud.google.com/go/compute/metadata v0.7.0 // indirect
	cloud.google.com/go/iam v1.1.6 // indirect
	cloud.google.com/go/storage v1.38.0 // indirect
	cosmossdk.io/api v0.7.0 // indirect
	cosmossdk.io/depinject v1.0.0-alpha.4 // indirect
	cosmossdk.io/log v1.3.1 // indirect
	cosmossdk.io/tools/rosetta v0.2.1 // indirect
	github.com/99designs/go-keychain v0.0.0-20191008050251-8e49817e8af4 // indirect
	github.com/DataDog/zstd v1.5.5 // indirect
	github.com/Microsoft/go-winio v0.6.2 // indirect
	github.com/aws/aws-sdk-go v1.44.203 // indirect
	github.com/bgentry/go-netrc v0.0.0-20140422174119-9fd32a8b3d3d // indirect
	github.com/bits-and-blooms/bitset v1.13.0 // indirect
	github.com/bufbuild/protocompile v0.4.0 // indirect
	github.com/cenkalti/backoff/v4 v4.3.0 // indirect
	github.com/cenkalti/backoff/v5 v5.0.3 // indirect
	github.com/chzyer/readline v1.5.1 // indirect
	github.com/cockroachdb/apd/v2 v2.0.2 // indirect
	github.com/cockroachdb/errors v1.11.3 // indirect
	github.com/cockroachdb/fifo v0.0.0-20240606204812-0bbfbd93a7ce // indirect
	github.com/cockroachdb/logtags v0.0.0-20230118201751-21c54148d20b // indirect
	github.com/cockroachdb/pebble v1.1.2 // indirect
	github.com/cockroachdb/redact v1.1.5 // indirect
	github.com/cockroachdb/tokenbucket v0.0.0-20230807174530-cc333fc44b06 // indirect
	github.com/consensys/bavard v0.1.13 // indirect
	github.com/consensys/gnark-crypto v0.12.1 // indirect
	github.com/cosmos/cosmos-db v1.0.0 // indirect
	github.com/cosmos/gogogateway v1.2.0 // indirect
	github.com/cosmos/ics23/go v0.10.0 // indirect
	github.com/cosmos/rosetta-sdk-go v0.10.0 // indirect
	github.com/crate-crypto/go-ipa v0.0.0-20240223125850-b1e8a79f509c // indirect
	github.com/crate-crypto/go-kzg-4844 v1.0.0 // indirect
	github.com/creachadair/taskgroup v0.4.2 // indirect
	github.com/deckarep/golang-set/v2 v2.6.0 // indirect
	github.com/ethereum/c-kzg-4844 v1.0.0 // indirect
	github.com/ethereum/go-verkle v0.1.1-0.20240829091221-dffa7562dbe9 // indirect
	github.com/getsentry/sentry-go v0.27.0 // indirect
	github.com/go-logr/logr v1.4.3 // indirect
	github.com/go-logr/stdr v1.2.2 // indirect
	github.com/gogo/googleapis v1.4.1 // indirect
	github.com/google/flatbuffers v2.0.8+incompatible // indirect
	github.com/google/go-cmp v0.7.0 // indirect
	github.com/google/s2a-go v0.1.7 // indirect
	github.com/google/uuid v1.6.0 // indirect
	github.com/googleapis/enterprise-certificate-proxy v0.3.2 // indirect
	github.com/googleapis/gax-go/v2 v2.12.2 // indirect
	github.com/grafana/pyroscope-go/godeltaprof v0.1.9 // indirect
	github.com/grafana/regexp v0.0.0-20240518133315-a468a5bfb3bc // indirect
	github.com/grpc-ecosystem/grpc-gateway/v2 v2.27.2 // indirect
	github.com/hashicorp/go-cleanhttp v0.5.2 // indirect
	github.com/hashicorp/go-getter v1.7.5 // indirect
	github.com/hashicorp/go-safetemp v1.0.0 // indirect
	github.com/hashicorp/go-version v1.6.0 // indirect
	github.com/holiman/uint256 v1.3.1 // indirect
	github.com/huandu/skiplist v1.2.0 // indirect
	github.com/iancoleman/orderedmap v0.2.0 // indirect
	github.com/itchyny/timefmt-go v0.1.6 // indirect
	github.com/jmespath/go-jmespath v0.4.0 // indirect
	github.com/kr/pretty v0.3.1 // indirect
	github.com/kr/text v0.2.0 // indirect
	github.com/kylelemons/godebug v1.1.0 // indirect
	github.com/linxGnu/grocksdb v1.7.16 // indirect
	github.com/manifoldco/promptui v0.9.0 // indirect
	github.com/mattn/go-runewidth v0.0.16 // indirect
	github.com/mitchellh/go-homedir v1.1.0 // indirect
	github.com/mitchellh/go-testing-interface v1.14.1 // indirect
	github.com/mmcloughlin/addchain v0.4.0 // indirect
	github.com/modern-go/concurrent v0.0.0-20180306012644-bacd9c7ef1dd // indirect
	github.com/modern-go/reflect2 v1.0.2 // indirect
	github.com/munnerz/goautoneg v0.0.0-20191010083416-a7dc8b61c822 // indirect
	github.com/onsi/gomega v1.34.1 // indirect
	github.com/pelletier/go-toml/v2 v2.1.0 // indirect
	github.com/prometheus/otlptranslator v0.0.2 // indirect
	github.com/rivo/uniseg v0.4.7 // indirect
	github.com/rogpeppe/go-internal v1.14.1 // indirect
	github.com/sagikazarmark/locafero v0.4.0 // indirect
	github.com/sagikazarmark/slog-shim v0.1.0 // indirect
	github.com/sourcegraph/conc v0.3.0 // indirect
	github.com/supranational/blst v0.3.13 // indirect
	github.com/tidwall/btree v1.6.0 // indirect
	github.com/tidwall/match v1.1.1 // indirect
	github.com/tidwall/pretty v1.2.0 // indirect
	github.com/ulikunitz/xz v0.5.11 // indirect
	github.com/zondax/ledger-go v0.14.3 // indirect
	go.opentelemetry.io/auto/sdk v1.1.0 // indirect
	go.opentelemetry.io/contrib/bridges/prometheus v0.63.0 // indirect
	go.opentelemetry.io/contrib/instrumentation/net/http/otelhttp v0.53.0 // indirect
	go.opentelemetry.io/otel/exporters/otlp/otlplog/otlploggrpc v0.14.0 // indirect
	go.opentelemetry.io/otel/exporters/otlp/otlpmetric/otlpmetricgrpc v1.38.0 // indirect
	go.opentelemetry.io/otel/exporters/otlp/otlpmetric/otlpmetrichttp v1.38.0 // indirect
	go.opentelemetry.io/otel/exporters/otlp/otlptrace v1.38.0 // indirect
	go.opentelemetry.io/otel/exporters/otlp/otlptrace/otlptracegrpc v1.38.0 // indirect
	go.opentelemetry.io/otel/exporters/otlp/otlptrace/otlptracehttp v1.38.0 // indirect
	go.opentelemetry.io/otel/exporters/prometheus v0.60.0 // indirect
	go.opentelemetry.io/otel/exporters/stdout/stdoutlog v0.14.0 // indirect
	go.opentelemetry.io/otel/exporters/stdout/stdoutmetric v1.38.0 // indirect
	go.opentelemetry.io/otel/exporters/stdout/stdouttrace v1.38.0 // indirect
	go.opentelemetry.io/otel/metric v1.38.0 // indirect
	go.opentelemetry.io/otel/sdk/metric v1.38.0 // indirect
	go.opentelemetry.io/proto/otlp v1.7.1 // indirect
	go.uber.org/atomic v1.10.0 // indirect
	go.uber.org/multierr v1.9.0 // indirect
	golang.org/x/oauth2 v0.30.0 // indirect
	golang.org/x/time v0.5.0 // indirect
	google.golang.org/api v0.169.0 // indirect
	google.golang.org/genproto/googleapis/rpc v0.0.0-20250825161204-c5933d9347a5 // indirect
	pgregory.net/rapid v1.1.0 // indirect
	rsc.io/tmplfunc v0.0.3 // indirect
	sigs.k8s.io/yaml v1.4.0 // indirect
)

require (
	filippo.io/edwards25519 v1.0.0 // indirect
	github.com/ChainSafe/go-schnorrkel v1.0.0 // indirect
	github.com/StackExchange/wmi v1.2.1 // indirect
	github.com/andybalholm/brotli v1.1.0 // indirect
	github.com/armon/go-metrics v0.4.1 // indirect
	github.com/beorn7/perks v1.0.1 // indirect
	github.com/bgentry/speakeasy v0.1.1-0.20220910012023-760eaf8b6816 // indirect
	github.com/cespare/xxhash v1.1.0 // indirect
	github.com/cespare/xxhash/v2 v2.3.0 // indirect
	github.com/coinbase/rosetta-sdk-go v0.7.9 // indirect
	github.com/cosmos/btcutil v1.0.5 // indirect
	github.com/cosmos/go-bip39 v1.0.0 // indirect
	github.com/cosmos/iavl v0.20.1 // indirect
	github.com/cosmos/ledger-cosmos-go v0.12.4 // indirect
	github.com/danieljoos/wincred v1.1.2 // indirect
	github.com/davecgh/go-spew v1.1.2-0.20180830191138-d8f796af33cc // indirect
	github.com/deckarep/golang-set v1.8.0
	github.com/desertbit/timer v0.0.0-20180107155436-c41aec40b27f // indirect
	github.com/dgraph-io/badger/v2 v2.2007.4 // indirect
	github.com/dgraph-io/ristretto v0.2.0 // indirect
	github.com/dgryski/go-farm v0.0.0-20240924180020-3414d57e47da // indirect
	github.com/dustin/go-humanize v1.0.1 // indirect
	github.com/dvsekhvalnov/jose2go v1.6.0 // indirect
	github.com/fasthttp/websocket v1.5.0 // indirect
	github.com/felixge/httpsnoop v1.0.4 // indirect
	github.com/fsnotify/fsnotify v1.7.0 // indirect
	github.com/go-kit/kit v0.12.0 // indirect
	github.com/go-kit/log v0.2.1 // indirect
	github.com/go-logfmt/logfmt v0.6.0 // indirect
	github.com/go-ole/go-ole v1.3.0 // indirect
	github.com/godbus/dbus v0.0.0-20190726142602-4481cbc300e2 // indirect
	github.com/golang/groupcache v0.0.0-20241129210726-2c02b8208cf8 // indirect
	github.com/golang/snappy v0.0.5-0.20220116011046-fa5810519dcb // indirect
	github.com/google/btree v1.1.2 // indirect
	github.com/google/orderedcode v0.0.1 // indirect
	github.com/gorilla/handlers v1.5.1 // indirect
	github.com/gorilla/websocket v1.5.0
	github.com/grpc-ecosystem/go-grpc-middleware v1.3.0 // indirect
	github.com/gsterjov/go-libsecret v0.0.0-20161001094733-a6f4afe4910c // indirect
	github.com/gtank/merlin v0.1.1 // indirect
	github.com/gtank/ristretto255 v0.1.2 // indirect
	github.com/hashicorp/go-immutable-radix v1.3.1 // indirect
	github.com/hashicorp/golang-lru v0.5.5-0.20210104140557-80c98217689d // indirect
	github.com/hashicorp/hcl v1.0.0 // indirect
	github.com/hdevalence/ed25519consensus v0.1.0 // indirect
	github.com/improbable-eng/grpc-web v0.15.0
	github.com/inconshreveable/mousetrap v1.1.0 // indirect
	github.com/jmhodges/levigo v1.0.0 // indirect
	github.com/klauspost/compress v1.18.0 // indirect
	github.com/lavanet/lava/v5 v5.0.0
	github.com/lib/pq v1.10.7 // indirect
	github.com/libp2p/go-buffer-pool v0.1.0 // indirect
	github.com/magiconair/properties v1.8.7 // indirect
	github.com/mattn/go-colorable v0.1.13 // indirect
	github.com/mattn/go-isatty v0.0.20 // indirect
	github.com/mimoo/StrobeGo v0.0.0-20210601165009-122bf33a46e0 // indirect
	github.com/minio/highwayhash v1.0.2 // indirect
	github.com/mitchellh/mapstructure v1.5.0
	github.com/mtibben/percent v0.2.1 // indirect
	github.com/petermattis/goid v0.0.0-20230317030725-371a4b8eda08 // indirect
	github.com/pkg/errors v0.9.1 // indirect
	github.com/pmezard/go-difflib v1.0.1-0.20181226105442-5d4384ee4fb2 // indirect
	github.com/prometheus/client_golang v1.23.0
	github.com/prometheus/client_model v0.6.2
	github.com/prometheus/common v0.65.0 // indirect
	github.com/prometheus/procfs v0.17.0 // indirect
	github.com/rakyll/statik v0.1.7 // indirect
	github.com/rcrowley/go-metrics v0.0.0-20201227073835-cf1acfcdf475 // indirect
	github.com/rs/cors v1.8.3 // indirect
	github.com/rs/zerolog v1.32.0
	github.com/sasha-s/go-deadlock v0.3.1 // indirect
	github.com/savsgio/gotils v0.0.0-20211223103454-d0aaa54c5899 // indirect
	github.com/shirou/gopsutil v3.21.4-0.20210419000835-c7a38de76ee5+incompatible // indirect
	github.com/spf13/afero v1.11.0 // indirect
	github.com/spf13/viper v1.18.2
	github.com/subosito/gotenv v1.6.0 // indirect
	github.com/syndtr/goleveldb v1.0.1-0.20220721030215-126854af5e6d // indirect
	github.com/tendermint/go-amino v0.16.0 // indirect
	github.com/tklauser/go-sysconf v0.3.12 // indirect
	github.com/tklauser/numcpus v0.6.1 // indirect
	github.com/valyala/bytebufferpool v1.0.0 // indirect
	github.com/valyala/fasthttp v1.51.0 // indirect
	github.com/valyala/tcplisten v1.0.0 // indirect
	github.com/zondax/hid v0.9.2 // indirect
	go.etcd.io/bbolt v1.3.7 // indirect
	go.opencensus.io v0.24.0 // indirect
	golang.org/x/crypto v0.41.0 // indirect
	golang.org/x/exp v0.0.0-20240719175910-8a7402abbf56
	golang.org/x/net v0.43.0
	golang.org/x/sync v0.16.0
	golang.org/x/sys v0.35.0 // indirect
	golang.org/x/term v0.34.0
	golang.org/x/text v0.28.0 // indirect
	gopkg.in/ini.v1 v1.67.0 // indirect
	gopkg.in/natefinch/npipe.v2 v2.0.0-20160621034901-c1b8fa8bdcce
	gopkg.in/yaml.v3 v3.0.1
	nhooyr.io/websocket v1.8.6 // indirect
)

replace github.com/gogo/protobuf => github.com/regen-network/protobuf v1.3.3-alpha.regen.1

replace github.com/syndtr/goleveldb => github.com/syndtr/goleveldb v1.0.1-0.20210819022825-2ae1ddf74ef7

replace github.com/cosmos/cosmos-sdk => github.com/lavanet/cosmos-sdk v0.47.13-lava-cosmos // branch: v0.47.13-lava

replace (
	cosmossdk.io/api => cosmossdk.io/api v0.3.1
	github.com/prometheus/client_golang => github.com/prometheus/client_golang v1.22.0
	github.com/prometheus/common => github.com/prometheus/common v0.63.0
	golang.org/x/exp => golang.org/x/exp v0.0.0-20230711153332-06a737ee72cb
)

replace github.com/lavanet/lava/v5 => /repo
