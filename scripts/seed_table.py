#!/usr/bin/env python3
"""writes /verif/seeded/README.md from seeded/*/meta.json"""
import json, glob, os
rows=[]
def note(v):
    h=v.get('check_history') or []
    if len(h)>1:
        first=h[0]
        return ('first run %s; strengthened: %s' % (first.get('result'), h[-1].get('note',''))).replace('|','/')
    return v.get('note','') or ''
for d in sorted(glob.glob('/verif/seeded/*/')):
    m=os.path.join(d,'meta.json')
    if not os.path.exists(m): continue
    j=json.load(open(m)); v=j.get('verified_by_us',{})
    rows.append((os.path.basename(d.rstrip('/')), j.get('summary','')[:160].replace('\n',' ').replace('|','/'), j.get('needs','')[:160].replace('\n',' ').replace('|','/') if isinstance(j.get('needs'),str) else str(j.get('needs'))[:160],
                 v.get('demo_exit_with_change'), v.get('demo_exit_without_change'), v.get('existing_package_tests_exit_with_change'), v.get('our_check'), v.get('our_check_tier'), v.get('our_check_result'), note(v)))
out=["# Independently written property-breaking changes\n",
"Each directory holds a change to lavanet/lava written by a fresh sub-agent that was given only the text of one property and a scratch",
"git worktree (nothing from /verif): `patch.diff`, the demonstration test, `demo_cmd.txt`, `meta.json` (the author's description plus",
"`verified_by_us`: demo exit code with / without the change, exit code of the changed packages' own tests with the change, and the result of",
"running our check against the change through `scripts/mutate_overlay.sh`). None of these changes is committed to /repo.",
"Where the first run of our check MISSED a change, the check was strengthened (never the change weakened) and re-run; the note column says how.\n",
"| id | change | needs | demo with/without | pkg tests | our check | tier | result | note |","|---|---|---|---|---|---|---|---|---|"]
for r in rows:
    out.append(f"| {r[0]} | {r[1]} | {r[2]} | {r[3]}/{r[4]} | {r[5]} | {r[6]} | {r[7]} | **{r[8]}** | {r[9]} |")
open('/verif/seeded/README.md','w').write('\n'.join(out)+'\n')
print(len(rows),'seeded changes')
