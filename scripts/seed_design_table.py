#!/usr/bin/env python3
"""prints the markdown table 'which check catches which independently written change' for DESIGN.md"""
import json, glob, os
print("| property | independently written change (file; what it needs) | check, tier | first run | what was done |")
print("|---|---|---|---|---|")
for d in sorted(glob.glob('/verif/seeded/C*/')):
    j=json.load(open(d+'meta.json')); v=j.get('verified_by_us',{})
    files=', '.join(os.path.basename(f) for f in (j.get('files_changed') or [])[:2]) if isinstance(j.get('files_changed'),list) else str(j.get('files_changed'))[:60]
    needs=(j.get('needs') if isinstance(j.get('needs'),str) else str(j.get('needs')))[:150].replace('\n',' ').replace('|','/')
    h=v.get('check_history') or []
    first=h[0]['result'] if len(h)>1 else v.get('our_check_result')
    done=''
    if len(h)>1:
        done=h[-1].get('note','')
    elif v.get('note'):
        done=v['note']
    done=done.replace('|','/')[:260]
    print(f"| {os.path.basename(d.rstrip('/'))} | {files}; {needs} | {v.get('our_check')} {v.get('our_check_tier')} -> **{v.get('our_check_result')}** | {first} | {done} |")
