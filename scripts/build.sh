#!/bin/bash
# build.sh <flavour>: (re)build one dispatcher binary from /repo's current working tree.
set -e
cd /verif
. scripts/env.sh
case "$1" in
  vmc) go build -tags verif -o bin/vmc ./cmd/vmc ;;
  vcoop) python3 tools/overlaygen.py coop >/dev/null && go build -tags verif -overlay .cache/overlay/coop/overlay.json -o bin/vcoop ./cmd/vcoop ;;
  vmapiter) python3 tools/overlaygen_runtime.py >/dev/null && go build -tags verif -overlay .cache/overlay/mapiter/overlay.json -o bin/vmapiter ./cmd/vmapiter ;;
  vevents) python3 tools/overlaygen_events.py >/dev/null && go build -tags verif -overlay .cache/overlay/events/overlay.json -o bin/vevents ./cmd/vdev-c41 ;;
  vc40) python3 tools/overlaygen_c40.py >/dev/null && go build -tags verif -overlay .cache/overlay/c40/overlay.json -o bin/vc40 ./cmd/vdev-c40 ;;
  *) echo "unknown flavour $1" >&2; exit 2 ;;
esac
