# sourced by every script
export GOFLAGS=-mod=mod GOPROXY=off GOSUMDB=off GOTOOLCHAIN=local
export GOCACHE=/verif/.cache/go-build
export VERIF_ROOT=/verif
mkdir -p /verif/.cache /verif/bin /verif/evidence /verif/replays
