#!/bin/bash
# replay.sh <artefact.json>: re-execute one recorded violation without the explorer.
cd /verif
. scripts/env.sh
flavour=$(python3 -c "
import json
a=json.load(open('$1')); m=json.load(open('/verif/scripts/flavours.json')); print(m.get(a['property'],'vmc'))")
scripts/build.sh "$flavour" >/dev/null 2>&1
exec bin/$flavour replay "$1"
