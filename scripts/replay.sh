#!/bin/bash
# replay.sh <artefact.json>: re-execute one recorded violation without the explorer.
cd /verif
. scripts/env.sh
flavour=$(python3 -c "
import json
a=json.load(open('$1')); m=json.load(open('/verif/scripts/flavours.json'))
fl=m.get(a['property'],'vmc').split('+')
r=a.get('replay') or {}
# a property decided by two binaries: schedule artefacts (harness + choices) belong to the last one
print(fl[-1] if (isinstance(r,dict) and ('harness' in r or 'schedule' in r or 'choices' in r)) else fl[0])")
scripts/build.sh "$flavour" >/dev/null 2>&1
exec bin/$flavour replay "$1"
