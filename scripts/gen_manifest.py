#!/usr/bin/env python3
"""Generates /verif/MANIFEST.json from the table in scripts/checks_table.json (single source)."""
import json, subprocess
table = json.load(open('/verif/scripts/checks_table.json'))
props = [json.loads(l) for l in open('/verif/properties.jsonl')]
hooks = subprocess.run("git -C /repo log --format=%H --grep='^verif hook' ", shell=True, capture_output=True, text=True).stdout.split()
checks, na = [], []
for p in props:
    pid = p['id']
    t = table.get(pid)
    if not t or not t.get('claimed'):
        na.append({"property_id": pid, "reason": (t or {}).get('reason', 'check not built yet in this session; planned per DESIGN.md')})
        continue
    checks.append({
        "property_id": pid,
        "quick_cmd": f"scripts/check.sh {pid} quick",
        "thorough_cmd": f"scripts/check.sh {pid} thorough",
        "evidence_file": f"/verif/evidence/{pid}.json",
        "replay_cmd_template": "scripts/replay.sh {path}",
        "engine": t['engine'],
        "level_claimed": {"category": t['level'], "text": t['text'], "design_ref": f"DESIGN.md §3 {pid}"},
        "level_note": t['note'],
        "technique": t['technique'],
    })
m = {
    "version": 1,
    "setup_cmd": "scripts/setup.sh",
    "hooks": {
        "guard": "verif",
        "enable": "go build -tags verif (plus derived -overlay files generated under /verif/.cache from /repo's working tree)",
        "baseline_off_cmd": "cd /repo && GOFLAGS=-mod=mod go test -vet=off -count=1 -timeout 25m ./...",
        "source_commits": hooks,
        "add_only": True,
    },
    "engines": [
        {"name": "bfs", "path": "engine/bfs", "kind_free_text": "explicit-state BFS over operation histories on the real implementation, worker processes, state hashing", "serves_properties": sorted([k for k, v in table.items() if v.get('claimed') and v['engine'] in ('bfs', 'chain')])},
        {"name": "chain", "path": "engine/chain", "kind_free_text": "driver of the real keepers: atomic txs, begin/end block in app.go order, cache-context forking", "serves_properties": sorted([k for k, v in table.items() if v.get('claimed') and v['engine'] == 'chain'])},
        {"name": "enum", "path": "engine/enum", "kind_free_text": "bounded-exhaustive input enumeration against reference models", "serves_properties": sorted([k for k, v in table.items() if v.get('claimed') and v['engine'] == 'enum'])},
        {"name": "coop", "path": "engine/coop", "kind_free_text": "cooperative scheduler + preemption-bounded DFS over lock/atomic points (sync shims via overlay)", "serves_properties": sorted([k for k, v in table.items() if v.get('claimed') and v['engine'] == 'coop'])},
        {"name": "events", "path": "engine/events", "kind_free_text": "event-order DFS with virtual clock and quiescence detection", "serves_properties": sorted([k for k, v in table.items() if v.get('claimed') and v['engine'] == 'events'])},
        {"name": "mapiter", "path": "engine/mapiter", "kind_free_text": "map-iteration-order exploration through a patched runtime/map.go overlay", "serves_properties": sorted([k for k, v in table.items() if v.get('claimed') and v['engine'] == 'mapiter'])},
    ],
    "checks": checks,
    "not_applicable": na,
    "notes": "All checks explore the real lavanet/lava code exhaustively within stated bounds; see DESIGN.md. known_findings.jsonl lists genuine defects (known/fixed).",
}
json.dump(m, open('/verif/MANIFEST.json', 'w'), indent=1)
print(f"claimed={len(checks)} not_applicable={len(na)}")
