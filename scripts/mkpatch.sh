#!/bin/bash
# mkpatch.sh <repo-relative-file> <sed-expr> <out.patch> : make a mutation patch without touching /repo
f="$1"; expr="$2"; out="$3"
tmp=$(mktemp -d /verif/.cache/mk.XXXXXX); mkdir -p $tmp/a/$(dirname $f) $tmp/b/$(dirname $f)
cp /repo/$f $tmp/a/$f; cp /repo/$f $tmp/b/$f
sed -i -E "$expr" $tmp/b/$f
(cd $tmp && diff -u a/$f b/$f > "$out")
n=$(grep -c '^[-+][^-+]' "$out")
rm -rf $tmp
echo "patch $out: $n changed lines"; [ "$n" -gt 0 ]
