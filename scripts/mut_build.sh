#!/bin/bash
# mut_build.sh <patch> <cmd-dir> <out-binary>: build a plain-flavour binary with the patch applied through -overlay
patch=$(readlink -f "$1"); cmd="$2"; outbin="$3"
cd /verif; . scripts/env.sh
tmp=/verif/.cache/mutb.$$; mkdir -p $tmp/tree
files=$(grep '^+++ b/' "$patch" | sed 's#^+++ b/##')
for f in $files; do mkdir -p "$tmp/tree/$(dirname $f)"; cp /repo/$f "$tmp/tree/$f"; done
(cd "$tmp/tree" && patch -p1 -s < "$patch") || exit 3
python3 - "$tmp" $files <<'PY'
import json,sys
tmp=sys.argv[1]; files=sys.argv[2:]
json.dump({"Replace":{"/repo/"+f: tmp+"/tree/"+f for f in files}}, open(tmp+"/overlay.json","w"))
PY
go build -tags verif -overlay "$tmp/overlay.json" -o "$outbin" "$cmd"; rc=$?
rm -rf $tmp; exit $rc
