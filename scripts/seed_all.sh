#!/bin/bash
# seed_all.sh: re-run the quick check of every stored independently written change (seeded/<id>/patch.diff) through
# -overlay and print one line per change (regression after the checks were changed).
cd /verif
for d in seeded/C*/; do
  sid=$(basename $d); id=${sid%%-*}
  fl=$(python3 -c "
import json; m=json.load(open('/verif/scripts/flavours.json')); print(m.get('$id','vmc').replace('+',' '))")
  res=MISSED
  for flavour in $fl; do
    case $flavour in vmc) cmd=./cmd/vmc;; vcoop) cmd=./cmd/vcoop;; vmapiter) cmd=./cmd/vmapiter;; vevents) cmd=./cmd/vdev-c41;; vc40) cmd=./cmd/vdev-c40;; esac
    out=$(scripts/mutate_overlay.sh $d/patch.diff $id $cmd quick 2>&1 | tail -2)
    if echo "$out" | grep -q DETECTED; then res="DETECTED($flavour)"; break; fi
    if echo "$out" | grep -q "BUILD FAILED\|does not apply\|overlaygen failed"; then res="ERROR($flavour): $(echo $out | tr '\n' ' ' | cut -c1-80)"; fi
  done
  echo "$sid $res"
done
