#!/bin/bash
# seed_recheck.sh <seed-id> <check-id> [cmd-dir] [tier] [note]: re-run only our check against a stored seeded change
# (after the check was strengthened) and append the outcome to seeded/<id>/meta.json.
sid="$1"; cid="$2"; cmd="${3:-./cmd/vmc}"; tier="${4:-quick}"; note="$5"
dst=/verif/seeded/$sid${SEED_SUFFIX:-}
cd /verif
scripts/mutate_overlay.sh $dst/patch.diff $cid $cmd $tier > $dst/our_check_output.log 2>&1; res=$(tail -3 $dst/our_check_output.log)
det=MISSED; echo "$res" | grep -q DETECTED && det=DETECTED
python3 - "$dst" "$cid" "$det" "$tier" "$note" <<'PY'
import json,sys
dst,cid,det,tier,note=sys.argv[1:]
m=json.load(open(dst+'/meta.json'))
v=m.setdefault('verified_by_us',{})
h=v.setdefault('check_history',[])
if not h and 'our_check_result' in v:
    h.append({'check':v.get('our_check'),'tier':v.get('our_check_tier'),'result':v.get('our_check_result'),'note':'first run, before any change to the check'})
h.append({'check':cid,'tier':tier,'result':det,'note':note})
v['our_check']=cid; v['our_check_tier']=tier; v['our_check_result']=det
json.dump(m,open(dst+'/meta.json','w'),indent=1)
print('seed',dst.split('/')[-1],'check',cid,tier,det)
PY
