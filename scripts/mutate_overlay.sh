#!/bin/bash
# mutate_overlay.sh <patch> <Cxx> [cmd-dir] [tier]
# Builds <cmd-dir> (default ./cmd/vmc) with the patch applied through `go build -overlay` (never touches /repo),
# runs the check for <Cxx> and reports DETECTED (check exited 1 with a VIOLATION line for Cxx) or MISSED.
# Evidence/replays of the mutated run go to a scratch VERIF_ROOT so that /verif/evidence is not polluted.
patch=$(readlink -f "$1"); id="$2"; cmd="${3:-./cmd/vmc}"; tier="${4:-quick}"
cd /verif; . scripts/env.sh
tmp=$(mktemp -d /verif/.cache/mut.XXXXXX)
trap 'rm -rf "$tmp"' EXIT
files=$(grep '^+++ b/' "$patch" | sed 's#^+++ b/##')
mkdir -p "$tmp/tree"
for f in $files; do mkdir -p "$tmp/tree/$(dirname $f)"; [ -f /repo/$f ] && cp /repo/$f "$tmp/tree/$f"; done
(cd "$tmp/tree" && patch -p1 -s < "$patch") || { echo "patch does not apply"; exit 3; }
python3 - "$tmp" $files <<'PY'
import json,sys
tmp=sys.argv[1]; files=sys.argv[2:]
json.dump({"Replace":{"/repo/"+f: tmp+"/tree/"+f for f in files}}, open(tmp+"/overlay.json","w"))
PY
bin="$tmp/mutbin"
if [ "$(basename $cmd)" = "vcoop" ]; then
  # merge the patch with the derived shim overlay (generated from the patched sources)
  VERIF_SRC_OVERRIDE="$tmp/tree" VERIF_OVERLAY_OUT="$tmp/ov" python3 tools/overlaygen.py coop >/dev/null || { echo "overlaygen failed"; exit 3; }
  python3 - "$tmp" <<'PY'
import json,sys
tmp=sys.argv[1]
a=json.load(open(tmp+"/overlay.json"))["Replace"]; b=json.load(open(tmp+"/ov/coop/overlay.json"))["Replace"]
for k,v in a.items():
    if k not in b: b[k]=v
json.dump({"Replace":b}, open(tmp+"/overlay.json","w"))
PY
fi
if [ "$(basename $cmd)" = "vdev-c41" ] || [ "$(basename $cmd)" = "vevents" ]; then
  VERIF_SRC_OVERRIDE="$tmp/tree" VERIF_OVERLAY_OUT="$tmp/ov" python3 tools/overlaygen_events.py >/dev/null || { echo "overlaygen failed"; exit 3; }
  python3 - "$tmp" <<'PY'
import json,sys
tmp=sys.argv[1]
a=json.load(open(tmp+"/overlay.json"))["Replace"]; b=json.load(open(tmp+"/ov/events/overlay.json"))["Replace"]
for k,v in a.items():
    if k not in b: b[k]=v
json.dump({"Replace":b}, open(tmp+"/overlay.json","w"))
PY
fi
if [ "$(basename $cmd)" = "vdev-c40" ] || [ "$(basename $cmd)" = "vc40" ]; then
  VERIF_SRC_OVERRIDE="$tmp/tree" VERIF_OVERLAY_OUT="$tmp/ov" python3 tools/overlaygen_c40.py >/dev/null || { echo "overlaygen failed"; exit 3; }
  python3 - "$tmp" <<'PY'
import json,sys
tmp=sys.argv[1]
a=json.load(open(tmp+"/overlay.json"))["Replace"]; b=json.load(open(tmp+"/ov/c40/overlay.json"))["Replace"]
for k,v in a.items():
    if k not in b: b[k]=v
json.dump({"Replace":b}, open(tmp+"/overlay.json","w"))
PY
fi
if [ "$(basename $cmd)" = "vmapiter" ]; then
  python3 tools/overlaygen_runtime.py >/dev/null || { echo "overlaygen failed"; exit 3; }
  python3 - "$tmp" <<'PY'
import json,sys
tmp=sys.argv[1]
a=json.load(open(tmp+"/overlay.json"))["Replace"]; b=json.load(open("/verif/.cache/overlay/mapiter/overlay.json"))["Replace"]
a.update(b)
json.dump({"Replace":a}, open(tmp+"/overlay.json","w"))
PY
fi
go build -tags verif -overlay "$tmp/overlay.json" -o "$bin" "$cmd" 2>"$tmp/build.log" || { echo "BUILD FAILED"; tail -20 "$tmp/build.log"; exit 3; }
[ -n "$VERIF_KEEP_BIN" ] && cp "$bin" "$VERIF_KEEP_BIN"
mkdir -p "$tmp/root/evidence"; cp /verif/known_findings.jsonl "$tmp/root/" 2>/dev/null
case "$(basename $cmd)" in vmc|vcoop|vevents|vmapiter|vdev-c41|vdev-c40|vc40) args="check $id";; *) args="";; esac
out=$(VERIF_ROOT="$tmp/root" VERIF_TIER="$tier" "$bin" $args 2>&1); rc=$?
echo "$out" | grep -E "VIOLATION|KNOWN-FINDING" | head -5
echo "check exit=$rc"
if [ $rc -eq 1 ] && echo "$out" | grep -q "^VIOLATION property=$id"; then echo "DETECTED $id by $(basename $patch)"; exit 0; fi
echo "MISSED $id by $(basename $patch)"; exit 1
