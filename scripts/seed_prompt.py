#!/usr/bin/env python3
"""prints the prompt for an independent property-breaking sub-agent (only the property text + a scratch worktree)"""
import json, sys
pid = sys.argv[1]
for l in open('/verif/properties.jsonl'):
    p = json.loads(l)
    if p['id'] == pid:
        break
wt = f"/tmp/seed-{pid}"
out = f"/tmp/seed-{pid}-out"
print(f"""You are helping to evaluate verification tooling for the Go repository lavanet/lava (a Cosmos-SDK blockchain plus consumer/provider relay daemons). You get ONE semantic property of the system and your own scratch git worktree of the repository at {wt} (already created; work ONLY there and in {out}; do not read or touch /repo, /verif or any other directory of the machine except the Go module cache).

PROPERTY {pid}: {p['title']}
Statement: {p['statement']}
Quantified over: {p['quantifier']['text']}
Code areas involved: {', '.join(p['anchors']['files'])}

YOUR TASK: write a realistic change to the repository (in the worktree) that BREAKS this property while (a) still compiling and (b) leaving the repository's existing tests passing — i.e. a bug a developer could plausibly introduce and the current test-suite would not notice. The change must need something SPECIFIC to manifest: a particular interleaving, a crash or fault at a particular point, a multi-step sequence of operations, an unusual input, or two cooperating code sites that each look fine alone — NOT something ordinary use would expose at once, and not a wholesale deletion of the feature. Keep it small (a few lines, one or two files, non-test files only; never edit *_test.go files, build-tagged verif_export.go files or go.mod).

Then write a DEMONSTRATION: a Go test file (put it in the worktree next to the code, named zz_seed_demo_test.go, in the package or its _test package) or a small program, that FAILS with your change and PASSES without it, and that shows the property violation concretely (the specific input/schedule/sequence needed).

Environment: offline sandbox, Go 1.23.5. In every shell call first run: export GOFLAGS=-mod=mod GOPROXY=off GOSUMDB=off GOTOOLCHAIN=local . Build/tests: cd {wt} && go build ./... ; go test -vet=off -count=1 ./<package>/... (first compile of a package tree may take several minutes on this busy machine; use generous timeouts, e.g. 20-30 min for x/pairing/keeper). You MUST run the existing tests of every package you changed (and of the packages that most directly test that code) with your change applied and confirm they pass; and run your demonstration with and without the change (git stash or git diff/apply -R to toggle) and confirm fail/pass.

Deliver in {out}/ (create it): (1) patch.diff = `git -C {wt} diff -- . ':!*zz_seed_demo_test.go'` of your change only (without the demo test); (2) the demonstration file(s) and a file demo_cmd.txt with the exact command (run from the worktree root) that runs it; (3) meta.json with fields: property ("{pid}"), summary (what the change does), needs (what specific input / schedule / sequence is needed for it to manifest), files_changed, existing_tests_run (list of commands you ran and their result), demo_result_with_change, demo_result_without_change. Leave the worktree with your change and the demo applied. Your final message: a short summary of the change, what it needs to manifest, and the test commands you ran with results.""")
