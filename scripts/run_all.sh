#!/bin/bash
# run_all.sh [tier]: run every claimed check once, print a summary line per check
cd /verif
tier="${1:-quick}"
for id in $(python3 -c "import json; print(' '.join(c['property_id'] for c in json.load(open('MANIFEST.json'))['checks']))"); do
  s=$(date +%s)
  out=$(scripts/check.sh $id $tier 2>&1); rc=$?
  e=$(( $(date +%s) - s ))
  nv=$(echo "$out" | grep -c "^VIOLATION"); nk=$(echo "$out" | grep -c "^KNOWN-FINDING")
  exh=$(python3 -c "import json; print(json.load(open('evidence/$id.json'))['coverage'].get('exhaustive'))" 2>/dev/null)
  echo "$id rc=$rc violations=$nv known=$nk exhaustive=$exh wall=${e}s"
done
