#!/bin/bash
# seed_verify.sh <seed-id> <check-id> [cmd-dir] [tier]: confirm an independently written property-breaking change
# in its scratch worktree (/tmp/seed-<id>), run our check against it, store everything under /verif/seeded/<id>/.
sid="$1"; cid="$2"; cmd="${3:-./cmd/vmc}"; tier="${4:-quick}"
pre="${SEED_PREFIX:-seed}"; wt=/tmp/$pre-$sid; out=/tmp/$pre-$sid-out; dst=/verif/seeded/$sid${SEED_SUFFIX:-}
export GOFLAGS=-mod=mod GOPROXY=off GOSUMDB=off GOTOOLCHAIN=local
[ -f $out/patch.diff ] || { echo "no patch"; exit 2; }
mkdir -p $dst; cp $out/patch.diff $out/meta.json $out/demo_cmd.txt $dst/ 2>/dev/null; cp $out/*_test.go $dst/ 2>/dev/null
cd $wt || exit 2
democmd=$(grep -v '^#\|^$' $out/demo_cmd.txt | tail -1)
echo "demo: $democmd"
git apply -R --check $out/patch.diff 2>/dev/null || { echo "patch not applied in worktree; applying"; git apply $out/patch.diff; }
( eval "$democmd" ) > $dst/demo_with_change.log 2>&1; rc_with=$?
git apply -R $out/patch.diff
( eval "$democmd" ) > $dst/demo_without_change.log 2>&1; rc_without=$?
git apply $out/patch.diff
pkgs=$(grep '^+++ b/' $out/patch.diff | sed 's#^+++ b/##' | xargs -n1 dirname | sort -u | sed 's#^#./#' | tr '\n' ' ')
echo "existing tests of: $pkgs"
go test -vet=off -count=1 -skip 'SeedDemo|TestSeed' $pkgs > $dst/existing_tests.log 2>&1; rc_tests=$?
cd /verif
scripts/mutate_overlay.sh $dst/patch.diff $cid $cmd $tier > $dst/our_check_output.log 2>&1; res=$(tail -3 $dst/our_check_output.log)
det=MISSED; echo "$res" | grep -q DETECTED && det=DETECTED
python3 - "$dst" "$cid" "$rc_with" "$rc_without" "$rc_tests" "$det" "$tier" <<'PY'
import json,sys
dst,cid,rw,rwo,rt,det,tier=sys.argv[1:]
m=json.load(open(dst+'/meta.json'))
m['verified_by_us']={'demo_exit_with_change':int(rw),'demo_exit_without_change':int(rwo),'existing_package_tests_exit_with_change':int(rt),
  'our_check':cid,'our_check_tier':tier,'our_check_result':det,
  'what_we_ran':'scripts/seed_verify.sh: demo with/without the patch in the scratch worktree, go test of the changed packages with the patch, scripts/mutate_overlay.sh <patch> '+cid}
json.dump(m,open(dst+'/meta.json','w'),indent=1)
print('demo with change exit',rw,'| without',rwo,'| existing tests exit',rt,'| check',cid,det)
PY
