#!/bin/bash
# mutate_all.sh [pattern]: run every mutations/*.patch (optionally only those matching the pattern) against the quick
# tier of its property's check(s) and print one line per patch. A property decided by two binaries is tried with each.
cd /verif
pat="${1:-}"
for f in mutations/*${pat}*.patch; do
  id=$(basename $f | cut -d- -f1)
  fl=$(python3 -c "
import json; m=json.load(open('/verif/scripts/flavours.json')); print(m.get('$id','vmc').replace('+',' '))")
  res=MISSED
  for flavour in $fl; do
    case $flavour in vmc) cmd=./cmd/vmc;; vcoop) cmd=./cmd/vcoop;; vmapiter) cmd=./cmd/vmapiter;; vevents) cmd=./cmd/vdev-c41;; vc40) cmd=./cmd/vdev-c40;; esac
    out=$(scripts/mutate_overlay.sh $f $id $cmd quick 2>&1 | tail -2)
    if echo "$out" | grep -q DETECTED; then res="DETECTED($flavour)"; break; fi
    if echo "$out" | grep -q "BUILD FAILED\|does not apply\|overlaygen failed"; then res="ERROR($flavour): $(echo $out | tr '\n' ' ' | cut -c1-80)"; fi
  done
  echo "$(basename $f) $res"
done
