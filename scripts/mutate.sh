#!/bin/bash
# mutate.sh <patch> <Cxx> [tier]: apply a property-breaking patch to /repo, run the check, always revert.
# exit 0 iff the check reported a violation (exit 1 of the check).
patch="$1"; id="$2"; tier="${3:-quick}"
cd /repo || exit 3
if ! git diff --quiet; then echo "repo has uncommitted changes; refusing"; exit 3; fi
git apply "$patch" || { echo "patch does not apply"; exit 3; }
trap 'git -C /repo checkout -- . ; git -C /repo clean -fdq -- x protocol utils ecosystem testutil app 2>/dev/null' EXIT
out=$(/verif/scripts/check.sh "$id" "$tier" 2>&1); rc=$?
echo "$out" | grep -E "VIOLATION|KNOWN-FINDING|BUILD FAILED" | head -5
echo "check exit=$rc"
if [ $rc -eq 1 ] && echo "$out" | grep -q "^VIOLATION property=$id"; then echo "DETECTED $id by $(basename $patch)"; exit 0; fi
echo "MISSED $id by $(basename $patch)"; exit 1
