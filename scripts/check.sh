#!/bin/bash
# check.sh <Cxx> quick|thorough : rebuild from /repo's working tree, explore, write evidence.
# A property may be decided by several binaries (flavours.json value "a+b"): they run one after the other, the later
# ones merge their coverage into the evidence file of the first; the exit code is the worst one.
cd /verif
. scripts/env.sh
id="$1"; tier="${2:-quick}"
export VERIF_TIER="$tier"
flavours=$(python3 -c "
import json,sys
m=json.load(open('/verif/scripts/flavours.json'))
print(m.get('$id','vmc').replace('+',' '))")
worst=0; first=1
for flavour in $flavours; do
  lock=/verif/.cache/build-$flavour.lock
  (
    flock 9
    scripts/build.sh "$flavour" >/verif/.cache/build-$flavour.log 2>&1
  ) 9>"$lock"
  rc=$?
  if [ $rc -ne 0 ]; then
    echo "BUILD FAILED for $flavour (see /verif/.cache/build-$flavour.log)"; tail -30 /verif/.cache/build-$flavour.log
    exit 2
  fi
  if [ $first -eq 1 ]; then
    bin/$flavour check "$id"; rc=$?
  else
    VERIF_EVIDENCE_MERGE="$flavour" bin/$flavour check "$id"; rc=$?
  fi
  first=0
  [ $rc -gt $worst ] && worst=$rc
done
exit $worst
