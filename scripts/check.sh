#!/bin/bash
# check.sh <Cxx> quick|thorough : rebuild from /repo's working tree, explore, write evidence.
cd /verif
. scripts/env.sh
id="$1"; tier="${2:-quick}"
export VERIF_TIER="$tier"
flavour=$(python3 -c "
import json,sys
m=json.load(open('/verif/scripts/flavours.json'))
print(m.get('$id','vmc'))")
lock=/verif/.cache/build-$flavour.lock
(
  flock 9
  scripts/build.sh "$flavour" >/verif/.cache/build-$flavour.log 2>&1
) 9>"$lock"
rc=$?
if [ $rc -ne 0 ]; then
  echo "BUILD FAILED for $flavour (see /verif/.cache/build-$flavour.log)"; tail -30 /verif/.cache/build-$flavour.log
  exit 2
fi
exec bin/$flavour check "$id"
