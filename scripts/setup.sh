#!/bin/bash
# setup.sh: offline build of every dispatcher flavour from files on disk.
set -e
cd /verif
. scripts/env.sh
for f in vmc vcoop vmapiter vevents vc40; do
  scripts/build.sh $f
done
echo setup done
