package main

import (
	"os"
	"runtime/pprof"

	"verifmc/engine/bfs"
	"verifmc/engine/ev"
	"verifmc/engine/reg"
	_ "verifmc/props/c36"
)

func main() {
	if len(os.Args) > 2 && os.Args[1] == "worker" {
		out := os.Stdout
		os.Stdout = os.Stderr
		bfs.WorkerMain(os.Args[2], os.Stdin, out)
		return
	}
	if p := os.Getenv("C36_CPUPROFILE"); p != "" {
		f, _ := os.Create(p)
		pprof.StartCPUProfile(f)
		defer pprof.StopCPUProfile()
	}
	c, _ := reg.Get("C36")
	run := ev.NewRun(c.Property, c.Level)
	c.Run(run)
	code := run.Finish()
	pprof.StopCPUProfile()
	os.Exit(code)
}
