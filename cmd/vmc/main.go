// vmc: dispatcher for the plain-build checks (chain BFS, stand-alone explicit-state, enumerations).
package main

import (
	"encoding/json"
	"fmt"
	"os"

	"verifmc/engine/bfs"
	"verifmc/engine/ev"
	"verifmc/engine/reg"
	_ "verifmc/props/all"
	"verifmc/props/c02"
)

func main() {
	if len(os.Args) < 2 {
		fmt.Println("usage: vmc check <Cxx> | worker <scenario> | list")
		os.Exit(2)
	}
	switch os.Args[1] {
	case "worker":
		// protocol on the original stdout; anything the code under test prints goes to stderr
		out := os.Stdout
		os.Stdout = os.Stderr
		bfs.WorkerMain(os.Args[2], os.Stdin, out)
	case "c02shard":
		out := os.Stdout
		os.Stdout = os.Stderr
		_ = out
		os.Stdout = out
		c02.ShardMain(os.Args[2:])
	case "list":
		for _, id := range reg.IDs() {
			fmt.Println(id)
		}
		for _, n := range bfs.Names() {
			fmt.Println("scenario", n)
		}
	case "replay":
		os.Exit(replay(os.Args[2]))
	case "check":
		c, ok := reg.Get(os.Args[2])
		if !ok {
			fmt.Println("unknown check", os.Args[2])
			os.Exit(2)
		}
		run := ev.NewRun(c.Property, c.Level)
		run.Guard(func() { c.Run(run) })
		os.Exit(run.Finish())
	}
}

// replay re-executes a recorded violation artefact without the explorer (BFS artefacts: scenario + op names).
func replay(path string) int {
	b, err := os.ReadFile(path)
	if err != nil {
		fmt.Println(err)
		return 2
	}
	var a struct {
		Property string `json:"property"`
		Key      string `json:"key"`
		Replay   struct {
			Scenario string   `json:"scenario"`
			Ops      []string `json:"ops"`
		} `json:"replay"`
	}
	if err := json.Unmarshal(b, &a); err != nil {
		fmt.Println(err)
		return 2
	}
	if a.Replay.Scenario == "" {
		fmt.Printf("artefact of %s (%s) records an enumerated case, not an operation history; re-run the check to re-evaluate it:\n%s\n", a.Property, a.Key, string(b))
		return 0
	}
	sc := bfs.Make(a.Replay.Scenario)
	if sc == nil {
		fmt.Println("unknown scenario", a.Replay.Scenario)
		return 2
	}
	names := sc.Ops()
	sc.Reset()
	rc := 0
	for _, op := range a.Replay.Ops {
		idx := -1
		for i, n := range names {
			if n == op {
				idx = i
			}
		}
		if idx < 0 {
			fmt.Println("unknown op", op)
			return 2
		}
		st := sc.Apply(idx)
		fmt.Printf("%-40s accepted=%v obs=%s\n", op, st.Accepted, st.Obs)
		for _, v := range st.Viol {
			fmt.Printf("VIOLATION property=%s key=%s %s\n", v.Property, v.Key, v.What)
			rc = 1
		}
	}
	return rc
}
