// vmc: dispatcher for the plain-build checks (chain BFS, stand-alone explicit-state, enumerations).
package main

import (
	"fmt"
	"os"

	"verifmc/engine/bfs"
	"verifmc/engine/ev"
	"verifmc/engine/reg"
	_ "verifmc/props/all"
	"verifmc/props/c02"
)

func main() {
	if len(os.Args) < 2 {
		fmt.Println("usage: vmc check <Cxx> | worker <scenario> | list")
		os.Exit(2)
	}
	switch os.Args[1] {
	case "worker":
		// protocol on the original stdout; anything the code under test prints goes to stderr
		out := os.Stdout
		os.Stdout = os.Stderr
		bfs.WorkerMain(os.Args[2], os.Stdin, out)
	case "c02shard":
		out := os.Stdout
		os.Stdout = os.Stderr
		_ = out
		os.Stdout = out
		c02.ShardMain(os.Args[2:])
	case "list":
		for _, id := range reg.IDs() {
			fmt.Println(id)
		}
		for _, n := range bfs.Names() {
			fmt.Println("scenario", n)
		}
	case "check":
		c, ok := reg.Get(os.Args[2])
		if !ok {
			fmt.Println("unknown check", os.Args[2])
			os.Exit(2)
		}
		run := ev.NewRun(c.Property, c.Level)
		c.Run(run)
		os.Exit(run.Finish())
	}
}
