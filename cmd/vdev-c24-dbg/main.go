package main

import (
	"fmt"
	"os"
	"runtime/pprof"
	"strconv"
	"syscall"
	"time"

	"verifmc/engine/bfs"
	_ "verifmc/props/c24"
)

func cpu() time.Duration {
	var ru syscall.Rusage
	syscall.Getrusage(syscall.RUSAGE_SELF, &ru)
	return time.Duration(ru.Utime.Nano() + ru.Stime.Nano())
}

// vdev-c24-dbg <scenario> op op op ... : apply ops by index or name and print results
// vdev-c24-dbg prof <scenario>        : depth-2 expansion in one process with CPU profile
func main() {
	if os.Args[1] == "prof" {
		sc := bfs.Make(os.Args[2])
		f, _ := os.Create("/tmp/c24-vprof.out")
		pprof.StartCPUProfile(f)
		defer pprof.StopCPUProfile()
		ops := sc.Ops()
		start, c0 := time.Now(), cpu()
		n := 0
		per := map[int]time.Duration{}
		for a := range ops {
			sc.Reset()
			st := sc.Apply(a)
			if !st.Accepted {
				continue
			}
			for b := range ops {
				r := sc.Fork()
				t0 := cpu()
				sc.Apply(b)
				sc.Hash()
				per[b] += cpu() - t0
				n++
				r()
			}
		}
		fmt.Println(n, "transitions wall", time.Since(start), "cpu", cpu()-c0, float64(n)/(cpu()-c0).Seconds(), "per cpu-s")
		for b := range ops {
			fmt.Println(ops[b], per[b])
		}
		return
	}
	sc := bfs.Make(os.Args[1])
	ops := sc.Ops()
	if len(os.Args) == 2 {
		for i, o := range ops {
			fmt.Println(i, o)
		}
		return
	}
	sc.Reset()
	for _, a := range os.Args[2:] {
		i, err := strconv.Atoi(a)
		if err != nil {
			i = -1
			for j, o := range ops {
				if o == a {
					i = j
				}
			}
		}
		st := sc.Apply(i)
		fmt.Printf("%s -> accepted=%v obs=%s viol=%v\n", ops[i], st.Accepted, st.Obs, st.Viol)
	}
}
