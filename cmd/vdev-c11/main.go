package main

import (
	"os"

	"verifmc/engine/bfs"
	"verifmc/engine/ev"
	"verifmc/engine/reg"
	_ "verifmc/props/c11"
)

func main() {
	if len(os.Args) > 2 && os.Args[1] == "worker" {
		out := os.Stdout
		os.Stdout = os.Stderr
		bfs.WorkerMain(os.Args[2], os.Stdin, out)
		return
	}
	c, _ := reg.Get("C11")
	run := ev.NewRun(c.Property, c.Level)
	c.Run(run)
	os.Exit(run.Finish())
}
