// vdev-c29: development main for the C29 check (provider reward proofs: best proof kept, claimed in window, restored).
package main

import (
	"fmt"
	"os"
	"runtime/pprof"
	"strings"
	"syscall"
	"time"

	"verifmc/engine/bfs"
	"verifmc/engine/ev"
	"verifmc/engine/reg"
	_ "verifmc/props/c29"
)

func scenName() string {
	if n := os.Getenv("C29_SCEN"); n != "" {
		return n
	}
	return "c29/rewards"
}

func main() {
	if len(os.Args) > 2 && os.Args[1] == "worker" {
		out := os.Stdout
		os.Stdout = os.Stderr
		bfs.WorkerMain(os.Args[2], os.Stdin, out)
		return
	}
	if len(os.Args) > 1 && os.Args[1] == "time" {
		sc := bfs.Make(scenName())
		for i, n := range sc.Ops() {
			t0 := time.Now()
			sc.Reset()
			t1 := time.Now()
			sc.Fork()
			st := sc.Apply(i)
			fmt.Printf("%-70s reset=%v apply=%v acc=%v obs=%s\n", n, t1.Sub(t0), time.Since(t1), st.Accepted, st.Obs)
		}
		return
	}
	if len(os.Args) > 2 && os.Args[1] == "path" {
		sc := bfs.Make(scenName())
		idx := map[string]int{}
		for i, n := range sc.Ops() {
			idx[n] = i
		}
		sc.Reset()
		for _, n := range strings.Split(os.Args[2], ";") {
			n = strings.TrimSpace(n)
			i, ok := idx[n]
			if !ok {
				fmt.Println("unknown op", n)
				return
			}
			sc.Fork()
			st := sc.Apply(i)
			fmt.Printf("%-60s acc=%v obs=%s hash=%x\n", n, st.Accepted, st.Obs, sc.Hash()[:4])
			for _, v := range st.Viol {
				fmt.Printf("   VIOLATION %s: %s\n", v.Key, v.What)
			}
		}
		return
	}
	if len(os.Args) > 1 && os.Args[1] == "cpu" {
		sc := bfs.Make(scenName())
		n := len(sc.Ops())
		var ru0, ru1 syscall.Rusage
		syscall.Getrusage(syscall.RUSAGE_SELF, &ru0)
		trans := 0
		var rec func(path []int, d int)
		rec = func(path []int, d int) {
			for op := 0; op < n; op++ {
				sc.Reset()
				for _, o := range path {
					sc.Apply(o)
				}
				sc.Fork()
				st := sc.Apply(op)
				trans++
				if st.Accepted {
					sc.Hash()
				}
				if st.Accepted && d > 1 && (op%3 == 0 || os.Getenv("C29_ALL") != "") {
					rec(append(append([]int{}, path...), op), d-1)
				}
			}
		}
		pf, _ := os.Create("/verif/.cache/c29.prof")
		pprof.StartCPUProfile(pf)
		dd := 4
		if os.Getenv("C29_ALL") != "" {
			dd = 4
		}
		t0 := time.Now()
		rec(nil, dd)
		fmt.Println("wall", time.Since(t0))
		pprof.StopCPUProfile()
		pf.Close()
		syscall.Getrusage(syscall.RUSAGE_SELF, &ru1)
		cpu := time.Duration(ru1.Utime.Nano()-ru0.Utime.Nano()) + time.Duration(ru1.Stime.Nano()-ru0.Stime.Nano())
		fmt.Printf("transitions=%d cpu=%v per=%v\n", trans, cpu, cpu/time.Duration(trans))
		return
	}
	c, _ := reg.Get("C29")
	run := ev.NewRun(c.Property, c.Level)
	c.Run(run)
	os.Exit(run.Finish())
}
