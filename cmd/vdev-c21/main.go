package main

import (
	"fmt"
	"os"
	"runtime/pprof"
	"strconv"
	"syscall"

	"verifmc/engine/bfs"
	"verifmc/engine/ev"
	"verifmc/engine/reg"
	_ "verifmc/props/c21"
)

func main() {
	if len(os.Args) > 2 && os.Args[1] == "worker" {
		out := os.Stdout
		os.Stdout = os.Stderr
		bfs.WorkerMain(os.Args[2], os.Stdin, out)
		return
	}
	if len(os.Args) > 2 && os.Args[1] == "dbg" {
		// dbg <scenario> op op ... : apply ops by index or name and print the outcome of each
		sc := bfs.Make(os.Args[2])
		ops := sc.Ops()
		if len(os.Args) == 3 {
			for i, o := range ops {
				fmt.Println(i, o)
			}
			return
		}
		sc.Reset()
		for _, a := range os.Args[3:] {
			i, err := strconv.Atoi(a)
			if err != nil {
				i = -1
				for j, o := range ops {
					if o == a {
						i = j
					}
				}
			}
			st := sc.Apply(i)
			fmt.Printf("%s -> accepted=%v obs=%s viol=%v\n", ops[i], st.Accepted, st.Obs, st.Viol)
		}
		return
	}
	if len(os.Args) > 3 && os.Args[1] == "prof" {
		// prof <scenario> <depth>: in-process exhaustive expansion, reports transitions per CPU second
		sc := bfs.Make(os.Args[2])
		depth, _ := strconv.Atoi(os.Args[3])
		n := 0
		var rec func(d int)
		rec = func(d int) {
			for op := range sc.Ops() {
				r := sc.Fork()
				st := sc.Apply(op)
				n++
				if st.Accepted && len(st.Viol) == 0 {
					sc.Hash()
					if d+1 < depth {
						rec(d + 1)
					}
				}
				r()
			}
		}
		sc.Reset()
		if pf := os.Getenv("VERIF_PPROF"); pf != "" {
			f, _ := os.Create(pf)
			pprof.StartCPUProfile(f)
			defer pprof.StopCPUProfile()
		}
		var r0, r1 syscall.Rusage
		syscall.Getrusage(syscall.RUSAGE_SELF, &r0)
		rec(0)
		syscall.Getrusage(syscall.RUSAGE_SELF, &r1)
		cpu := float64(r1.Utime.Nano()+r1.Stime.Nano()-r0.Utime.Nano()-r0.Stime.Nano()) / 1e9
		fmt.Printf("%d transitions, %.2f cpu-s, %.0f transitions per cpu-s\n", n, cpu, float64(n)/cpu)
		return
	}
	c, _ := reg.Get("C21")
	run := ev.NewRun(c.Property, c.Level)
	c.Run(run)
	os.Exit(run.Finish())
}
