// vcoop: dispatcher for the cooperative-scheduler checks (built with the sync/atomic/time shim overlay).
package main

import (
	"encoding/json"
	"fmt"
	"os"
	"time"

	"github.com/lavanet/lava/v5/utils"
	"github.com/lavanet/lava/v5/utils/verifshim/coop"

	"verifmc/engine/coopdrv"
	"verifmc/engine/ev"
	"verifmc/props/c27"
	"verifmc/props/c28"
	"verifmc/props/c29coop"
)

var outcomeFns = map[string]func(s *coop.Sched) string{"C27": c27.Outcome, "C28": c28.Outcome, "C29": c29coop.Outcome}

// package whose synchronisation operations are the scheduling points (default protocol/lavasession)
var scheduledPkg = map[string]string{"C29": "protocol/rpcprovider/rewardserver"}

// per-property limits: executions per (harness, bound, shard) and the thorough bounds (default 400000 / 20000000, 0..4)
type limits struct {
	quickCap, thoroughCap int64
	thoroughBounds        []int
}

var perProperty = map[string]limits{"C28": {8000, 60000, []int{0, 1, 2, 3}}}

// additional sequential-history enumerations that run in worker processes next to the schedule exploration
var sequentialFns = map[string]func(run *ev.Run) (wait func()){"C28": c28.StartSequential}

func main() {
	utils.SetGlobalLoggingLevel("fatal")
	if len(os.Args) < 3 {
		fmt.Println("usage: vcoop check <Cxx> | shard ... | replay <file>")
		os.Exit(2)
	}
	switch os.Args[1] {
	case "shard":
		coopdrv.ShardMain(os.Args[2:], outcomeFns[os.Args[2]])
	case "seq":
		if os.Args[2] == "C28" {
			c28.SeqMain(os.Args[2:])
		}
	case "check":
		id := os.Args[2]
		run := ev.NewRun(id, "model_checking")
		bounds := []int{0, 1, 2}
		deadline := 80 * time.Second
		capPerShard := int64(400000)
		if ev.Tier() == "thorough" {
			bounds = []int{0, 1, 2, 3, 4}
			deadline = 20 * time.Minute
			capPerShard = 20000000
		}
		var waitSeq func()
		if f := sequentialFns[id]; f != nil {
			waitSeq = f(run)
		}
		if c, ok := perProperty[id]; ok {
			capPerShard = c.quickCap
			if ev.Tier() == "thorough" {
				capPerShard, bounds = c.thoroughCap, c.thoroughBounds
			}
		}
		coopdrv.Run(run, id, bounds, 16, capPerShard, deadline)
		if waitSeq != nil {
			waitSeq()
		}
		pkg, extra := "protocol/lavasession", "; TRY_LOCK_ATTEMPTS reduced 30 -> 2 (uniform retry loop)"
		if p, ok := scheduledPkg[id]; ok {
			pkg, extra = p, ""
		}
		run.Set("bound", fmt.Sprintf("all schedules with preemption bounds %v at lock/atomic/sleep points of %s; harnesses %v", bounds, pkg, coopdrv.Names(id)))
		run.Assume("sequentially consistent interleavings at synchronisation operations of the rewritten package (sync, sync/atomic, time.Sleep); code between two points runs atomically" + extra + "; RWMutex without writer preference (superset of Go's behaviours)")
		os.Exit(run.Finish())
	case "replay":
		b, err := os.ReadFile(os.Args[2])
		if err != nil {
			fmt.Println(err)
			os.Exit(2)
		}
		var v struct {
			Property string       `json:"property"`
			Replay   coopdrv.Viol `json:"replay"`
		}
		json.Unmarshal(b, &v)
		os.Exit(coopdrv.Replay(v.Property, v.Replay))
	}
}
