// vdev-c40: development main of C40. Needs the derived overlay:
//   python3 tools/overlaygen_c40.py && go build -tags verif -overlay .cache/overlay/c40/overlay.json -o bin/vdev-c40 ./cmd/vdev-c40
package main

import (
	"os"
	"runtime/pprof"

	"verifmc/engine/bfs"
	"verifmc/engine/ev"
	"verifmc/engine/reg"
	_ "verifmc/props/c40"
)

func main() {
	if len(os.Args) > 2 && os.Args[1] == "worker" {
		out := os.Stdout
		os.Stdout = os.Stderr
		bfs.WorkerMain(os.Args[2], os.Stdin, out)
		return
	}
	c, _ := reg.Get("C40")
	run := ev.NewRun(c.Property, c.Level)
	if pf := os.Getenv("C40_CPUPROFILE"); pf != "" {
		f, _ := os.Create(pf)
		pprof.StartCPUProfile(f)
	}
	run.Guard(func() { c.Run(run) })
	rc := run.Finish()
	pprof.StopCPUProfile()
	os.Exit(rc)
}
