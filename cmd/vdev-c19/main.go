package main

import (
	"fmt"
	"os"
	"runtime/pprof"
	"time"

	"verifmc/engine/bfs"
	"verifmc/engine/ev"
	"verifmc/engine/reg"
	_ "verifmc/props/c19"
)

func main() {
	if len(os.Args) > 2 && os.Args[1] == "worker" {
		out := os.Stdout
		os.Stdout = os.Stderr
		bfs.WorkerMain(os.Args[2], os.Stdin, out)
		return
	}
	if len(os.Args) > 2 && os.Args[1] == "prof" {
		t0 := time.Now()
		sc := bfs.Make(os.Args[2])
		fmt.Println("fixture", time.Since(t0))
		f, _ := os.Create("/tmp/c19prof.out")
		pprof.StartCPUProfile(f)
		ops := sc.Ops()
		start := time.Now()
		n := 0
		per := map[string]time.Duration{}
		for a := range ops {
			sc.Reset()
			if st := sc.Apply(a); !st.Accepted || len(st.Viol) > 0 {
				continue
			}
			for b := range ops {
				r := sc.Fork()
				t := time.Now()
				sc.Apply(b)
				per[ops[b]] += time.Since(t)
				t = time.Now()
				sc.Hash()
				per["hash"] += time.Since(t)
				n++
				r()
			}
		}
		pprof.StopCPUProfile()
		fmt.Println(n, "transitions", time.Since(start), float64(n)/time.Since(start).Seconds(), "per s")
		for k, v := range per {
			fmt.Println(k, v)
		}
		return
	}
	c, _ := reg.Get("C19")
	run := ev.NewRun(c.Property, c.Level)
	c.Run(run)
	os.Exit(run.Finish())
}
