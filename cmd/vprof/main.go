package main

import (
	"fmt"
	"os"
	"runtime/pprof"
	"time"

	"verifmc/engine/bfs"
	_ "verifmc/props/all"
)

func main() {
	name := os.Args[1]
	sc := bfs.Make(name)
	f, _ := os.Create("/tmp/vprof.out")
	pprof.StartCPUProfile(f)
	defer pprof.StopCPUProfile()
	ops := sc.Ops()
	start := time.Now()
	n := 0
	// depth-2 exhaustive expansion, single process
	sc.Reset()
	for a := range ops {
		sc.Reset()
		st := sc.Apply(a)
		if !st.Accepted {
			continue
		}
		for b := range ops {
			r := sc.Fork()
			sc.Apply(b)
			sc.Hash()
			n++
			if r != nil {
				r()
			}
		}
	}
	fmt.Println(n, "transitions", time.Since(start), float64(n)/time.Since(start).Seconds(), "per s")
}
