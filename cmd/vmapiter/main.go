// vmapiter: map-iteration-order exploration (built with the patched runtime/map.go overlay).
//
//	vmapiter check C01
//	vmapiter worker            (reads job lines {history, config} on stdin, prints one JSON result per line)
package main

import (
	"bufio"
	"crypto/sha256"
	"encoding/hex"
	"encoding/json"
	"fmt"
	"go/ast"
	"go/parser"
	"go/token"
	"io/fs"
	"os"
	"os/exec"
	"path/filepath"
	"sort"
	"strings"
	"sync"
	"time"

	"verifmc/engine/ev"
	"verifmc/engine/mapiter"
	"verifmc/props/c01"
	"verifmc/props/c22"
)

type jobCfg struct {
	Offset        uint64 `json:"offset"`
	LastBucket    bool   `json:"last_bucket"`
	Hash0         uint32 `json:"hash0"`
	SitePC        uint64 `json:"site_pc"`
	SiteOffset    uint64 `json:"site_offset"`
	Ordinal       int64  `json:"ordinal"`
	OrdinalOffset uint64 `json:"ordinal_offset"`
}

type job struct {
	ID      int    `json:"id"`
	History string `json:"history"`
	Label   string `json:"label"`
	Cfg     jobCfg `json:"cfg"`
	WantLog bool   `json:"want_log"`
}

type siteInfo struct {
	PC    uint64 `json:"pc"`
	Fn    string `json:"fn"`
	File  string `json:"file"`
	Line  int    `json:"line"`
	Hits  int    `json:"hits"`
	MaxN  int    `json:"max_len"`
	First int64  `json:"first_ordinal"`
}

type result struct {
	ID       int        `json:"id"`
	Digest   string     `json:"digest"`   // hash of the whole observation sequence
	Items    []string   `json:"items"`    // only when WantLog
	ItemHash []string   `json:"itemhash"` // short hash per observation (to locate the first difference)
	Total    int64      `json:"total"`    // number of multi-entry map iterations
	Sites    []siteInfo `json:"sites"`
	Err      string     `json:"err"`
}

func runJob(j job) (res result) {
	res.ID = j.ID
	defer func() {
		if r := recover(); r != nil {
			mapiter.Stop()
			res.Err = fmt.Sprint("panic: ", r)
		}
	}()
	h, ok := c01.Histories[j.History]
	if !ok {
		res.Err = "unknown history"
		return
	}
	mapiter.Start(mapiter.Config{Offset: uintptr(j.Cfg.Offset), LastBucket: j.Cfg.LastBucket, Hash0: j.Cfg.Hash0, SitePC: uintptr(j.Cfg.SitePC), SiteOffset: uintptr(j.Cfg.SiteOffset), Ordinal: j.Cfg.Ordinal, OrdinalOffset: uintptr(j.Cfg.OrdinalOffset)})
	obs := h()
	pcs, counts, total := mapiter.Stop()
	res.Total = total
	d := sha256.New()
	for _, it := range obs.Items {
		d.Write([]byte(it))
		d.Write([]byte{0})
		s := sha256.Sum256([]byte(it))
		res.ItemHash = append(res.ItemHash, hex.EncodeToString(s[:4]))
	}
	res.Digest = hex.EncodeToString(d.Sum(nil)[:12])
	if j.WantLog {
		res.Items = obs.Items
		bySite := map[uintptr]*siteInfo{}
		for i, pc := range pcs {
			si := bySite[pc]
			if si == nil {
				fn, file, line := mapiter.Site(pc)
				si = &siteInfo{PC: uint64(pc), Fn: fn, File: file, Line: line, First: int64(i)}
				bySite[pc] = si
			}
			si.Hits++
			if counts[i] > si.MaxN {
				si.MaxN = counts[i]
			}
		}
		for _, si := range bySite {
			res.Sites = append(res.Sites, *si)
		}
		sort.Slice(res.Sites, func(a, b int) bool { return res.Sites[a].First < res.Sites[b].First })
	}
	return
}

func workerMain() {
	out := os.Stdout
	devnull, _ := os.OpenFile(os.DevNull, os.O_WRONLY, 0)
	os.Stdout = devnull
	rd := bufio.NewReaderSize(os.Stdin, 1<<20)
	enc := json.NewEncoder(out)
	for {
		line, err := rd.ReadBytes('\n')
		if len(line) == 0 && err != nil {
			return
		}
		var j job
		if json.Unmarshal(line, &j) != nil {
			continue
		}
		enc.Encode(runJob(j))
	}
}

type workerProc struct {
	cmd *exec.Cmd
	in  *bufio.Writer
	out *bufio.Reader
}

func spawnWorker() *workerProc {
	exe, _ := os.Executable()
	cmd := exec.Command(exe, "worker")
	cmd.Stderr = os.Stderr
	in, _ := cmd.StdinPipe()
	outp, _ := cmd.StdoutPipe()
	if err := cmd.Start(); err != nil {
		panic(err)
	}
	return &workerProc{cmd: cmd, in: bufio.NewWriter(in), out: bufio.NewReaderSize(outp, 1<<24)}
}

func (w *workerProc) call(j job) (result, error) {
	b, _ := json.Marshal(j)
	w.in.Write(append(b, '\n'))
	w.in.Flush()
	for {
		line, err := w.out.ReadBytes('\n')
		if err != nil {
			return result{}, err
		}
		var r result
		if json.Unmarshal(line, &r) == nil && r.ID == j.ID {
			return r, nil
		}
	}
}

// goStatementsInX scans non-generated, non-test files of /repo/x for go statements (structural guard of the
// "goroutine scheduling" clause: the state machine spawns no goroutines, so schedules reduce to map orders).
func goStatementsInX() []string {
	var found []string
	filepath.WalkDir("/repo/x", func(p string, d fs.DirEntry, err error) error {
		if err != nil || d.IsDir() || !strings.HasSuffix(p, ".go") || strings.HasSuffix(p, "_test.go") || strings.HasSuffix(p, ".pb.go") || strings.HasSuffix(p, ".pb.gw.go") {
			return nil
		}
		if strings.Contains(p, "/client/") || strings.Contains(p, "/simulation/") {
			return nil
		}
		fset := token.NewFileSet()
		f, err := parser.ParseFile(fset, p, nil, 0)
		if err != nil {
			return nil
		}
		ast.Inspect(f, func(n ast.Node) bool {
			if g, ok := n.(*ast.GoStmt); ok {
				found = append(found, fset.Position(g.Pos()).String())
			}
			return true
		})
		return nil
	})
	return found
}

func checkMapOrder(run *ev.Run, property string) {
	quick := ev.Tier() != "thorough"
	deadline := 150 * time.Second
	if !quick {
		deadline = 25 * time.Minute
	}
	start := time.Now()
	gos := goStatementsInX()
	run.Set("go_statements_in_x_keepers", len(gos))
	if len(gos) > 0 {
		run.Set("go_statement_sites", gos)
		run.Assume("x/** contains go statements: the goroutine-scheduling clause is NOT decided for those sites")
	}
	histories := []string{"H1", "H2", "C02/a"}
	if !quick {
		histories = append(histories, "C02/b")
	}
	if property == "C22" {
		histories = []string{"C22/expand"}
	}
	nw := 16
	workers := make([]*workerProc, nw)
	for i := range workers {
		workers[i] = spawnWorker()
	}
	defer func() {
		for _, w := range workers {
			w.cmd.Process.Kill()
			w.cmd.Wait()
		}
	}()
	base := jobCfg{Hash0: 7, Ordinal: -1}
	baselines := map[string]result{}
	// baseline in every worker process (determinism of the harness itself and independence of per-process hashing)
	for _, h := range histories {
		r1, e1 := workers[0].call(job{ID: 1, History: h, Label: "baseline", Cfg: base, WantLog: true})
		r2, e2 := workers[1].call(job{ID: 1, History: h, Label: "baseline-again", Cfg: base, WantLog: true})
		// ... and in every other worker process too: each process has its own string-hash key, so layouts of maps
		// with more than one bucket (which the harness does not own) differ between them
		if e2 == nil && r2.Err == "" && r1.Digest == r2.Digest {
			var bmu sync.Mutex
			var bwg sync.WaitGroup
			for wi := 2; wi < len(workers); wi++ {
				bwg.Add(1)
				go func(wi int) {
					defer bwg.Done()
					rk, ek := workers[wi].call(job{ID: 1, History: h, Label: "baseline-again", Cfg: base, WantLog: true})
					bmu.Lock()
					if ek == nil && rk.Err == "" && (rk.Digest != r1.Digest || rk.Total != r1.Total) {
						r2 = rk
					}
					bmu.Unlock()
				}(wi)
			}
			bwg.Wait()
		}
		if e1 != nil || e2 != nil || r1.Err != "" || r2.Err != "" {
			run.Set("harness_error", fmt.Sprint("baseline failed: ", e1, e2, r1.Err, r2.Err))
			run.Set("exhaustive", false)
			run.Set("states", int64(1))
			run.Set("transitions", int64(1))
			run.Set("traces_validated_against_impl", int64(0))
			return
		}
		if r1.Digest != r2.Digest || r1.Total != r2.Total {
			// two processes replayed the same history under the same controlled order (hash seed, start bucket,
			// offset) and observed different results: the outcome depends on something that differs from run to run
			// (for maps of more than 8 entries the per-process string hash decides the bucket layout, which the
			// harness does not own) - that is exactly "not the same on every run"
			idx := 0
			for idx < len(r1.ItemHash) && idx < len(r2.ItemHash) && r1.ItemHash[idx] == r2.ItemHash[idx] {
				idx++
			}
			what := "observation count differs"
			if idx < len(r1.Items) && idx < len(r2.Items) {
				what = "first differing observation #" + fmt.Sprint(idx) + ": " + trunc(r1.Items[idx]) + " vs " + trunc(r2.Items[idx])
			}
			run.Violate(ev.Violation{Property: property, Key: h + "/differs-between-two-processes", What: fmt.Sprintf("history %s replayed by two processes under the same controlled map order gives different observations: %s", h, what),
				Replay: map[string]interface{}{"history": h, "label": "baseline", "cfg": base, "first_difference_index": idx}})
			run.Set("baseline_not_reproducible", h)
			run.Set("exhaustive", false)
			run.Set("states", int64(2))
			run.Set("transitions", int64(2))
			run.Set("traces_validated_against_impl", int64(2))
			return
		}
		baselines[h] = r1
	}
	var jobs []job
	id := 10
	add := func(h, label string, c jobCfg) {
		id++
		jobs = append(jobs, job{ID: id, History: h, Label: label, Cfg: c})
	}
	lavaSites := map[string][]siteInfo{}
	for _, h := range histories {
		b := baselines[h]
		for k := uint64(1); k < 8; k++ {
			c := base
			c.Offset = k
			add(h, fmt.Sprintf("uniform-rotation:%d", k), c)
		}
		c := base
		c.LastBucket = true
		add(h, "last-bucket", c)
		c = base
		c.Hash0 = 0x9e3779b9
		add(h, "hash-seed-2", c)
		c.Offset = 3
		add(h, "hash-seed-2+rotation3", c)
		for _, s := range b.Sites {
			if !strings.Contains(s.Fn, "github.com/lavanet/lava/") || strings.Contains(s.Fn, "/testutil/") {
				continue
			}
			lavaSites[h] = append(lavaSites[h], s)
			offs := []uint64{1, 2, 3, 4, 5, 6, 7}
			if quick && h != "H1" && h != "C22/expand" {
				offs = []uint64{1, 3}
			}
			for _, k := range offs {
				if int(k) >= s.MaxN && s.MaxN <= 8 && k > 1 {
					continue // rotations beyond the map length wrap to the first
				}
				c := base
				c.SitePC = s.PC
				c.SiteOffset = k
				add(h, fmt.Sprintf("site:%s:%d@%d", s.Fn, s.Line, k), c)
			}
		}
		// dynamic instances (ordinals) of H1
		if h == "H1" || h == "C22/expand" {
			nOrd := int64(64)
			offs := []uint64{1, 2}
			if !quick {
				nOrd = 400
				offs = []uint64{1, 2, 3, 5}
			}
			if nOrd > b.Total {
				nOrd = b.Total
			}
			step := int64(1)
			if !quick {
				step = 1
			}
			for ord := int64(0); ord < b.Total && ord/step < nOrd; ord += step {
				for _, k := range offs {
					c := base
					c.Ordinal = ord
					c.OrdinalOffset = k
					add(h, fmt.Sprintf("ordinal:%d@%d", ord, k), c)
				}
			}
		}
	}
	// dispatch
	ch := make(chan job, len(jobs))
	for _, j := range jobs {
		ch <- j
	}
	close(ch)
	var mu sync.Mutex
	var wg sync.WaitGroup
	done, differing, skipped := 0, 0, 0
	labels := map[string]int{}
	for _, w := range workers {
		wg.Add(1)
		go func(w *workerProc) {
			defer wg.Done()
			for j := range ch {
				if time.Since(start) > deadline {
					mu.Lock()
					skipped++
					mu.Unlock()
					continue
				}
				r, err := w.call(j)
				mu.Lock()
				if err != nil || r.Err != "" {
					run.Set("worker_error:"+j.Label, fmt.Sprint(err, r.Err))
					skipped++
					mu.Unlock()
					continue
				}
				done++
				kind := strings.SplitN(j.Label, ":", 2)[0]
				labels[kind]++
				b := baselines[j.History]
				if r.Digest != b.Digest {
					differing++
					// locate first differing observation
					idx := 0
					for idx < len(b.ItemHash) && idx < len(r.ItemHash) && b.ItemHash[idx] == r.ItemHash[idx] {
						idx++
					}
					what := "observation count differs"
					if idx < len(b.Items) {
						what = "first differing observation #" + fmt.Sprint(idx) + ": baseline " + trunc(b.Items[idx])
					}
					key := j.Label
					if strings.HasPrefix(key, "site:") {
						key = key[:strings.LastIndex(key, "@")]
					} else if strings.HasPrefix(key, "ordinal:") {
						key = "ordinal-deviation"
					} else if strings.HasPrefix(key, "uniform-rotation") {
						key = "uniform-rotation"
					}
					run.Violate(ev.Violation{Property: property, Key: j.History + "/" + key, What: fmt.Sprintf("history %s under map order '%s' diverges from the baseline order: %s", j.History, j.Label, what),
						Replay: map[string]interface{}{"history": j.History, "label": j.Label, "cfg": j.Cfg, "first_difference_index": idx}})
				}
				mu.Unlock()
			}
		}(w)
	}
	wg.Wait()
	var totalIter int64
	siteList := []string{}
	for _, h := range histories {
		totalIter += baselines[h].Total
		for _, s := range lavaSites[h] {
			siteList = append(siteList, fmt.Sprintf("%s %s:%d hits=%d maxlen=%d", h, s.Fn, s.Line, s.Hits, s.MaxN))
		}
	}
	run.Set("lava_map_range_sites_hit", siteList)
	run.Set("runs_per_kind", labels)
	run.Set("runs_completed", done)
	run.Set("runs_skipped_deadline", skipped)
	run.Set("runs_differing_from_baseline", differing)
	run.Set("map_iterations_per_baseline_run", totalIter)
	run.Set("observations_per_run", func() int {
		n := 0
		for _, h := range histories {
			n += len(baselines[h].Items)
		}
		return n
	}())
	run.Set("states", int64(done+len(histories)))
	run.Set("transitions", int64(done)*totalIter/int64(len(histories)))
	run.Set("traces_validated_against_impl", int64(done+2*len(histories)))
	run.Set("exhaustive", skipped == 0)
	run.Set("bound", "per history: baseline, 7 uniform rotations, last start bucket, second hash seed, every lava map-range call site x offsets 1..7 (deviation bound 1 over sites), first N dynamic iteration instances x offsets (H1)")
	for _, h := range histories {
		its := baselines[h].Items
		if len(its) > 4 {
			its = its[len(its)/2 : len(its)/2+4]
		}
		run.Sample(map[string]interface{}{"history": h, "observations": len(baselines[h].Items), "excerpt": its})
	}
	run.Assume("go1.23 classic maps: iteration order of a map is determined by hash seed, start bucket and in-bucket offset, all owned by the patched runtime; maps of more than 8 entries are only sampled at start bucket 0/last and two hash seeds")
	run.Assume("histories are scripted (not exhaustive over histories); exhaustiveness is over the map-order choices listed in 'bound'")
}

func trunc(s string) string {
	if len(s) > 160 {
		return s[:160] + "..."
	}
	return s
}

func init() {
	c01.Histories["C22/expand"] = func() *c01.Obs { return &c01.Obs{Items: c22.MapOrderHistory()} }
}

func main() {
	if len(os.Args) < 2 {
		fmt.Println("usage: vmapiter check C01 | worker")
		os.Exit(2)
	}
	switch os.Args[1] {
	case "worker":
		workerMain()
	case "dump":
		cfg := jobCfg{Hash0: 7, Ordinal: -1}
		if len(os.Args) > 3 {
			fmt.Sscan(os.Args[3], &cfg.Offset)
		}
		r := runJob(job{ID: 1, History: os.Args[2], Cfg: cfg, WantLog: true})
		for _, it := range r.Items {
			fmt.Println(it)
		}
		for _, s := range r.Sites {
			fmt.Printf("site %s %s:%d hits=%d maxlen=%d\n", s.Fn, s.File, s.Line, s.Hits, s.MaxN)
		}
		fmt.Println("total multi-entry iterations:", r.Total, "err:", r.Err)
	case "check":
		property := "C01"
		if len(os.Args) > 2 {
			property = os.Args[2]
		}
		run := ev.NewRun(property, "model_checking")
		run.Guard(func() { checkMapOrder(run, property) })
		os.Exit(run.Finish())
	}
}
