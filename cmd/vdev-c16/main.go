package main

import (
	"fmt"
	"os"
	"runtime/pprof"
	"time"

	"verifmc/engine/bfs"
	"verifmc/engine/ev"
	"verifmc/engine/reg"
	_ "verifmc/props/c16"
)

func main() {
	if len(os.Args) > 2 && os.Args[1] == "worker" {
		out := os.Stdout
		os.Stdout = os.Stderr
		bfs.WorkerMain(os.Args[2], os.Stdin, out)
		return
	}
	if len(os.Args) > 1 && os.Args[1] == "prof" {
		// timing / replay helper: vdev-c16 prof <scenario> op op ...
		t0 := time.Now()
		sc := bfs.Make(os.Args[2])
		fmt.Println("build", time.Since(t0))
		names := sc.Ops()
		idx := map[string]int{}
		for i, n := range names {
			idx[n] = i
		}
		f, _ := os.Create("/tmp/c16.prof")
		pprof.StartCPUProfile(f)
		for rep := 0; rep < 3; rep++ {
			sc.Reset()
			for _, a := range os.Args[3:] {
				t := time.Now()
				st := sc.Apply(idx[a])
				fmt.Println(a, st.Accepted, st.Obs, len(st.Viol), time.Since(t))
				for _, v := range st.Viol {
					fmt.Println("   ", v.Key, v.What)
				}
				t = time.Now()
				sc.Hash()
				fmt.Println("  hash", time.Since(t))
			}
		}
		pprof.StopCPUProfile()
		return
	}
	c, _ := reg.Get("C16")
	run := ev.NewRun(c.Property, c.Level)
	c.Run(run)
	os.Exit(run.Finish())
}
