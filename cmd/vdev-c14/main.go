package main

import (
	"fmt"
	"os"
	"runtime/pprof"
	"time"

	"verifmc/engine/bfs"
	"verifmc/engine/ev"
	"verifmc/engine/reg"
	_ "verifmc/props/c14"
)

func main() {
	if len(os.Args) > 2 && os.Args[1] == "worker" {
		out := os.Stdout
		os.Stdout = os.Stderr
		bfs.WorkerMain(os.Args[2], os.Stdin, out)
		return
	}
	if len(os.Args) > 1 && os.Args[1] == "prof" {
		sc := bfs.Make("c14/two-stale2")
		f, _ := os.Create("/tmp/c14prof.out")
		pprof.StartCPUProfile(f)
		ops := sc.Ops()
		start := time.Now()
		n := 0
		path := []int{0, 1, 24, 5, 12}
		for a := range ops {
			sc.Reset()
			for _, o := range path {
				sc.Apply(o)
			}
			if st := sc.Apply(a); !st.Accepted || len(st.Viol) > 0 {
				continue
			}
			for b := range ops {
				r := sc.Fork()
				sc.Apply(b)
				sc.Hash()
				n++
				r()
			}
		}
		pprof.StopCPUProfile()
		fmt.Println(n, "transitions", time.Since(start), float64(n)/time.Since(start).Seconds(), "per s")
		return
	}
	c, _ := reg.Get("C14")
	run := ev.NewRun(c.Property, c.Level)
	c.Run(run)
	os.Exit(run.Finish())
}
