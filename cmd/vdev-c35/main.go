package main

import (
	"os"
	"runtime/pprof"

	"verifmc/engine/bfs"
	"verifmc/engine/ev"
	"verifmc/engine/reg"
	_ "verifmc/props/c35"
)

func main() {
	if len(os.Args) > 2 && os.Args[1] == "worker" {
		out := os.Stdout
		os.Stdout = os.Stderr
		bfs.WorkerMain(os.Args[2], os.Stdin, out)
		return
	}
	if pf := os.Getenv("C35_CPUPROFILE"); pf != "" {
		f, _ := os.Create(pf)
		pprof.StartCPUProfile(f)
		defer pprof.StopCPUProfile()
	}
	c, _ := reg.Get("C35")
	run := ev.NewRun(c.Property, c.Level)
	c.Run(run)
	rc := run.Finish()
	pprof.StopCPUProfile()
	os.Exit(rc)
}
