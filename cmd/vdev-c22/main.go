package main

import (
	"os"

	"strconv"
	"verifmc/engine/bfs"
	"verifmc/engine/ev"
	"verifmc/engine/reg"
	c22 "verifmc/props/c22"
)

func main() {
	if len(os.Args) > 2 && os.Args[1] == "worker" {
		out := os.Stdout
		os.Stdout = os.Stderr
		bfs.WorkerMain(os.Args[2], os.Stdin, out)
		return
	}
	if len(os.Args) > 3 && os.Args[1] == "shard" {
		i, _ := strconv.Atoi(os.Args[2])
		n, _ := strconv.Atoi(os.Args[3])
		c22.DebugShard(ev.Tier(), i, n)
		return
	}
	if len(os.Args) > 1 && os.Args[1] == "count" {
		c22.DebugCount("quick")
		c22.DebugCount("thorough")
		return
	}
	c, _ := reg.Get("C22")
	run := ev.NewRun(c.Property, c.Level)
	c.Run(run)
	os.Exit(run.Finish())
}
