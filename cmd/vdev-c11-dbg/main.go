package main

import (
	"fmt"
	"os"
	"strconv"

	"verifmc/engine/bfs"
	_ "verifmc/props/c11"
)

// vdbg <scenario> op op op ... : apply ops by index or name and print results
func main() {
	sc := bfs.Make(os.Args[1])
	ops := sc.Ops()
	if len(os.Args) == 2 {
		for i, o := range ops {
			fmt.Println(i, o)
		}
		return
	}
	sc.Reset()
	for _, a := range os.Args[2:] {
		i, err := strconv.Atoi(a)
		if err != nil {
			i = -1
			for j, o := range ops {
				if o == a {
					i = j
				}
			}
		}
		st := sc.Apply(i)
		fmt.Printf("%s -> accepted=%v obs=%s viol=%v\n", ops[i], st.Accepted, st.Obs, st.Viol)
	}
}
