package main

import (
	"fmt"
	"verifmc/engine/mapiter"
)

func order(m map[string]int) string {
	s := ""
	for k := range m {
		s += k
	}
	return s
}

func main() {
	for k := 0; k < 8; k++ {
		mapiter.Start(mapiter.Config{Offset: uintptr(k), Hash0: 7, Ordinal: -1})
		m := map[string]int{"a": 1, "b": 2, "c": 3, "d": 4, "e": 5}
		o := order(m)
		pcs, counts, total := mapiter.Stop()
		fn, _, line := mapiter.Site(pcs[0])
		fmt.Println(k, o, total, counts, fn, line)
	}
}
