// vdev-c41: development dispatcher of the event-order exploration checks (engine "events"); the later `vevents`.
// Built with the derived overlay of tools/overlaygen_events.py:
//
//	python3 tools/overlaygen_events.py && go build -tags verif -overlay .cache/overlay/events/overlay.json -o bin/vdev-c41 ./cmd/vdev-c41
//
// Usage: vdev-c41 [check <Cxx>] | evshard <Cxx> <i> <n> <shardDepth> <deadline s> | replay <file>
// Without arguments it runs `check C41`. To add a property: link its package below.
package main

import (
	"fmt"
	"os"

	"verifmc/engine/ev"
	"verifmc/engine/events"
	"verifmc/engine/reg"

	_ "verifmc/props/c34"
	_ "verifmc/props/c41"
)

const defaultProperty = "C41"

func main() {
	args := os.Args[1:]
	if len(args) == 0 {
		args = []string{"check", defaultProperty}
	}
	switch {
	case args[0] == "evshard" && len(args) == 6:
		events.ShardMain(args[1:])
	case args[0] == "replay" && len(args) == 2:
		os.Exit(events.Replay(args[1]))
	case args[0] == "check" && len(args) == 2:
		c, ok := reg.Get(args[1])
		if !ok {
			fmt.Println("unknown property", args[1], "- linked:", reg.IDs())
			os.Exit(2)
		}
		run := ev.NewRun(c.Property, c.Level)
		run.Guard(func() { c.Run(run) })
		os.Exit(run.Finish())
	default:
		fmt.Println("usage: vdev-c41 [check <Cxx>] | evshard <Cxx> <i> <n> <shardDepth> <deadline s> | replay <file>")
		os.Exit(2)
	}
}
