#!/usr/bin/env python3
"""Derived overlay of the "events" engine (DESIGN.md §2.4), regenerated from /repo's working tree on every build;
never committed to /repo.

  overlaygen_events.py   -> /verif/.cache/overlay/events/overlay.json

  * rewrites the imports "time" and "context" of the listed target files (C41: resource_limiter.go, C34:
    unified_relay_state_machine.go) to the virtual-clock shims
    (virtual packages github.com/lavanet/lava/v5/utils/verifshim/events/{clock,time,context}, sources in
    /verif/engine/events/shim/*.go.txt);
  * environment: VERIF_OVERLAY_OUT (output root, default /verif/.cache/overlay), VERIF_SRC_OVERRIDE (a tree with
    mutated copies of /repo files: the rewrite is derived from the mutated copy when one exists).
Fails loudly when an anchor is missing.
"""
import json, os, subprocess, sys

REPO = '/repo'
OUT = os.environ.get('VERIF_OVERLAY_OUT', '/verif/.cache/overlay')
OVERRIDE = os.environ.get('VERIF_SRC_OVERRIDE', '')
SHIM = '/verif/engine/events/shim'
MOD = 'github.com/lavanet/lava/v5/utils/verifshim/events'
EXE = '/verif/bin/gorewrite'

# target file -> (imports that must be rewritten, anchors that must be present in the source)
TARGETS = {
    'protocol/rpcprovider/resource_limiter.go': (
        ['time', 'context'],
        ['context.WithTimeout(ctx, cfg.Timeout)', 'case <-queueCtx.Done():', 'sem.Acquire(', 'time.Now()'],
    ),
    # C34: the batch ticker, the 15 ms return-condition sleep and the processing timeout of the relay state machine
    'protocol/relaycore/unified_relay_state_machine.go': (
        ['time', 'context'],
        ['context.WithTimeout(sm.ctx, processingTimeout)', 'time.NewTicker(relayTimeout)', 'time.Sleep(15 * time.Millisecond)',
         'case <-startNewBatchTicker.C:', 'case <-processingCtx.Done():'],
    ),
}


# the queue worker of the resource limiter is preempted right after it obtained the execution permit for a queued
# request: the explorer may deliver environment events (the caller cancels, the queue timeout fires) before it goes on
PARK_POINTS = {
    'protocol/rpcprovider/resource_limiter.go': [
        # (a regular expression: the arguments of Acquire may differ on the tree under test)
        (r"if err := sem\.Acquire\([^\n]*\); err != nil \{\n\t\t\tqr\.result <- err\n\t\t\tcontinue\n\t\t\}\n",
         "\t\tverifclock.Park(\"worker-holds-permit\")\n"),
    ],
}


def die(msg):
    print('overlaygen_events: ' + msg, file=sys.stderr)
    sys.exit(1)


def main():
    if not os.path.exists(EXE) or os.path.getmtime(EXE) < os.path.getmtime('/verif/tools/gorewrite/main.go'):
        subprocess.run('cd /verif/tools/gorewrite && GOFLAGS= GO111MODULE=off go build -o %s .' % EXE, shell=True, check=True)
    out = os.path.join(OUT, 'events')
    os.makedirs(out, exist_ok=True)
    replace = {}
    total = 0
    for rel, (imports, anchors) in sorted(TARGETS.items()):
        src = os.path.join(REPO, rel)
        if OVERRIDE and os.path.exists(os.path.join(OVERRIDE, rel)):
            src = os.path.join(OVERRIDE, rel)
        if not os.path.exists(src):
            die('missing target ' + src)
        text = open(src).read()
        for a in anchors:
            if a not in text:
                die('anchor %r not found in %s' % (a, src))
        dst = os.path.join(out, rel.replace('/', '__'))
        args = [EXE, '-in', src, '-out', dst]
        for imp in imports:
            args += ['-import', '%s=%s:%s/%s' % (imp, imp, MOD, imp)]
        r = subprocess.run(args, capture_output=True, text=True)
        if r.returncode != 0:
            die('gorewrite failed on %s: %s' % (src, r.stderr))
        n = int(r.stdout.split()[0])
        if n != len(imports):
            die('%s: expected %d rewritten imports %s, got %d' % (src, len(imports), imports, n))
        # preemption points: text inserted after an exact anchor of the rewritten file (must match exactly once)
        for (anchor, insert) in PARK_POINTS.get(rel, []):
            new = open(dst).read()
            import re
            found = re.findall(anchor, new)
            if len(found) != 1:
                die('park anchor %r found %d times in %s' % (anchor, len(found), src))
            new = re.sub(anchor, lambda m: m.group(0) + insert, new, count=1)
            if ('"%s/clock"' % MOD) not in new:
                new = new.replace('import (', 'import (\n\tverifclock "%s/clock"' % MOD, 1)
            open(dst, 'w').write(new)
        replace[os.path.join(REPO, rel)] = dst
        total += n
    for virt, shim in [('clock/clock.go', 'clock.go.txt'), ('time/time.go', 'time.go.txt'), ('context/context.go', 'context.go.txt')]:
        p = os.path.join(SHIM, shim)
        if not os.path.exists(p):
            die('missing shim ' + p)
        replace[os.path.join(REPO, 'utils/verifshim/events', virt)] = p
    json.dump({'Replace': replace}, open(os.path.join(out, 'overlay.json'), 'w'), indent=1)
    print('events overlay: %d files, %d imports rewritten -> %s' % (len(replace), total, os.path.join(out, 'overlay.json')))


if __name__ == '__main__':
    main()
