// gorewrite: source rewriter used by the derived overlays (stdlib go/parser only).
//   gorewrite -in file.go -out out.go [-import old=alias:new ...] [-gostmt coopImportPath]
// -import rewrites an import path (keeping it under the given alias); -gostmt rewrites every `go call(...)`
// statement into `coop.Go(func() { call(...) })` and adds the coop import. Prints the number of rewrites.
package main

import (
	"flag"
	"fmt"
	"go/ast"
	"go/parser"
	"go/token"
	"os"
	"sort"
	"strconv"
	"strings"
)

type multi []string

func (m *multi) String() string     { return strings.Join(*m, ",") }
func (m *multi) Set(s string) error { *m = append(*m, s); return nil }

type edit struct {
	start, end int
	text       string
}

func main() {
	var in, out, gostmt string
	var imports multi
	flag.StringVar(&in, "in", "", "")
	flag.StringVar(&out, "out", "", "")
	flag.StringVar(&gostmt, "gostmt", "", "")
	flag.Var(&imports, "import", "")
	flag.Parse()
	src, err := os.ReadFile(in)
	if err != nil {
		fmt.Fprintln(os.Stderr, err)
		os.Exit(1)
	}
	fset := token.NewFileSet()
	f, err := parser.ParseFile(fset, in, src, parser.ParseComments)
	if err != nil {
		fmt.Fprintln(os.Stderr, err)
		os.Exit(1)
	}
	off := func(p token.Pos) int { return fset.Position(p).Offset }
	var edits []edit
	nImp, nGo := 0, 0
	imap := map[string][2]string{}
	for _, s := range imports {
		kv := strings.SplitN(s, "=", 2)
		an := strings.SplitN(kv[1], ":", 2)
		imap[kv[0]] = [2]string{an[0], an[1]}
	}
	for _, is := range f.Imports {
		p, _ := strconv.Unquote(is.Path.Value)
		if r, ok := imap[p]; ok {
			start := off(is.Pos())
			edits = append(edits, edit{start, off(is.End()), r[0] + " " + strconv.Quote(r[1])})
			nImp++
		}
	}
	if gostmt != "" {
		ast.Inspect(f, func(n ast.Node) bool {
			if g, ok := n.(*ast.GoStmt); ok {
				call := string(src[off(g.Call.Pos()):off(g.Call.End())])
				edits = append(edits, edit{off(g.Pos()), off(g.End()), "coop.Go(func() { " + call + " })"})
				nGo++
			}
			return true
		})
		if nGo > 0 {
			// add the import right after the package clause
			pos := off(f.Name.End())
			edits = append(edits, edit{pos, pos, "\n\nimport coop " + strconv.Quote(gostmt)})
		}
	}
	// nested go statements: apply innermost first is not possible with flat edits; detect overlap and fail loudly
	sort.Slice(edits, func(i, j int) bool { return edits[i].start < edits[j].start })
	for i := 1; i < len(edits); i++ {
		if edits[i].start < edits[i-1].end {
			// nested: drop the inner edit, re-run needed
			fmt.Fprintln(os.Stderr, "gorewrite: nested go statements in", in, "- run again on the output")
			edits = append(edits[:i], edits[i+1:]...)
			i--
		}
	}
	var b strings.Builder
	last := 0
	for _, e := range edits {
		b.Write(src[last:e.start])
		b.WriteString(e.text)
		last = e.end
	}
	b.Write(src[last:])
	if err := os.WriteFile(out, []byte(b.String()), 0o644); err != nil {
		fmt.Fprintln(os.Stderr, err)
		os.Exit(1)
	}
	fmt.Printf("%d %d\n", nImp, nGo)
}
