#!/usr/bin/env python3
"""Derived overlays (regenerated from /repo's working tree on every build; never committed to /repo).

  overlaygen.py coop   -> /verif/.cache/overlay/coop/overlay.json
      rewrites the imports "sync", "sync/atomic", "time" of the non-test files of the packages under
      cooperative scheduling to the shim packages (virtual paths under /repo/utils/verifshim), rewrites
      `go` statements to coop.Go, and reduces TRY_LOCK_ATTEMPTS (uniform retry loop) to 2.
Fails loudly when an anchor pattern is missing.
"""
import json, os, re, sys, glob

REPO = '/repo'
OUT = '/verif/.cache/overlay'
SHIM = '/verif/engine/coop/shim'
MOD = 'github.com/lavanet/lava/v5/utils/verifshim'

def die(msg):
    print('overlaygen: ' + msg, file=sys.stderr)
    sys.exit(1)

def rewrite_imports(src, path, mapping):
    """mapping: import path -> (alias, new path)"""
    m = re.search(r'^import \((.*?)^\)', src, re.S | re.M)
    if not m:
        return src, 0
    block = m.group(1)
    n = 0
    for old, (alias, new) in mapping.items():
        pat = re.compile(r'^(\s*)"%s"\s*$' % re.escape(old), re.M)
        block, k = pat.subn(r'\1%s "%s"' % (alias, new), block)
        n += k
    return src[:m.start(1)] + block + src[m.end(1):], n

def rewrite_go_statements(src, path):
    """`go f(args)` / `go func(...){...}(args)` -> coop.Go(func() { f(args) }).
    Arguments are evaluated when the spawned thread first runs; the harnesses spawn from states where the
    arguments are not mutated in between (stated in DESIGN.md)."""
    out = []
    i = 0
    n = 0
    pat = re.compile(r'(?m)^(\s*)(defer func\(\) \{ )?go (func\(|[A-Za-z_][A-Za-z0-9_.]*\()')
    while True:
        m = pat.search(src, i)
        if not m:
            out.append(src[i:])
            break
        if m.group(2):
            # `defer func() { go x(...) }()` one-liner
            start = m.start(3) - 3
        else:
            start = m.start(3) - 3
        out.append(src[i:start])
        # find the end of the call expression: balance parens/braces from m.start(3)
        j = m.start(3)
        depth_p = depth_b = 0
        in_str = None
        seen_call_end = False
        k = j
        while k < len(src):
            c = src[k]
            if in_str:
                if c == '\\' and in_str != '`':
                    k += 2
                    continue
                if c == in_str:
                    in_str = None
            elif c in '"`\'':
                in_str = c
            elif c == '(':
                depth_p += 1
            elif c == ')':
                depth_p -= 1
                if depth_p == 0 and depth_b == 0:
                    # end of a call; for func literals the first balanced paren is the parameter list,
                    # the call ends after the body's closing brace and the argument list
                    if src[j:j+5] == 'func(':
                        rest = src[k+1:]
                        if re.match(r'\s*(\{|[A-Za-z_*\[\]. ]*\{)', rest) and not seen_call_end:
                            seen_call_end = True  # parameter list done, body follows
                        elif seen_call_end and depth_b == 0:
                            k += 1
                            break
                    else:
                        k += 1
                        break
            elif c == '{':
                depth_b += 1
            elif c == '}':
                depth_b -= 1
            k += 1
        expr = src[j:k]
        out.append('coop.Go(func() { ' + expr + ' })')
        n += 1
        i = k
    return ''.join(out), n

def gen_coop():
    out = os.path.join(OUT, 'coop')
    os.makedirs(out, exist_ok=True)
    replace = {}
    mapping = {
        'sync': ('sync', MOD + '/sync'),
        'sync/atomic': ('atomic', MOD + '/sync/atomic'),
        'time': ('time', MOD + '/time'),
    }
    total = 0
    pkgs = ['protocol/lavasession']
    for pkg in pkgs:
        files = sorted(f for f in glob.glob(os.path.join(REPO, pkg, '*.go')) if not f.endswith('_test.go'))
        if not files:
            die('no files in ' + pkg)
        for f in files:
            src = open(f).read()
            new, n = rewrite_imports(src, f, mapping)
            gon = 0
            if re.search(r'(?m)^\s*(defer func\(\) \{ )?go (func\(|[A-Za-z_])', new):
                new, gon = rewrite_go_statements(new, f)
                if gon:
                    # add the coop import
                    new = new.replace('import (', 'import (\n\tcoop "%s/coop"' % MOD, 1)
            if os.path.basename(f) == 'single_provider_session.go':
                new, k = re.subn(r'TRY_LOCK_ATTEMPTS = 30', 'TRY_LOCK_ATTEMPTS = 2', new)
                if k != 1:
                    die('anchor TRY_LOCK_ATTEMPTS = 30 not found in ' + f)
            if n or gon or new != src:
                dst = os.path.join(out, pkg.replace('/', '_') + '__' + os.path.basename(f))
                open(dst, 'w').write(new)
                replace[f] = dst
                total += n
    if total == 0:
        die('no import was rewritten')
    for virt, shim in [('coop/coop.go', 'coop.go.txt'), ('sync/sync.go', 'sync.go.txt'),
                       ('sync/atomic/atomic.go', 'atomic.go.txt'), ('time/time.go', 'time.go.txt')]:
        replace[os.path.join(REPO, 'utils/verifshim', virt)] = os.path.join(SHIM, shim)
    json.dump({'Replace': replace}, open(os.path.join(out, 'overlay.json'), 'w'), indent=1)
    print('coop overlay: %d files, %d imports rewritten' % (len(replace), total))

if __name__ == '__main__':
    kind = sys.argv[1] if len(sys.argv) > 1 else 'coop'
    if kind == 'coop':
        gen_coop()
    else:
        die('unknown overlay ' + kind)
