#!/usr/bin/env python3
"""Derived overlays (regenerated from /repo's working tree on every build; never committed to /repo).

  overlaygen.py coop   -> /verif/.cache/overlay/coop/overlay.json
      rewrites the imports "sync", "sync/atomic", "time" of the non-test files of the packages under
      cooperative scheduling to the shim packages (virtual paths under /repo/utils/verifshim), rewrites
      `go` statements to coop.Go, reduces TRY_LOCK_ATTEMPTS (uniform retry loop) to 2, replaces the three
      blocking channel operations of the consumer side by equivalent time-shim calls, rewrites utils/locks.go
      (LavaMutex) the same way and adds the runtime/map.go patch that lets a harness pin map iteration order.
Fails loudly when an anchor pattern is missing.
"""
import json, os, re, sys, glob

REPO = '/repo'
OUT = os.environ.get('VERIF_OVERLAY_OUT', '/verif/.cache/overlay')
OVERRIDE = os.environ.get('VERIF_SRC_OVERRIDE', '')  # tree with mutated copies (mutation testing)
SHIM = '/verif/engine/coop/shim'
MOD = 'github.com/lavanet/lava/v5/utils/verifshim'

def die(msg):
    print('overlaygen: ' + msg, file=sys.stderr)
    sys.exit(1)

def gorewrite(src_path, dst_path, imports, gostmt=None):
    """runs tools/gorewrite (go/parser based); returns (imports rewritten, go statements rewritten)"""
    import subprocess
    exe = '/verif/bin/gorewrite'
    args = [exe, '-in', src_path, '-out', dst_path]
    for old, (alias, new) in imports.items():
        args += ['-import', '%s=%s:%s' % (old, alias, new)]
    if gostmt:
        args += ['-gostmt', gostmt]
    r = subprocess.run(args, capture_output=True, text=True)
    if r.returncode != 0:
        die('gorewrite failed on %s: %s' % (src_path, r.stderr))
    if 'nested go statements' in r.stderr:
        # second pass on the output handles the inner statements
        r2 = subprocess.run([exe, '-in', dst_path, '-out', dst_path, '-gostmt', gostmt], capture_output=True, text=True)
        if r2.returncode != 0 or 'nested' in r2.stderr:
            die('gorewrite nested pass failed on %s: %s' % (src_path, r2.stderr))
    a, b = r.stdout.split()
    return int(a), int(b)

def gen_coop():
    import subprocess
    subprocess.run('cd /verif/tools/gorewrite && GOFLAGS= GO111MODULE=off go build -o /verif/bin/gorewrite .', shell=True, check=True)
    out = os.path.join(OUT, 'coop')
    os.makedirs(out, exist_ok=True)
    replace = {}
    mapping = {
        'sync': ('sync', MOD + '/sync'),
        'sync/atomic': ('atomic', MOD + '/sync/atomic'),
        'time': ('time', MOD + '/time'),
    }
    total = 0
    # rewardserver (C29): no anchors needed — its harnesses build the server without saveRewardsSnapshotToDBJob
    # (select on timer/threshold channels) and never reach UpdateEpoch's delay loop
    pkgs = ['protocol/lavasession', 'protocol/rpcprovider/rewardserver']
    # single files of other packages: utils.LavaMutex guards the consumer sessions (its TryLock/Unlock must be points)
    extra_files = ['utils/locks.go']
    # anchors (exact text after gorewrite -> replacement); every anchor must match exactly once
    anchors = {
        'single_provider_session.go': [('TRY_LOCK_ATTEMPTS = 30', 'TRY_LOCK_ATTEMPTS = 2')],
        # blocking channel operations cannot be scheduling points: equivalent forms on the time shim
        'consumer_session_manager.go': [
            # second-chance timer of blockProvider
            ('<-time.After(retrySecondChanceAfter)', 'time.WaitAfter(retrySecondChanceAfter)'),
            # probeProviders: the waiter goroutine + select{done, ctx.Done()} with a never-cancelled context
            # (the only caller under PeriodicProbeProviders=false passes context.Background()) == wait inline
            ('coop.Go(func() { func() {\n\t\tdefer close(done)\n\t\twg.Wait()\n\t}() })',
             'func() {\n\t\tdefer close(done)\n\t\twg.Wait()\n\t}()'),
        ],
        # reconnect ticker of NewReportedProviders
        'reported_providers.go': [('for range ticker.C {', 'for time.WaitTick(ticker.C) {')],
    }
    # `go` statements (after gorewrite) whose body only calls the metrics manager (nil -> lava's NoOpConsumerMetrics
    # in the harnesses) or the optimizer's Append* feedback (a no-op in the harness stub): run at the spawn point
    # (coop.GoInline) instead of becoming scheduler threads. (text, expected count)
    inline_go = {
        'consumer_session_manager.go': [
            ('coop.Go(func() { csm.consumerMetricsManager.', 2),
            ('coop.Go(func() { csm.providerOptimizer.Append', 2),
            ('coop.Go(func() { func(networkAddress string, chainId string, apiInterface string, providerAddress string) {\n\t\t\t\t\tcsm.consumerMetricsManager.SetBlockedProvider(', 2),
            ('coop.Go(func() { func() {\n\t\tcsm.consumerMetricsManager.SetQOSMetrics(', 1),
        ],
    }
    for pkg in pkgs + extra_files:
        if pkg.endswith('.go'):
            files = [os.path.join(REPO, pkg)]
            pkg = os.path.dirname(pkg)
            if not os.path.exists(files[0]):
                die('missing file ' + files[0])
        else:
            files = sorted(f for f in glob.glob(os.path.join(REPO, pkg, '*.go')) if not f.endswith('_test.go'))
        if not files:
            die('no files in ' + pkg)
        for f in files:
            dst = os.path.join(out, pkg.replace('/', '_') + '__' + os.path.basename(f))
            srcf = f
            if OVERRIDE and os.path.exists(os.path.join(OVERRIDE, os.path.relpath(f, REPO))):
                srcf = os.path.join(OVERRIDE, os.path.relpath(f, REPO))
            n, gon = gorewrite(srcf, dst, mapping, MOD + '/coop')
            new = open(dst).read()
            for (old, rep) in anchors.get(os.path.basename(f), []):
                if new.count(old) != 1:
                    die('anchor %r found %d times in %s' % (old, new.count(old), f))
                new = new.replace(old, rep)
                open(dst, 'w').write(new)
                n += 1
            for (old, cnt) in inline_go.get(os.path.basename(f), []):
                if new.count(old) != cnt:
                    die('inline-go anchor %r found %d times (expected %d) in %s' % (old, new.count(old), cnt, f))
                new = new.replace(old, 'coop.GoInline(' + old[len('coop.Go('):])
                open(dst, 'w').write(new)
            if n or gon:
                replace[f] = dst
                total += n
            else:
                os.remove(dst)
    if total == 0:
        die('no import was rewritten')
    for virt, shim in [('coop/coop.go', 'coop.go.txt'), ('sync/sync.go', 'sync.go.txt'),
                       ('sync/atomic/atomic.go', 'atomic.go.txt'), ('time/time.go', 'time.go.txt')]:
        replace[os.path.join(REPO, 'utils/verifshim', virt)] = os.path.join(SHIM, shim)
    # control of Go's map iteration order (the runtime/map.go patch of overlaygen_runtime.py; inert unless a harness
    # calls mapiter.Start): schedules must be replayable, so harnesses that iterate multi-entry maps pin the order
    env = dict(os.environ, VERIF_OVERLAY_OUT=os.path.join(out, 'rt'))
    r = subprocess.run([sys.executable, '/verif/tools/overlaygen_runtime.py'], env=env, capture_output=True, text=True)
    if r.returncode != 0:
        die('overlaygen_runtime failed: ' + r.stderr)
    replace.update(json.load(open(os.path.join(out, 'rt', 'mapiter', 'overlay.json')))['Replace'])
    json.dump({'Replace': replace}, open(os.path.join(out, 'overlay.json'), 'w'), indent=1)
    print('coop overlay: %d files, %d imports rewritten' % (len(replace), total))

if __name__ == '__main__':
    kind = sys.argv[1] if len(sys.argv) > 1 else 'coop'
    if kind == 'coop':
        gen_coop()
    else:
        die('unknown overlay ' + kind)
