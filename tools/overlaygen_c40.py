#!/usr/bin/env python3
"""Derived overlay for C40: routes the pseudo-random source of scores.PickProviders to the harness.

  python3 tools/overlaygen_c40.py                 -> /verif/.cache/overlay/c40/{score.go.txt, verif_c40_rng.go.txt, overlay.json}
  python3 tools/overlaygen_c40.py mutate <patch> [tier]
                                                  -> mutation run for C40 (same contract/output as scripts/mutate_overlay.sh:
                                                     patch applied to a scratch copy, overlay derived from the PATCHED source,
                                                     ./cmd/vdev-c40 built with -overlay, run in a scratch VERIF_ROOT, DETECTED/MISSED)

The ONLY change to /repo/x/pairing/keeper/scores/score.go (never edited in place) is the single line
    rng := rand.New(hashData)
->  rng := &verifC40Rng{hashData: hashData, mk: rand.New}
and one overlay-only file verif_c40_rng.go is added to the package. verifC40Rng.Int63n(n) asks the harness hook
(verifmc/props/c40.RngHook, pulled with go:linkname) for the answer; with a nil hook it answers from the original
rand.New(hashData) (created on first use; seeding math/rand costs ~10 us, which would dominate the enumeration), i.e.
behaviour is unchanged. The script fails loudly when the anchor is not found exactly once or when
the rng is used for anything but Int63n.

Environment (same conventions as tools/overlaygen.py): VERIF_OVERLAY_OUT (output root, default /verif/.cache/overlay),
VERIF_SRC_OVERRIDE (tree holding mutated copies of repo files, used instead of /repo when the file exists there)."""
import json, os, re, shutil, subprocess, sys, tempfile

REPO = '/repo'
REL = 'x/pairing/keeper/scores/score.go'
HOOKPKG = 'verifmc/props/c40'

def die(m):
    print('overlaygen_c40: ' + m, file=sys.stderr)
    sys.exit(1)

RNG_FILE = '''// Code injected by /verif/tools/overlaygen_c40.py (overlay only, never on disk in /repo).
package scores

import (
	mathrand "math/rand"
	_ "unsafe"
)

// verifC40Hook is the harness' answer function: (hashData, n) -> value in [0,n). Defined in %(pkg)s.
//
//go:linkname verifC40Hook %(pkg)s.RngHook
var verifC40Hook func(hashData []byte, n int64) int64

// verifC40Rng stands in for the *math/rand.Rand of PickProviders (only Int63n is used there).
type verifC40Rng struct {
	hashData []byte
	mk       func([]byte) *mathrand.Rand // the original constructor (utils/rand.New)
	fallback *mathrand.Rand
}

func (r *verifC40Rng) Int63n(n int64) int64 {
	if verifC40Hook != nil {
		if n <= 0 {
			panic("invalid argument to Int63n") // as math/rand does
		}
		return verifC40Hook(r.hashData, n)
	}
	if r.fallback == nil {
		r.fallback = r.mk(r.hashData) // the original source of PickProviders
	}
	return r.fallback.Int63n(n)
}
''' % {'pkg': HOOKPKG}

def generate(out_root, override):
    out = os.path.join(out_root, 'c40')
    os.makedirs(out, exist_ok=True)
    path = os.path.join(REPO, REL)
    if override and os.path.exists(os.path.join(override, REL)):
        path = os.path.join(override, REL)
    src = open(path).read()
    anchor = re.compile(r'^(\t+)rng := rand\.New\(hashData\)$', re.M)
    hits = anchor.findall(src)
    if len(hits) != 1:
        die('anchor "rng := rand.New(hashData)" found %d times in %s (expected exactly 1)' % (len(hits), path))
    # the stand-in only implements Int63n: every use of rng must be rng.Int63n(
    uses = re.findall(r'\brng\b(?!\s*:=)[^\n]*', src)
    for u in uses:
        if not u.startswith('rng.Int63n('):
            die('unexpected use of rng in %s: %r (the stand-in only implements Int63n)' % (path, u))
    if len(uses) < 1:
        die('rng is never used in ' + path)
    if 'func PickProviders(' not in src:
        die('PickProviders not found in ' + path)
    src = anchor.sub(lambda m: m.group(1) + 'rng := &verifC40Rng{hashData: hashData, mk: rand.New}', src)
    open(os.path.join(out, 'score.go.txt'), 'w').write(src)
    open(os.path.join(out, 'verif_c40_rng.go.txt'), 'w').write(RNG_FILE)
    replace = {
        os.path.join(REPO, REL): os.path.join(out, 'score.go.txt'),
        os.path.join(REPO, os.path.dirname(REL), 'verif_c40_rng.go'): os.path.join(out, 'verif_c40_rng.go.txt'),
    }
    json.dump({'Replace': replace}, open(os.path.join(out, 'overlay.json'), 'w'), indent=1)
    print('c40 overlay: %s (%d rng.Int63n call site(s)) from %s' % (os.path.join(out, 'overlay.json'), len(uses), path))
    return replace

def mutate(patch, tier):
    patch = os.path.realpath(patch)
    os.makedirs('/verif/.cache', exist_ok=True)
    tmp = tempfile.mkdtemp(prefix='mutc40.', dir='/verif/.cache')
    try:
        files = [l[len('+++ b/'):].split('\t')[0].strip() for l in open(patch) if l.startswith('+++ b/')]
        for f in files:
            os.makedirs(os.path.join(tmp, 'tree', os.path.dirname(f)), exist_ok=True)
            if os.path.exists(os.path.join(REPO, f)):
                shutil.copy(os.path.join(REPO, f), os.path.join(tmp, 'tree', f))
        r = subprocess.run(['patch', '-p1', '-s', '-i', patch], cwd=os.path.join(tmp, 'tree'))
        if r.returncode != 0:
            print('patch does not apply'); return 3
        replace = {os.path.join(REPO, f): os.path.join(tmp, 'tree', f) for f in files}
        replace.update(generate(os.path.join(tmp, 'ov'), os.path.join(tmp, 'tree')))  # derived from the patched source
        json.dump({'Replace': replace}, open(os.path.join(tmp, 'overlay.json'), 'w'))
        env = dict(os.environ, GOFLAGS='-mod=mod', GOPROXY='off', GOSUMDB='off', GOTOOLCHAIN='local',
                   GOCACHE='/verif/.cache/go-build')
        b = subprocess.run(['go', 'build', '-tags', 'verif', '-overlay', os.path.join(tmp, 'overlay.json'), '-o',
                            os.path.join(tmp, 'mutbin'), './cmd/vdev-c40'], cwd='/verif', env=env, capture_output=True, text=True)
        if b.returncode != 0:
            print('BUILD FAILED'); print('\n'.join(b.stderr.splitlines()[-20:])); return 3
        os.makedirs(os.path.join(tmp, 'root', 'evidence'))
        if os.path.exists('/verif/known_findings.jsonl'):
            shutil.copy('/verif/known_findings.jsonl', os.path.join(tmp, 'root'))
        env.update(VERIF_ROOT=os.path.join(tmp, 'root'), VERIF_TIER=tier)
        run = subprocess.run([os.path.join(tmp, 'mutbin')], cwd='/verif', env=env, capture_output=True, text=True)
        outp = run.stdout + run.stderr
        shown = [l for l in outp.splitlines() if 'VIOLATION' in l or 'KNOWN-FINDING' in l or l.startswith('  key=')][:8]
        print('\n'.join(shown))
        print('check exit=%d' % run.returncode)
        name = os.path.basename(patch)
        if run.returncode == 1 and any(l.startswith('VIOLATION property=C40') for l in outp.splitlines()):
            print('DETECTED C40 by ' + name); return 0
        print('MISSED C40 by ' + name); return 1
    finally:
        shutil.rmtree(tmp, ignore_errors=True)

if __name__ == '__main__':
    if len(sys.argv) >= 3 and sys.argv[1] == 'mutate':
        sys.exit(mutate(sys.argv[2], sys.argv[3] if len(sys.argv) > 3 else 'quick'))
    generate(os.environ.get('VERIF_OVERLAY_OUT', '/verif/.cache/overlay'), os.environ.get('VERIF_SRC_OVERRIDE', ''))
