#!/usr/bin/env python3
"""Derived overlay of $GOROOT/src/runtime/map.go giving the harness control over Go's map-iteration order.
Output: /verif/.cache/overlay/mapiter/{map.go.txt, overlay.json}. Fails loudly if the toolchain's map.go does
not contain the expected anchors (written for go1.23.x, classic hmap maps)."""
import json, os, re, subprocess, sys

out = os.environ.get('VERIF_OVERLAY_OUT', '/verif/.cache/overlay') + '/mapiter'
os.makedirs(out, exist_ok=True)
goroot = subprocess.run(['go', 'env', 'GOROOT'], capture_output=True, text=True).stdout.strip()
path = os.path.join(goroot, 'src/runtime/map.go')
src = open(path).read()

def die(m):
    print('overlaygen_runtime: ' + m, file=sys.stderr); sys.exit(1)

anchor = '''	// decide where to start
	r := uintptr(rand())
	it.startBucket = r & bucketMask(h.B)
	it.offset = uint8(r >> h.B & (abi.MapBucketCount - 1))
'''
if src.count(anchor) != 1:
    die('mapiterinit anchor not found in ' + path)
patched = '''	// decide where to start
	r := uintptr(rand())
	if verifMapMode != 0 {
		k := verifMapOffset
		if h.count > 1 {
			pc := getcallerpc()
			ord := verifMapCounter
			verifMapCounter++
			if ord < int64(len(verifMapLogPC)) {
				verifMapLogPC[ord] = pc
				verifMapLogCount[ord] = h.count
			}
			if verifMapSitePC != 0 && pc == verifMapSitePC {
				k = verifMapSiteOffset
			}
			if ord == verifMapOrdinal {
				k = verifMapOrdinalOffset
			}
		}
		r = k << h.B
		if verifMapLastBucket != 0 {
			r |= bucketMask(h.B)
		}
	}
	it.startBucket = r & bucketMask(h.B)
	it.offset = uint8(r >> h.B & (abi.MapBucketCount - 1))
'''
src = src.replace(anchor, patched)
n = src.count('h.hash0 = uint32(rand())')
if n < 3:
    die('hash0 anchors not found')
src = src.replace('h.hash0 = uint32(rand())', 'h.hash0 = verifHash0()')
if 'dst.hash0 = src.hash0' not in src:
    die('map clone anchor missing')
src += '''

// ---- verif: control of map iteration order (injected by /verif/tools/overlaygen_runtime.py) ----

//go:linkname verifMapMode
var verifMapMode int32

//go:linkname verifMapOffset
var verifMapOffset uintptr

//go:linkname verifMapLastBucket
var verifMapLastBucket int32

//go:linkname verifMapSitePC
var verifMapSitePC uintptr

//go:linkname verifMapSiteOffset
var verifMapSiteOffset uintptr

//go:linkname verifMapOrdinal
var verifMapOrdinal int64 = -1

//go:linkname verifMapOrdinalOffset
var verifMapOrdinalOffset uintptr

//go:linkname verifMapCounter
var verifMapCounter int64

//go:linkname verifMapHash0
var verifMapHash0 uint32

//go:linkname verifMapLogPC
var verifMapLogPC [1 << 16]uintptr

//go:linkname verifMapLogCount
var verifMapLogCount [1 << 16]int

func verifHash0() uint32 {
	if verifMapMode != 0 {
		return verifMapHash0
	}
	return uint32(rand())
}
'''
open(os.path.join(out, 'map.go.txt'), 'w').write(src)
json.dump({'Replace': {path: os.path.join(out, 'map.go.txt')}}, open(os.path.join(out, 'overlay.json'), 'w'), indent=1)
print('runtime overlay for', path)
