// Package memctx builds a bare sdk.Context over an in-memory multistore (no keepers).
package memctx

import (
	"time"

	tmdb "github.com/cometbft/cometbft-db"
	"github.com/cometbft/cometbft/libs/log"
	tmproto "github.com/cometbft/cometbft/proto/tendermint/types"
	"github.com/cosmos/cosmos-sdk/codec"
	codectypes "github.com/cosmos/cosmos-sdk/codec/types"
	"github.com/cosmos/cosmos-sdk/store"
	storetypes "github.com/cosmos/cosmos-sdk/store/types"
	sdk "github.com/cosmos/cosmos-sdk/types"
)

var BaseTime = time.Date(2024, time.May, 1, 0, 0, 0, 0, time.UTC)

// New returns a context at height 10 / BaseTime with one mounted KV store.
func New(name string) (sdk.Context, storetypes.StoreKey, codec.BinaryCodec) {
	db := tmdb.NewMemDB()
	stateStore := store.NewCommitMultiStore(db)
	key := sdk.NewKVStoreKey(name)
	stateStore.MountStoreWithDB(key, storetypes.StoreTypeIAVL, db)
	if err := stateStore.LoadLatestVersion(); err != nil {
		panic(err)
	}
	cdc := codec.NewProtoCodec(codectypes.NewInterfaceRegistry())
	ctx := sdk.NewContext(stateStore, tmproto.Header{Height: 10, Time: BaseTime}, false, log.NewNopLogger())
	return ctx, key, cdc
}
