// Package coopdrv runs cooperative-scheduler harnesses: it shards the schedule tree over worker processes,
// merges statistics and violations, and replays recorded schedules.
package coopdrv

import (
	"encoding/json"
	"fmt"
	"os"
	"os/exec"
	"sort"
	"strconv"
	"strings"
	"sync"
	"time"

	"github.com/lavanet/lava/v5/utils/verifshim/coop"

	"verifmc/engine/ev"
)

// Harness is one closed concurrent system.
type Harness struct {
	Name string
	// Make builds a fresh system on s (register threads with s.Go, set s.OnPoint) and returns the function that
	// evaluates the final oracle after the execution; both report violations through the callback.
	Make    func(s *coop.Sched, report func(key, what string)) (final func())
	Horizon int
}

var harnesses = map[string]map[string]Harness{} // property -> name -> harness

func Register(property string, h Harness) {
	if harnesses[property] == nil {
		harnesses[property] = map[string]Harness{}
	}
	if h.Horizon == 0 {
		h.Horizon = 4000
	}
	harnesses[property][h.Name] = h
}

func Names(property string) []string {
	var n []string
	only := os.Getenv("VERIF_COOP_ONLY") // development aid: restrict to harnesses whose name contains this
	for k := range harnesses[property] {
		if only != "" && !strings.Contains(k, only) {
			continue
		}
		n = append(n, k)
	}
	sort.Strings(n)
	return n
}

type Viol struct {
	Key     string `json:"key"`
	What    string `json:"what"`
	Harness string `json:"harness"`
	Choices []int  `json:"choices"`
	Threads []int  `json:"threads"` // thread chosen at each decision (for reading)
}

type ShardResult struct {
	Stats        coop.Stats     `json:"stats"`
	Viol         []Viol         `json:"viol"`
	Outcomes     map[string]int `json:"outcomes"`
	Inconclusive int            `json:"inconclusive"`
}

// runOne executes one schedule and returns the violations it produced.
func runOne(h Harness, choices []int) (viols []Viol, s *coop.Sched, outcome string) {
	s = coop.NewSched(choices, h.Horizon)
	var found []Viol
	report := func(key, what string) {
		found = append(found, Viol{Key: key, What: what, Harness: h.Name})
	}
	final := h.Make(s, report)
	s.Run()
	if s.Deadlock {
		report("deadlock", "no enabled thread but unfinished threads exist")
	}
	for _, t := range s.Threads {
		if t.Panic != "" {
			report("panic:"+firstLine(t.Panic), "thread "+t.Name+" panicked: "+t.Panic)
		}
	}
	if !s.Deadlock && !s.HorizonHit && s.Diverged == "" && final != nil {
		final()
	}
	return found, s, ""
}

func firstLine(s string) string {
	for i, c := range s {
		if c == '\n' {
			return s[:i]
		}
	}
	return s
}

// Shard explores one shard of the schedule tree (called in a worker process).
func Shard(property, name string, bound, shard, shards int, maxExec int64, outcomeOf func(s *coop.Sched) string) ShardResult {
	h, ok := harnesses[property][name]
	if !ok {
		fmt.Fprintln(os.Stderr, "unknown harness", property, name)
		os.Exit(2)
	}
	res := ShardResult{Outcomes: map[string]int{}}
	seen := map[string]bool{}
	var curFound []Viol
	var curFinal func()
	mk := func(s *coop.Sched) {
		curFound = nil
		curFinal = h.Make(s, func(key, what string) {
			curFound = append(curFound, Viol{Key: key, What: what, Harness: h.Name})
		})
	}
	visit := func(s *coop.Sched) {
		if s.Deadlock {
			curFound = append(curFound, Viol{Key: "deadlock", What: "no enabled thread but unfinished threads exist", Harness: h.Name})
		}
		for _, t := range s.Threads {
			if t.Panic != "" {
				curFound = append(curFound, Viol{Key: "panic:" + firstLine(t.Panic), What: "thread " + t.Name + " panicked: " + t.Panic, Harness: h.Name})
			}
		}
		if !s.Deadlock && !s.HorizonHit && s.Diverged == "" && curFinal != nil {
			curFinal()
		}
		if outcomeOf != nil {
			res.Outcomes[outcomeOf(s)]++
		}
		for _, v := range curFound {
			if seen[v.Key] {
				continue
			}
			seen[v.Key] = true
			// replay 4 more times: the same schedule must fail the same way every time
			ch := s.Choices()
			repro := true
			for i := 0; i < 4 && repro; i++ {
				again, _, _ := runOne(h, ch)
				ok := false
				for _, a := range again {
					ok = ok || a.Key == v.Key
				}
				repro = ok
			}
			if !repro {
				res.Inconclusive++
				continue
			}
			v.Choices = ch
			for _, p := range s.Points {
				v.Threads = append(v.Threads, p.ChosenThread)
			}
			res.Viol = append(res.Viol, v)
		}
	}
	res.Stats = coop.Explore(mk, visit, bound, h.Horizon, shard, shards, maxExec)
	return res
}

type ShardJobResult struct {
	Harness string      `json:"harness"`
	Bound   int         `json:"bound"`
	Skipped bool        `json:"skipped"` // deadline reached before this job started
	Res     ShardResult `json:"res"`
}

// ShardMain is the worker entry: vcoop shard <property> <bounds csv> <i> <n> <maxExec> <deadline seconds>
// One process explores its shard of every harness and every bound (process start-up is expensive).
func ShardMain(args []string, outcomeOf func(s *coop.Sched) string) {
	property := args[0]
	var bounds []int
	for _, b := range splitCSV(args[1]) {
		v, _ := strconv.Atoi(b)
		bounds = append(bounds, v)
	}
	i, _ := strconv.Atoi(args[2])
	n, _ := strconv.Atoi(args[3])
	maxExec, _ := strconv.ParseInt(args[4], 10, 64)
	dl, _ := strconv.Atoi(args[5])
	start := time.Now()
	var out []ShardJobResult
	for _, name := range Names(property) {
		for _, b := range bounds {
			if time.Since(start) > time.Duration(dl)*time.Second {
				out = append(out, ShardJobResult{Harness: name, Bound: b, Skipped: true})
				continue
			}
			out = append(out, ShardJobResult{Harness: name, Bound: b, Res: Shard(property, name, b, i, n, maxExec, outcomeOf)})
		}
	}
	json.NewEncoder(os.Stdout).Encode(out)
}

func splitCSV(s string) []string {
	var out []string
	cur := ""
	for _, c := range s {
		if c == ',' {
			out = append(out, cur)
			cur = ""
		} else {
			cur += string(c)
		}
	}
	return append(out, cur)
}

// Run explores every harness of a property with the iterated preemption bounds and fills the evidence.
func Run(run *ev.Run, property string, bounds []int, shards int, perShardCap int64, deadline time.Duration) {
	exe, _ := os.Executable()
	bcsv := ""
	for i, b := range bounds {
		if i > 0 {
			bcsv += ","
		}
		bcsv += strconv.Itoa(b)
	}
	results := make([][]ShardJobResult, shards)
	errs := make([]error, shards)
	var wg sync.WaitGroup
	for i := 0; i < shards; i++ {
		wg.Add(1)
		go func(i int) {
			defer wg.Done()
			cmd := exec.Command(exe, "shard", property, bcsv, strconv.Itoa(i), strconv.Itoa(shards), strconv.FormatInt(perShardCap, 10), strconv.Itoa(int(deadline.Seconds())))
			cmd.Env = append(os.Environ(), "GOMAXPROCS=1")
			cmd.Stderr = os.Stderr
			out, err := cmd.Output()
			if err != nil {
				errs[i] = err
				return
			}
			errs[i] = json.Unmarshal(out, &results[i])
		}(i)
	}
	wg.Wait()
	exhaustive := true
	completed := map[string]int{}
	for i, e := range errs {
		if e != nil {
			run.Set(fmt.Sprintf("shard%d.error", i), e.Error())
			exhaustive = false
		}
	}
	for _, name := range Names(property) {
		completed[name] = -1
		for _, b := range bounds {
			var agg coop.Stats
			outcomes := map[string]int{}
			inconcl := 0
			skipped := false
			for i := range results {
				if errs[i] != nil {
					continue
				}
				for _, jr := range results[i] {
					if jr.Harness != name || jr.Bound != b {
						continue
					}
					if jr.Skipped {
						skipped = true
						continue
					}
					r := jr.Res
					agg.Executions += r.Stats.Executions
					agg.Decisions += r.Stats.Decisions
					agg.Deadlocks += r.Stats.Deadlocks
					agg.HorizonHits += r.Stats.HorizonHits
					agg.Diverged += r.Stats.Diverged
					agg.Capped = agg.Capped || r.Stats.Capped
					if r.Stats.MaxDecisions > agg.MaxDecisions {
						agg.MaxDecisions = r.Stats.MaxDecisions
					}
					inconcl += r.Inconclusive
					for k, v := range r.Outcomes {
						outcomes[k] += v
					}
					for _, v := range r.Viol {
						run.Violate(ev.Violation{Property: property, Key: v.Harness + "/" + v.Key, What: v.Harness + ": " + v.What, Replay: v})
					}
				}
			}
			p := fmt.Sprintf("%s.bound%d", name, b)
			if skipped {
				run.Set(p+".skipped_deadline", true)
				exhaustive = false
				continue
			}
			run.Set(p+".executions", agg.Executions)
			run.Set(p+".decisions", agg.Decisions)
			run.Set(p+".max_decisions_in_one_execution", agg.MaxDecisions)
			run.Set(p+".distinct_outcomes", len(outcomes))
			run.Set(p+".outcomes", outcomes)
			if agg.Capped {
				run.Set(p+".capped", true)
			}
			if agg.HorizonHits > 0 {
				run.Set(p+".horizon_hits", agg.HorizonHits)
			}
			if agg.Diverged > 0 {
				run.Set(p+".diverged_replays_harness_error", agg.Diverged)
			}
			if inconcl > 0 {
				run.Set(p+".inconclusive", inconcl)
			}
			run.Add("states", agg.Decisions+agg.Executions)
			run.Add("transitions", agg.Decisions+agg.Executions)
			run.Add("traces_validated_against_impl", agg.Executions)
			run.Add("schedules", agg.Executions)
			if agg.Capped || agg.HorizonHits > 0 || agg.Diverged > 0 {
				exhaustive = false
			} else if completed[name] == b-1 || completed[name] == -1 {
				completed[name] = b
			}
		}
		run.Sample(map[string]interface{}{"harness": name, "preemption_bound_completed": completed[name]})
	}
	run.Set("preemption_bound_completed", completed)
	run.Set("exhaustive", exhaustive)
}

// Replay re-executes one recorded schedule and prints what it violates.
func Replay(property string, v Viol) int {
	h, ok := harnesses[property][v.Harness]
	if !ok {
		fmt.Println("unknown harness", v.Harness)
		return 2
	}
	found, s, _ := runOne(h, v.Choices)
	fmt.Printf("replayed %d decisions, diverged=%q deadlock=%v\n", len(s.Points), s.Diverged, s.Deadlock)
	rc := 0
	for _, f := range found {
		fmt.Printf("VIOLATION property=%s key=%s %s\n", property, f.Key, f.What)
		rc = 1
	}
	return rc
}
