// Package ev writes evidence files, violation artefacts and handles known findings.
package ev

import (
	"bufio"
	"crypto/sha256"
	"encoding/hex"
	"encoding/json"
	"fmt"
	"os"
	"path/filepath"
	"sort"
	"strconv"
	"strings"
	"sync"
	"time"
)

// Root is the /verif directory (overridable for tests through VERIF_ROOT).
func Root() string {
	if r := os.Getenv("VERIF_ROOT"); r != "" {
		return r
	}
	return "/verif"
}

func Tier() string {
	if t := os.Getenv("VERIF_TIER"); t == "thorough" {
		return "thorough"
	}
	return "quick"
}

func Seed() int64 {
	s, _ := strconv.ParseInt(os.Getenv("VERIF_SEED"), 10, 64)
	return s
}

// Violation is one concrete counterexample.
type Violation struct {
	Property string      `json:"property"`
	Key      string      `json:"key"`  // canonical key used to match known findings
	What     string      `json:"what"` // human readable description
	Replay   interface{} `json:"replay"`
}

type Finding struct {
	Property string `json:"property"`
	Key      string `json:"key"`
	What     string `json:"what"`
	Status   string `json:"status"` // known | fixed
	Commit   string `json:"commit,omitempty"`
}

func LoadFindings() []Finding {
	f, err := os.Open(filepath.Join(Root(), "known_findings.jsonl"))
	if err != nil {
		return nil
	}
	defer f.Close()
	var out []Finding
	sc := bufio.NewScanner(f)
	sc.Buffer(make([]byte, 1<<20), 1<<20)
	for sc.Scan() {
		line := strings.TrimSpace(sc.Text())
		if line == "" || strings.HasPrefix(line, "#") {
			continue
		}
		var fd Finding
		if json.Unmarshal([]byte(line), &fd) == nil {
			out = append(out, fd)
		}
	}
	return out
}

// Run collects what a check did.
type Run struct {
	mu          sync.Mutex
	Property    string
	Level       string
	start       time.Time
	Coverage    map[string]interface{}
	Assumptions []string
	violations  []Violation
	seenKeys    map[string]bool
	samples     []interface{}
	MaxSamples  int
}

func NewRun(property, level string) *Run {
	return &Run{Property: property, Level: level, start: time.Now(), Coverage: map[string]interface{}{}, seenKeys: map[string]bool{}, MaxSamples: 6}
}

func (r *Run) Set(k string, v interface{}) {
	r.mu.Lock()
	r.Coverage[k] = v
	r.mu.Unlock()
}

func (r *Run) Add(k string, n int64) {
	r.mu.Lock()
	cur, _ := r.Coverage[k].(int64)
	r.Coverage[k] = cur + n
	r.mu.Unlock()
}

func (r *Run) Get(k string) int64 {
	r.mu.Lock()
	defer r.mu.Unlock()
	cur, _ := r.Coverage[k].(int64)
	return cur
}

func (r *Run) Sample(s interface{}) {
	r.mu.Lock()
	if len(r.samples) < r.MaxSamples {
		r.samples = append(r.samples, s)
	}
	r.mu.Unlock()
}

func (r *Run) Assume(s string) { r.Assumptions = append(r.Assumptions, s) }

// Violate records a violation (deduplicated by key).
func (r *Run) Violate(v Violation) {
	r.mu.Lock()
	defer r.mu.Unlock()
	if v.Property == "" {
		v.Property = r.Property
	}
	k := v.Property + "|" + v.Key
	if r.seenKeys[k] {
		return
	}
	r.seenKeys[k] = true
	r.violations = append(r.violations, v)
}

func (r *Run) NumViolations() int {
	r.mu.Lock()
	defer r.mu.Unlock()
	return len(r.violations)
}

// Finish writes the evidence file, prints VIOLATION / KNOWN-FINDING lines and returns the exit code.
func (r *Run) Finish() int {
	r.mu.Lock()
	defer r.mu.Unlock()
	findings := LoadFindings()
	known := map[string]Finding{}
	for _, f := range findings {
		if f.Status == "known" {
			known[f.Property+"|"+f.Key] = f
		}
	}
	sort.SliceStable(r.violations, func(i, j int) bool { return r.violations[i].Key < r.violations[j].Key })
	exit := 0
	newViol := 0
	knownHit := []string{}
	for _, v := range r.violations {
		if f, ok := known[v.Property+"|"+v.Key]; ok {
			fmt.Printf("KNOWN-FINDING: property=%s %s\n", v.Property, f.What)
			knownHit = append(knownHit, v.Key)
			continue
		}
		newViol++
		path := writeReplay(v)
		fmt.Printf("VIOLATION property=%s replay=%s\n", v.Property, path)
		fmt.Printf("  key=%s what=%s\n", v.Key, v.What)
		exit = 1
	}
	if len(r.samples) == 0 {
		r.samples = append(r.samples, "no sample recorded")
	}
	r.Coverage["samples"] = r.samples
	if len(knownHit) > 0 {
		r.Coverage["known_findings_reproduced"] = knownHit
	}
	evd := map[string]interface{}{
		"property_id": r.Property,
		"tier":        Tier(),
		"seed":        Seed(),
		"level":       r.Level,
		"coverage":    r.Coverage,
		"assumptions": r.Assumptions,
		"wall_s":      time.Since(r.start).Seconds(),
		"violations":  newViol,
	}
	if r.Assumptions == nil {
		evd["assumptions"] = []string{}
	}
	dir := filepath.Join(Root(), "evidence")
	os.MkdirAll(dir, 0o755)
	// a property decided by two binaries (e.g. a sequential exploration and a schedule exploration): the second
	// run merges into the evidence the first one has just written (VERIF_EVIDENCE_MERGE=<prefix for its coverage keys>)
	if prefix := os.Getenv("VERIF_EVIDENCE_MERGE"); prefix != "" {
		if old, err := os.ReadFile(filepath.Join(dir, r.Property+".json")); err == nil {
			var prev map[string]interface{}
			if json.Unmarshal(old, &prev) == nil {
				evd = mergeEvidence(prev, evd, prefix)
			}
		}
	}
	b, _ := json.MarshalIndent(evd, "", " ")
	if err := os.WriteFile(filepath.Join(dir, r.Property+".json"), b, 0o644); err != nil {
		fmt.Fprintln(os.Stderr, "cannot write evidence:", err)
	}
	return exit
}

func writeReplay(v Violation) string {
	b, _ := json.MarshalIndent(v, "", " ")
	h := sha256.Sum256(b)
	dir := filepath.Join(Root(), "replays", v.Property)
	os.MkdirAll(dir, 0o755)
	p := filepath.Join(dir, hex.EncodeToString(h[:6])+".json")
	os.WriteFile(p, b, 0o644)
	return p
}

// Violations returns the violations recorded so far.
func (r *Run) Violations() []Violation {
	r.mu.Lock()
	defer r.mu.Unlock()
	return append([]Violation{}, r.violations...)
}

// mergeEvidence folds the evidence of a second run (cur) into that of the first (prev): coverage keys of cur are
// prefixed, states/transitions/traces are summed, exhaustive is the conjunction, assumptions are united.
func mergeEvidence(prev, cur map[string]interface{}, prefix string) map[string]interface{} {
	pc, _ := prev["coverage"].(map[string]interface{})
	cc, _ := cur["coverage"].(map[string]interface{})
	if pc == nil {
		pc = map[string]interface{}{}
	}
	num := func(v interface{}) (float64, bool) {
		switch x := v.(type) {
		case float64:
			return x, true
		case int64:
			return float64(x), true
		case int:
			return float64(x), true
		}
		return 0, false
	}
	for k, v := range cc {
		switch k {
		case "states", "transitions", "traces_validated_against_impl", "executions":
			a, ok1 := num(pc[k])
			b, ok2 := num(v)
			if ok1 && ok2 {
				pc[k] = int64(a + b)
			} else if ok2 {
				pc[k] = v
			}
			pc[prefix+"."+k] = v
		case "exhaustive":
			a, ok1 := pc[k].(bool)
			b, _ := v.(bool)
			if ok1 {
				pc[k] = a && b
			} else {
				pc[k] = b
			}
			pc[prefix+"."+k] = v
		case "samples":
			if ps, ok := pc[k].([]interface{}); ok {
				if cs, ok := v.([]interface{}); ok {
					pc[k] = append(ps, cs...)
					continue
				}
			}
			pc[prefix+"."+k] = v
		case "known_findings_reproduced":
			ps, _ := pc[k].([]interface{})
			if cs, ok := v.([]string); ok {
				for _, c := range cs {
					ps = append(ps, c)
				}
			}
			pc[k] = ps
		default:
			pc[prefix+"."+k] = v
		}
	}
	prev["coverage"] = pc
	pa, _ := prev["assumptions"].([]interface{})
	if ca, ok := cur["assumptions"].([]string); ok {
		for _, a := range ca {
			pa = append(pa, a)
		}
	}
	prev["assumptions"] = pa
	a, _ := num(prev["wall_s"])
	b, _ := num(cur["wall_s"])
	prev["wall_s"] = a + b
	va, _ := num(prev["violations"])
	vb, _ := num(cur["violations"])
	prev["violations"] = int(va + vb)
	return prev
}

// Guard runs a check body and turns a panic of the harness itself (typically a fixture that is built with real
// transactions and blocks and can no longer be built on the tree under test) into a reported violation instead of a
// crash: on the unchanged tree this never happens; on a changed tree it means ordinary valid operations of the fixture
// stopped working, which the check cannot tell apart from a broken property, so it says so and exits 1.
func (r *Run) Guard(body func()) {
	defer func() {
		if p := recover(); p != nil {
			msg := fmt.Sprint(p)
			first := msg
			if i := strings.IndexByte(first, '\n'); i >= 0 {
				first = first[:i]
			}
			if len(first) > 200 {
				first = first[:200]
			}
			r.Violate(Violation{Key: "check-could-not-run", What: "the check's own fixture/harness panicked on this tree (its setup uses only ordinary valid operations): " + first,
				Replay: map[string]interface{}{"panic": msg}})
			r.Set("exhaustive", false)
			r.Set("harness_panic", first)
			for _, k := range []string{"states", "transitions", "traces_validated_against_impl"} {
				r.mu.Lock()
				_, ok := r.Coverage[k]
				r.mu.Unlock()
				if !ok {
					r.Set(k, int64(0))
				}
			}
		}
	}()
	body()
}
