// Package reg is the registry of checks (property id -> function).
package reg

import (
	"sort"

	"verifmc/engine/ev"
)

type Check struct {
	Property string
	Level    string // evidence level
	Run      func(run *ev.Run)
}

var checks = map[string]Check{}

func Register(c Check) { checks[c.Property] = c }

func Get(id string) (Check, bool) { c, ok := checks[id]; return c, ok }

func IDs() []string {
	var ids []string
	for k := range checks {
		ids = append(ids, k)
	}
	sort.Strings(ids)
	return ids
}
