// Package events is the event-order exploration engine E2 (DESIGN.md §2.4).
//
// A harness wraps the real code under test in a closed system whose only nondeterminism is the order of
// environment events (arrivals, gated answers, cancellations, virtual-clock timers). The explorer runs a
// stateless depth-first search over all sequences of enabled events: after delivering one event it waits
// until every goroutine of the execution is blocked (quiescence, from runtime.Stack goroutine states, with
// GOMAXPROCS=1 and GODEBUG=asyncpreemptoff=1), then evaluates the oracle and asks the harness which events
// are enabled next. Every candidate violation is re-executed 5 times from its recorded event list and is
// reported only when it reproduces every time (otherwise it is counted as inconclusive).
//
// The engine itself does not depend on the overlay; harnesses that need the virtual clock import
// github.com/lavanet/lava/v5/utils/verifshim/events/clock (see tools/overlaygen_events.py).
package events

import (
	"bytes"
	"encoding/json"
	"fmt"
	"hash/fnv"
	"os"
	"os/exec"
	"runtime"
	"sort"
	"strconv"
	"strings"
	"sync"
	"syscall"
	"time"

	"verifmc/engine/ev"
)

// Event is one environment event offered at a quiescent point.
type Event struct {
	Name string
	// Deviation marks environment misbehaviour (cancellation, early timer, injected error) that is
	// charged against Harness.MaxDeviations when a non-deviation event is enabled at the same time.
	Deviation bool
}

// Reporter records an oracle failure: key is the short canonical kind, what the readable description.
type Reporter func(key, what string)

// System is one fresh instance of the closed system under exploration. All methods are called by the
// explorer goroutine at quiescent points only.
type System interface {
	Enabled() []Event      // enabled events in a canonical order
	Deliver(name string)   // perform the event; must not block
	Check(report Reporter) // invariants that hold at every quiescent point
	Final(report Reporter) // called once when no event is enabled any more
	Outcome() string       // canonical summary of the observable result of the execution
	Close()                // release gates, contexts, goroutines
}

// Harness describes one bounded scenario.
type Harness struct {
	Name          string
	Make          func() System
	Horizon       int  // maximal number of events in one execution (default 64)
	MaxDeviations int  // < 0: unlimited
	ThoroughOnly  bool // explored in the thorough tier only
}

var harnesses = map[string]map[string]Harness{}

func Register(property string, h Harness) {
	if harnesses[property] == nil {
		harnesses[property] = map[string]Harness{}
	}
	if h.Horizon == 0 {
		h.Horizon = 64
	}
	harnesses[property][h.Name] = h
}

// Names lists the harnesses of a property that belong to the tier.
func Names(property, tier string) []string {
	var n []string
	for k, h := range harnesses[property] {
		if h.ThoroughOnly && tier != "thorough" {
			continue
		}
		if only := os.Getenv("VERIF_EVENTS_ONLY"); only != "" && only != k { // debugging aid: one harness
			continue
		}
		n = append(n, k)
	}
	sort.Strings(n)
	return n
}

// ---------------------------------------------------------------------------------------------------
// quiescence

var (
	stackBuf = make([]byte, 1<<20)
	baseline = map[string]bool{} // goroutine ids that existed before the exploration started
	// QuiesceSamples counts runtime.Stack samples (statistics).
	QuiesceSamples int64
	lastBusy       string
)

var goroutineHdr = []byte("goroutine ")

// scan parses the headers `goroutine N [status(, M minutes)?]:` of runtime.Stack(all).
func scan(f func(id, status string)) {
	n := runtime.Stack(stackBuf, true)
	for n == len(stackBuf) {
		stackBuf = make([]byte, 2*len(stackBuf))
		n = runtime.Stack(stackBuf, true)
	}
	b := stackBuf[:n]
	for len(b) > 0 {
		if bytes.HasPrefix(b, goroutineHdr) {
			eol := bytes.IndexByte(b, '\n')
			if eol < 0 {
				eol = len(b)
			}
			line := b[len(goroutineHdr):eol]
			sp := bytes.IndexByte(line, ' ')
			lb := bytes.IndexByte(line, '[')
			rb := bytes.LastIndexByte(line, ']')
			if sp > 0 && lb > sp && rb > lb {
				st := line[lb+1 : rb]
				if c := bytes.IndexByte(st, ','); c >= 0 {
					st = st[:c]
				}
				f(string(line[:sp]), string(st))
			}
		}
		// next block starts after an empty line
		i := bytes.Index(b, []byte("\n\n"))
		if i < 0 {
			break
		}
		b = b[i+2:]
	}
}

// InitBaseline records the goroutines that exist now; they are ignored by Quiesce.
func InitBaseline() {
	baseline = map[string]bool{}
	scan(func(id, status string) { baseline[id] = true })
}

func blockedStatus(st string) bool {
	switch {
	case strings.HasPrefix(st, "running"), strings.HasPrefix(st, "runnable"), strings.HasPrefix(st, "syscall"),
		strings.HasPrefix(st, "copystack"), strings.HasPrefix(st, "preempted"), strings.HasPrefix(st, "idle"),
		strings.HasPrefix(st, "dead"), strings.HasPrefix(st, "???"):
		return false
	}
	// every remaining status is a wait reason: chan receive, chan send, select, semacquire, sync.Mutex.Lock,
	// sync.RWMutex.*, sync.Cond.Wait, sync.WaitGroup.Wait, sleep, IO wait, ...
	return true
}

// Quiesce yields until every goroutine created since InitBaseline (other than the caller) is blocked.
func Quiesce() bool {
	for iter := 0; iter < 200000; iter++ {
		runtime.Gosched()
		first := true
		busy := ""
		QuiesceSamples++
		scan(func(id, status string) {
			if first { // the first block is the calling goroutine
				first = false
				return
			}
			if busy != "" || baseline[id] {
				return
			}
			if !blockedStatus(status) {
				busy = id + " [" + status + "]"
			}
		})
		if busy == "" {
			return true
		}
		lastBusy = busy
	}
	return false
}

// Goroutines counts the goroutines that do not belong to the baseline (the caller included).
func Goroutines() int {
	n := 0
	scan(func(id, status string) {
		if !baseline[id] {
			n++
		}
	})
	return n
}

// ---------------------------------------------------------------------------------------------------
// one execution

type frame struct {
	names  []string
	choice int
}

// Viol is a confirmed violation with the event list that reproduces it.
type Viol struct {
	Key     string   `json:"key"`
	What    string   `json:"what"`
	Harness string   `json:"harness"`
	Trace   []string `json:"trace"` // the complete event order of the execution
	At      int      `json:"at"`    // number of events delivered when the oracle first failed
}

const (
	stDone = iota
	stHorizon
	stDiverged
	stNoQuiesce
	stNotMine
)

type found struct {
	key, what string
	at        int
}

type execResult struct {
	frames  []frame
	trace   []string
	found   []found
	outcome string
	status  int
	detail  string
}

type shardSpec struct{ depth, i, n int }

func (s *shardSpec) mine(trace []string) bool {
	if s == nil || s.n <= 1 {
		return true
	}
	h := fnv.New32a()
	for _, t := range trace {
		h.Write([]byte(t))
		h.Write([]byte{0})
	}
	return int(h.Sum32()%uint32(s.n)) == s.i
}

// execute runs one execution. `expect` is the recorded path to follow (choices and the enabled sets that must be
// observed again); beyond it the first enabled event is taken. With byName != nil the events are taken from that
// list by name instead (replay).
func execute(h Harness, expect []frame, byName []string, shard *shardSpec) (res execResult) {
	sys := h.Make()
	defer func() {
		sys.Close()
		Quiesce()
	}()
	seen := map[string]bool{}
	delivered := 0
	report := func(key, what string) {
		if !seen[key] {
			seen[key] = true
			res.found = append(res.found, found{key, what, delivered})
		}
	}
	if !Quiesce() {
		res.status, res.detail = stNoQuiesce, lastBusy
		return
	}
	sys.Check(report)
	deviations := 0
	for depth := 0; ; depth++ {
		all := sys.Enabled()
		plain := false
		for _, e := range all {
			plain = plain || !e.Deviation
		}
		var names []string
		dev := map[string]bool{}
		for _, e := range all {
			if e.Deviation && plain {
				if h.MaxDeviations >= 0 && deviations >= h.MaxDeviations {
					continue
				}
				dev[e.Name] = true
			}
			names = append(names, e.Name)
		}
		if len(names) == 0 {
			if shard != nil && depth <= shard.depth && !shard.mine(res.trace) {
				res.status = stNotMine
				res.frames = expectOr(res.frames, expect)
				return
			}
			sys.Final(report)
			break
		}
		if depth >= h.Horizon {
			res.status = stHorizon
			break
		}
		if shard != nil && depth == shard.depth && !shard.mine(res.trace) {
			res.status = stNotMine
			res.frames = expectOr(res.frames, expect)
			return
		}
		c := 0
		switch {
		case byName != nil:
			if depth >= len(byName) {
				res.status, res.detail = stDiverged, "replay list exhausted while events are still enabled"
				res.outcome = sys.Outcome()
				return
			}
			c = -1
			for i, n := range names {
				if n == byName[depth] {
					c = i
				}
			}
			if c < 0 {
				res.status, res.detail = stDiverged, fmt.Sprintf("event %q not enabled at step %d (enabled: %v)", byName[depth], depth, names)
				res.outcome = sys.Outcome()
				return
			}
		case depth < len(expect):
			if !equalStrings(expect[depth].names, names) {
				res.status = stDiverged
				res.detail = fmt.Sprintf("after %v: enabled %v, previously %v", res.trace, names, expect[depth].names)
				res.frames = expect
				return
			}
			c = expect[depth].choice
		}
		res.frames = append(res.frames, frame{names, c})
		res.trace = append(res.trace, names[c])
		if dev[names[c]] {
			deviations++
		}
		sys.Deliver(names[c])
		if !Quiesce() {
			delivered++
			res.status, res.detail = stNoQuiesce, lastBusy
			res.frames = expectOr(res.frames, expect)
			return
		}
		delivered++
		sys.Check(report)
	}
	res.outcome = sys.Outcome()
	return
}

func expectOr(frames, expect []frame) []frame {
	if len(frames) >= len(expect) {
		return frames
	}
	return expect
}

func equalStrings(a, b []string) bool {
	if len(a) != len(b) {
		return false
	}
	for i := range a {
		if a[i] != b[i] {
			return false
		}
	}
	return true
}

// ---------------------------------------------------------------------------------------------------
// exploration (one shard)

type Sample struct {
	Harness string   `json:"harness"`
	Trace   []string `json:"events"`
	Outcome string   `json:"outcome"`
}

// HarnessResult is what one worker measured for one harness.
type HarnessResult struct {
	Harness      string           `json:"harness"`
	Skipped      bool             `json:"skipped"` // deadline reached before this harness started
	Executions   int64            `json:"executions"`
	Events       int64            `json:"events"`
	Prefixes     int64            `json:"prefix_probes"` // partial executions that only located another shard's subtree
	HorizonHits  int64            `json:"horizon_hits"`
	Diverged     int64            `json:"diverged"`
	NoQuiesce    int64            `json:"no_quiescence"`
	Inconclusive int64            `json:"inconclusive"`
	MaxLen       int              `json:"max_len"`
	Capped       bool             `json:"capped"`
	Detail       string           `json:"detail,omitempty"`
	Outcomes     map[string]int64 `json:"outcomes"`
	KeyCounts    map[string]int64 `json:"key_counts"`
	Viol         []Viol           `json:"viol"`
	Samples      []Sample         `json:"samples"`
	Goroutines   int              `json:"goroutines_left"`
}

// ReplayTimes is the number of re-executions a candidate violation must survive.
const ReplayTimes = 5

func confirm(h Harness, key string, trace []string) bool {
	for i := 0; i < ReplayTimes; i++ {
		r := execute(h, nil, trace, nil)
		ok := false
		for _, f := range r.found {
			ok = ok || f.key == key
		}
		if !ok || !equalStrings(r.trace, trace) {
			return false
		}
	}
	return true
}

// Explore enumerates every event order of one harness that belongs to the shard.
func Explore(h Harness, shard *shardSpec, deadline time.Time) HarnessResult {
	res := HarnessResult{Harness: h.Name, Outcomes: map[string]int64{}, KeyCounts: map[string]int64{}}
	decided := map[string]int{} // key -> length of the shortest confirmed event order
	var stack []frame
	for {
		r := execute(h, stack, nil, shard)
		stack = r.frames
		switch r.status {
		case stNotMine:
			res.Prefixes++
		case stDiverged:
			res.Diverged++
			res.Detail = "diverged: " + r.detail
		case stNoQuiesce:
			res.NoQuiesce++
			res.Detail = "no quiescence: " + r.detail
		default:
			if r.status == stHorizon {
				res.HorizonHits++
			}
			res.Executions++
			res.Events += int64(len(r.trace))
			if len(r.trace) > res.MaxLen {
				res.MaxLen = len(r.trace)
			}
			res.Outcomes[r.outcome]++
			if res.Outcomes[r.outcome] == 1 && len(res.Samples) < 4 {
				res.Samples = append(res.Samples, Sample{h.Name, r.trace, r.outcome})
			}
			for _, f := range r.found {
				res.KeyCounts[f.key]++
				// keep the shortest confirmed event order per key
				if best, ok := decided[f.key]; ok && best <= len(r.trace) {
					continue
				}
				if confirm(h, f.key, r.trace) {
					if _, ok := decided[f.key]; ok {
						for i := range res.Viol {
							if res.Viol[i].Key == f.key {
								res.Viol[i] = Viol{Key: f.key, What: f.what, Harness: h.Name, Trace: r.trace, At: f.at}
							}
						}
					} else {
						res.Viol = append(res.Viol, Viol{Key: f.key, What: f.what, Harness: h.Name, Trace: r.trace, At: f.at})
					}
					decided[f.key] = len(r.trace)
				} else {
					res.Inconclusive++
				}
			}
		}
		for len(stack) > 0 {
			top := &stack[len(stack)-1]
			if top.choice+1 < len(top.names) {
				top.choice++
				break
			}
			stack = stack[:len(stack)-1]
		}
		if len(stack) == 0 {
			break
		}
		if time.Now().After(deadline) {
			res.Capped = true
			break
		}
	}
	res.Goroutines = Goroutines()
	return res
}

// ---------------------------------------------------------------------------------------------------
// worker process

// EnsureWorkerEnv re-executes the process with GOMAXPROCS=1 and GODEBUG=asyncpreemptoff=1 when they are not set.
func EnsureWorkerEnv() {
	if os.Getenv("GOMAXPROCS") == "1" && strings.Contains(os.Getenv("GODEBUG"), "asyncpreemptoff=1") {
		return
	}
	exe, err := os.Executable()
	if err != nil {
		fmt.Fprintln(os.Stderr, "events: cannot re-exec:", err)
		os.Exit(2)
	}
	env := append(os.Environ(), "GOMAXPROCS=1", "GODEBUG=asyncpreemptoff=1")
	if err := syscall.Exec(exe, os.Args, env); err != nil {
		fmt.Fprintln(os.Stderr, "events: cannot re-exec:", err)
		os.Exit(2)
	}
}

func workerEnv() []string {
	return append(os.Environ(), "GOMAXPROCS=1", "GODEBUG=asyncpreemptoff=1")
}

// ShardMain is the worker entry: <exe> evshard <property> <i> <n> <shardDepth> <deadline seconds>.
// One process explores its shard of every harness of the tier (VERIF_TIER).
func ShardMain(args []string) {
	EnsureWorkerEnv()
	out := os.Stdout
	os.Stdout = os.Stderr
	property := args[0]
	i, _ := strconv.Atoi(args[1])
	n, _ := strconv.Atoi(args[2])
	sd, _ := strconv.Atoi(args[3])
	dl, _ := strconv.Atoi(args[4])
	deadline := time.Now().Add(time.Duration(dl) * time.Second)
	InitBaseline()
	var results []HarnessResult
	for _, name := range Names(property, ev.Tier()) {
		if time.Now().After(deadline) {
			results = append(results, HarnessResult{Harness: name, Skipped: true})
			continue
		}
		results = append(results, Explore(harnesses[property][name], &shardSpec{sd, i, n}, deadline))
	}
	json.NewEncoder(out).Encode(results)
}

// ---------------------------------------------------------------------------------------------------
// driver

type RunConfig struct {
	Shards     int
	ShardDepth int
	Deadline   time.Duration
}

// Run explores every harness of the property in worker processes and fills the evidence.
// It returns the merged outcome counts per harness.
func Run(run *ev.Run, property string, cfg RunConfig) map[string]map[string]int64 {
	exe, _ := os.Executable()
	results := make([][]HarnessResult, cfg.Shards)
	errs := make([]error, cfg.Shards)
	var wg sync.WaitGroup
	for i := 0; i < cfg.Shards; i++ {
		wg.Add(1)
		go func(i int) {
			defer wg.Done()
			cmd := exec.Command(exe, "evshard", property, strconv.Itoa(i), strconv.Itoa(cfg.Shards), strconv.Itoa(cfg.ShardDepth), strconv.Itoa(int(cfg.Deadline.Seconds())))
			cmd.Env = workerEnv()
			cmd.Stderr = os.Stderr
			out, err := cmd.Output()
			if err != nil {
				errs[i] = err
				return
			}
			errs[i] = json.Unmarshal(out, &results[i])
		}(i)
	}
	wg.Wait()
	exhaustive := true
	for i, e := range errs {
		if e != nil {
			run.Set(fmt.Sprintf("shard%d.error", i), e.Error())
			exhaustive = false
		}
	}
	allOutcomes := map[string]bool{}
	bestViol := map[string]Viol{}
	merged := map[string]map[string]int64{}
	names := Names(property, ev.Tier())
	for _, name := range names {
		agg := HarnessResult{Harness: name, Outcomes: map[string]int64{}, KeyCounts: map[string]int64{}}
		for i := range results {
			if errs[i] != nil {
				continue
			}
			for _, r := range results[i] {
				if r.Harness != name {
					continue
				}
				if r.Skipped {
					agg.Skipped = true
					continue
				}
				agg.Executions += r.Executions
				agg.Events += r.Events
				agg.Prefixes += r.Prefixes
				agg.HorizonHits += r.HorizonHits
				agg.Diverged += r.Diverged
				agg.NoQuiesce += r.NoQuiesce
				agg.Inconclusive += r.Inconclusive
				agg.Capped = agg.Capped || r.Capped
				if r.Detail != "" {
					agg.Detail = r.Detail
				}
				if r.MaxLen > agg.MaxLen {
					agg.MaxLen = r.MaxLen
				}
				if r.Goroutines > agg.Goroutines {
					agg.Goroutines = r.Goroutines
				}
				for k, v := range r.Outcomes {
					agg.Outcomes[k] += v
				}
				for k, v := range r.KeyCounts {
					agg.KeyCounts[k] += v
				}
				for _, v := range r.Viol {
					if b, ok := bestViol[v.Key]; !ok || len(v.Trace) < len(b.Trace) ||
						(len(v.Trace) == len(b.Trace) && tieKey(v) < tieKey(b)) {
						bestViol[v.Key] = v
					}
				}
				if i == 0 {
					for _, s := range r.Samples {
						run.Sample(s)
					}
				}
			}
		}
		p := name
		if agg.Skipped {
			run.Set(p+".skipped_deadline", true)
			exhaustive = false
		}
		run.Set(p+".executions", agg.Executions)
		run.Set(p+".events_delivered", agg.Events)
		run.Set(p+".longest_execution", agg.MaxLen)
		run.Set(p+".distinct_outcomes", len(agg.Outcomes))
		if len(agg.Outcomes) <= 64 {
			run.Set(p+".outcomes", agg.Outcomes)
		}
		if len(agg.KeyCounts) > 0 {
			run.Set(p+".executions_failing_oracle_by_key", agg.KeyCounts)
		}
		for k, v := range map[string]int64{"horizon_hits": agg.HorizonHits, "diverged_replays": agg.Diverged, "no_quiescence": agg.NoQuiesce, "inconclusive": agg.Inconclusive} {
			if v > 0 {
				run.Set(p+"."+k, v)
			}
		}
		if agg.Detail != "" {
			run.Set(p+".detail", agg.Detail)
		}
		if agg.Capped {
			run.Set(p+".capped_deadline", true)
		}
		if agg.Goroutines > 3 {
			run.Set(p+".goroutines_left_after_exploration", agg.Goroutines)
		}
		if agg.Capped || agg.HorizonHits > 0 || agg.Diverged > 0 || agg.NoQuiesce > 0 {
			exhaustive = false
		}
		for k := range agg.Outcomes {
			allOutcomes[name+"/"+k] = true
		}
		merged[name] = agg.Outcomes
		run.Add("executions", agg.Executions)
		run.Add("events_delivered", agg.Events)
		run.Add("inconclusive", agg.Inconclusive)
		run.Add("states", agg.Events+agg.Executions) // quiescent points at which the oracle was evaluated
		run.Add("transitions", agg.Events)
		run.Add("traces_validated_against_impl", agg.Executions)
	}
	var vkeys []string
	for k := range bestViol {
		vkeys = append(vkeys, k)
	}
	sort.Strings(vkeys)
	for _, k := range vkeys {
		v := bestViol[k]
		run.Violate(ev.Violation{Property: property, Key: v.Key, What: fmt.Sprintf("%s [harness %s, event order: %s; oracle failed after event %d]", v.What, v.Harness, strings.Join(v.Trace, " -> "), v.At), Replay: v})
	}
	var perShard []int64
	for i := range results {
		var n int64
		for _, r := range results[i] {
			n += r.Executions
		}
		perShard = append(perShard, n)
	}
	run.Set("executions_per_worker", perShard)
	run.Set("distinct_outcomes", len(allOutcomes))
	run.Set("harnesses", names)
	run.Set("exhaustive", exhaustive)
	run.Set("replays_per_candidate_violation", ReplayTimes)
	return merged
}

// tieKey orders equally long counterexamples: fewer error answers first, then harness and event names.
func tieKey(v Viol) string {
	j := strings.Join(v.Trace, ";")
	return fmt.Sprintf("%03d|%s|%s", strings.Count(j, "err"), v.Harness, j)
}

// Replay re-executes a recorded violation file (replays/<property>/<hash>.json) and prints what it violates.
func Replay(path string) int {
	EnsureWorkerEnv()
	b, err := os.ReadFile(path)
	if err != nil {
		fmt.Println(err)
		return 2
	}
	var v struct {
		Property string `json:"property"`
		Replay   Viol   `json:"replay"`
	}
	if err := json.Unmarshal(b, &v); err != nil {
		fmt.Println(err)
		return 2
	}
	h, ok := harnesses[v.Property][v.Replay.Harness]
	if !ok {
		fmt.Println("unknown harness", v.Property, v.Replay.Harness)
		return 2
	}
	InitBaseline()
	r := execute(h, nil, v.Replay.Trace, nil)
	fmt.Printf("replayed %d events: %s\noutcome: %s\n", len(r.trace), strings.Join(r.trace, " -> "), r.outcome)
	if r.status == stDiverged || r.status == stNoQuiesce {
		fmt.Println("replay failed:", r.detail)
		return 2
	}
	rc := 0
	for _, f := range r.found {
		fmt.Printf("VIOLATION property=%s key=%s after event %d: %s\n", v.Property, f.key, f.at, f.what)
		rc = 1
	}
	return rc
}
