package events

import (
	"fmt"
	"os"
	"strings"
	"sync"
	"testing"
	"time"
)

// toy system: an event loop that hands every event to a child goroutine which appends to a log under a mutex.
type toy struct {
	in   chan string
	mu   sync.Mutex
	log  []string
	left map[string]bool
	done chan struct{}
}

func newToy(n int) System {
	t := &toy{in: make(chan string), left: map[string]bool{}, done: make(chan struct{})}
	for i := 0; i < n; i++ {
		t.left[fmt.Sprintf("e%d", i)] = true
	}
	go func() {
		for e := range t.in {
			e := e
			go func() {
				t.mu.Lock()
				t.log = append(t.log, e)
				t.mu.Unlock()
			}()
		}
		close(t.done)
	}()
	return t
}

func (t *toy) Enabled() []Event {
	var out []Event
	for i := 0; i < 10; i++ {
		if n := fmt.Sprintf("e%d", i); t.left[n] {
			out = append(out, Event{Name: n})
		}
	}
	return out
}
func (t *toy) Deliver(name string) { delete(t.left, name); go func() { t.in <- name }() }
func (t *toy) Check(report Reporter) {
	t.mu.Lock()
	defer t.mu.Unlock()
	if len(t.log) >= 2 && t.log[0] == "e2" && t.log[1] == "e0" {
		report("e2-then-e0", "log starts with e2,e0")
	}
}
func (t *toy) Final(report Reporter) {}
func (t *toy) Outcome() string {
	t.mu.Lock()
	defer t.mu.Unlock()
	return strings.Join(t.log, ",")
}
func (t *toy) Close() { close(t.in); <-t.done }

func TestExploreToy(t *testing.T) {
	if os.Getenv("GOMAXPROCS") != "1" {
		t.Skip("run with GOMAXPROCS=1 GODEBUG=asyncpreemptoff=1")
	}
	InitBaseline()
	h := Harness{Name: "toy", Make: func() System { return newToy(4) }, Horizon: 10, MaxDeviations: -1}
	start := time.Now()
	r := Explore(h, nil, time.Now().Add(time.Minute))
	el := time.Since(start)
	if r.Executions != 24 || len(r.Outcomes) != 24 || r.Events != 96 || r.Diverged != 0 || r.NoQuiesce != 0 {
		t.Fatalf("unexpected %+v", r)
	}
	for o, n := range r.Outcomes {
		if n != 1 || len(strings.Split(o, ",")) != 4 {
			t.Fatalf("outcome %q x%d", o, n)
		}
	}
	if len(r.Viol) != 1 || r.Viol[0].Key != "e2-then-e0" || r.KeyCounts["e2-then-e0"] != 2 || r.Inconclusive != 0 {
		t.Fatalf("violations %+v %v", r.Viol, r.KeyCounts)
	}
	// sharded exploration covers the same leaves exactly once
	for depth := 0; depth <= 6; depth++ {
		var total int64
		for i := 0; i < 3; i++ {
			ri := Explore(h, &shardSpec{depth, i, 3}, time.Now().Add(time.Minute))
			total += ri.Executions
		}
		if total != 24 {
			t.Fatalf("shard depth %d: shards cover %d executions", depth, total)
		}
	}
	t.Logf("24 executions, %d quiescence samples, %v per delivered event, goroutines left %d", QuiesceSamples, el/time.Duration(r.Events+5*2*4), r.Goroutines)
}
