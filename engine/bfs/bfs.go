// Package bfs is the explicit-state search core: level-synchronous breadth-first search over operation
// histories executed on the real implementation, states deduplicated by a hash of the real state,
// successors computed by worker processes (one world per process).
package bfs

import (
	"bufio"
	"encoding/hex"
	"encoding/json"
	"fmt"
	"io"
	"os"
	"os/exec"
	"runtime/debug"
	"sort"
	"strings"
	"sync"
	"time"

	"verifmc/engine/ev"
)

// Step is the outcome of applying one operation at the current state.
type Step struct {
	Accepted bool           // false: the operation was illegal/rejected and left the state unchanged
	Prune    bool           // accepted, but the successor is not expanded further
	Obs      string         // outcome label (for the distinct-outcomes vacuity guard)
	Viol     []ev.Violation // invariant violations detected in the successor
}

// Scenario is a closed system: a fixture, a finite alphabet, and oracles evaluated inside Apply.
type Scenario interface {
	Ops() []string
	Reset()
	Apply(op int) Step
	Hash() []byte
	// Fork saves the current state and returns a function restoring it; nil when unsupported (then
	// successors are computed by replaying the path from Reset).
	Fork() func()
}

var registry = map[string]func() Scenario{}

func Register(name string, mk func() Scenario) { registry[name] = mk }

func Names() []string {
	var n []string
	for k := range registry {
		n = append(n, k)
	}
	sort.Strings(n)
	return n
}

type request struct {
	ID   int   `json:"id"`
	Path []int `json:"path"`
	Only int   `json:"only"` // -1: all ops
}

type opResult struct {
	Op       int            `json:"op"`
	Hash     string         `json:"h"`
	Accepted bool           `json:"a"`
	Prune    bool           `json:"p,omitempty"`
	Obs      string         `json:"o,omitempty"`
	Viol     []ev.Violation `json:"v,omitempty"`
	Panic    string         `json:"panic,omitempty"`
}

type response struct {
	ID      int        `json:"id"`
	Results []opResult `json:"r"`
	Err     string     `json:"err,omitempty"`
}

func safeApply(sc Scenario, op int) (st Step, pan string) {
	defer func() {
		if r := recover(); r != nil {
			pan = fmt.Sprintf("%v\n%s", r, debug.Stack())
		}
	}()
	st = sc.Apply(op)
	return
}

// replay positions the scenario at the state reached by path.
func replay(sc Scenario, path []int) error {
	sc.Reset()
	for i, op := range path {
		st, pan := safeApply(sc, op)
		if pan != "" {
			return fmt.Errorf("panic while replaying prefix at %d: %s", i, pan)
		}
		if !st.Accepted {
			return fmt.Errorf("replay divergence: op %d (%s) at position %d was accepted before and is rejected now", op, sc.Ops()[op], i)
		}
	}
	return nil
}

func violKeys(v []ev.Violation) string {
	var k []string
	for _, x := range v {
		k = append(k, x.Property+"|"+x.Key)
	}
	sort.Strings(k)
	return strings.Join(k, ";")
}

// WorkerMain serves expansion requests on stdin/stdout (protocol on fd given by out).
func WorkerMain(name string, in io.Reader, out io.Writer) {
	mk, ok := registry[name]
	if !ok {
		fmt.Fprintf(os.Stderr, "unknown scenario %q\n", name)
		os.Exit(2)
	}
	sc := mk()
	ops := sc.Ops()
	rd := bufio.NewReaderSize(in, 1<<20)
	wr := bufio.NewWriterSize(out, 1<<20)
	enc := json.NewEncoder(wr)
	for {
		line, err := rd.ReadBytes('\n')
		if len(line) == 0 && err != nil {
			return
		}
		var rq request
		if json.Unmarshal(line, &rq) != nil {
			continue
		}
		resp := response{ID: rq.ID}
		if err := replay(sc, rq.Path); err != nil {
			resp.Err = err.Error()
			enc.Encode(resp)
			wr.Flush()
			continue
		}
		for op := range ops {
			if rq.Only >= 0 && op != rq.Only {
				continue
			}
			restore := sc.Fork()
			st, pan := safeApply(sc, op)
			r := opResult{Op: op, Accepted: st.Accepted, Prune: st.Prune, Obs: st.Obs, Viol: st.Viol, Panic: pan}
			if pan == "" && st.Accepted {
				r.Hash = hex.EncodeToString(sc.Hash())
			}
			if len(st.Viol) > 0 || pan != "" {
				// re-execute from scratch 4 more times: only reproducible violations are reported
				want := violKeys(st.Viol)
				repro := true
				for i := 0; i < 4 && repro; i++ {
					if err := replay(sc, rq.Path); err != nil {
						repro = false
						break
					}
					st2, pan2 := safeApply(sc, op)
					if violKeys(st2.Viol) != want || (pan2 == "") != (pan == "") {
						repro = false
					}
				}
				if !repro {
					r.Viol = nil
					r.Panic = ""
					r.Obs = "INCONCLUSIVE:" + r.Obs
				}
				restore = nil
				if err := replay(sc, rq.Path); err != nil {
					resp.Err = err.Error()
					break
				}
			} else if restore != nil {
				restore()
			} else {
				if err := replay(sc, rq.Path); err != nil {
					resp.Err = err.Error()
					break
				}
			}
			resp.Results = append(resp.Results, r)
		}
		enc.Encode(resp)
		wr.Flush()
	}
}

type worker struct {
	cmd *exec.Cmd
	in  io.WriteCloser
	out *bufio.Reader
}

func spawn(name string) (*worker, error) {
	exe, _ := os.Executable()
	cmd := exec.Command(exe, "worker", name)
	cmd.Env = append(os.Environ(), "GOMAXPROCS=2", "VERIF_WORKER=1")
	cmd.Stderr = os.Stderr
	in, _ := cmd.StdinPipe()
	outp, _ := cmd.StdoutPipe()
	if err := cmd.Start(); err != nil {
		return nil, err
	}
	return &worker{cmd: cmd, in: in, out: bufio.NewReaderSize(outp, 1<<20)}, nil
}

func (w *worker) call(rq request) (response, error) {
	b, _ := json.Marshal(rq)
	b = append(b, '\n')
	if _, err := w.in.Write(b); err != nil {
		return response{}, err
	}
	for {
		line, err := w.out.ReadBytes('\n')
		if err != nil {
			return response{}, err
		}
		if len(line) == 0 || line[0] != '{' {
			continue // stray output of the code under test
		}
		var resp response
		if json.Unmarshal(line, &resp) != nil || resp.ID != rq.ID {
			continue
		}
		return resp, nil
	}
}

func (w *worker) kill() {
	w.in.Close()
	w.cmd.Process.Kill()
	w.cmd.Wait()
}

type Config struct {
	Scenario  string
	MaxDepth  int
	Deadline  time.Duration // 0: none
	Workers   int
	MaxStates int // 0: none; a cap ends the run with exhaustive=false
}

type Stats struct {
	States, Transitions, Rejected, Pruned int64
	DepthCompleted                      int
	Exhaustive                          bool
	FrontierLeft                        int
	Outcomes                            map[string]int64
	AcceptedPerOp                       map[string]int64
	Crashes                             []string
	HarnessErrors                       []string
	SamplePaths                         [][]string
}

// Explore runs the BFS and records violations into run.
func Explore(cfg Config, run *ev.Run) Stats {
	mk := registry[cfg.Scenario]
	if mk == nil {
		panic("unknown scenario " + cfg.Scenario)
	}
	if cfg.Workers <= 0 {
		cfg.Workers = 16
	}
	probe := mk()
	ops := probe.Ops()
	probe.Reset()
	root := hex.EncodeToString(probe.Hash())
	probe = nil

	st := Stats{Outcomes: map[string]int64{}, AcceptedPerOp: map[string]int64{}, Exhaustive: true}
	seen := map[string]struct{}{root: {}}
	frontier := [][]int{{}}
	start := time.Now()
	var mu sync.Mutex
	names := func(p []int) []string {
		var s []string
		for _, o := range p {
			s = append(s, ops[o])
		}
		return s
	}

	type item struct {
		path []int
	}
	deadlineHit := false
	// persistent worker pool (spawned in parallel, reused across levels)
	pool := make([]*worker, cfg.Workers)
	{
		var swg sync.WaitGroup
		for i := range pool {
			swg.Add(1)
			go func(i int) {
				defer swg.Done()
				w, err := spawn(cfg.Scenario)
				if err != nil {
					mu.Lock()
					st.HarnessErrors = append(st.HarnessErrors, "spawn: "+err.Error())
					mu.Unlock()
					return
				}
				pool[i] = w
			}(i)
		}
		swg.Wait()
	}
	defer func() {
		for _, w := range pool {
			if w != nil {
				w.kill()
			}
		}
	}()
	reqID := 0
	for depth := 0; depth < cfg.MaxDepth && len(frontier) > 0; depth++ {
		if os.Getenv("VERIF_VERBOSE") != "" {
			fmt.Fprintf(os.Stderr, "[bfs %s] depth %d frontier %d states %d t=%.1fs\n", cfg.Scenario, depth, len(frontier), len(seen), time.Since(start).Seconds())
		}
		work := make(chan item, len(frontier))
		for _, p := range frontier {
			work <- item{p}
		}
		close(work)
		var next [][]int
		var wg sync.WaitGroup
		aborted := false
		for wi := 0; wi < len(pool); wi++ {
			if pool[wi] == nil {
				continue
			}
			wg.Add(1)
			go func(wi int) {
				defer wg.Done()
				for it := range work {
					if cfg.Deadline > 0 && time.Since(start) > cfg.Deadline {
						mu.Lock()
						aborted = true
						mu.Unlock()
						continue
					}
					mu.Lock()
					reqID++
					id := reqID
					mu.Unlock()
					w := pool[wi]
					resp, err := w.call(request{ID: id, Path: it.path, Only: -1})
					if err != nil {
						// worker died: isolate op by op on fresh workers
						w.kill()
						resp = response{ID: id}
						for op := range ops {
							w2, e2 := spawn(cfg.Scenario)
							if e2 != nil {
								continue
							}
							r2, e3 := w2.call(request{ID: 1, Path: it.path, Only: op})
							w2.kill()
							if e3 != nil {
								mu.Lock()
								st.Crashes = append(st.Crashes, strings.Join(names(append(append([]int{}, it.path...), op)), " ; "))
								mu.Unlock()
								continue
							}
							if r2.Err != "" {
								resp.Err = r2.Err
							}
							resp.Results = append(resp.Results, r2.Results...)
						}
						nw, e4 := spawn(cfg.Scenario)
						if e4 != nil {
							mu.Lock()
							st.HarnessErrors = append(st.HarnessErrors, "respawn: "+e4.Error())
							mu.Unlock()
							return
						}
						pool[wi] = nw
					}
					mu.Lock()
					if resp.Err != "" {
						st.HarnessErrors = append(st.HarnessErrors, resp.Err+" path="+strings.Join(names(it.path), " ; "))
					}
					for _, r := range resp.Results {
						st.Transitions++
						full := append(append([]int{}, it.path...), r.Op)
						if r.Obs != "" {
							st.Outcomes[r.Obs]++
						}
						if r.Panic != "" {
							run.Violate(ev.Violation{Key: "panic:" + ops[r.Op] + ":" + firstLine(r.Panic), What: "panic outside block processing in op " + ops[r.Op] + ": " + firstLine(r.Panic),
								Replay: map[string]interface{}{"scenario": cfg.Scenario, "ops": names(full), "panic": r.Panic}})
							continue
						}
						for _, v := range r.Viol {
							if v.Replay == nil {
								v.Replay = map[string]interface{}{"scenario": cfg.Scenario, "ops": names(full), "what": v.What}
							}
							run.Violate(v)
						}
						if !r.Accepted {
							st.Rejected++
							continue
						}
						st.AcceptedPerOp[ops[r.Op]]++
						if len(r.Viol) > 0 {
							continue // do not expand beyond a violating state
						}
						if _, ok := seen[r.Hash]; ok {
							continue
						}
						seen[r.Hash] = struct{}{}
						if len(st.SamplePaths) < 3 || (len(full) > len(st.SamplePaths[len(st.SamplePaths)-1]) && len(st.SamplePaths) < 6) {
							st.SamplePaths = append(st.SamplePaths, names(full))
						}
						if r.Prune {
							st.Pruned++
							continue
						}
						next = append(next, full)
					}
					mu.Unlock()
				}
			}(wi)
		}
		wg.Wait()
		if aborted {
			deadlineHit = true
			st.Exhaustive = false
			st.FrontierLeft = len(frontier)
			break
		}
		st.DepthCompleted = depth + 1
		frontier = next
		if cfg.MaxStates > 0 && len(seen) > cfg.MaxStates && depth+1 < cfg.MaxDepth {
			st.Exhaustive = false
			st.FrontierLeft = len(frontier)
			break
		}
	}
	_ = deadlineHit
	st.States = int64(len(seen))
	return st
}

func firstLine(s string) string {
	if i := strings.IndexByte(s, '\n'); i >= 0 {
		return s[:i]
	}
	return s
}

// Report copies the stats into the evidence coverage of run (model_checking keys).
func Report(run *ev.Run, prefix string, cfg Config, st Stats) {
	p := func(k string) string {
		if prefix == "" {
			return k
		}
		return prefix + "." + k
	}
	run.Add("states", st.States)
	run.Add("transitions", st.Transitions)
	run.Add("traces_validated_against_impl", st.Transitions)
	run.Set(p("states"), st.States)
	run.Set(p("transitions"), st.Transitions)
	run.Set(p("rejected_ops"), st.Rejected)
	run.Set(p("depth_completed"), st.DepthCompleted)
	run.Set(p("max_depth"), cfg.MaxDepth)
	run.Set(p("exhaustive_within_depth"), st.Exhaustive)
	run.Set(p("distinct_outcomes"), len(st.Outcomes))
	run.Set(p("outcomes"), st.Outcomes)
	run.Set(p("accepted_per_op"), st.AcceptedPerOp)
	if len(st.Crashes) > 0 {
		run.Set(p("worker_crashes"), st.Crashes)
	}
	if len(st.HarnessErrors) > 0 {
		if len(st.HarnessErrors) > 10 {
			st.HarnessErrors = st.HarnessErrors[:10]
		}
		run.Set(p("harness_errors"), st.HarnessErrors)
	}
	for _, s := range st.SamplePaths {
		run.Sample(map[string]interface{}{"scenario": cfg.Scenario, "ops": s})
	}
}

// Make instantiates a registered scenario (for profiling and replay).
func Make(name string) Scenario {
	mk := registry[name]
	if mk == nil {
		return nil
	}
	return mk()
}
