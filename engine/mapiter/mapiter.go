// Package mapiter exposes the control variables of the patched runtime/map.go (see tools/overlaygen_runtime.py).
// It only links in binaries built with that overlay.
package mapiter

import (
	"runtime"
	_ "unsafe"
)

//go:linkname verifMapMode runtime.verifMapMode
var verifMapMode int32

//go:linkname verifMapOffset runtime.verifMapOffset
var verifMapOffset uintptr

//go:linkname verifMapLastBucket runtime.verifMapLastBucket
var verifMapLastBucket int32

//go:linkname verifMapSitePC runtime.verifMapSitePC
var verifMapSitePC uintptr

//go:linkname verifMapSiteOffset runtime.verifMapSiteOffset
var verifMapSiteOffset uintptr

//go:linkname verifMapOrdinal runtime.verifMapOrdinal
var verifMapOrdinal int64

//go:linkname verifMapOrdinalOffset runtime.verifMapOrdinalOffset
var verifMapOrdinalOffset uintptr

//go:linkname verifMapCounter runtime.verifMapCounter
var verifMapCounter int64

//go:linkname verifMapHash0 runtime.verifMapHash0
var verifMapHash0 uint32

//go:linkname verifMapLogPC runtime.verifMapLogPC
var verifMapLogPC [1 << 16]uintptr

//go:linkname verifMapLogCount runtime.verifMapLogCount
var verifMapLogCount [1 << 16]int

// Config is one point of the map-order space.
type Config struct {
	Offset        uintptr // default in-bucket start offset for every iteration (0..7)
	LastBucket    bool    // start at the last bucket instead of bucket 0 (maps with more than 8 entries)
	Hash0         uint32  // hash seed of every map created while active
	SitePC        uintptr // deviation: all iterations from this caller PC use SiteOffset
	SiteOffset    uintptr
	Ordinal       int64 // deviation: the n-th multi-entry iteration uses OrdinalOffset (-1: none)
	OrdinalOffset uintptr
}

// Start activates control and resets the iteration counter/log.
func Start(c Config) {
	verifMapOffset = c.Offset
	if c.LastBucket {
		verifMapLastBucket = 1
	} else {
		verifMapLastBucket = 0
	}
	verifMapHash0 = c.Hash0
	verifMapSitePC = c.SitePC
	verifMapSiteOffset = c.SiteOffset
	verifMapOrdinal = c.Ordinal
	verifMapOrdinalOffset = c.OrdinalOffset
	verifMapCounter = 0
	verifMapMode = 1
}

// Stop deactivates control and returns the log of multi-entry iterations (caller PC, map length).
func Stop() (pcs []uintptr, counts []int, total int64) {
	verifMapMode = 0
	total = verifMapCounter
	n := total
	if n > int64(len(verifMapLogPC)) {
		n = int64(len(verifMapLogPC))
	}
	pcs = append(pcs, verifMapLogPC[:n]...)
	counts = append(counts, verifMapLogCount[:n]...)
	return
}

// Site describes a caller PC.
func Site(pc uintptr) (fn, file string, line int) {
	f := runtime.FuncForPC(pc - 1)
	if f == nil {
		return "?", "?", 0
	}
	file, line = f.FileLine(pc - 1)
	return f.Name(), file, line
}
