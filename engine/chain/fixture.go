package chain

import (
	"fmt"
	"time"

	"cosmossdk.io/math"
	sdk "github.com/cosmos/cosmos-sdk/types"
	stakingtypes "github.com/cosmos/cosmos-sdk/x/staking/types"
	"github.com/lavanet/lava/v5/testutil/common"
	testkeeper "github.com/lavanet/lava/v5/testutil/keeper"
	"github.com/lavanet/lava/v5/utils/sigs"
	epochstoragetypes "github.com/lavanet/lava/v5/x/epochstorage/types"
	pairingtypes "github.com/lavanet/lava/v5/x/pairing/types"
	planstypes "github.com/lavanet/lava/v5/x/plans/types"
	spectypes "github.com/lavanet/lava/v5/x/spec/types"
	subscriptiontypes "github.com/lavanet/lava/v5/x/subscription/types"
)

const BlockDt = 30 * time.Second

// Must panics (fixture construction must not fail).
func (w *World) Must(what string, r TxResult) {
	if !r.OK() {
		panic(fmt.Sprintf("fixture step %q failed: err=%v panic=%s", what, r.Err, r.Panic))
	}
}

// SetEpochParams installs epoch parameters as genesis parameters (fixated at block 0).
func (w *World) SetEpochParams(epochBlocks, epochsToSave uint64) {
	p := w.Keepers.Epochstorage.GetParams(w.Ctx)
	p.EpochBlocks = epochBlocks
	p.EpochsToSave = epochsToSave
	p.LatestParamChange = 0
	w.Keepers.Epochstorage.SetParams(w.Ctx, p)
	w.Keepers.Epochstorage.PushFixatedParams(w.Ctx, 0, 0)
}

// AddValidator creates a bonded validator (self delegation = amount) and advances one block.
func (w *World) AddValidator(idx int, amount int64) sigs.Account {
	acc, _ := w.AddAccount(common.VALIDATOR, idx, amount)
	w.Must("create validator", w.Tx(func() error {
		msg, err := stakingtypes.NewMsgCreateValidator(sdk.ValAddress(acc.Addr), acc.PubKey,
			sdk.NewCoin(w.TokenDenom(), math.NewInt(amount)), stakingtypes.Description{},
			stakingtypes.NewCommissionRates(sdk.NewDecWithPrec(1, 1), sdk.NewDecWithPrec(1, 1), sdk.NewDecWithPrec(1, 1)), sdk.ZeroInt())
		if err != nil {
			return err
		}
		_, err = w.Servers.StakingServer.CreateValidator(w.GoCtx, msg)
		return err
	}))
	if p := w.NextBlock(BlockDt); p != "" {
		panic("fixture: block panic " + p)
	}
	return acc
}

// AddSpecGov adds specs through the governance proposal handler.
func (w *World) AddSpecGov(specs ...spectypes.Spec) TxResult {
	return w.Tx(func() error { return testkeeper.SimulateSpecAddProposal(w.Ctx, w.Keepers.Spec, specs) })
}

func (w *World) AddPlanGov(modify bool, plans ...planstypes.Plan) TxResult {
	return w.Tx(func() error { return testkeeper.SimulatePlansAddProposal(w.Ctx, w.Keepers.Plans, plans, modify) })
}

func (w *World) DelPlanGov(idx ...string) TxResult {
	return w.Tx(func() error { return testkeeper.SimulatePlansDelProposal(w.Ctx, w.Keepers.Plans, idx) })
}

func (w *World) ParamChangeGov(module, key, val string) TxResult {
	return w.Tx(func() error { return testkeeper.SimulateParamChange(w.Ctx, w.Keepers.ParamsKeeper, module, key, val) })
}

// Stake stakes provider idx (vault + provider address) on a chain.
func (w *World) Stake(acc sigs.Account, chain string, amount int64, geo int32, endpoints []epochstoragetypes.Endpoint, commission uint64) TxResult {
	return w.Tx(func() error {
		if endpoints == nil {
			sp, _ := w.Keepers.Spec.GetSpec(w.Ctx, chain)
			full, err := w.Keepers.Spec.ExpandSpec(w.Ctx, sp)
			if err == nil {
				sp = full
			}
			ifaces := []string{}
			for _, c := range sp.ApiCollections {
				dup := false
				for _, x := range ifaces {
					dup = dup || x == c.CollectionData.ApiInterface
				}
				if !dup {
					ifaces = append(ifaces, c.CollectionData.ApiInterface)
				}
			}
			for _, g := range planstypes.GetGeolocationsFromUint(geo) {
				endpoints = append(endpoints, epochstoragetypes.Endpoint{IPPORT: "123", ApiInterfaces: ifaces, Geolocation: int32(g)})
			}
		}
		_, err := w.TxPairingStakeProvider(acc.GetVaultAddr(), acc.Addr.String(), chain, sdk.NewCoin(w.TokenDenom(), sdk.NewInt(amount)), endpoints, geo, common.MockDescription(), commission)
		return err
	})
}

func (w *World) Buy(creator, consumer sigs.Account, plan string, months int, autoRenew, advance bool) TxResult {
	return w.Tx(func() error {
		msg := &subscriptiontypes.MsgBuy{Creator: creator.Addr.String(), Consumer: consumer.Addr.String(), Index: plan, Duration: uint64(months), AutoRenewal: autoRenew, AdvancePurchase: advance}
		if err := msg.ValidateBasic(); err != nil {
			return err
		}
		_, err := w.Servers.SubscriptionServer.Buy(w.GoCtx, msg)
		return err
	})
}

// Relay builds and signs a relay session.
func (w *World) Relay(signer sigs.Account, provider, chain string, session, cu uint64, epoch int64, relayNum uint64) *pairingtypes.RelaySession {
	rs := &pairingtypes.RelaySession{
		Provider:    provider,
		ContentHash: []byte("apiname"),
		SessionId:   session,
		SpecId:      chain,
		CuSum:       cu,
		Epoch:       epoch,
		RelayNum:    relayNum,
		LavaChainId: ChainID,
	}
	SignRelay(signer, rs)
	return rs
}

func SignRelay(signer sigs.Account, rs *pairingtypes.RelaySession) {
	rs.Sig = nil
	sig, err := sigs.Sign(signer.SK, *rs)
	if err != nil {
		panic(err)
	}
	rs.Sig = sig
}

// Pay submits a relay payment transaction (ValidateBasic first, as the chain does).
func (w *World) Pay(provider string, relays ...*pairingtypes.RelaySession) TxResult {
	return w.Tx(func() error {
		msg := &pairingtypes.MsgRelayPayment{Creator: provider, Relays: relays, DescriptionString: "verif"}
		if err := msg.ValidateBasic(); err != nil {
			return err
		}
		_, err := w.Servers.PairingServer.RelayPayment(w.GoCtx, msg)
		return err
	})
}

func (w *World) EpochStartNow() uint64 { return w.Keepers.Epochstorage.GetEpochStart(w.Ctx) }

// MockSpec returns the repo's mock spec under another index.
func MockSpec(index string) spectypes.Spec {
	s := common.CreateMockSpec()
	s.Index = index
	s.Name = index
	s.ApiCollections[0].Apis[0].Name = index + "API"
	// make it a spec the governance handler accepts (the repo's mock skips validation)
	s.ApiCollections[0].CollectionData.ApiInterface = spectypes.APIInterfaceJsonRPC
	s.ApiCollections[0].CollectionData.Type = "POST"
	s.BlocksInFinalizationProof = 1
	s.AverageBlockTime = 10000
	s.AllowedBlockLagForQosSync = 1
	s.DataReliabilityEnabled = false
	return s
}

// ZeroAllocationPools empties the validators/providers allocation pools (like the repo's pairing tests do)
// so that bonus/block rewards do not blur payment accounting.
func (w *World) Balance(addr sdk.AccAddress) int64 {
	return w.Keepers.BankKeeper.GetBalance(w.Ctx, addr, w.TokenDenom()).Amount.Int64()
}

func (w *World) ModuleBalance(module string) sdk.Int {
	return w.Keepers.BankKeeper.GetBalance(w.Ctx, testkeeper.GetModuleAddress(module), w.TokenDenom()).Amount
}

// StandardFixture: epoch params (4 blocks, 3 epochs), one validator, nSpecs mock specs, a plan "free",
// nProviders staked on every spec, nConsumers with subscriptions; then advances to the next epoch.
type StdOpts struct {
	EpochBlocks, EpochsToSave uint64
	Specs                     []string
	Providers                 int
	ProviderStake             int64
	Consumers                 int
	Plan                      *planstypes.Plan
	ExtraPlans                []planstypes.Plan // added by the same proposal (same block) as Plan
	Validators                int
}

func (w *World) StdFixture(o StdOpts) {
	if o.EpochBlocks == 0 {
		o.EpochBlocks = 4
	}
	if o.EpochsToSave == 0 {
		o.EpochsToSave = 3
	}
	if o.Validators == 0 {
		o.Validators = 1
	}
	if o.ProviderStake == 0 {
		o.ProviderStake = 100000
	}
	w.SetEpochParams(o.EpochBlocks, o.EpochsToSave)
	for i := 0; i < o.Validators; i++ {
		w.AddValidator(i, 1000000)
	}
	for _, s := range o.Specs {
		w.Must("add spec", w.AddSpecGov(MockSpec(s)))
	}
	plan := common.CreateMockPlan()
	if o.Plan != nil {
		plan = *o.Plan
	}
	w.Must("add plan", w.AddPlanGov(false, append([]planstypes.Plan{plan}, o.ExtraPlans...)...))
	for i := 0; i < o.Providers; i++ {
		acc, _ := w.AddAccount(common.PROVIDER, i, 10000000)
		for _, s := range o.Specs {
			w.Must("stake", w.Stake(acc, s, o.ProviderStake, 1, nil, 100))
		}
	}
	for i := 0; i < o.Consumers; i++ {
		acc, _ := w.AddAccount(common.CONSUMER, i, 10000000)
		w.Must("buy", w.Buy(acc, acc, plan.Index, 1, false, false))
	}
	if p := w.AdvanceToNextEpoch(BlockDt); p != "" {
		panic("fixture: " + p)
	}
	if p := w.AdvanceToNextEpoch(BlockDt); p != "" {
		panic("fixture: " + p)
	}
}
