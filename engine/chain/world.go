// Package chain drives the real lava keepers (testutil/keeper.InitAllKeepers wiring) the way the
// application does: atomic transactions, begin/end blockers in app/app.go order, forking by cache contexts.
package chain

import (
	"crypto/sha256"
	"encoding/binary"
	"fmt"
	"os"
	"regexp"
	"runtime/debug"
	"sort"
	"strings"
	"testing"
	"time"

	abci "github.com/cometbft/cometbft/abci/types"
	tenderminttypes "github.com/cometbft/cometbft/types"
	"github.com/cosmos/cosmos-sdk/store/rootmulti"
	storetypes "github.com/cosmos/cosmos-sdk/store/types"
	sdk "github.com/cosmos/cosmos-sdk/types"
	"github.com/lavanet/lava/v5/testutil/common"
	testkeeper "github.com/lavanet/lava/v5/testutil/keeper"
	"github.com/lavanet/lava/v5/utils"
	"github.com/lavanet/lava/v5/utils/sigs"
)

const ChainID = "lava-verif"

// World is one chain instance. One per process (the mock bank is process-global).
type World struct {
	*common.Tester
	storeKeys []storetypes.StoreKey

	root     sdk.Context
	rootBank map[string]sdk.Coins

	// LastBlockPanic is set by NextBlock when begin/end block processing panicked.
	LastBlockPanic string
	// BeginBlockInject, if set, runs once inside the next block's begin-block processing at the position of
	// the cosmos staking/slashing begin-blockers (used to slash a validator the way the chain does).
	BeginBlockInject func(ctx sdk.Context)
	// MockBankPanics counts overdraft panics of the mock bank converted to errors.
	Seed byte
}

// Quiet silences the repo's logger and the Println of InitAllKeepers.
func Quiet() {
	if lvl := os.Getenv("VERIF_LAVA_LOG"); lvl != "" {
		utils.SetGlobalLoggingLevel(lvl) // debugging aid: VERIF_LAVA_LOG=warn shows the repo's own warnings/errors
		return
	}
	utils.SetGlobalLoggingLevel("fatal")
}

var orderChecked bool

var debugTx = os.Getenv("VERIF_DEBUG") != ""

// CheckAppOrder re-extracts the begin/end blocker order of the lava modules from app/app.go and
// compares it with the order hard-wired in NextBlock. A mismatch is a harness error.
func CheckAppOrder() error {
	src, err := os.ReadFile("/repo/app/app.go")
	if err != nil {
		return err
	}
	extract := func(fn string) []string {
		re := regexp.MustCompile(`(?s)app\.mm\.` + fn + `\((.*?)\)\n`)
		m := re.FindSubmatch(src)
		if m == nil {
			return nil
		}
		var out []string
		for _, line := range strings.Split(string(m[1]), "\n") {
			line = strings.TrimSpace(line)
			if i := strings.Index(line, ".ModuleName"); i > 0 {
				out = append(out, line[:i])
			}
		}
		return out
	}
	filter := func(all []string, want map[string]bool) []string {
		var out []string
		for _, a := range all {
			if want[a] {
				out = append(out, a)
			}
		}
		return out
	}
	begin := filter(extract("SetOrderBeginBlockers"), map[string]bool{"timerstoretypes": true, "rewardsmoduletypes": true, "dualstakingmoduletypes": true, "specmoduletypes": true, "epochstoragemoduletypes": true, "conflictmoduletypes": true, "downtimemoduletypes": true, "pairingmoduletypes": true})
	wantBegin := []string{"timerstoretypes", "rewardsmoduletypes", "dualstakingmoduletypes", "specmoduletypes", "epochstoragemoduletypes", "conflictmoduletypes", "downtimemoduletypes", "pairingmoduletypes"}
	if strings.Join(begin, ",") != strings.Join(wantBegin, ",") {
		return fmt.Errorf("app.go begin-blocker order %v differs from the driver's %v", begin, wantBegin)
	}
	end := filter(extract("SetOrderEndBlockers"), map[string]bool{"stakingtypes": true, "pairingmoduletypes": true, "timerstoretypes": true})
	wantEnd := []string{"stakingtypes", "pairingmoduletypes", "timerstoretypes"}
	if strings.Join(end, ",") != strings.Join(wantEnd, ",") {
		return fmt.Errorf("app.go end-blocker order %v differs from the driver's %v", end, wantEnd)
	}
	return nil
}

// NewWorld builds the keepers. It must be called once per process.
func NewWorld() *World {
	if !orderChecked {
		if err := CheckAppOrder(); err != nil {
			fmt.Fprintln(os.Stderr, "HARNESS ERROR:", err)
			os.Exit(3)
		}
		orderChecked = true
	}
	Quiet()
	testkeeper.SetFixedTime()
	// InitAllKeepers prints its seed to stdout
	saved := os.Stdout
	devnull, _ := os.OpenFile(os.DevNull, os.O_WRONLY, 0)
	os.Stdout = devnull
	ts := common.NewTesterRaw(&testing.T{})
	os.Stdout = saved
	devnull.Close()
	testkeeper.Randomizer = sigs.NewZeroReader(20240501)
	w := &World{Tester: ts}
	rs, ok := ts.Ctx.MultiStore().(*rootmulti.Store)
	if !ok {
		panic("root multistore is not rootmulti.Store")
	}
	byName := rs.StoreKeysByName()
	names := make([]string, 0, len(byName))
	for n := range byName {
		names = append(names, n)
	}
	sort.Strings(names)
	for _, n := range names {
		w.storeKeys = append(w.storeKeys, byName[n])
	}
	hdr := ts.Ctx.BlockHeader()
	hdr.ChainID = ChainID
	w.setCtx(ts.Ctx.WithBlockHeader(hdr).WithEventManager(sdk.NewEventManager()))
	w.syncBlockStore()
	return w
}

func (w *World) setCtx(ctx sdk.Context) {
	w.Ctx = ctx
	w.GoCtx = sdk.WrapSDKContext(ctx)
}

func (w *World) syncBlockStore() {
	h := w.Ctx.BlockHeight()
	w.Keepers.BlockStore.SetHeight(h)
	w.Keepers.BlockStore.SetBlockHistoryEntry(h, &tenderminttypes.Block{Header: tenderminttypes.Header{Height: h, Time: w.Ctx.BlockTime()}})
}

// MarkFixture makes the current state the initial state returned to by Reset.
func (w *World) MarkFixture() {
	w.root = w.Ctx
	w.rootBank = testkeeper.VerifSnapshotBalances()
	w.Reset()
}

func (w *World) Reset() {
	cctx, _ := w.root.CacheContext()
	w.setCtx(cctx.WithEventManager(sdk.NewEventManager()))
	testkeeper.VerifRestoreBalances(w.rootBank)
	w.syncBlockStore()
	w.LastBlockPanic = ""
}

// Fork saves the current state; the returned function restores it.
func (w *World) Fork() func() {
	saved := w.Ctx
	bank := testkeeper.VerifSnapshotBalances()
	cctx, _ := saved.CacheContext()
	w.setCtx(cctx.WithEventManager(sdk.NewEventManager()))
	return func() {
		w.setCtx(saved)
		testkeeper.VerifRestoreBalances(bank)
		w.syncBlockStore()
		w.LastBlockPanic = ""
	}
}

// TxResult describes one transaction.
type TxResult struct {
	Err    error
	Panic  string // non-empty if the message handler panicked (baseapp recovers and fails the tx)
	Events sdk.Events
}

func (r TxResult) OK() bool { return r.Err == nil && r.Panic == "" }

// Tx runs f atomically like baseapp.runTx: in a cache context which is written only on success.
// Inside f, use w.Ctx / w.GoCtx (they point at the branch).
func (w *World) Tx(f func() error) TxResult {
	saved := w.Ctx
	bank := testkeeper.VerifSnapshotBalances()
	cctx, write := saved.CacheContext()
	em := sdk.NewEventManager()
	w.setCtx(cctx.WithEventManager(em))
	var res TxResult
	done := make(chan struct{})
	completed := false
	go func() {
		defer close(done)
		defer func() {
			if r := recover(); r != nil {
				res.Panic = fmt.Sprintf("%v\n%s", r, debug.Stack())
			}
		}()
		res.Err = f()
		completed = true
	}()
	<-done
	if !completed && res.Panic == "" {
		res.Err = fmt.Errorf("harness: require failed inside tx (Goexit)")
	}
	w.setCtx(saved)
	if debugTx && !res.OK() {
		fmt.Fprintf(os.Stderr, "[tx failed] err=%v panic=%s\n", res.Err, res.Panic)
	}
	if res.OK() {
		write()
		res.Events = em.Events()
	} else {
		testkeeper.VerifRestoreBalances(bank)
	}
	return res
}

// NextBlock ends the current block and begins the next one, dt later, calling the keepers in the
// order of app/app.go. A panic in block processing is recorded in LastBlockPanic (and returned).
func (w *World) NextBlock(dt time.Duration) (panicMsg string) {
	done := make(chan struct{})
	completed := false
	go func() {
		defer close(done)
		defer func() {
			if r := recover(); r != nil {
				panicMsg = fmt.Sprintf("%v\n%s", r, debug.Stack())
			}
		}()
		ks := w.Keepers
		ctx := w.Ctx
		// --- end block (app order: staking, pairing, timerstore)
		ks.StakingKeeper.BlockValidatorUpdates(ctx)
		ks.Pairing.EndBlock(ctx)
		ks.TimerStoreKeeper.EndBlock(ctx)
		// --- new header
		h := ctx.BlockHeight() + 1
		var hb [9]byte
		hb[0] = w.Seed
		binary.BigEndian.PutUint64(hb[1:], uint64(h))
		hash := sha256.Sum256(hb[:])
		ctx = ctx.WithBlockHeight(h).WithBlockTime(ctx.BlockTime().Add(dt)).WithHeaderHash(hash[:]).WithEventManager(sdk.NewEventManager())
		w.setCtx(ctx)
		w.syncBlockStore()
		// --- begin block (app order)
		ks.TimerStoreKeeper.BeginBlock(ctx)
		ks.Rewards.BeginBlock(ctx)
		// position of the staking/slashing/evidence begin-blockers of the app (before dualstaking):
		// a scenario may inject a validator slash here, as the slashing module would do
		if w.BeginBlockInject != nil {
			inj := w.BeginBlockInject
			w.BeginBlockInject = nil
			inj(ctx)
		}
		ks.Dualstaking.BeginBlock(ctx, abci.RequestBeginBlock{})
		ks.Spec.BeginBlock(ctx)
		ks.Epochstorage.BeginBlock(ctx)
		ks.Conflict.BeginBlock(ctx)
		ks.Downtime.BeginBlock(ctx)
		ks.Pairing.BeginBlock(ctx)
		completed = true
	}()
	<-done
	if !completed && panicMsg == "" {
		panicMsg = "harness: Goexit inside block processing"
	}
	if panicMsg != "" {
		w.LastBlockPanic = panicMsg
		if debugTx {
			fmt.Fprintf(os.Stderr, "[block panic] %s\n", panicMsg)
		}
	}
	return panicMsg
}

// BlockEvents returns the events emitted by the begin/end blockers of the current block so far.
func (w *World) BlockEvents() sdk.Events { return w.Ctx.EventManager().Events() }

// StateHash hashes every KV and memory store plus the bank balances, height and time.
func (w *World) StateHash() []byte {
	h := sha256.New()
	var lb [8]byte
	put := func(b []byte) {
		binary.BigEndian.PutUint64(lb[:], uint64(len(b)))
		h.Write(lb[:])
		h.Write(b)
	}
	ms := w.Ctx.MultiStore()
	for _, k := range w.storeKeys {
		put([]byte(k.Name()))
		it := ms.GetKVStore(k).Iterator(nil, nil)
		for ; it.Valid(); it.Next() {
			put(it.Key())
			put(it.Value())
		}
		it.Close()
	}
	bal := testkeeper.VerifSnapshotBalances()
	addrs := make([]string, 0, len(bal))
	for a := range bal {
		addrs = append(addrs, a)
	}
	sort.Strings(addrs)
	for _, a := range addrs {
		c := bal[a]
		if c.IsZero() {
			continue
		}
		put([]byte(a))
		put([]byte(c.String()))
	}
	binary.BigEndian.PutUint64(lb[:], uint64(w.Ctx.BlockHeight()))
	h.Write(lb[:])
	binary.BigEndian.PutUint64(lb[:], uint64(w.Ctx.BlockTime().UnixNano()))
	h.Write(lb[:])
	return h.Sum(nil)[:16]
}

// StoreDump returns name -> key -> value of the selected stores (for differential oracles).
func (w *World) StoreDump(skip map[string]bool) map[string]string {
	out := map[string]string{}
	ms := w.Ctx.MultiStore()
	for _, k := range w.storeKeys {
		if skip[k.Name()] {
			continue
		}
		it := ms.GetKVStore(k).Iterator(nil, nil)
		for ; it.Valid(); it.Next() {
			out[k.Name()+"/"+string(it.Key())] = string(it.Value())
		}
		it.Close()
	}
	bal := testkeeper.VerifSnapshotBalances()
	for a, c := range bal {
		if !c.IsZero() {
			out["bank/"+a] = c.String()
		}
	}
	return out
}

// Supply of the bond denom according to the mock bank.
func (w *World) Supply() sdk.Int {
	return w.Keepers.BankKeeper.GetSupply(w.Ctx, w.TokenDenom()).Amount
}

// IsMockBankPanic tells whether a panic message is the mock bank's overdraft artefact
// (the real bank returns ErrInsufficientFunds instead of panicking).
func IsMockBankPanic(p string) bool {
	return strings.Contains(p, "negative coin amount") && strings.Contains(p, "mock_keepers.go")
}

// ---- block-advance macros

// AdvanceBlocks advances n blocks of dt each; returns the first block panic (and stops there).
func (w *World) AdvanceBlocksDt(n int, dt time.Duration) string {
	for i := 0; i < n; i++ {
		if p := w.NextBlock(dt); p != "" {
			return p
		}
	}
	return ""
}

// AdvanceToNextEpoch advances block by block (dt each) until the next epoch start.
func (w *World) AdvanceToNextEpoch(dt time.Duration) string {
	start := w.Keepers.Epochstorage.GetEpochStart(w.Ctx)
	for i := 0; i < 10000; i++ {
		if p := w.NextBlock(dt); p != "" {
			return p
		}
		if w.Keepers.Epochstorage.GetEpochStart(w.Ctx) != start {
			return ""
		}
	}
	return "harness: epoch never advanced"
}

// AdvanceTime advances one block carrying the time forward by d.
func (w *World) AdvanceTime(d time.Duration) string { return w.NextBlock(d) }
