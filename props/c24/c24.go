// Package c24: reputation pairing scores are bounded and order-preserving — BFS over histories of relay
// payments carrying QoS excellence reports and epoch advances with time jumps, on the real keepers.
package c24

import (
	"fmt"
	"os"
	"strconv"
	"strings"
	"time"

	sdk "github.com/cosmos/cosmos-sdk/types"
	"github.com/lavanet/lava/v5/testutil/common"
	"github.com/lavanet/lava/v5/utils/sigs"
	pairingtypes "github.com/lavanet/lava/v5/x/pairing/types"

	"verifmc/engine/bfs"
	"verifmc/engine/chain"
	"verifmc/engine/ev"
	"verifmc/engine/reg"
)

const specID = "mock"

var stakeMult = []int64{1, 1, 5}

type report struct {
	name             string
	lat, sync, avail sdk.Dec
	cu               uint64
}

func dec(s string) sdk.Dec { return sdk.MustNewDecFromStr(s) }

// the grid of the design: latency x sync x availability
var (
	gridLat   = []string{"0.01", "1", "100"}
	gridSync  = []string{"0.1", "10"}
	gridAvail = []string{"1", "0.5", "0.01"}
	gridCu    = []uint64{1, 10, 100}
)

func fullGrid() []report {
	var out []report
	i := 0
	for _, l := range gridLat {
		for _, sy := range gridSync {
			for _, a := range gridAvail {
				out = append(out, report{name: fmt.Sprintf("l%s/s%s/a%s", l, sy, a), lat: dec(l), sync: dec(sy), avail: dec(a), cu: gridCu[i%len(gridCu)]})
				i++
			}
		}
	}
	return out
}

// four reports that together use every value of the grid (weights (CU) 10 / 1000 / 10 / 100) and a perfect one
func subGrid() []report {
	return []report{
		{name: "l0.01/s0.1/a1", lat: dec("0.01"), sync: dec("0.1"), avail: dec("1"), cu: 10},
		{name: "l1/s10/a0.5", lat: dec("1"), sync: dec("10"), avail: dec("0.5"), cu: 1000},
		{name: "l100/s0.1/a1", lat: dec("100"), sync: dec("0.1"), avail: dec("1"), cu: 10},
		{name: "l100/s10/a0.01", lat: dec("100"), sync: dec("10"), avail: dec("0.01"), cu: 100},
		// a perfect report: the QoS score is exactly 0 (the benchmark of a cluster can be 0)
		{name: "l0/s0/a1", lat: dec("0"), sync: dec("0"), avail: dec("1"), cu: 10},
	}
}

type gap struct {
	name string
	dt   time.Duration
}

var gaps = []gap{
	{"next-epoch", 0},
	{"+1day,next-epoch", 24 * time.Hour},
	{"+40days,next-epoch", 40 * 24 * time.Hour},
	{"+400days,next-epoch", 400 * 24 * time.Hour},
}

type opdef struct {
	name     string
	kind     int // 0 pay, 1 time
	provider int
	rep      int
	gap      time.Duration
}

type scen struct {
	w           *chain.World
	reports     []report
	maxPerEpoch int  // 0: unlimited payments per provider and epoch
	singleRound bool // do not expand beyond the first epoch advance
	ops         []opdef
	names       []string
	cons        sigs.Account
	provs       []sigs.Account
	provIdx     map[string]int

	// model state (Go side): accepted QoS payments per provider in the current epoch, and the highest provider
	// index paid in the current epoch (canonical order of payments to distinct providers)
	paid     [3]int
	lastProv int

	// leafDepth > 0: the search depth of the run; a payment as the leafDepth-th operation of a history is skipped
	// (no block follows it inside the bound, so nothing the property speaks about is lost). depth = accepted
	// operations since Reset.
	leafDepth int
	depth     int
}

var trace = os.Getenv("VERIF_C24_TRACE") != ""

func build(reports []report, maxPerEpoch int, singleRound bool) *scen {
	s := &scen{reports: reports, maxPerEpoch: maxPerEpoch, singleRound: singleRound, provIdx: map[string]int{}}
	s.leafDepth, _ = strconv.Atoi(os.Getenv("VERIF_C24_LEAF"))
	w := chain.NewWorld()
	s.w = w
	w.SetEpochParams(4, 3)
	w.AddValidator(0, 1000000)
	w.Must("add spec", w.AddSpecGov(chain.MockSpec(specID)))
	plan := common.CreateMockPlan()
	plan.PlanPolicy.TotalCuLimit = 1000000000
	plan.PlanPolicy.EpochCuLimit = 100000000
	w.Must("add plan", w.AddPlanGov(false, plan))
	sp, found := w.Keepers.Spec.GetSpec(w.Ctx, specID)
	if !found {
		panic("fixture: spec not found")
	}
	minStake := sp.MinStakeProvider.Amount.Int64()
	for i, m := range stakeMult {
		acc, _ := w.AddAccount(common.PROVIDER, i, 10000000)
		w.Must("stake", w.Stake(acc, specID, minStake*m, 1, nil, 100))
		s.provs = append(s.provs, acc)
		s.provIdx[acc.Addr.String()] = i
	}
	s.cons, _ = w.AddAccount(common.CONSUMER, 0, 10000000)
	// 12 months: a month timer fires once per block, so every time jump costs at most one month
	w.Must("buy", w.Buy(s.cons, s.cons, plan.Index, 12, false, false))
	for i := 0; i < 2; i++ {
		if p := w.AdvanceToNextEpoch(chain.BlockDt); p != "" {
			panic("fixture: " + p)
		}
	}
	// fixture sanity: the three providers are staked with {1,1,5} x min and unfrozen
	for i, acc := range s.provs {
		e, ok := w.Keepers.Epochstorage.GetStakeEntryCurrent(w.Ctx, specID, acc.Addr.String())
		if !ok || e.TotalStake().Int64() != minStake*stakeMult[i] || e.IsFrozen() {
			panic(fmt.Sprintf("fixture: provider %d stake entry unexpected: found=%v %v", i, ok, e))
		}
	}
	w.MarkFixture()
	for p := range s.provs {
		for r, rep := range reports {
			s.ops = append(s.ops, opdef{name: fmt.Sprintf("pay(p%d,%s,cu=%d)", p, rep.name, rep.cu), kind: 0, provider: p, rep: r})
		}
	}
	for _, g := range gaps {
		s.ops = append(s.ops, opdef{name: g.name, kind: 1, gap: g.dt})
	}
	for _, o := range s.ops {
		s.names = append(s.names, o.name)
	}
	return s
}

func (s *scen) Ops() []string { return s.names }
func (s *scen) Reset()        { s.w.Reset(); s.paid = [3]int{}; s.lastProv = 0; s.depth = 0 }
func (s *scen) Fork() func() {
	r := s.w.Fork()
	paid, last, depth := s.paid, s.lastProv, s.depth
	return func() { r(); s.paid = paid; s.lastProv = last; s.depth = depth }
}

func (s *scen) Hash() []byte {
	h := s.w.StateHash()
	return append(h, []byte(fmt.Sprintf("%v|%d", s.paid, s.lastProv))...)
}

func v(key, what string) ev.Violation { return ev.Violation{Property: "C24", Key: key, What: what} }

type repEntry struct {
	chain, cluster, provider string
	rep                      pairingtypes.Reputation
}

func (e repEntry) who(s *scen) string {
	if i, ok := s.provIdx[e.provider]; ok {
		return fmt.Sprintf("p%d@%s/%s", i, e.chain, e.cluster)
	}
	return e.provider + "@" + e.chain + "/" + e.cluster
}

func (s *scen) reputations() []repEntry {
	var out []repEntry
	for _, g := range s.w.Keepers.Pairing.GetAllReputation(s.w.Ctx) {
		out = append(out, repEntry{g.ChainId, g.Cluster, g.Provider, g.Reputation})
	}
	return out
}

// invariants that hold after every block and every transaction:
// every stored reputation validates; every pairing score lies in [Min, Max].
func (s *scen) checkState(where string) []ev.Violation {
	w := s.w
	var viol []ev.Violation
	minS, maxS := pairingtypes.MinReputationPairingScore, pairingtypes.MaxReputationPairingScore
	checked := map[string]bool{}
	checkScore := func(chainID, cluster, provider, who string) {
		k := chainID + " " + cluster + " " + provider
		if checked[k] {
			return
		}
		checked[k] = true
		sc, found := w.Keepers.Pairing.GetReputationScore(w.Ctx, chainID, cluster, provider)
		if !found {
			return
		}
		if sc.IsNil() || sc.LT(minS) || sc.GT(maxS) {
			viol = append(viol, v("pairing-score-out-of-range", fmt.Sprintf("%s: pairing score of %s is %s, outside [%s, %s]", where, who, sc, minS, maxS)))
		}
	}
	for _, e := range s.reputations() {
		r := e.rep
		neg := func(d sdk.Dec) bool { return d.IsNil() || d.IsNegative() }
		npos := func(d sdk.Dec) bool { return d.IsNil() || !d.IsPositive() }
		if npos(r.Score.Score.Denom) || npos(r.Score.Variance.Denom) || npos(r.EpochScore.Score.Denom) || npos(r.EpochScore.Variance.Denom) ||
			neg(r.Score.Score.Num) || neg(r.Score.Variance.Num) || neg(r.EpochScore.Score.Num) || neg(r.EpochScore.Variance.Num) {
			viol = append(viol, v("stored-reputation-negative-field", fmt.Sprintf("%s: stored reputation of %s has a negative score/variance numerator or a non-positive denominator: %s", where, e.who(s), r.String())))
		} else if !r.Validate() {
			viol = append(viol, v("stored-reputation-invalid", fmt.Sprintf("%s: stored reputation of %s does not validate: %s", where, e.who(s), r.String())))
		}
		checkScore(e.chain, e.cluster, e.provider, e.who(s))
	}
	// also providers without a reputation entry (scores live in a separate fixation store)
	sub, found := w.Keepers.Subscription.GetSubscription(w.Ctx, s.cons.Addr.String())
	if found {
		for i, p := range s.provs {
			checkScore(specID, sub.Cluster, p.Addr.String(), fmt.Sprintf("p%d@%s/%s", i, specID, sub.Cluster))
		}
	}
	return viol
}

// oracle at an epoch start (right after the begin-blockers): among the reputations of one chain and cluster that were
// updated at this epoch start, a strictly lower resolved QoS score never has a lower pairing score; every provider
// paid with a QoS report during the ended epoch was updated.
func (s *scen) checkEpochStart() (viol []ev.Violation, updated, strictPairs, belowMax int) {
	w := s.w
	now := w.Ctx.BlockTime().UTC().Unix()
	type item struct {
		e       repEntry
		qos     sdk.Dec
		pairing sdk.Dec
	}
	groups := map[string][]item{}
	updatedProv := map[int]bool{}
	for _, e := range s.reputations() {
		if e.rep.TimeLastUpdated != now {
			continue
		}
		updated++
		if i, ok := s.provIdx[e.provider]; ok && e.chain == specID {
			updatedProv[i] = true
		}
		q, err := e.rep.Score.Score.Resolve()
		if err != nil {
			viol = append(viol, v("updated-score-unresolvable", fmt.Sprintf("reputation of %s updated at this epoch start cannot be resolved: %v", e.who(s), err)))
			continue
		}
		ps, found := w.Keepers.Pairing.GetReputationScore(w.Ctx, e.chain, e.cluster, e.provider)
		if !found {
			viol = append(viol, v("updated-without-pairing-score", fmt.Sprintf("reputation of %s was updated at this epoch start (QoS score %s) but it has no pairing score", e.who(s), q)))
			continue
		}
		if ps.LT(pairingtypes.MaxReputationPairingScore) {
			belowMax++
		}
		if trace {
			fmt.Fprintf(os.Stderr, "[c24] h=%d t=%d %s qos=%s pairing=%s rep=%s\n", w.Ctx.BlockHeight(), now, e.who(s), q, ps, e.rep.String())
		}
		k := e.chain + " " + e.cluster
		groups[k] = append(groups[k], item{e, q, ps})
	}
	for _, g := range groups {
		for i := range g {
			for j := range g {
				if g[i].qos.LT(g[j].qos) {
					strictPairs++
					if g[i].pairing.LT(g[j].pairing) {
						viol = append(viol, v("order-not-preserved", fmt.Sprintf("epoch start at height %d: %s has the better QoS score (%s < %s of %s) but the lower pairing score (%s < %s)",
							w.Ctx.BlockHeight(), g[i].e.who(s), g[i].qos, g[j].qos, g[j].e.who(s), g[i].pairing, g[j].pairing)))
					}
				}
			}
		}
	}
	for i, n := range s.paid {
		if n > 0 && !updatedProv[i] {
			viol = append(viol, v("paid-reputation-not-updated", fmt.Sprintf("epoch start at height %d: p%d received %d QoS excellence report(s) in the ended epoch but its reputation was not updated (the decayed reputation was rejected or the update aborted)", w.Ctx.BlockHeight(), i, n)))
		}
	}
	return
}

func (s *scen) block(dt time.Duration, where string) (st *bfs.Step, obs string) {
	w := s.w
	if p := w.NextBlock(dt); p != "" {
		key, prop := "block-panic:"+firstLine(p), "C37"
		return &bfs.Step{Accepted: true, Obs: "block-panic", Viol: []ev.Violation{{Property: prop, Key: key, What: where + ": panic in block processing: " + firstLine(p)}}}, ""
	}
	viol := s.checkState(fmt.Sprintf("%s, after block %d", where, w.Ctx.BlockHeight()))
	if w.Keepers.Epochstorage.IsEpochStart(w.Ctx) {
		ev2, upd, strict, below := s.checkEpochStart()
		viol = append(viol, ev2...)
		s.paid = [3]int{}
		s.lastProv = 0
		obs = fmt.Sprintf("epoch(updated=%d,strict-pairs=%d,below-max=%d)", upd, strict, below)
	}
	if len(viol) > 0 {
		return &bfs.Step{Accepted: true, Obs: "violation", Viol: viol}, obs
	}
	return nil, obs
}

func (s *scen) Apply(op int) bfs.Step {
	o := s.ops[op]
	if o.kind == 0 && s.leafDepth > 0 && s.depth == s.leafDepth-1 {
		return bfs.Step{Accepted: false, Obs: "leaf-payment-skipped"}
	}
	st := s.apply(o)
	if st.Accepted {
		s.depth++
	}
	return st
}

func (s *scen) apply(o opdef) bfs.Step {
	w := s.w
	if o.kind == 1 {
		obs := ""
		if o.gap > 0 {
			st, ob := s.block(o.gap, o.name)
			if st != nil {
				return *st
			}
			obs = ob
		}
		start := w.EpochStartNow()
		for i := 0; w.EpochStartNow() == start; i++ {
			if i > 100 {
				panic("harness: epoch never advanced")
			}
			st, ob := s.block(chain.BlockDt, o.name)
			if st != nil {
				return *st
			}
			if ob != "" {
				obs += ob
			}
		}
		if _, found := w.Keepers.Subscription.GetSubscription(w.Ctx, s.cons.Addr.String()); !found {
			// bound of the fixture (12-month subscription used up): do not expand
			return bfs.Step{Accepted: true, Prune: true, Obs: "subscription-expired"}
		}
		return bfs.Step{Accepted: true, Prune: s.singleRound, Obs: obs}
	}
	// ---- payment with a QoS excellence report
	if o.provider < s.lastProv {
		return bfs.Step{Accepted: false, Obs: "non-canonical-order"}
	}
	if s.maxPerEpoch > 0 && s.paid[o.provider] >= s.maxPerEpoch {
		return bfs.Step{Accepted: false, Obs: "per-epoch-bound"}
	}
	rep := s.reports[o.rep]
	paddr := s.provs[o.provider].Addr.String()
	epoch := w.EpochStartNow()
	rs := &pairingtypes.RelaySession{Provider: paddr, ContentHash: []byte("apiname"), SessionId: uint64(1000*(o.provider+1) + s.paid[o.provider]), SpecId: specID,
		CuSum: rep.cu, Epoch: int64(epoch), RelayNum: 1, LavaChainId: chain.ChainID,
		QosExcellenceReport: &pairingtypes.QualityOfServiceReport{Latency: rep.lat, Sync: rep.sync, Availability: rep.avail}}
	chain.SignRelay(s.cons, rs)
	before, hadBefore := w.Keepers.Pairing.GetReputation(w.Ctx, specID, s.cluster(), paddr)
	res := w.Tx(func() error {
		msg := &pairingtypes.MsgRelayPayment{Creator: paddr, Relays: []*pairingtypes.RelaySession{rs}, DescriptionString: "verif"}
		if err := msg.ValidateBasic(); err != nil {
			return err
		}
		resp, err := w.Servers.PairingServer.RelayPayment(w.GoCtx, msg)
		if err == nil && resp != nil && resp.RejectedRelays {
			return fmt.Errorf("relay rejected")
		}
		return err
	})
	if res.Panic != "" {
		return bfs.Step{Accepted: false, Obs: "tx-panic", Viol: []ev.Violation{v("pay-panic:"+firstLine(res.Panic), "relay payment panicked: "+firstLine(res.Panic))}}
	}
	if !res.OK() {
		return bfs.Step{Accepted: false, Obs: "pay-rejected"}
	}
	after, hasAfter := w.Keepers.Pairing.GetReputation(w.Ctx, specID, s.cluster(), paddr)
	if !hasAfter || (hadBefore && after.EpochScore.Equal(before.EpochScore)) {
		// harness guard (vacuity): an accepted payment must have been aggregated into the epoch score
		return bfs.Step{Accepted: true, Prune: true, Obs: "pay-not-aggregated"}
	}
	s.paid[o.provider]++
	s.lastProv = o.provider
	if viol := s.checkState("after " + o.name); len(viol) > 0 {
		return bfs.Step{Accepted: true, Obs: "violation", Viol: viol}
	}
	return bfs.Step{Accepted: true, Obs: "pay"}
}

func (s *scen) cluster() string {
	sub, found := s.w.Keepers.Subscription.GetSubscription(s.w.Ctx, s.cons.Addr.String())
	if !found {
		return ""
	}
	return sub.Cluster
}

func firstLine(s string) string {
	if i := strings.IndexByte(s, '\n'); i >= 0 {
		return s[:i]
	}
	return s
}

func init() {
	bfs.Register("c24/deep", func() bfs.Scenario { return build(subGrid(), 0, false) })
	bfs.Register("c24/grid", func() bfs.Scenario { return build(fullGrid(), 1, false) })
	bfs.Register("c24/round", func() bfs.Scenario { return build(fullGrid(), 1, true) })
	reg.Register(reg.Check{Property: "C24", Level: "model_checking", Run: func(run *ev.Run) {
		type part struct {
			name     string
			depth    int
			leaf     bool // skip payments as the last operation of a depth-bounded history
			deadline time.Duration
		}
		parts := []part{{"deep", 4, true, 30 * time.Second}, {"round", 4, true, 45 * time.Second}}
		if ev.Tier() == "thorough" {
			parts = []part{{"deep", 5, false, 9 * time.Minute}, {"grid", 4, true, 9 * time.Minute}}
		}
		if x, err := strconv.Atoi(os.Getenv("VERIF_C24_DEADLINE_X")); err == nil && x > 0 {
			// development aid for measuring complete counts on an overloaded machine
			for i := range parts {
				parts[i].deadline *= time.Duration(x)
			}
		}
		exh := true
		var bounds []string
		for _, p := range parts {
			leaf := 0
			if p.leaf {
				leaf = p.depth
			}
			os.Setenv("VERIF_C24_LEAF", strconv.Itoa(leaf)) // inherited by the worker processes
			cfg := bfs.Config{Scenario: "c24/" + p.name, MaxDepth: p.depth, Deadline: p.deadline}
			st := bfs.Explore(cfg, run)
			bfs.Report(run, p.name, cfg, st)
			exh = exh && st.Exhaustive
			var strict, below int64
			for k, n := range st.Outcomes {
				if strings.Contains(k, "strict-pairs=") && !strings.Contains(k, "strict-pairs=0") {
					strict += n
				}
				if strings.Contains(k, "below-max=") && !strings.Contains(k, "below-max=0") {
					below += n
				}
			}
			run.Set(p.name+".executed_transitions", st.Transitions-st.Rejected)
			run.Set(p.name+".epoch_starts_with_strictly_ordered_pair", strict)
			run.Set(p.name+".epoch_starts_with_score_below_max", below)
			lp := ""
			if p.leaf {
				lp = fmt.Sprintf(", payments as operation no. %d skipped (no block follows them within the bound)", p.depth)
			}
			bounds = append(bounds, fmt.Sprintf("%s: all histories up to depth %d%s (levels completed: %d)", p.name, p.depth, lp, st.DepthCompleted))
		}
		run.Set("exhaustive", exh)
		run.Set("bound", "one consumer (12-month subscription, cluster of plan 'free'), 3 providers of one chain staked {1,1,5} x min stake; ops: payment of one relay with a QoS excellence report to provider i, "+
			"and 4 epoch advances (next epoch; one block of +1 day / +40 days / +400 days then next epoch); payments to distinct providers inside one epoch only in provider order (they touch distinct reputation entries). "+
			"'deep': 4 reports covering every grid value (CU weights 10/1000/10/100), any number of payments per provider and epoch; 'grid': all 18 reports latency{0.01,1,100} x sync{0.1,10} x availability{1,0.5,0.01} (CU 1/10/100), "+
			"at most one payment per provider and epoch; 'round': like 'grid' but histories end at their first epoch advance (every assignment of at most one of the 18 reports to each provider x 4 gaps). "+strings.Join(bounds, "; "))
		run.Assume("mock bank/account keeper of testutil/keeper; transactions atomic as in baseapp; [Min,Max] are types.MinReputationPairingScore/MaxReputationPairingScore; " +
			"'updated at the same epoch start' is read from Reputation.TimeLastUpdated == block time of the epoch-start block; equal resolved QoS scores impose no order (weaker reading)")
	}})
}
