// Package all links every plain-build check into the dispatcher.
package all

import (
	_ "verifmc/props/c02"
	_ "verifmc/props/c03"
	_ "verifmc/props/c04"
	_ "verifmc/props/c14"
	_ "verifmc/props/c15"
	_ "verifmc/props/c16"
	_ "verifmc/props/c20"
	_ "verifmc/props/c22"
	_ "verifmc/props/c23"
	_ "verifmc/props/c25"
	_ "verifmc/props/c26"
	_ "verifmc/props/c30"
	_ "verifmc/props/c33"
	_ "verifmc/props/c35"
	_ "verifmc/props/c36"
	_ "verifmc/props/c39"
)
