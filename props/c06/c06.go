// Package c06: provider delegations mirror validator delegations (C06) and — shared world — provider stake
// entries / metadata stay consistent (C07). BFS over histories of staking-module, dualstaking and pairing
// transactions plus validator slashes on the real keepers.
package c06

import (
	"fmt"
	"os"
	"sort"
	"strconv"
	"strings"
	"time"

	"cosmossdk.io/math"
	sdk "github.com/cosmos/cosmos-sdk/types"
	stakingtypes "github.com/cosmos/cosmos-sdk/x/staking/types"
	"github.com/lavanet/lava/v5/testutil/common"
	commontypes "github.com/lavanet/lava/v5/utils/common/types"
	"github.com/lavanet/lava/v5/utils/sigs"
	dualstakingante "github.com/lavanet/lava/v5/x/dualstaking/ante"
	dualstakingtypes "github.com/lavanet/lava/v5/x/dualstaking/types"
	epochstoragetypes "github.com/lavanet/lava/v5/x/epochstorage/types"
	pairingtypes "github.com/lavanet/lava/v5/x/pairing/types"
	planstypes "github.com/lavanet/lava/v5/x/plans/types"

	"verifmc/engine/bfs"
	"verifmc/engine/chain"
	"verifmc/engine/ev"
	"verifmc/engine/reg"
)

const (
	specA        = "speca"
	specB        = "specb"
	minSpecStake = 200 // MinStakeProvider of both specs; dualstaking MinSelfDelegation is 100 (test keepers)
	commission   = 50
)

// op kinds
const (
	kBlock = iota
	kSlash
	kStDelegate
	kStUndelegate // amt<0: everything
	kStRedelegate
	kStCancel
	kDsDelegate
	kDsRedelegate
	kDsUnbond
	kDsClaim
	kStake
	kMove
	kUnstake
)

var kindName = map[int]string{kBlock: "block", kSlash: "slash", kStDelegate: "stDelegate", kStUndelegate: "stUndelegate", kStRedelegate: "stRedelegate",
	kStCancel: "stCancelUnbonding", kDsDelegate: "dsDelegate", kDsRedelegate: "dsRedelegate", kDsUnbond: "dsUnbond", kDsClaim: "dsClaim",
	kStake: "stake", kMove: "moveStake", kUnstake: "unstake"}

type opdef struct {
	name     string
	kind     int
	who      string // account key of the tx creator/delegator ("d0","d1","vault0","vault1","prov0","prov1")
	val, to  int    // validator indexes
	prov     int    // provider index, -1 = empty provider
	prov2    int
	chainID  string
	chainID2 string
	amt      int64
}

type scen struct {
	prop  string // "C06" or "C07": which oracle reports
	w     *chain.World
	rf    dualstakingante.RedelegationFlager
	ops   []opdef
	names []string
	vals  []sigs.Account
	provs []sigs.Account // provider accounts (Addr = provider address, Vault = vault)
	acct  map[string]sigs.Account
	h0    int64
	// model state: (delegator|validator) pairs that held a delegation at a validator whose exchange rate is not 1
	touched map[string]bool
}

func coin(w *chain.World, a int64) sdk.Coin { return sdk.NewCoin(w.TokenDenom(), sdk.NewInt(a)) }

func (s *scen) valAddr(i int) sdk.ValAddress { return sdk.ValAddress(s.vals[i].Addr) }

func (s *scen) provAddr(i int) string {
	if i < 0 {
		return commontypes.EMPTY_PROVIDER
	}
	return s.provs[i].Addr.String()
}

// base fixture shared by both alphabets
func (s *scen) base() {
	w := chain.NewWorld()
	s.w = w
	s.rf = dualstakingante.NewRedelegationFlager(w.Keepers.Dualstaking)
	s.acct = map[string]sigs.Account{}
	w.SetEpochParams(4, 3)
	for i := 0; i < 2; i++ {
		s.vals = append(s.vals, w.AddValidator(i, 1000000))
	}
	for _, id := range []string{specA, specB} {
		sp := chain.MockSpec(id)
		sp.MinStakeProvider = coin(w, minSpecStake)
		w.Must("add spec", w.AddSpecGov(sp))
	}
	w.Must("add plan", w.AddPlanGov(false, common.CreateMockPlan()))
	for i := 0; i < 2; i++ {
		acc, _ := w.AddAccount(common.PROVIDER, i, 10000000)
		s.provs = append(s.provs, acc)
		s.acct[fmt.Sprintf("prov%d", i)] = acc
		s.acct[fmt.Sprintf("vault%d", i)] = *acc.Vault
	}
	for i := 0; i < 2; i++ {
		acc, _ := w.AddAccount(common.CONSUMER, i, 10000000)
		s.acct[fmt.Sprintf("d%d", i)] = acc
	}
}

// makeReward lets a consumer pay provider 0 for a relay and passes the subscription month, so that delegator d0
// holds a claimable reward from provider 0 (ClaimRewards is then a non-trivial transaction).
func (s *scen) makeReward() {
	w := s.w
	cons, _ := w.AddAccount(common.CONSUMER, 2, 10000000)
	w.Must("buy", w.Buy(cons, cons, "free", 1, false, false))
	for i := 0; i < 2; i++ {
		if p := w.AdvanceToNextEpoch(chain.BlockDt); p != "" {
			panic("fixture: " + p)
		}
	}
	p0 := s.provs[0].Addr.String()
	w.Must("pay", w.Pay(p0, w.Relay(cons, p0, specA, 1, 1000, int64(w.EpochStartNow()), 0)))
	if p := w.NextBlock(32 * 24 * time.Hour); p != "" {
		panic("fixture: " + p)
	}
	for i := 0; i < 6; i++ {
		if p := w.AdvanceToNextEpoch(chain.BlockDt); p != "" {
			panic("fixture: " + p)
		}
	}
	if _, found := w.Keepers.Dualstaking.GetDelegatorReward(w.Ctx, p0, s.acct["d0"].Addr.String()); !found {
		panic("fixture: no delegator reward was produced for d0")
	}
}

func (s *scen) must(what string, st bfs.Step) {
	if !st.Accepted || len(st.Viol) > 0 {
		panic(fmt.Sprintf("fixture step %s: accepted=%v obs=%s viol=%v", what, st.Accepted, st.Obs, st.Viol))
	}
}

func (s *scen) finish() {
	w := s.w
	if p := w.AdvanceToNextEpoch(chain.BlockDt); p != "" {
		panic("fixture: " + p)
	}
	if p := w.AdvanceToNextEpoch(chain.BlockDt); p != "" {
		panic("fixture: " + p)
	}
	s.h0 = w.Ctx.BlockHeight()
	if p := w.NextBlock(chain.BlockDt); p != "" {
		panic("fixture: " + p)
	}
	w.MarkFixture()
	for _, o := range s.ops {
		s.names = append(s.names, o.name)
	}
	s.touched = map[string]bool{}
}

// buildDeleg: alphabet A — validator-side and dualstaking operations of delegators.
func buildDeleg(prop string) *scen {
	s := &scen{prop: prop, touched: map[string]bool{}}
	s.base()
	fx := func(o opdef) { s.must(o.name, s.apply(o, false)) }
	fx(opdef{name: "fx stake p0 A", kind: kStake, who: "vault0", prov: 0, chainID: specA, amt: 250})
	fx(opdef{name: "fx stake p0 B", kind: kStake, who: "vault0", prov: 0, chainID: specB, amt: 250})
	fx(opdef{name: "fx stake p1 A", kind: kStake, who: "vault1", prov: 1, chainID: specA, amt: 250})
	fx(opdef{name: "fx d0->p0", kind: kDsDelegate, who: "d0", val: 0, prov: 0, amt: 250})
	fx(opdef{name: "fx d0->p1", kind: kDsDelegate, who: "d0", val: 0, prov: 1, amt: 101})
	fx(opdef{name: "fx d0->v0", kind: kStDelegate, who: "d0", val: 0, amt: 100})
	fx(opdef{name: "fx d1->v0", kind: kStDelegate, who: "d1", val: 0, amt: 100})
	s.makeReward()
	s.ops = []opdef{
		{name: "st.Delegate(d0,v0,101)", kind: kStDelegate, who: "d0", val: 0, amt: 101},
		{name: "st.Delegate(d0,v1,100)", kind: kStDelegate, who: "d0", val: 1, amt: 100},
		{name: "st.Undelegate(d0,v0,101)", kind: kStUndelegate, who: "d0", val: 0, amt: 101},
		{name: "st.Undelegate(d0,v0,250)", kind: kStUndelegate, who: "d0", val: 0, amt: 250},
		{name: "st.Undelegate(d0,v0,all)", kind: kStUndelegate, who: "d0", val: 0, amt: -1},
		{name: "st.Redelegate(d0,v0->v1,100)", kind: kStRedelegate, who: "d0", val: 0, to: 1, amt: 100},
		{name: "st.Redelegate(d1,v0->v1,all)", kind: kStRedelegate, who: "d1", val: 0, to: 1, amt: -1},
		{name: "st.CancelUnbonding(d0,v0,1)", kind: kStCancel, who: "d0", val: 0, amt: 1},
		{name: "slash(v0,1/2)+block", kind: kSlash, val: 0},
		{name: "slash(v1,1/2)+block", kind: kSlash, val: 1},
		{name: "ds.Delegate(d0,v1,p1,100)", kind: kDsDelegate, who: "d0", val: 1, prov: 1, amt: 100},
		{name: "ds.Redelegate(d0,p0->p1,101)", kind: kDsRedelegate, who: "d0", prov: 0, prov2: 1, amt: 101},
		{name: "ds.Redelegate(d0,empty->p0,100)", kind: kDsRedelegate, who: "d0", prov: -1, prov2: 0, amt: 100},
		{name: "ds.Unbond(d0,v0,p0,100)", kind: kDsUnbond, who: "d0", val: 0, prov: 0, amt: 100},
		{name: "ds.ClaimRewards(d0)", kind: kDsClaim, who: "d0", prov: 0},
		{name: "+block", kind: kBlock},
	}
	s.finish()
	return s
}

// buildProv: alphabet B — pairing stake / modify / move / unstake (vault and provider), delegations, vault-side staking ops.
func buildProv(prop string) *scen {
	s := &scen{prop: prop, touched: map[string]bool{}}
	s.base()
	fx := func(o opdef) { s.must(o.name, s.apply(o, false)) }
	fx(opdef{name: "fx stake p0 A", kind: kStake, who: "vault0", prov: 0, chainID: specA, amt: 250})
	fx(opdef{name: "fx d0->p0", kind: kDsDelegate, who: "d0", val: 0, prov: 0, amt: 101})
	fx(opdef{name: "fx d0->v0", kind: kStDelegate, who: "d0", val: 0, amt: 100})
	s.ops = []opdef{
		{name: "stake(p0,B,100)", kind: kStake, who: "vault0", prov: 0, chainID: specB, amt: 100},
		{name: "stake(p0,B,250)", kind: kStake, who: "vault0", prov: 0, chainID: specB, amt: 250},
		{name: "stake(p0,A,101)", kind: kStake, who: "vault0", prov: 0, chainID: specA, amt: 101},
		{name: "stake(p0,A,350)", kind: kStake, who: "vault0", prov: 0, chainID: specA, amt: 350},
		{name: "stake(p1,A,250)", kind: kStake, who: "vault1", prov: 1, chainID: specA, amt: 250},
		// the provider address itself (not its vault) sends the stake tx for a chain
		{name: "stake(by prov0 itself,B,250)", kind: kStake, who: "prov0", prov: 0, chainID: specB, amt: 250},
		{name: "move(vault0,A->B,100)", kind: kMove, who: "vault0", chainID: specA, chainID2: specB, amt: 100},
		{name: "move(prov0,B->A,101)", kind: kMove, who: "prov0", chainID: specB, chainID2: specA, amt: 101},
		{name: "unstake(vault0,A)", kind: kUnstake, who: "vault0", chainID: specA},
		{name: "unstake(vault0,B)", kind: kUnstake, who: "vault0", chainID: specB},
		{name: "unstake(prov0,A)", kind: kUnstake, who: "prov0", chainID: specA},
		{name: "unstake(prov0,B)", kind: kUnstake, who: "prov0", chainID: specB},
		{name: "ds.Delegate(d0,v0,p0,100)", kind: kDsDelegate, who: "d0", val: 0, prov: 0, amt: 100},
		{name: "ds.Redelegate(d0,p0->p1,101)", kind: kDsRedelegate, who: "d0", prov: 0, prov2: 1, amt: 101},
		{name: "ds.Unbond(d0,v0,p0,101)", kind: kDsUnbond, who: "d0", val: 0, prov: 0, amt: 101},
		{name: "ds.Delegate(vault0,v0,p0,101)", kind: kDsDelegate, who: "vault0", val: 0, prov: 0, amt: 101},
		{name: "ds.Unbond(vault0,v0,p0,100)", kind: kDsUnbond, who: "vault0", val: 0, prov: 0, amt: 100},
		{name: "st.Undelegate(vault0,v0,100)", kind: kStUndelegate, who: "vault0", val: 0, amt: 100},
		{name: "slash(v0,1/2)+block", kind: kSlash, val: 0},
		{name: "+block", kind: kBlock},
	}
	s.finish()
	return s
}

func (s *scen) Ops() []string { return s.names }
func (s *scen) Reset()        { s.w.Reset(); s.touched = map[string]bool{} }
func (s *scen) Fork() func() {
	r := s.w.Fork()
	saved := map[string]bool{}
	for k := range s.touched {
		saved[k] = true
	}
	return func() { r(); s.touched = saved }
}

func (s *scen) Hash() []byte {
	h := s.w.StateHash()
	keys := make([]string, 0, len(s.touched))
	for k := range s.touched {
		keys = append(keys, k)
	}
	sort.Strings(keys)
	return append(h, []byte(strings.Join(keys, ";"))...)
}

func (s *scen) Apply(op int) bfs.Step { return s.apply(s.ops[op], true) }

// ---------------------------------------------------------------------------------------------------------
// state observation

type provState struct {
	meta    map[string]epochstoragetypes.ProviderMetadata
	entries map[string]map[string]epochstoragetypes.StakeEntry // provider -> chain -> entry
	dels    map[string]map[string]math.Int                     // provider -> delegator -> amount (no empty provider)
}

func (s *scen) readProv() provState {
	w := s.w
	ps := provState{meta: map[string]epochstoragetypes.ProviderMetadata{}, entries: map[string]map[string]epochstoragetypes.StakeEntry{}, dels: map[string]map[string]math.Int{}}
	mds, _ := w.Keepers.Epochstorage.GetAllMetadata(w.Ctx)
	for _, m := range mds {
		ps.meta[m.Provider] = m
	}
	for _, e := range w.Keepers.Epochstorage.GetAllStakeEntriesCurrent(w.Ctx) {
		if ps.entries[e.Address] == nil {
			ps.entries[e.Address] = map[string]epochstoragetypes.StakeEntry{}
		}
		ps.entries[e.Address][e.Chain] = e
	}
	ds, _ := w.Keepers.Dualstaking.GetAllDelegations(w.Ctx)
	for _, d := range ds {
		if d.Provider == commontypes.EMPTY_PROVIDER {
			continue
		}
		if ps.dels[d.Provider] == nil {
			ps.dels[d.Provider] = map[string]math.Int{}
		}
		ps.dels[d.Provider][d.Delegator] = d.Amount.Amount
	}
	return ps
}

// stakeSig describes the stakes and delegations of one provider (to detect "a tx that changed them").
func (ps provState) stakeSig(p string) string {
	var parts []string
	for c, e := range ps.entries[p] {
		parts = append(parts, "e:"+c+"="+e.Stake.Amount.String())
	}
	for d, a := range ps.dels[p] {
		parts = append(parts, "d:"+d+"="+a.String())
	}
	sort.Strings(parts)
	return strings.Join(parts, ",")
}

func (s *scen) who(addr string) string {
	for k, a := range s.acct {
		if a.Addr.String() == addr {
			return k
		}
	}
	for i, v := range s.vals {
		if v.Addr.String() == addr {
			return fmt.Sprintf("val%d", i)
		}
	}
	return addr
}

func (s *scen) vaultUsesSlashedValidator(vault string) bool {
	addr, err := sdk.AccAddressFromBech32(vault)
	if err != nil {
		return false
	}
	for _, d := range s.w.Keepers.StakingKeeper.GetAllDelegatorDelegations(s.w.Ctx, addr) {
		v, found := s.w.Keepers.StakingKeeper.GetValidator(s.w.Ctx, d.GetValidatorAddr())
		if found && !v.DelegatorShares.Equal(sdk.NewDecFromInt(v.Tokens)) {
			return true
		}
	}
	return false
}

func (s *scen) slashed(i int) bool {
	v, found := s.w.Keepers.StakingKeeper.GetValidator(s.w.Ctx, s.valAddr(i))
	return found && !v.DelegatorShares.Equal(sdk.NewDecFromInt(v.Tokens))
}

// ---------------------------------------------------------------------------------------------------------
// oracles

// checkC06: for every delegator Σ provider delegations (incl. empty provider) = Σ tokens delegated to validators,
// exactly while all its validators have exchange rate 1, else within the floor/ceil band of the share conversion
// widened by one unit per slashed validator the delegator has held a delegation at.
func (s *scen) checkC06(site string) []ev.Violation {
	w := s.w
	var out []ev.Violation
	provSum := map[string]math.Int{}
	all, _ := w.Keepers.Dualstaking.GetAllDelegations(w.Ctx)
	for _, d := range all {
		if d.Amount.Amount.IsNegative() {
			out = append(out, ev.Violation{Property: "C06", Key: "negative-delegation:" + site, What: fmt.Sprintf("delegation %s->%s is negative: %s", s.who(d.Delegator), s.who(d.Provider), d.Amount)})
		}
		cur, ok := provSum[d.Delegator]
		if !ok {
			cur = sdk.ZeroInt()
		}
		provSum[d.Delegator] = cur.Add(d.Amount.Amount)
	}
	lo := map[string]math.Int{}
	hi := map[string]math.Int{}
	nslashed := map[string]int{}
	w.Keepers.StakingKeeper.IterateAllDelegations(w.Ctx, func(d stakingtypes.Delegation) bool {
		v, found := w.Keepers.StakingKeeper.GetValidator(w.Ctx, d.GetValidatorAddr())
		if !found {
			return false
		}
		del := d.DelegatorAddress
		if _, ok := lo[del]; !ok {
			lo[del], hi[del] = sdk.ZeroInt(), sdk.ZeroInt()
		}
		t := v.TokensFromShares(d.Shares)
		lo[del] = lo[del].Add(t.TruncateInt())
		hi[del] = hi[del].Add(t.Ceil().TruncateInt())
		if !v.DelegatorShares.Equal(sdk.NewDecFromInt(v.Tokens)) {
			s.touched[del+"|"+d.ValidatorAddress] = true
		}
		return false
	})
	for k := range s.touched {
		nslashed[strings.SplitN(k, "|", 2)[0]]++
	}
	dels := map[string]bool{}
	for d := range provSum {
		dels[d] = true
	}
	for d := range lo {
		dels[d] = true
	}
	names := make([]string, 0, len(dels))
	for d := range dels {
		names = append(names, d)
	}
	sort.Strings(names)
	for _, d := range names {
		ps, ok := provSum[d]
		if !ok {
			ps = sdk.ZeroInt()
		}
		l, ok := lo[d]
		h := hi[d]
		if !ok {
			l, h = sdk.ZeroInt(), sdk.ZeroInt()
		}
		tau := int64(nslashed[d])
		if ps.LT(l.SubRaw(tau)) || ps.GT(h.AddRaw(tau)) {
			shape := "providers<validators"
			if ps.GT(h) {
				shape = "providers>validators"
			}
			// a delegator with a pending validator redelegation is told apart from one without: the slash of a
			// redelegation entry is a different code path (and a recorded finding) from the slash of a plain delegation
			if acc, err := sdk.AccAddressFromBech32(d); err == nil && len(w.Keepers.StakingKeeper.GetRedelegations(w.Ctx, acc, 8)) > 0 {
				shape += ":redelegator"
			}
			out = append(out, ev.Violation{Property: "C06", Key: fmt.Sprintf("imbalance:%s:%s", site, shape),
				What: fmt.Sprintf("delegator %s: provider delegations sum %s, validator tokens in [%s,%s], rounding tolerance %d", s.who(d), ps, l, h, tau)})
		}
	}
	return out
}

// checkC07 evaluates I1-I3 in the current state and, for a transaction that changed a provider's stakes or
// delegations (before != nil), I4 and I5.
func (s *scen) checkC07(site string, before *provState) []ev.Violation {
	w := s.w
	var out []ev.Violation
	add := func(key, what string) {
		out = append(out, ev.Violation{Property: "C07", Key: key + ":" + site, What: what})
	}
	ps := s.readProv()
	// I1
	for p, es := range ps.entries {
		if _, ok := ps.meta[p]; !ok {
			add("I1-entry-without-metadata", fmt.Sprintf("provider %s has %d current stake entries but no metadata", s.who(p), len(es)))
		}
	}
	provs := make([]string, 0, len(ps.meta))
	for p := range ps.meta {
		provs = append(provs, p)
	}
	sort.Strings(provs)
	for _, p := range provs {
		m := ps.meta[p]
		es := ps.entries[p]
		if len(es) == 0 {
			add("I1-metadata-without-entry", fmt.Sprintf("provider %s has metadata (chains %v) but no current stake entry", s.who(p), m.Chains))
		}
		set := map[string]int{}
		for _, c := range m.Chains {
			set[c]++
		}
		okSet := len(set) == len(es) && len(m.Chains) == len(set)
		for c := range es {
			if set[c] != 1 {
				okSet = false
			}
		}
		if !okSet {
			var ec []string
			for c := range es {
				ec = append(ec, c)
			}
			sort.Strings(ec)
			add("I1-metadata-chains-mismatch", fmt.Sprintf("provider %s: metadata chains %v, chains with a current entry %v", s.who(p), m.Chains, ec))
		}
		// I2
		sum := sdk.ZeroInt()
		for _, e := range es {
			sum = sum.Add(e.Stake.Amount)
			if e.Vault != m.Vault {
				add("I1-entry-vault-differs", fmt.Sprintf("provider %s: entry on %s has vault %s, metadata vault %s", s.who(p), e.Chain, s.who(e.Vault), s.who(m.Vault)))
			}
		}
		self, ok := ps.dels[p][m.Vault]
		if !ok {
			self = sdk.ZeroInt()
		}
		if !sum.Equal(self) {
			what := fmt.Sprintf("provider %s: Σ entry.Stake = %s but the vault's delegation to it is %s", s.who(p), sum, self)
			if sum.Sub(self).Abs().LTE(sdk.NewInt(2)) && s.vaultUsesSlashedValidator(m.Vault) {
				// one-unit discrepancies that appear when the vault stakes through a slashed validator (the amount credited
				// to the vault's delegation is derived from a share conversion): same defect class at every call site
				out = append(out, ev.Violation{Property: "C07", Key: "I2-selfstake-rounding-after-slash", What: what + " (vault delegates to a slashed validator; op " + site + ")"})
			} else {
				add("I2-selfstake-vs-vault-delegation", what)
			}
		}
		// I3
		others := sdk.ZeroInt()
		for d, a := range ps.dels[p] {
			if d != m.Vault {
				others = others.Add(a)
			}
		}
		if !others.Equal(m.TotalDelegations.Amount) {
			add("I3-total-delegations", fmt.Sprintf("provider %s: metadata.TotalDelegations = %s but Σ non-vault delegations = %s", s.who(p), m.TotalDelegations.Amount, others))
		}
		if before == nil || before.stakeSig(p) == ps.stakeSig(p) {
			continue
		}
		// I4: stake-proportional (floor) share of the total delegations
		if sum.IsPositive() {
			for _, e := range es {
				want := m.TotalDelegations.Amount.Mul(e.Stake.Amount).Quo(sum)
				if !e.DelegateTotal.Amount.Equal(want) {
					add("I4-delegate-total", fmt.Sprintf("provider %s chain %s: DelegateTotal = %s, expected floor(%s*%s/%s) = %s", s.who(p), e.Chain, e.DelegateTotal.Amount, m.TotalDelegations.Amount, e.Stake.Amount, sum, want))
				}
			}
		}
		// I5: fell below the spec minimum through this tx => frozen
		for c, e := range es {
			min := w.Keepers.Spec.GetMinStake(w.Ctx, c).Amount
			old, had := before.entries[p][c]
			if had && old.TotalStake().GTE(min) && e.TotalStake().LT(min) && !e.IsFrozen() {
				add("I5-below-min-not-frozen", fmt.Sprintf("provider %s chain %s: total stake fell from %s to %s (< spec minimum %s) and the entry is not frozen", s.who(p), c, old.TotalStake(), e.TotalStake(), min))
			}
		}
	}
	return out
}

// ---------------------------------------------------------------------------------------------------------
// operations

func firstLine(s string) string {
	if i := strings.IndexByte(s, '\n'); i >= 0 {
		return s[:i]
	}
	return s
}

func (s *scen) endpoints(chainID string) []epochstoragetypes.Endpoint {
	var eps []epochstoragetypes.Endpoint
	for _, g := range planstypes.GetGeolocationsFromUint(1) {
		eps = append(eps, epochstoragetypes.Endpoint{IPPORT: "123", ApiInterfaces: []string{"jsonrpc"}, Geolocation: int32(g)})
	}
	return eps
}

func (s *scen) oracle(site string, before *provState) []ev.Violation {
	if s.prop == "C06" {
		return s.checkC06(site)
	}
	return s.checkC07(site, before)
}

func (s *scen) apply(o opdef, check bool) bfs.Step {
	w := s.w
	site := kindName[o.kind]
	switch o.kind {
	case kBlock:
		if p := w.NextBlock(chain.BlockDt); p != "" {
			return bfs.Step{Accepted: true, Obs: "block-panic", Viol: []ev.Violation{{Property: "C37", Key: "block-panic:" + firstLine(p), What: "panic in block processing: " + firstLine(p)}}}
		}
		return bfs.Step{Accepted: true, Obs: "block", Viol: s.oracle(site, nil)}
	case kSlash:
		if s.slashed(o.val) {
			return bfs.Step{Accepted: false, Obs: "slash-skipped(already slashed)"}
		}
		var pan string
		func() {
			defer func() {
				if r := recover(); r != nil {
					pan = fmt.Sprint(r)
				}
			}()
			w.Keepers.SlashingKeeper.Slash(w.Ctx, sdk.GetConsAddress(s.vals[o.val].PubKey), sdk.NewDecWithPrec(5, 1), 1, s.h0)
		}()
		if pan == "" {
			pan = w.NextBlock(chain.BlockDt)
		}
		if pan != "" {
			return bfs.Step{Accepted: true, Obs: "block-panic", Viol: []ev.Violation{{Property: "C37", Key: "block-panic:" + firstLine(pan), What: "panic in slash/block processing: " + firstLine(pan)}}}
		}
		return bfs.Step{Accepted: true, Obs: "slash", Viol: s.oracle(site, nil)}
	}
	// ---- transactions
	acc := s.acct[o.who]
	var msg sdk.Msg
	var exec func() error
	obsExtra := ""
	switch o.kind {
	case kStDelegate:
		m := stakingtypes.NewMsgDelegate(acc.Addr, s.valAddr(o.val), coin(w, o.amt))
		msg, exec = m, func() error { _, err := w.Servers.StakingServer.Delegate(w.GoCtx, m); return err }
	case kStUndelegate, kStRedelegate:
		amt := o.amt
		if amt < 0 {
			d, found := w.Keepers.StakingKeeper.GetDelegation(w.Ctx, acc.Addr, s.valAddr(o.val))
			v, vfound := w.Keepers.StakingKeeper.GetValidator(w.Ctx, s.valAddr(o.val))
			if !found || !vfound {
				return bfs.Step{Accepted: false, Obs: site + "-no-delegation"}
			}
			amt = v.TokensFromShares(d.Shares).TruncateInt().Int64()
			if amt <= 0 {
				return bfs.Step{Accepted: false, Obs: site + "-no-delegation"}
			}
		}
		if o.kind == kStUndelegate {
			m := stakingtypes.NewMsgUndelegate(acc.Addr, s.valAddr(o.val), coin(w, amt))
			msg, exec = m, func() error { _, err := w.Servers.StakingServer.Undelegate(w.GoCtx, m); return err }
		} else {
			m := stakingtypes.NewMsgBeginRedelegate(acc.Addr, s.valAddr(o.val), s.valAddr(o.to), coin(w, amt))
			msg, exec = m, func() error { _, err := w.Servers.StakingServer.BeginRedelegate(w.GoCtx, m); return err }
		}
	case kStCancel:
		ubd, found := w.Keepers.StakingKeeper.GetUnbondingDelegation(w.Ctx, acc.Addr, s.valAddr(o.val))
		if !found || len(ubd.Entries) == 0 {
			return bfs.Step{Accepted: false, Obs: site + "-no-unbonding"}
		}
		m := stakingtypes.NewMsgCancelUnbondingDelegation(acc.Addr, s.valAddr(o.val), ubd.Entries[0].CreationHeight, coin(w, o.amt))
		msg, exec = m, func() error { _, err := w.Servers.StakingServer.CancelUnbondingDelegation(w.GoCtx, m); return err }
	case kDsDelegate:
		m := &dualstakingtypes.MsgDelegate{Creator: acc.Addr.String(), Validator: s.valAddr(o.val).String(), Provider: s.provAddr(o.prov), ChainID: "chainID", Amount: coin(w, o.amt)}
		msg, exec = m, func() error { _, err := w.Servers.DualstakingServer.Delegate(w.GoCtx, m); return err }
	case kDsRedelegate:
		m := &dualstakingtypes.MsgRedelegate{Creator: acc.Addr.String(), FromProvider: s.provAddr(o.prov), ToProvider: s.provAddr(o.prov2), FromChainID: "fromChainID", ToChainID: "toChainID", Amount: coin(w, o.amt)}
		msg, exec = m, func() error { _, err := w.Servers.DualstakingServer.Redelegate(w.GoCtx, m); return err }
	case kDsUnbond:
		m := &dualstakingtypes.MsgUnbond{Creator: acc.Addr.String(), Validator: s.valAddr(o.val).String(), Provider: s.provAddr(o.prov), ChainID: "chainID", Amount: coin(w, o.amt)}
		msg, exec = m, func() error { _, err := w.Servers.DualstakingServer.Unbond(w.GoCtx, m); return err }
	case kDsClaim:
		m := &dualstakingtypes.MsgClaimRewards{Creator: acc.Addr.String(), Provider: s.provAddr(o.prov)}
		_, hasReward := w.Keepers.Dualstaking.GetDelegatorReward(w.Ctx, s.provAddr(o.prov), acc.Addr.String())
		if !hasReward {
			obsExtra = "-nothing"
		}
		msg, exec = m, func() error { _, err := w.Servers.DualstakingServer.ClaimRewards(w.GoCtx, m); return err }
	case kStake:
		// refine the call-site label: new entry / modify up / modify down (+ the auto-unfreeze branch)
		if e, found := w.Keepers.Epochstorage.GetStakeEntryCurrent(w.Ctx, o.chainID, s.provAddr(o.prov)); !found {
			site = "stake-new"
		} else {
			switch {
			case o.amt > e.Stake.Amount.Int64():
				site = "stake-up"
				if e.IsFrozen() && e.Stake.Amount.LT(sdk.NewInt(minSpecStake)) && o.amt >= minSpecStake {
					site = "stake-up-unfreeze"
				}
			case o.amt < e.Stake.Amount.Int64():
				site = "stake-down"
			default:
				site = "stake-same"
			}
		}
		m := &pairingtypes.MsgStakeProvider{Creator: acc.Addr.String(), Validator: s.valAddr(0).String(), ChainID: o.chainID, Amount: coin(w, o.amt), Geolocation: 1,
			Endpoints: s.endpoints(o.chainID), DelegateLimit: coin(w, 0), DelegateCommission: commission, Address: s.provAddr(o.prov), Description: common.MockDescription()}
		msg, exec = m, func() error { _, err := w.Servers.PairingServer.StakeProvider(w.GoCtx, m); return err }
	case kMove:
		m := &pairingtypes.MsgMoveProviderStake{Creator: acc.Addr.String(), SrcChain: o.chainID, DstChain: o.chainID2, Amount: coin(w, o.amt)}
		msg, exec = m, func() error { _, err := w.Servers.PairingServer.MoveProviderStake(w.GoCtx, m); return err }
	case kUnstake:
		site = "unstake-by-vault"
		if strings.HasPrefix(o.who, "prov") {
			site = "unstake-by-provider"
		}
		m := &pairingtypes.MsgUnstakeProvider{Creator: acc.Addr.String(), Validator: s.valAddr(0).String(), ChainID: o.chainID}
		msg, exec = m, func() error { _, err := w.Servers.PairingServer.UnstakeProvider(w.GoCtx, m); return err }
	default:
		panic("unknown op kind")
	}
	if err := msg.ValidateBasic(); err != nil {
		return bfs.Step{Accepted: false, Obs: site + "-invalid-basic"}
	}
	var before *provState
	if check && s.prop == "C07" {
		b := s.readProv()
		before = &b
	}
	// ante handler: the redelegation flag is (re)set for every transaction and persists even if the message fails
	flagBefore := w.Keepers.Dualstaking.GetDisableDualstakingHook(w.Ctx)
	if err := s.rf.DisableRedelegationHooks(w.Ctx, []sdk.Msg{msg}); err != nil {
		return bfs.Step{Accepted: false, Obs: site + "-ante-rejected"}
	}
	res := w.Tx(exec)
	if !res.OK() {
		obs := site + "-rejected"
		if res.Panic != "" {
			obs = site + "-panic-recovered"
		}
		if w.Keepers.Dualstaking.GetDisableDualstakingHook(w.Ctx) != flagBefore {
			// the failed tx still changed the chain state through its ante handler
			return bfs.Step{Accepted: true, Obs: obs + "+flag-reset"}
		}
		return bfs.Step{Accepted: false, Obs: obs}
	}
	if !check {
		return bfs.Step{Accepted: true, Obs: site + "-ok"}
	}
	return bfs.Step{Accepted: true, Obs: site + "-ok" + obsExtra, Viol: s.oracle(site, before)}
}

// ---------------------------------------------------------------------------------------------------------

// RunCheck explores both alphabets with the oracle of prop.
func RunCheck(run *ev.Run, prop string) {
	lp := strings.ToLower(prop)
	type plan struct {
		name     string
		depth    int
		deadline time.Duration
	}
	var plans []plan
	if ev.Tier() == "thorough" {
		plans = []plan{{lp + "/deleg", 6, 7 * time.Minute}, {lp + "/prov", 6, 7 * time.Minute}}
	} else {
		plans = []plan{{lp + "/deleg", 4, 60 * time.Second}, {lp + "/prov", 4, 60 * time.Second}}
	}
	exh := true
	var bounds []string
	// VERIF_DEADLINE_SCALE=n stretches the internal deadlines (for runs on a heavily loaded machine)
	scale := 1
	if n, err := strconv.Atoi(os.Getenv("VERIF_DEADLINE_SCALE")); err == nil && n > 1 {
		scale = n
	}
	for _, p := range plans {
		cfg := bfs.Config{Scenario: p.name, MaxDepth: p.depth, Deadline: p.deadline * time.Duration(scale)}
		st := bfs.Explore(cfg, run)
		bfs.Report(run, strings.SplitN(p.name, "/", 2)[1], cfg, st)
		exh = exh && st.Exhaustive
		bounds = append(bounds, fmt.Sprintf("%s: depth %d (completed %d)", p.name, p.depth, st.DepthCompleted))
	}
	run.Set("exhaustive", exh)
	run.Set("bound", "all histories over two alphabets on 2 validators, 2 providers (vault != provider address), 2 chains (spec min stake 200, MinSelfDelegation 100), 2 delegators, amounts {1,100,101,250,350,all}: "+
		"'deleg' = 16 ops (staking Delegate/Undelegate partial+all/BeginRedelegate with the ante redelegation flag/CancelUnbondingDelegation, slash 1/2 of v0 or v1 for an old infraction followed by a block, dualstaking Delegate/Redelegate provider->provider and empty->provider/Unbond/ClaimRewards, +block); "+
		"'prov' = 20 ops (stake new/modify up/down on 2 chains, a stake tx sent by the provider address itself, second provider, move-stake by vault and by provider, unstake by vault and by provider on both chains, delegator delegate/redelegate/unbond, vault self-delegation through dualstaking txs, vault staking-module undelegate, slash+block, +block); "+strings.Join(bounds, "; "))
	run.Assume("mock bank/account keeper of testutil/keeper; transactions atomic as in baseapp; the dualstaking ante decorator is applied before every tx and its write persists when the message fails")
	run.Assume("a validator slash is modelled as SlashingKeeper.Slash(1/2, power 1, infraction height = start of the history) immediately followed by the next block (dualstaking BeginBlock); every validator is slashed at most once per history")
	run.Assume("share rounding tolerance (C06): exact equality while the delegator only ever used validators with exchange rate 1; otherwise the floor/ceil band of the share conversion widened by one unit per slashed validator the delegator has held a delegation at")
}

func init() {
	bfs.Register("c06/deleg", func() bfs.Scenario { return buildDeleg("C06") })
	bfs.Register("c06/prov", func() bfs.Scenario { return buildProv("C06") })
	bfs.Register("c07/deleg", func() bfs.Scenario { return buildDeleg("C07") })
	bfs.Register("c07/prov", func() bfs.Scenario { return buildProv("C07") })
	reg.Register(reg.Check{Property: "C06", Level: "model_checking", Run: func(run *ev.Run) { RunCheck(run, "C06") }})
}
