// Package c20: conflict votes follow commit-reveal and stake majority — BFS over vote histories on the
// real conflict keeper (one response-conflict detection, three voters) against a Go-side phase machine.
package c20

import (
	"bytes"
	"fmt"
	"os"
	"strconv"
	"strings"
	"time"

	sdk "github.com/cosmos/cosmos-sdk/types"
	"github.com/lavanet/lava/v5/testutil/common"
	"github.com/lavanet/lava/v5/utils/sigs"
	conflicttypes "github.com/lavanet/lava/v5/x/conflict/types"
	pairingtypes "github.com/lavanet/lava/v5/x/pairing/types"

	"verifmc/engine/bfs"
	"verifmc/engine/chain"
	"verifmc/engine/ev"
	"verifmc/engine/reg"
)

const (
	phCommit = 0
	phReveal = 1
	phClosed = 2
)

var optName = []string{"P0", "P1", "None"}

// result codes of x/conflict/types for the three options
var optCode = []int64{conflicttypes.Provider0, conflicttypes.Provider1, conflicttypes.NoneOfTheProviders}

type config struct {
	name       string
	stakes     []int64 // multiples of unit, one per voter (2..4 voters)
	votePeriod uint64  // 0: default of the module (2)
	offset     int     // blocks after an epoch start at which the detection is sent
	unstake    bool    // adds unstake(v0) / unstake(v1): a listed voter leaves while the vote is open
	prefix     []string // operations applied on top of the fixture; the exploration starts after them
}

const unit = int64(100000)

const maxVoters = 4

type voter struct {
	committed bool
	opt       int
	revealed  bool
}

type model struct {
	phase    int
	deadline uint64
	v        [maxVoters]voter
	closedAt uint64
	outcome  string
}

type opdef struct {
	name  string
	kind  int // 0 commit, 1 commit by non-voter, 2 reveal, 3 reveal wrong nonce, 4 reveal wrong hash, 5 +1 block, 6 next epoch
	voter int
	opt   int
}

type scen struct {
	cfg    config
	w      *chain.World
	ops    []opdef
	names  []string
	voteID string
	n      int
	voters []sigs.Account
	stake  []sdk.Int
	accuse [2]sigs.Account
	hashes [3][]byte // reply data hash revealed for option P0 / P1 / None
	eb     uint64
	vp     uint64
	detect uint64
	init   model
	m      model
}

func nonceOf(v int) int64 { return int64(7000 + v) }

func build(cfg config) *scen {
	s := &scen{cfg: cfg, n: len(cfg.stakes)}
	if s.n < 2 || s.n > maxVoters {
		panic("config: voters")
	}
	w := chain.NewWorld()
	s.w = w
	w.StdFixture(chain.StdOpts{Specs: []string{"mock"}, Providers: 0, Consumers: 1, EpochsToSave: 16})
	if cfg.votePeriod != 0 {
		p := w.Keepers.Conflict.GetParams(w.Ctx)
		p.VotePeriod = cfg.votePeriod
		if err := p.Validate(); err != nil {
			panic(err)
		}
		w.Keepers.Conflict.SetParams(w.Ctx, p)
	}
	s.vp = w.Keepers.Conflict.VotePeriod(w.Ctx)
	s.eb = 4
	cons, _ := w.GetAccount(common.CONSUMER, 0)
	amounts := []int64{unit, unit}
	for _, m := range cfg.stakes {
		amounts = append(amounts, m*unit)
	}
	var provs []sigs.Account
	for i, a := range amounts {
		acc, _ := w.AddAccount(common.PROVIDER, i, 100*unit)
		w.Must("stake", w.Stake(acc, "mock", a, 1, nil, 100))
		provs = append(provs, acc)
	}
	s.accuse = [2]sigs.Account{provs[0], provs[1]}
	s.voters = provs[2:]
	s.stake = make([]sdk.Int, s.n)
	if p := w.AdvanceToNextEpoch(chain.BlockDt); p != "" {
		panic("fixture: " + p)
	}
	for i := 0; i < cfg.offset; i++ {
		if p := w.NextBlock(chain.BlockDt); p != "" {
			panic("fixture: " + p)
		}
	}
	spec, found := w.Keepers.Spec.GetSpec(w.Ctx, "mock")
	if !found {
		panic("fixture: spec")
	}
	var reply0, reply1 *pairingtypes.RelayReply
	var det *conflicttypes.MsgDetection
	w.Must("detection", w.Tx(func() error {
		var err error
		det, reply0, reply1, err = common.CreateResponseConflictMsgDetectionForTest(w.GoCtx, cons, provs[0], provs[1], &spec)
		if err != nil {
			return err
		}
		if err := det.ValidateBasic(); err != nil {
			return err
		}
		_, err = w.Servers.ConflictServer.Detection(w.GoCtx, det)
		return err
	}))
	votes := w.Keepers.Conflict.GetAllConflictVote(w.Ctx)
	if len(votes) != 1 {
		panic(fmt.Sprintf("fixture: %d conflict votes after the detection", len(votes)))
	}
	cv := votes[0]
	s.voteID = cv.Index
	if len(cv.Votes) != s.n {
		panic(fmt.Sprintf("fixture: %d voters listed, want %d", len(cv.Votes), s.n))
	}
	for i, v := range s.voters {
		ok := false
		for _, x := range cv.Votes {
			ok = ok || x.Address == v.Addr.String()
		}
		if !ok {
			panic(fmt.Sprintf("fixture: voter %d is not listed", i))
		}
	}
	rc := det.GetResponseConflict()
	ex0 := pairingtypes.NewRelayExchange(*rc.ConflictRelayData0.Request, *reply0)
	ex1 := pairingtypes.NewRelayExchange(*rc.ConflictRelayData1.Request, *reply1)
	s.hashes[0] = sigs.HashMsg(ex0.DataToSign())
	s.hashes[1] = sigs.HashMsg(ex1.DataToSign())
	s.hashes[2] = sigs.HashMsg([]byte("neither of the two replies"))
	if !bytes.Equal(sigs.HashMsg(s.hashes[0]), cv.FirstProvider.Response) || !bytes.Equal(sigs.HashMsg(s.hashes[1]), cv.SecondProvider.Response) {
		panic("fixture: reply hashes do not correspond to the recorded responses")
	}
	if cv.FirstProvider.Account != provs[0].Addr.String() || cv.SecondProvider.Account != provs[1].Addr.String() {
		panic("fixture: accused providers")
	}
	s.detect = uint64(w.Ctx.BlockHeight())
	epochStart, _, err := w.Keepers.Epochstorage.GetEpochStartForBlock(w.Ctx, cv.VoteStartBlock)
	if err != nil {
		panic(err)
	}
	for i, v := range s.voters {
		e, found := w.Keepers.Epochstorage.GetStakeEntry(w.Ctx, epochStart, "mock", v.Addr.String())
		if !found {
			panic("fixture: stake entry")
		}
		s.stake[i] = e.TotalStake()
		if !s.stake[i].Equal(sdk.NewInt(cfg.stakes[i] * unit)) {
			panic(fmt.Sprintf("fixture: voter %d stake %s", i, s.stake[i]))
		}
	}
	if cv.VoteState != conflicttypes.StateCommit {
		panic("fixture: new vote is not in the commit state")
	}
	s.init = model{phase: phCommit, deadline: cv.VoteDeadline}
	w.MarkFixture()

	for v := 0; v < s.n; v++ {
		for o := 0; o < 3; o++ {
			s.ops = append(s.ops, opdef{name: fmt.Sprintf("commit(v%d,%s)", v, optName[o]), kind: 0, voter: v, opt: o})
		}
	}
	s.ops = append(s.ops, opdef{name: "commit(accusedProvider0,P0)", kind: 1, opt: 0})
	for v := 0; v < s.n; v++ {
		s.ops = append(s.ops, opdef{name: fmt.Sprintf("reveal(v%d)", v), kind: 2, voter: v})
	}
	for v := 0; v < s.n; v++ {
		s.ops = append(s.ops, opdef{name: fmt.Sprintf("revealWrongNonce(v%d)", v), kind: 3, voter: v})
	}
	for v := 0; v < s.n; v++ {
		s.ops = append(s.ops, opdef{name: fmt.Sprintf("revealOtherHash(v%d)", v), kind: 4, voter: v})
	}
	if cfg.unstake {
		// a listed voter unstakes while the vote is open: the vote is judged by the stakes of the epoch it started in,
		// so the outcome model is unchanged; closing the vote must cope with a juror that is no longer staked
		for v := 0; v < 2; v++ {
			s.ops = append(s.ops, opdef{name: fmt.Sprintf("unstake(v%d)", v), kind: 7, voter: v})
		}
	}
	s.ops = append(s.ops, opdef{name: "+1block", kind: 5}, opdef{name: "next-epoch", kind: 6})
	for _, o := range s.ops {
		s.names = append(s.names, o.name)
	}
	s.m = s.init
	if len(cfg.prefix) > 0 {
		for _, name := range cfg.prefix {
			idx := -1
			for i, n := range s.names {
				if n == name {
					idx = i
				}
			}
			if idx < 0 {
				panic("config: unknown prefix op " + name)
			}
			if st := s.Apply(idx); !st.Accepted || len(st.Viol) > 0 {
				panic(fmt.Sprintf("fixture: prefix op %s: %+v", name, st))
			}
		}
		s.init = s.m
		w.MarkFixture()
	}
	return s
}

func (s *scen) Ops() []string { return s.names }
func (s *scen) Reset()        { s.w.Reset(); s.m = s.init }
func (s *scen) Fork() func() {
	r := s.w.Fork()
	saved := s.m
	return func() { r(); s.m = saved }
}

func (s *scen) Hash() []byte {
	h := s.w.StateHash()
	return append(h, []byte(fmt.Sprintf("%+v", s.m))...)
}

func v(key, format string, a ...interface{}) ev.Violation {
	return ev.Violation{Property: "C20", Key: key, What: fmt.Sprintf(format, a...)}
}

// compare the stored vote with the model (phase, deadline, each voter's recorded status)
func (s *scen) compare(where string) []ev.Violation {
	w := s.w
	cv, found := w.Keepers.Conflict.GetConflictVote(w.Ctx, s.voteID)
	var out []ev.Violation
	if !found {
		if s.m.phase != phClosed {
			out = append(out, v("vote-vanished:"+where, "the vote record disappeared while the model is in phase %d (height %d, deadline %d)", s.m.phase, w.Ctx.BlockHeight(), s.m.deadline))
		}
		return out
	}
	if s.m.phase == phClosed {
		return append(out, v("vote-reopened:"+where, "a closed vote has a record again"))
	}
	if int(cv.VoteState) != s.m.phase {
		out = append(out, v("phase-changed:"+where, "vote state %d, model phase %d at height %d", cv.VoteState, s.m.phase, w.Ctx.BlockHeight()))
	}
	if cv.VoteDeadline != s.m.deadline {
		out = append(out, v("deadline-changed:"+where, "vote deadline %d, expected %d at height %d", cv.VoteDeadline, s.m.deadline, w.Ctx.BlockHeight()))
	}
	if len(cv.Votes) != s.n {
		out = append(out, v("voter-list-changed:"+where, "%d listed voters", len(cv.Votes)))
	}
	for i, mv := range s.m.v[:s.n] {
		want := int64(conflicttypes.NoVote)
		if mv.committed {
			want = conflicttypes.Commit
		}
		if mv.revealed {
			want = optCode[mv.opt]
		}
		got := int64(-1)
		for _, x := range cv.Votes {
			if x.Address == s.voters[i].Addr.String() {
				got = x.Result
			}
		}
		if got != want {
			out = append(out, v("record-mismatch:"+where, "voter v%d has recorded status %d, the history implies %d (committed=%v opt=%s revealed=%v)", i, got, want, mv.committed, optName[mv.opt], mv.revealed))
		}
	}
	return out
}

func majority(t [3]sdk.Int, total sdk.Int) string {
	if !total.IsPositive() {
		return "unresolved"
	}
	for o := 0; o < 3; o++ {
		if t[o].MulRaw(2).GT(total) {
			return optName[o]
		}
	}
	return "unresolved"
}

// one block; returns violations and an observation label
func (s *scen) block() ([]ev.Violation, string) {
	w := s.w
	if p := w.NextBlock(chain.BlockDt); p != "" {
		return []ev.Violation{{Property: "C37", Key: "block-panic:" + firstLine(p), What: "panic in block processing: " + firstLine(p)}}, "block-panic"
	}
	h := uint64(w.Ctx.BlockHeight())
	isEpochStart := w.Keepers.Epochstorage.GetEpochStart(w.Ctx) == h
	cv, found := w.Keepers.Conflict.GetConflictVote(w.Ctx, s.voteID)
	implPhase := phClosed
	if found {
		implPhase = int(cv.VoteState)
	}
	due := s.m.phase != phClosed && isEpochStart && h >= s.m.deadline
	if !due {
		if implPhase != s.m.phase {
			return []ev.Violation{v("early-transition", "vote moved from phase %d to %d at height %d (epoch start=%v, deadline %d)", s.m.phase, implPhase, h, isEpochStart, s.m.deadline)}, "violation"
		}
		return s.compare("block"), "block"
	}
	if implPhase != s.m.phase+1 {
		return []ev.Violation{v("missed-transition", "vote in phase %d is in phase %d after the epoch start %d at/after its deadline %d", s.m.phase, implPhase, h, s.m.deadline)}, "violation"
	}
	if s.m.phase == phCommit {
		s.m.phase = phReveal
		s.m.deadline = cv.VoteDeadline
		return s.compare("to-reveal"), "to-reveal"
	}
	// the vote closed in this block: read the outcome from the block's events
	s.m.phase = phClosed
	s.m.closedAt = h
	var viol []ev.Violation
	outcome := ""
	attrs := map[string]string{}
	for _, e := range w.BlockEvents() {
		var o string
		switch e.Type {
		case "lava_" + conflicttypes.ConflictVoteResolvedEventName:
			o = "resolved"
		case "lava_" + conflicttypes.ConflictVoteUnresolvedEventName:
			o = "unresolved"
		default:
			continue
		}
		a := map[string]string{}
		for _, at := range e.Attributes {
			a[at.Key] = at.Value
		}
		if a["voteID"] != s.voteID {
			continue
		}
		if outcome != "" {
			viol = append(viol, v("two-outcomes", "two outcome events for one vote"))
		}
		outcome, attrs = o, a
	}
	if outcome == "" {
		return append(viol, v("closed-without-outcome", "the vote was removed at height %d without a resolved/unresolved event", h)), "violation"
	}
	if outcome == "resolved" {
		switch attrs["winner"] {
		case s.accuse[0].Addr.String():
			outcome = "P0"
		case s.accuse[1].Addr.String():
			outcome = "P1"
		case "None":
			outcome = "None"
		default:
			return append(viol, v("unknown-winner", "resolved event names winner %q", attrs["winner"])), "violation"
		}
	}
	tally := [3]sdk.Int{sdk.ZeroInt(), sdk.ZeroInt(), sdk.ZeroInt()}
	all, rev := sdk.ZeroInt(), sdk.ZeroInt()
	nonVoters := 0
	for i, mv := range s.m.v[:s.n] {
		all = all.Add(s.stake[i])
		if mv.revealed {
			rev = rev.Add(s.stake[i])
			tally[mv.opt] = tally[mv.opt].Add(s.stake[i])
		} else {
			nonVoters++
		}
	}
	expAll, expRev := majority(tally, all), majority(tally, rev)
	desc := fmt.Sprintf("revealed stake P0=%s P1=%s None=%s, listed stake %s, revealed stake %s", tally[0], tally[1], tally[2], all, rev)
	if outcome != expAll && outcome != expRev {
		viol = append(viol, v("wrong-outcome", "vote closed with outcome %s; majority over all listed stake gives %s, over revealed stake gives %s (%s)", outcome, expAll, expRev, desc))
	}
	for o, key := range []string{"FirstProviderVotes", "SecondProviderVotes", "NoneProviderVotes"} {
		if attrs[key] != tally[o].String() {
			viol = append(viol, v("tally-mismatch", "event %s=%s but the voters with an accepted matching reveal for %s hold %s (%s)", key, attrs[key], optName[o], tally[o], desc))
		}
	}
	if attrs["NumOfNoVoters"] != fmt.Sprint(nonVoters) {
		viol = append(viol, v("nonvoter-count", "event NumOfNoVoters=%s but %d listed voters never revealed", attrs["NumOfNoVoters"], nonVoters))
	}
	s.m.outcome = outcome
	viol = append(viol, s.compare("closed")...)
	return viol, fmt.Sprintf("closed:%s(all=%s,revealed=%s)", outcome, expAll, expRev)
}

// Apply wraps the vote oracle with C09's supply guard: conflict detection, voting and resolution (slashing of the
// losing side, rewards to voters) must never increase the total supply of the bond denomination.
func (s *scen) Apply(op int) bfs.Step {
	before := s.w.Supply()
	st := s.applyVote(op)
	if after := s.w.Supply(); after.GT(before) {
		st.Viol = append(st.Viol, ev.Violation{Property: "C09", Key: "supply-increased:conflict:" + s.ops[op].name, What: fmt.Sprintf("total supply rose from %s to %s in %s", before, after, s.ops[op].name)})
	}
	return st
}

func (s *scen) applyVote(op int) bfs.Step {
	o := s.ops[op]
	w := s.w
	switch o.kind {
	case 5, 6:
		start := w.Keepers.Epochstorage.GetEpochStart(w.Ctx)
		label := "block"
		for i := 0; i < 64; i++ {
			viol, obs := s.block()
			if len(viol) > 0 {
				return bfs.Step{Accepted: true, Obs: "violation", Viol: viol}
			}
			if obs != "block" {
				label = obs
			}
			if o.kind == 5 || w.Keepers.Epochstorage.GetEpochStart(w.Ctx) != start {
				break
			}
		}
		h := uint64(w.Ctx.BlockHeight())
		if (s.m.phase == phClosed && h > s.m.closedAt) || h > s.detect+(2*s.vp+4)*s.eb {
			return bfs.Step{Accepted: true, Prune: true, Obs: "horizon"}
		}
		return bfs.Step{Accepted: true, Obs: label}
	}

	if o.kind == 7 {
		res := w.Tx(func() error {
			_, err := w.TxPairingUnstakeProvider(s.voters[o.voter].GetVaultAddr(), "mock")
			return err
		})
		if res.Panic != "" {
			return bfs.Step{Obs: "tx-panic", Viol: []ev.Violation{{Property: "C37", Key: "tx-panic:unstake", What: "unstake panicked: " + firstLine(res.Panic)}}}
		}
		if !res.OK() {
			return bfs.Step{Accepted: false, Obs: "unstake-rejected"}
		}
		if viol := s.compare("tx"); len(viol) > 0 {
			return bfs.Step{Accepted: true, Obs: "violation", Viol: viol}
		}
		return bfs.Step{Accepted: true, Obs: "unstaked"}
	}
	var res chain.TxResult
	var expect bool
	var why string
	weak := false // a repeated matching reveal may be accepted or rejected; the record must not change
	switch o.kind {
	case 0, 1:
		creator := s.accuse[0].Addr.String()
		if o.kind == 0 {
			creator = s.voters[o.voter].Addr.String()
		}
		nonce := nonceOf(o.voter)
		msg := &conflicttypes.MsgConflictVoteCommit{Creator: creator, VoteID: s.voteID, Hash: conflicttypes.CommitVoteData(nonce, s.hashes[o.opt], creator)}
		res = w.Tx(func() error {
			if err := msg.ValidateBasic(); err != nil {
				return err
			}
			_, err := w.Servers.ConflictServer.ConflictVoteCommit(w.GoCtx, msg)
			return err
		})
		switch {
		case o.kind == 1:
			expect, why = false, "nonvoter"
		case s.m.phase != phCommit:
			expect, why = false, "phase"
		case s.m.v[o.voter].committed:
			expect, why = false, "duplicate"
		default:
			expect, why = true, "ok"
		}
		if res.Panic != "" {
			return bfs.Step{Obs: "tx-panic", Viol: []ev.Violation{v("tx-panic:commit", "commit panicked: %s", firstLine(res.Panic))}}
		}
		if res.OK() != expect {
			return bfs.Step{Accepted: res.OK(), Obs: "violation", Viol: []ev.Violation{v("commit-acceptance:"+why, "%s accepted=%v, expected %v (%s; phase %d, height %d)", o.name, res.OK(), expect, why, s.m.phase, w.Ctx.BlockHeight())}}
		}
		if expect {
			s.m.v[o.voter].committed = true
			s.m.v[o.voter].opt = o.opt
		}
	case 2, 3, 4:
		mv := s.m.v[o.voter]
		creator := s.voters[o.voter].Addr.String()
		nonce := nonceOf(o.voter)
		opt := mv.opt // the option committed to (P0 when nothing was committed)
		matches := mv.committed
		switch o.kind {
		case 3:
			nonce++
			matches = false
		case 4:
			opt = (opt + 1) % 3
			matches = false
		}
		msg := &conflicttypes.MsgConflictVoteReveal{Creator: creator, VoteID: s.voteID, Nonce: nonce, Hash: s.hashes[opt]}
		res = w.Tx(func() error {
			if err := msg.ValidateBasic(); err != nil {
				return err
			}
			_, err := w.Servers.ConflictServer.ConflictVoteReveal(w.GoCtx, msg)
			return err
		})
		switch {
		case s.m.phase != phReveal:
			expect, why = false, "phase"
		case !mv.committed:
			expect, why = false, "no-commit"
		case !matches && o.kind == 3:
			expect, why = false, "wrong-nonce"
		case !matches:
			expect, why = false, "other-hash"
		case mv.revealed:
			weak, why = true, "twice"
		default:
			expect, why = true, "ok"
		}
		if res.Panic != "" {
			return bfs.Step{Obs: "tx-panic", Viol: []ev.Violation{v("tx-panic:reveal", "reveal panicked: %s", firstLine(res.Panic))}}
		}
		if !weak && res.OK() != expect {
			return bfs.Step{Accepted: res.OK(), Obs: "violation", Viol: []ev.Violation{v("reveal-acceptance:"+why, "%s accepted=%v, expected %v (%s; phase %d, height %d, committed=%v)", o.name, res.OK(), expect, why, s.m.phase, w.Ctx.BlockHeight(), mv.committed)}}
		}
		if expect {
			s.m.v[o.voter].revealed = true
		}
	}
	if viol := s.compare("tx"); len(viol) > 0 {
		return bfs.Step{Accepted: res.OK(), Obs: "violation", Viol: viol}
	}
	kind := "commit"
	if o.kind >= 2 {
		kind = "reveal"
	}
	if !res.OK() {
		return bfs.Step{Accepted: false, Obs: kind + "-rejected:" + why}
	}
	return bfs.Step{Accepted: true, Obs: kind + "-accepted:" + why}
}

func firstLine(s string) string {
	if i := strings.IndexByte(s, '\n'); i >= 0 {
		return s[:i]
	}
	return s
}

var configs = []config{
	{name: "s113-vp2", stakes: []int64{1, 1, 3}},
	{name: "s112-vp1", stakes: []int64{1, 1, 2}, votePeriod: 1},
	{name: "s113-vp1-mid", stakes: []int64{1, 1, 3}, votePeriod: 1, offset: 2},
	{name: "s111-vp1-mid", stakes: []int64{1, 1, 1}, votePeriod: 1, offset: 3},
	{name: "s223-vp2-mid", stakes: []int64{2, 2, 3}, offset: 1},
	{name: "s1124-vp1", stakes: []int64{1, 1, 2, 4}, votePeriod: 1},
	{name: "s112-vp1-unstake", stakes: []int64{1, 1, 2}, votePeriod: 1, unstake: true},
	// two of three voters (3/4 of the stake) have revealed for the same side: the exploration starts in the reveal phase
	{name: "s112-vp1-revealed-unstake", stakes: []int64{1, 1, 2}, votePeriod: 1, unstake: true,
		prefix: []string{"commit(v0,P0)", "commit(v1,P0)", "commit(v2,P0)", "next-epoch", "next-epoch", "reveal(v0)", "reveal(v2)"}},
}

func init() {
	for _, c := range configs {
		c := c
		bfs.Register("c20/"+c.name, func() bfs.Scenario { return build(c) })
	}
	reg.Register(reg.Check{Property: "C20", Level: "model_checking", Run: func(run *ev.Run) {
		names := []string{"s112-vp1", "s113-vp2", "s112-vp1-revealed-unstake"}
		deadline := 100 * time.Second
		if ev.Tier() == "thorough" {
			names = nil
			for _, c := range configs {
				names = append(names, c.name)
			}
			deadline = 14 * time.Minute
		}
		if d := os.Getenv("VERIF_C20_DEADLINE_S"); d != "" {
			if n, err := strconv.Atoi(d); err == nil {
				deadline = time.Duration(n) * time.Second
			}
		}
		exh := true
		begin := time.Now()
		for i, n := range names {
			// one budget: every scenario gets an equal share of what is left
			left := (deadline - time.Since(begin)) / time.Duration(len(names)-i)
			if left < time.Second {
				left = time.Second
			}
			cfg := bfs.Config{Scenario: "c20/" + n, MaxDepth: 64, Deadline: left}
			st := bfs.Explore(cfg, run)
			bfs.Report(run, n, cfg, st)
			exh = exh && st.Exhaustive && st.FrontierLeft == 0
		}
		run.Set("exhaustive", exh)
		run.Set("scenarios", names)
		run.Set("bound", "complete reachable state graph (BFS to fixpoint, depth cap 64) of one response-conflict vote with 3 (one thorough scenario: 4) listed voters from its detection until one block after it closes; 21 ops (27 with 4 voters): commit(v,P0|P1|None) per voter, commit by an accused non-voter, reveal(v) with the committed data / wrong nonce / another option's hash per voter, +1 block, next epoch; scenarios = voter stakes x vote period x detection offset in the epoch")
		run.Assume("keepers wired by testutil/keeper.InitAllKeepers with the mock bank; transactions atomic as in baseapp (driver); EpochBlocks=4, EpochsToSave=16 so that the stake entries of the vote's epoch outlive the vote; voters' stakes are static during the vote except in the -unstake scenarios, where a listed voter may unstake (the vote is still judged by the stakes of the epoch it started in)")
	}})
}
