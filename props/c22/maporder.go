package c22

import (
	"encoding/hex"
	"fmt"

	sdk "github.com/cosmos/cosmos-sdk/types"
	spectypes "github.com/lavanet/lava/v5/x/spec/types"

	"verifmc/engine/chain"
)

// MapOrderHistory is the scripted history the map-order explorer (binary vmapiter) replays for C22's clause "the
// result is the same on every run": import graphs whose parents expose several collections that differ in exactly
// one component of their identity (api interface, internal path, connection type, add-on), inherited directly, through
// a chain and through a diamond, are stored with the real keeper and expanded; every observation is the expanded
// spec serialised in order, so any dependence of the expansion on Go's map iteration order changes an observation.
func MapOrderHistory() []string {
	w := chain.NewWorld()
	k := w.Keepers.Spec
	ctx := w.Ctx
	denom := w.TokenDenom()
	J, R := spectypes.APIInterfaceJsonRPC, spectypes.APIInterfaceRest
	cd := func(iface, path, typ, addon string) spectypes.CollectionData {
		return spectypes.CollectionData{ApiInterface: iface, InternalPath: path, Type: typ, AddOn: addon}
	}
	coll := func(d spectypes.CollectionData, apis ...string) *spectypes.ApiCollection {
		c := &spectypes.ApiCollection{Enabled: true, CollectionData: d}
		for i, a := range apis {
			c.Apis = append(c.Apis, &spectypes.Api{Name: a, ComputeUnits: uint64(10 + i), Enabled: true})
		}
		return c
	}
	mk := func(idx string, imports []string, colls ...*spectypes.ApiCollection) spectypes.Spec {
		return spectypes.Spec{Index: idx, Name: idx, Enabled: true, ReliabilityThreshold: 1, BlocksInFinalizationProof: 1,
			AverageBlockTime: 1000, AllowedBlockLagForQosSync: 1, MinStakeProvider: sdk.NewCoin(denom, sdk.NewInt(1)), Shares: 1,
			Imports: imports, ApiCollections: colls}
	}
	// the parent: eight collections, pairwise differing in one identity component
	base := mk("MD", nil,
		coll(cd(J, "", "POST", ""), "m1", "m2"),
		coll(cd(J, "/C/rpc", "POST", ""), "c1"),
		coll(cd(J, "/C/avax", "POST", ""), "c2"),
		coll(cd(J, "/X", "POST", ""), "x1"),
		coll(cd(J, "/P", "POST", ""), "p1"),
		coll(cd(R, "", "GET", ""), "/r1"),
		coll(cd(R, "", "POST", ""), "/r2"),
		coll(cd(J, "", "POST", "addon"), "a1"),
		coll(cd(J, "/X", "POST", "addon"), "a2"),
	)
	second := mk("ME", nil,
		coll(cd(J, "/Q", "POST", ""), "q1"),
		coll(cd(J, "/R", "POST", ""), "q2"),
		coll(cd(R, "/Q", "GET", ""), "/q3"),
	)
	specs := []spectypes.Spec{
		base, second,
		mk("MB", []string{"MD"}, coll(cd(J, "/X", "POST", ""), "x1", "bx")),      // overrides one inherited collection
		mk("MC", []string{"MD", "ME"}),                                           // inherits everything from two parents
		mk("MA", []string{"MB", "MC"}, coll(cd(J, "", "POST", ""), "m1", "own")), // diamond over MD with an own collection
		mk("MF", []string{"MC"}, coll(cd(J, "/C/rpc", "POST", ""), "c1", "f1")),  // chain
		mk("MG", []string{"ME", "MD"}),                                           // the other import order
	}
	var obs []string
	for _, s := range specs {
		k.SetSpec(ctx, s)
	}
	for _, s := range specs {
		raw, _ := k.GetSpec(ctx, s.Index)
		out, err := k.ExpandSpec(ctx, raw)
		if err != nil {
			obs = append(obs, fmt.Sprintf("expand[%s]=error:%v", s.Index, err))
			continue
		}
		order := ""
		for _, c := range out.ApiCollections {
			order += fmt.Sprintf("(%s|%s|%s|%s:", c.CollectionData.ApiInterface, c.CollectionData.InternalPath, c.CollectionData.Type, c.CollectionData.AddOn)
			for _, a := range c.Apis {
				order += a.Name + ","
			}
			order += ")"
		}
		obs = append(obs, fmt.Sprintf("expand[%s].order=%s", s.Index, order))
		b, _ := out.Marshal()
		obs = append(obs, fmt.Sprintf("expand[%s].bytes=%s", s.Index, hex.EncodeToString(b)))
		if _, err := out.ValidateSpec(k.MaxCU(ctx)); err != nil {
			obs = append(obs, fmt.Sprintf("validate[%s]=error:%v", s.Index, err))
		} else {
			obs = append(obs, fmt.Sprintf("validate[%s]=ok", s.Index))
		}
	}
	return obs
}
