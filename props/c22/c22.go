// Package c22: spec inheritance expands deterministically and completely — exhaustive enumeration of
// import graphs over 4 small specs pushed through the real spec keeper (SetSpec / ExpandSpec /
// ValidateSpec) and compared with a set-semantics reference written from the property text.
package c22

import (
	"bytes"
	"encoding/json"
	"fmt"
	"sort"
	"strings"

	sdk "github.com/cosmos/cosmos-sdk/types"
	speckeeper "github.com/lavanet/lava/v5/x/spec/keeper"
	spectypes "github.com/lavanet/lava/v5/x/spec/types"

	"verifmc/engine/bfs"
	"verifmc/engine/chain"
	"verifmc/engine/ev"
	"verifmc/engine/reg"
)

// ---------------------------------------------------------------- case description

const (
	cuOOR  = -1 // maxCU+1
	cuZero = 0  // below the minimum
)

type apiDef struct {
	Name string
	CU   int // 1, 2, cuZero or cuOOR
	En   bool
}

type collDef struct {
	AddOn string // "" or "addon"; the api interface is always jsonrpc/POST
	En    bool
	Apis  []apiDef
}

type specDef struct {
	Idx     string
	Imports []string
	Colls   []collDef
}

func (a apiDef) String() string {
	cu := fmt.Sprint(a.CU)
	if a.CU == cuOOR {
		cu = "OOR"
	}
	s := a.Name + ":" + cu
	if !a.En {
		s += ":off"
	}
	return s
}

func (c collDef) String() string {
	n := "X"
	if c.AddOn != "" {
		n = "Y"
	}
	if c.En {
		n += "+"
	} else {
		n += "-"
	}
	var as []string
	for _, a := range c.Apis {
		as = append(as, a.String())
	}
	return n + "{" + strings.Join(as, ",") + "}"
}

func (s specDef) String() string {
	var cs []string
	for _, c := range s.Colls {
		cs = append(cs, c.String())
	}
	return fmt.Sprintf("%s imports=[%s] %s", s.Idx, strings.Join(s.Imports, ","), strings.Join(cs, " "))
}

func caseString(defs []specDef) string {
	var p []string
	for _, d := range defs {
		p = append(p, d.String())
	}
	return strings.Join(p, " | ")
}

// content library (index 0 must be the empty content)
func a(cu int) apiDef    { return apiDef{"a", cu, true} }
func b(cu int) apiDef    { return apiDef{"b", cu, true} }
func aoff(cu int) apiDef { return apiDef{"a", cu, false} }

func X(apis ...apiDef) collDef    { return collDef{"", true, apis} }
func Xoff(apis ...apiDef) collDef { return collDef{"", false, apis} }
func Y(apis ...apiDef) collDef    { return collDef{"addon", true, apis} }
func Yoff(apis ...apiDef) collDef { return collDef{"addon", false, apis} }

var library = [][]collDef{
	0:  {},
	1:  {X(a(1))},
	2:  {X(a(2))}, // conflicts with 1 unless overridden
	3:  {X(b(1))},
	4:  {Y(a(1))},          // add-on collection
	5:  {X(aoff(1), b(2))}, // disabled api next to an enabled one
	6:  {Xoff(a(1))},       // disabled collection
	7:  {X(a(cuOOR))},      // CU above the maximum
	8:  {X(a(1), b(1)), Y(b(2))},
	9:  {X(), Y(a(2))}, // enabled collection without apis + add-on
	10: {X(a(cuZero))}, // CU below the minimum
	11: {Yoff(a(1)), X(b(2))},
	12: {X(a(1)), Yoff(b(1))},
	13: {X(b(cuOOR)), Y(a(1))},
}

var names = []string{"VA", "VB", "VC", "VD"}

const unknownName = "VU"

// ---------------------------------------------------------------- real side

type harness struct {
	k       speckeeper.Keeper
	base    sdk.Context
	scratch sdk.Context
	denom   string
	maxCU   uint64
}

func newHarness() *harness {
	w := chain.NewWorld()
	scratch, _ := w.Ctx.CacheContext()
	return &harness{k: w.Keepers.Spec, base: w.Ctx, scratch: scratch, denom: w.TokenDenom(), maxCU: w.Keepers.Spec.MaxCU(w.Ctx)}
}

func (h *harness) cu(c int) uint64 {
	switch c {
	case cuOOR:
		return h.maxCU + 1
	default:
		return uint64(c)
	}
}

func (h *harness) mkSpec(d specDef) spectypes.Spec {
	s := spectypes.Spec{
		Index:                     d.Idx,
		Name:                      strings.ToLower(d.Idx),
		Enabled:                   true,
		ReliabilityThreshold:      1,
		BlocksInFinalizationProof: 1,
		AverageBlockTime:          1000,
		AllowedBlockLagForQosSync: 1,
		MinStakeProvider:          sdk.NewCoin(h.denom, sdk.NewInt(1)),
		Shares:                    1,
		Imports:                   append([]string{}, d.Imports...),
	}
	for _, c := range d.Colls {
		col := &spectypes.ApiCollection{Enabled: c.En, CollectionData: spectypes.CollectionData{ApiInterface: spectypes.APIInterfaceJsonRPC, Type: "POST", AddOn: c.AddOn}}
		for _, ad := range c.Apis {
			col.Apis = append(col.Apis, &spectypes.Api{Name: ad.Name, ComputeUnits: h.cu(ad.CU), Enabled: ad.En})
		}
		s.ApiCollections = append(s.ApiCollections, col)
	}
	return s
}

type horizonPanic struct{}

const stepHorizon = 256

// expandOnce runs the keeper's expansion of root in ctx. It first runs DoExpandSpec (the function the
// keeper's ExpandSpec delegates to) with a call-counting GetSpec so that non-termination shows up as a
// horizon overrun instead of a hang, then the keeper's own ExpandSpec (guarded=false: only the latter, used
// for the repeated runs once the guarded run has terminated).
func (h *harness) expandOnce(ctx sdk.Context, root string, guarded bool) (out spectypes.Spec, err error, overrun bool, pan string) {
	defer func() {
		if r := recover(); r != nil {
			if _, ok := r.(horizonPanic); ok {
				overrun = true
				return
			}
			pan = fmt.Sprint(r)
		}
	}()
	raw, found := h.k.GetSpec(ctx, root)
	if !found {
		panic("harness: root spec not stored")
	}
	if !guarded {
		out, err = h.k.ExpandSpec(ctx, raw)
		return
	}
	calls := 0
	get := func(c sdk.Context, idx string) (spectypes.Spec, bool) {
		calls++
		if calls > stepHorizon {
			panic(horizonPanic{})
		}
		return h.k.GetSpec(c, idx)
	}
	inherit := map[string]bool{}
	_, err0 := spectypes.DoExpandSpec(ctx, &raw, map[string]bool{root: true}, &inherit, root, get)
	raw2, _ := h.k.GetSpec(ctx, root)
	out, err = h.k.ExpandSpec(ctx, raw2)
	if (err0 == nil) != (err == nil) {
		pan = fmt.Sprintf("DoExpandSpec and Keeper.ExpandSpec disagree: %v vs %v", err0, err)
	} else if err == nil {
		b0, _ := raw.Marshal()
		b1, _ := out.Marshal()
		if !bytes.Equal(b0, b1) {
			pan = "DoExpandSpec and Keeper.ExpandSpec give different expansions"
		}
	}
	return
}

// ---------------------------------------------------------------- reference (set semantics of the property)

type rColl struct {
	en   bool
	apis map[string]apiDef
}

type requirement struct {
	coll string
	api  *apiDef // nil: only the collection itself is required
	from string
}

type graph struct {
	defs map[string]specDef
}

// analyse walks the import graph from root: reachable unknown imports and cycles (a spec that is reached
// again while it is still on the current import path, including the root).
func (g graph) analyse(root string) (unknown, cycle bool) {
	onPath := map[string]bool{}
	var walk func(n string)
	walk = func(n string) {
		onPath[n] = true
		for _, imp := range g.defs[n].Imports {
			d, ok := g.defs[imp]
			if !ok {
				unknown = true
				continue
			}
			if onPath[imp] {
				cycle = true
				continue
			}
			walk(d.Idx)
		}
		delete(onPath, n)
	}
	walk(root)
	return
}

// exposed computes, for an acyclic closed graph, what spec n must contain when its expansion succeeds:
// its own collections, plus every enabled api of every enabled collection of each (expanded) import unless n
// itself defines an api of that name in a collection of the same identity.
func (g graph) exposed(n string, reqs *[]requirement) map[string]*rColl {
	d := g.defs[n]
	out := map[string]*rColl{}
	own := map[string]map[string]bool{}
	for _, c := range d.Colls {
		rc := &rColl{en: c.En, apis: map[string]apiDef{}}
		own[c.AddOn] = map[string]bool{}
		for _, ap := range c.Apis {
			rc.apis[ap.Name] = ap
			own[c.AddOn][ap.Name] = true
		}
		out[c.AddOn] = rc
	}
	for _, imp := range d.Imports {
		pe := g.exposed(imp, nil)
		keys := make([]string, 0, len(pe))
		for k := range pe {
			keys = append(keys, k)
		}
		sort.Strings(keys)
		for _, ck := range keys {
			pc := pe[ck]
			if !pc.en {
				continue
			}
			if reqs != nil {
				*reqs = append(*reqs, requirement{coll: ck, from: imp})
			}
			if out[ck] == nil {
				out[ck] = &rColl{en: true, apis: map[string]apiDef{}}
			}
			anames := make([]string, 0, len(pc.apis))
			for an := range pc.apis {
				anames = append(anames, an)
			}
			sort.Strings(anames)
			for _, an := range anames {
				ap := pc.apis[an]
				if !ap.En {
					continue
				}
				if own[ck] != nil && own[ck][an] {
					continue // overridden by n
				}
				if reqs != nil {
					cp := ap
					*reqs = append(*reqs, requirement{coll: ck, api: &cp, from: imp})
				}
				if _, dup := out[ck].apis[an]; !dup {
					out[ck].apis[an] = ap
				}
			}
		}
	}
	return out
}

// ---------------------------------------------------------------- one case

type counters struct {
	evals, success, rejectedCycleUnknown, rejectedOther, accepted, nontrivial, reqChecked, permRuns int64
	outcomes                                                                                        map[string]int64
}

func collName(addon string) string {
	if addon == "" {
		return "X"
	}
	return "Y"
}

// evalCase stores defs (in the given insertion orders), expands/validates root and applies the oracles.
func (h *harness) evalCase(defs []specDef, root string, orders [][]int, repeats int, cnt *counters) []ev.Violation {
	var viol []ev.Violation
	cs := caseString(defs)
	add := func(key, what string) {
		viol = append(viol, ev.Violation{Property: "C22", Key: key, What: what + " — case: " + cs,
			Replay: map[string]interface{}{"root": root, "specs": cs, "what": what}})
	}
	g := graph{defs: map[string]specDef{}}
	for _, d := range defs {
		g.defs[d.Idx] = d
	}
	unknown, cycle := g.analyse(root)
	cnt.evals++

	var first spectypes.Spec
	var firstBytes []byte
	firstOK := false
	// one scratch branch per harness: every case deletes and re-inserts all four specs (the unknown name is
	// never stored), so nothing of an earlier case or insertion order survives
	ctx := h.scratch
	for oi, ord := range orders {
		for _, n := range names {
			h.k.RemoveSpec(ctx, n)
		}
		for _, i := range ord {
			h.k.SetSpec(ctx, h.mkSpec(defs[i]))
		}
		for r := 0; r < repeats; r++ {
			out, err, overrun, pan := h.expandOnce(ctx, root, oi == 0 && r == 0)
			cnt.permRuns++
			if overrun {
				add("no-termination", fmt.Sprintf("expansion did not terminate within %d GetSpec calls", stepHorizon))
				return viol
			}
			if pan != "" {
				add("expand-panic", "expansion panicked or disagreed with itself: "+pan)
				return viol
			}
			var bz []byte
			if err == nil {
				bz, _ = out.Marshal()
			}
			if oi == 0 && r == 0 {
				first, firstBytes, firstOK = out, bz, err == nil
				continue
			}
			if (err == nil) != firstOK || !bytes.Equal(bz, firstBytes) {
				add("nondeterministic-expansion", fmt.Sprintf("run %d with insertion order %v differs from the first run (ok %v vs %v)", r, ord, err == nil, firstOK))
				return viol
			}
		}
	}
	firstCtx := ctx

	// clause 1: cycles and unknown imports are rejected
	if firstOK {
		if cycle {
			add("cycle-accepted", "expansion succeeded although the import graph reachable from the root has a cycle")
		}
		if unknown {
			add("unknown-import-accepted", "expansion succeeded although a reachable spec imports an unknown spec")
		}
	}
	if !firstOK {
		if cycle || unknown {
			cnt.rejectedCycleUnknown++
			cnt.outcomes["rejected:cycle/unknown"]++
		} else {
			cnt.rejectedOther++
			cnt.outcomes["rejected:other(conflict)"]++
		}
	}

	// clause 3 (acceptance): the keeper's ValidateSpec on the stored raw spec
	raw, _ := h.k.GetSpec(firstCtx, root)
	_, verr := h.k.ValidateSpec(firstCtx, raw)
	accepted := verr == nil
	if accepted {
		cnt.accepted++
		if !firstOK {
			add("accepted-but-expansion-fails", "ValidateSpec accepts a spec whose expansion fails")
		}
	}

	if !firstOK || cycle || unknown {
		return viol
	}
	cnt.success++

	// clause 2: completeness and no duplicates
	real := map[string]map[string][]apiDef{}
	realEn := map[string]bool{}
	for _, c := range first.ApiCollections {
		key := c.CollectionData.AddOn
		if c.CollectionData.ApiInterface != spectypes.APIInterfaceJsonRPC || c.CollectionData.Type != "POST" || c.CollectionData.InternalPath != "" {
			add("foreign-collection", "expanded spec holds a collection identity that no spec defined: "+c.CollectionData.String())
			continue
		}
		if _, dup := real[key]; dup {
			add("duplicate-collection", "expanded spec holds collection "+collName(key)+" twice")
			continue
		}
		real[key] = map[string][]apiDef{}
		realEn[key] = c.Enabled
		for _, ap := range c.Apis {
			cu := int(ap.ComputeUnits)
			if ap.ComputeUnits == h.maxCU+1 {
				cu = cuOOR
			}
			real[key][ap.Name] = append(real[key][ap.Name], apiDef{ap.Name, cu, ap.Enabled})
		}
		for n, l := range real[key] {
			if len(l) > 1 {
				add("duplicate-api", fmt.Sprintf("expanded spec holds api %s %d times in collection %s", n, len(l), collName(key)))
			}
		}
	}
	var reqs []requirement
	exp := g.exposed(root, &reqs)
	apiReqs := 0
	for _, rq := range reqs {
		rc, ok := real[rq.coll]
		if !ok {
			add("missing-collection", fmt.Sprintf("enabled collection %s of import %s is missing from the expanded spec", collName(rq.coll), rq.from))
			continue
		}
		if rq.api == nil {
			continue
		}
		apiReqs++
		l := rc[rq.api.Name]
		if len(l) == 0 {
			add("missing-api", fmt.Sprintf("enabled api %s of import %s (collection %s) is neither inherited nor overridden", rq.api, rq.from, collName(rq.coll)))
			continue
		}
		if l[0] != *rq.api {
			add("inherited-api-differs", fmt.Sprintf("api %s of import %s (collection %s) is not overridden by the spec but the expanded spec holds %s", rq.api, rq.from, collName(rq.coll), l[0]))
		}
	}
	// the spec's own definitions survive expansion
	for _, c := range g.defs[root].Colls {
		rc, ok := real[c.AddOn]
		if !ok {
			add("own-collection-lost", "the spec's own collection "+collName(c.AddOn)+" is missing after expansion")
			continue
		}
		for _, ap := range c.Apis {
			if l := rc[ap.Name]; len(l) == 0 || l[0] != ap {
				add("own-api-lost", fmt.Sprintf("the spec's own api %s (collection %s) is missing or changed after expansion", ap, collName(c.AddOn)))
			}
		}
	}
	cnt.reqChecked += int64(apiReqs)
	if apiReqs > 0 {
		cnt.nontrivial++
		cnt.outcomes["expanded:inherits"]++
	} else {
		cnt.outcomes["expanded:nothing-to-inherit"]++
	}

	// clause 3: accepted specs only expose apis with CU in range (real expansion and reference exposure)
	if accepted {
		cnt.outcomes["accepted"]++
		for key, rc := range real {
			if !realEn[key] {
				continue
			}
			for _, l := range rc {
				for _, ap := range l {
					if ap.En && (ap.CU == cuOOR || ap.CU < 1) {
						add("accepted-cu-out-of-range", fmt.Sprintf("accepted spec exposes api %s in collection %s with CU outside [1,%d]", ap, collName(key), h.maxCU))
					}
				}
			}
		}
		for key, rc := range exp {
			if !rc.en {
				continue
			}
			for _, ap := range rc.apis {
				if ap.En && (ap.CU == cuOOR || ap.CU < 1) {
					add("accepted-cu-out-of-range", fmt.Sprintf("accepted spec must expose api %s (collection %s) whose CU is outside [1,%d]", ap, collName(key), h.maxCU))
				}
			}
		}
	} else {
		cnt.outcomes["expanded-but-not-accepted"]++
	}
	return viol
}

// ---------------------------------------------------------------- enumeration

// orderedLists returns all ordered lists of distinct elements of set with length <= maxLen.
func orderedLists(set []string, maxLen int) [][]string {
	out := [][]string{{}}
	var rec func(cur []string)
	rec = func(cur []string) {
		if len(cur) >= maxLen {
			return
		}
		for _, s := range set {
			used := false
			for _, c := range cur {
				if c == s {
					used = true
				}
			}
			if used {
				continue
			}
			nxt := append(append([]string{}, cur...), s)
			out = append(out, nxt)
			rec(nxt)
		}
	}
	rec(nil)
	return out
}

func subsets(set []string) [][]string {
	var out [][]string
	for m := 0; m < 1<<len(set); m++ {
		var s []string
		for i, e := range set {
			if m&(1<<i) != 0 {
				s = append(s, e)
			}
		}
		out = append(out, s)
	}
	return out
}

func perms(n int) [][]int {
	var out [][]int
	var rec func(cur []int)
	rec = func(cur []int) {
		if len(cur) == n {
			out = append(out, append([]int{}, cur...))
			return
		}
		for i := 0; i < n; i++ {
			used := false
			for _, c := range cur {
				if c == i {
					used = true
				}
			}
			if !used {
				rec(append(cur, i))
			}
		}
	}
	rec(nil)
	return out
}

// reachable returns the set of known specs reachable from VA.
func reachable(imports [4][]string) [4]bool {
	var r [4]bool
	var walk func(i int)
	walk = func(i int) {
		if r[i] {
			return
		}
		r[i] = true
		for _, imp := range imports[i] {
			for j, n := range names {
				if n == imp {
					walk(j)
				}
			}
		}
	}
	walk(0)
	return r
}

type plan struct {
	tier string
	// structure sweep
	s1A, s1B, s1C, s1D [][]string // import lists
	s1Contents         [4][]int   // library indices per spec
	// content sweep (acyclic, closed graphs)
	s2A, s2B, s2C [][]string
	s2Lib         []int
	s2RootLib     []int
}

func mkPlan(tier string) plan {
	p := plan{tier: tier}
	p.s1A = orderedLists([]string{"VB", "VC", "VD", unknownName}, 3)
	p.s1A = append(p.s1A, []string{"VA"}, []string{"VA", "VB"}, []string{"VB", "VA"})
	p.s2A = orderedLists([]string{"VB", "VC", "VD"}, 3)
	p.s2B = subsets([]string{"VC", "VD"})
	p.s2C = subsets([]string{"VD"})
	if tier == "thorough" {
		p.s1B = subsets([]string{"VA", "VB", "VC", "VD", unknownName})
		p.s1C = subsets([]string{"VA", "VB", "VC", "VD", unknownName})
		p.s1D = [][]string{{}, {"VA"}, {unknownName}}
		p.s1Contents = [4][]int{{0, 2}, {1}, {3, 1}, {4, 1}}
		p.s2Lib = []int{0, 1, 2, 3, 4, 5, 6, 7, 8, 9, 10, 11, 12, 13}
		p.s2RootLib = p.s2Lib
	} else {
		p.s1B = subsets([]string{"VA", "VC", "VD", unknownName})
		p.s1C = subsets([]string{"VA", "VB", "VD", unknownName})
		p.s1D = [][]string{{}, {"VA"}}
		p.s1Contents = [4][]int{{0, 2}, {1}, {3}, {4, 1}}
		p.s2Lib = []int{0, 1, 2, 3, 4, 5, 6, 7}
		p.s2RootLib = []int{0, 1, 2, 3, 4, 5, 6, 7, 8, 9}
	}
	return p
}

// enumerate calls f for every case of shard `shard` of `nshards` (cases are dealt round-robin).
func (p plan) enumerate(shard, nshards int, f func(sweep int, defs []specDef, firstAssignment bool)) {
	idx := 0
	emit := func(sweep int, imports [4][]string, contents [4]int, firstAssignment bool) {
		// canonical form: a spec that is not reachable from the root has no imports and no content
		r := reachable(imports)
		for i := 1; i < 4; i++ {
			if !r[i] && (len(imports[i]) > 0 || contents[i] != 0) {
				return
			}
		}
		idx++
		if idx%nshards != shard {
			return
		}
		defs := make([]specDef, 4)
		for i := range defs {
			defs[i] = specDef{Idx: names[i], Imports: imports[i], Colls: library[contents[i]]}
		}
		f(sweep, defs, firstAssignment)
	}
	// sweep 1: all graph structures (cycles, self imports, unknown imports, diamonds, orders) x few contents
	for _, ia := range p.s1A {
		for _, ib := range p.s1B {
			for _, ic := range p.s1C {
				for _, id := range p.s1D {
					imports := [4][]string{ia, ib, ic, id}
					r := reachable(imports)
					// contents of unreachable specs are forced to 0 (tried once)
					lists := [4][]int{}
					for i := 0; i < 4; i++ {
						if r[i] {
							lists[i] = p.s1Contents[i]
						} else {
							lists[i] = []int{0}
						}
					}
					for _, ca := range lists[0] {
						for _, cb := range lists[1] {
							for _, cc := range lists[2] {
								for _, cd := range lists[3] {
									emit(1, imports, [4]int{ca, cb, cc, cd}, ca == lists[0][0] && cb == lists[1][0] && cc == lists[2][0] && cd == lists[3][0])
								}
							}
						}
					}
				}
			}
		}
	}
	// sweep 2: all acyclic closed graphs (root import order varies) x all content assignments of the library
	for _, ia := range p.s2A {
		for _, ib := range p.s2B {
			for _, ic := range p.s2C {
				imports := [4][]string{ia, ib, ic, {}}
				r := reachable(imports)
				lists := [4][]int{p.s2RootLib, {0}, {0}, {0}}
				for i := 1; i < 4; i++ {
					if r[i] {
						lists[i] = p.s2Lib
					}
				}
				for _, ca := range lists[0] {
					for _, cb := range lists[1] {
						for _, cc := range lists[2] {
							for _, cd := range lists[3] {
								emit(2, imports, [4]int{ca, cb, cc, cd}, false)
							}
						}
					}
				}
			}
		}
	}
}

var allPerms = perms(4)

func keysOf(vs []ev.Violation) string {
	var k []string
	for _, v := range vs {
		k = append(k, v.Key)
	}
	sort.Strings(k)
	return strings.Join(k, ";")
}

func (h *harness) runShard(p plan, shard, nshards int) (counters, []ev.Violation, []string) {
	cnt := counters{outcomes: map[string]int64{}}
	var viol []ev.Violation
	var samples []string
	seen := map[string]bool{}
	p.enumerate(shard, nshards, func(sweep int, defs []specDef, firstAssignment bool) {
		orders := [][]int{{0, 1, 2, 3}, {3, 2, 1, 0}}
		repeats := 1
		// the first content assignment of every sweep-1 graph runs under all 24 insertion orders
		if sweep == 1 {
			if firstAssignment {
				orders = allPerms
				repeats = 1
			}
		}
		before := cnt.nontrivial
		vs := h.evalCase(defs, "VA", orders, repeats, &cnt)
		if len(vs) > 0 {
			// only reproducible violations are reported: evaluate the case twice more
			var scratch counters
			scratch.outcomes = map[string]int64{}
			for i := 0; i < 2; i++ {
				if keysOf(h.evalCase(defs, "VA", orders, repeats, &scratch)) != keysOf(vs) {
					cnt.outcomes["INCONCLUSIVE"]++
					vs = nil
				}
			}
		}
		for _, v := range vs {
			if !seen[v.Key] {
				seen[v.Key] = true
				viol = append(viol, v)
			}
		}
		if cnt.nontrivial > before && len(samples) < 2 && len(defs[0].Imports) >= 2 {
			samples = append(samples, caseString(defs))
		}
	})
	return cnt, viol, samples
}

// ---------------------------------------------------------------- sharding over worker processes
//
// The enumeration is dealt over the bfs engine's worker processes (one chain world per process): the
// scenario has one operation per shard and depth 1; a shard's counters travel back in the outcome label.

const (
	nLanes  = 16
	nShards = nLanes * 16
)

// level 1 of the search picks a lane (cheap), level 2 runs one shard of that lane: the engine hands every
// level-1 state to a different worker process, so the 16 lanes run in parallel.
type shardScen struct {
	h    *harness
	p    plan
	lane int
	done bool
}

func (s *shardScen) Ops() []string {
	var o []string
	for i := 0; i < nLanes; i++ {
		o = append(o, fmt.Sprintf("part-%d", i))
	}
	return o
}
func (s *shardScen) Reset() { s.lane, s.done = -1, false }
func (s *shardScen) Fork() func() {
	l, d := s.lane, s.done
	return func() { s.lane, s.done = l, d }
}
func (s *shardScen) Hash() []byte { return []byte(fmt.Sprintf("c22:%d:%v", s.lane, s.done)) }
func (s *shardScen) Apply(op int) bfs.Step {
	if s.lane < 0 {
		s.lane = op
		return bfs.Step{Accepted: true, Obs: "lane"}
	}
	if s.done {
		return bfs.Step{Accepted: false}
	}
	shard := s.lane*16 + op
	cnt, viol, samples := s.h.runShard(s.p, shard, nShards)
	s.done = true
	s.lane = shard + 1000 // distinct hash per shard
	var oc []string
	for k, v := range cnt.outcomes {
		oc = append(oc, fmt.Sprintf("%s=%d", k, v))
	}
	sort.Strings(oc)
	obs := fmt.Sprintf("shard=%d;evals=%d;success=%d;rejcu=%d;rejother=%d;accepted=%d;nontrivial=%d;reqs=%d;runs=%d;samples=%s;outcomes=%s",
		shard, cnt.evals, cnt.success, cnt.rejectedCycleUnknown, cnt.rejectedOther, cnt.accepted, cnt.nontrivial, cnt.reqChecked, cnt.permRuns,
		strings.Join(samples, "##"), strings.Join(oc, ","))
	// violations travel in the label too: runShard has already re-evaluated every violating case, and the
	// engine's own reproducibility check would re-run the whole shard five times
	vb, _ := json.Marshal(viol)
	obs += ";viol=" + string(vb)
	return bfs.Step{Accepted: true, Prune: true, Obs: obs}
}

func parseObs(obs string) map[string]string {
	m := map[string]string{}
	if i := strings.Index(obs, ";viol="); i >= 0 {
		m["viol"] = obs[i+len(";viol="):]
		obs = obs[:i]
	}
	for _, kv := range strings.Split(obs, ";") {
		if i := strings.IndexByte(kv, '='); i > 0 {
			m[kv[:i]] = kv[i+1:]
		}
	}
	return m
}

func atoi(s string) int64 {
	var n int64
	fmt.Sscan(s, &n)
	return n
}

func init() {
	for _, t := range []string{"quick", "thorough"} {
		t := t
		bfs.Register("c22/"+t, func() bfs.Scenario { return &shardScen{h: newHarness(), p: mkPlan(t)} })
	}
	reg.Register(reg.Check{Property: "C22", Level: "exploration", Run: func(run *ev.Run) {
		tier := ev.Tier()
		cfg := bfs.Config{Scenario: "c22/" + tier, MaxDepth: 2, Workers: nLanes}
		st := bfs.Explore(cfg, run)
		var evals, success, rejcu, rejother, accepted, nontrivial, reqs, runs int64
		outcomes := map[string]int64{}
		shards := 0
		for obs := range st.Outcomes {
			m := parseObs(obs)
			if m["shard"] == "" {
				continue
			}
			shards++
			var vs []ev.Violation
			json.Unmarshal([]byte(m["viol"]), &vs)
			for _, v := range vs {
				run.Violate(v)
			}
			evals += atoi(m["evals"])
			success += atoi(m["success"])
			rejcu += atoi(m["rejcu"])
			rejother += atoi(m["rejother"])
			accepted += atoi(m["accepted"])
			nontrivial += atoi(m["nontrivial"])
			reqs += atoi(m["reqs"])
			runs += atoi(m["runs"])
			for _, s := range strings.Split(m["samples"], "##") {
				if s != "" {
					run.Sample(s)
				}
			}
			for _, kv := range strings.Split(m["outcomes"], ",") {
				if i := strings.LastIndexByte(kv, '='); i > 0 {
					outcomes[kv[:i]] += atoi(kv[i+1:])
				}
			}
		}
		complete := shards == nShards && len(st.Crashes) == 0 && len(st.HarnessErrors) == 0
		run.Set("evaluations", evals)
		run.Set("distinct_nontrivial", nontrivial+rejcu)
		run.Set("rule", "every import graph of the bound is generated once (canonical form: specs unreachable from the root are empty); a case is non-trivial when the oracle's guarded branch ran: either the graph has a reachable cycle/unknown import and rejection was checked, or expansion succeeded and at least one inherited api was checked for presence/equality/uniqueness")
		run.Set("expansions_succeeded", success)
		run.Set("expansions_with_inherited_api_checks", nontrivial)
		run.Set("inherited_api_requirements_checked", reqs)
		run.Set("rejected_cycle_or_unknown", rejcu)
		run.Set("rejected_other_conflicts", rejother)
		run.Set("accepted_by_ValidateSpec", accepted)
		run.Set("expansion_runs_incl_repeats_and_insertion_orders", runs)
		run.Set("outcomes", outcomes)
		run.Set("shards_completed", shards)
		run.Set("exhaustive", complete)
		if len(st.Crashes) > 0 {
			run.Set("worker_crashes", st.Crashes)
		}
		if len(st.HarnessErrors) > 0 {
			run.Set("harness_errors", st.HarnessErrors)
		}
		p := mkPlan(tier)
		run.Set("bound", fmt.Sprintf("root VA + specs VB,VC,VD (+unknown name VU). Sweep 1 (structure): %d ordered root import lists (<=3 of VB,VC,VD,VU; self imports) x %d x %d import subsets of {VA,VB,VC,VD,VU} for VB,VC x %d for VD, contents %v. Sweep 2 (contents): all acyclic closed graphs (%d root import orders x %d x %d) x all assignments of %d library contents (root: %d) — collections {jsonrpc/'' , jsonrpc/'addon'} enabled/disabled, apis {a,b} with CU {0,1,2,max+1}, disabled apis, overrides. Every expansion is run 3 times (DoExpandSpec with step horizon, Keeper.ExpandSpec, Keeper.ExpandSpec after re-inserting the specs in reverse order) (all 24 orders for the first content assignment of every sweep-1 graph).",
			len(p.s1A), len(p.s1B), len(p.s1C), len(p.s1D), p.s1Contents, len(p.s2A), len(p.s2B), len(p.s2C), len(p.s2Lib), len(p.s2RootLib)))
		run.Assume("determinism is decided here over repeated runs and spec insertion orders only; the map-iteration-order dimension (Go map rotations inside DoExpandSpec/CombineCollections) is exercised by the map-iteration engine, not by this check")
		run.Assume("collection-internal inheritance (InheritanceApis), headers, parse directives, extensions and verifications are outside the alphabet")
		run.Assume("'contains every enabled api of its imports' is read on the expanded imports (transitively); 'overrides' = the spec defines an api of the same name in a collection of the same identity")
	}})
}
