// Package c14: the fixation store behaves like a versioned, ref-counted map — explicit-state search
// over append / modify / get / put / delete / tick histories on a real stand-alone FixationStore +
// TimerStore (MemDB context), compared after every step with a reference model of versioned,
// reference-counted entries written from the documented contract (doc comment of fixationstore.go
// and the property text).
//
// The model decides which operations are legal (only legal ones are issued): Append at the current or
// a future block, Put only to drop a reference taken by Get or to cancel a pending future version,
// Modify only of an existing visible version, Del at the current or a future block. Where the
// contract is silent (whether Append / Del is refused in corner cases) the model accepts the
// implementation's refusal but demands that a refused call changes nothing.
package c14

import (
	"crypto/sha256"
	"fmt"
	"io"
	"math"
	"os"
	"regexp"
	"sort"
	"strings"
	"time"

	tmdb "github.com/cometbft/cometbft-db"
	"github.com/cometbft/cometbft/libs/log"
	tmproto "github.com/cometbft/cometbft/proto/tendermint/types"
	"github.com/cosmos/cosmos-sdk/codec"
	codectypes "github.com/cosmos/cosmos-sdk/codec/types"
	"github.com/cosmos/cosmos-sdk/store/cachekv"
	"github.com/cosmos/cosmos-sdk/store/cachemulti"
	storetypes "github.com/cosmos/cosmos-sdk/store/types"
	sdk "github.com/cosmos/cosmos-sdk/types"
	"github.com/lavanet/lava/v5/utils"
	fixtypes "github.com/lavanet/lava/v5/x/fixationstore/types"
	timertypes "github.com/lavanet/lava/v5/x/timerstore/types"
	"github.com/rs/zerolog"
	zerologlog "github.com/rs/zerolog/log"

	"verifmc/engine/bfs"
	"verifmc/engine/ev"
	"verifmc/engine/memctx"
	"verifmc/engine/reg"
)

const none = uint64(math.MaxUint64)

// ---------------------------------------------------------------------------------------------
// reference model

// mver is one version of an index.
type mver struct {
	block   uint64
	data    int64
	gets    int    // outstanding references taken with Get
	held    bool   // the extra reference of the latest-in-effect / pending future version
	delAt   uint64 // block from which this version is deleted (none: not deleted)
	staleAt uint64 // set when the reference count reached zero (none otherwise)
}

func (v *mver) refs() int {
	if v.held {
		return v.gets + 1
	}
	return v.gets
}

type midx struct {
	vers       []mver // ascending by block
	pendingDel uint64 // future block at which the index will be deleted (none: no pending delete)
}

type model struct {
	now   uint64
	stale uint64
	idx   []midx
}

func (m *model) clone() model {
	c := model{now: m.now, stale: m.stale, idx: make([]midx, len(m.idx))}
	for i := range m.idx {
		c.idx[i] = midx{vers: append([]mver{}, m.idx[i].vers...), pendingDel: m.idx[i].pendingDel}
	}
	return c
}

func (m *model) isStale(v *mver) bool { return v.refs() == 0 && v.staleAt <= m.now }

// nearest returns the position of the version with the largest block <= b, or -1.
func (x *midx) nearest(b uint64) int {
	r := -1
	for i := range x.vers {
		if x.vers[i].block <= b {
			r = i
		}
	}
	return r
}

func (x *midx) at(b uint64) int {
	for i := range x.vers {
		if x.vers[i].block == b {
			return i
		}
	}
	return -1
}

func (x *midx) remove(i int) { x.vers = append(append([]mver{}, x.vers[:i]...), x.vers[i+1:]...) }

func (x *midx) insert(v mver) {
	x.vers = append(x.vers, v)
	sort.Slice(x.vers, func(i, j int) bool { return x.vers[i].block < x.vers[j].block })
}

// unref drops one reference of version i (the caller adjusted gets/held); marks the start of the
// stale period when the count reached zero.
func (m *model) zeroCheck(v *mver) {
	if v.refs() == 0 && v.staleAt == none {
		v.staleAt = m.now + m.stale
	}
}

// find: nearest-no-later visible version.
func (m *model) find(i int, b uint64) (found bool, blk uint64, data int64) {
	x := &m.idx[i]
	p := x.nearest(b)
	if p < 0 {
		return false, 0, 0
	}
	v := &x.vers[p]
	if m.isStale(v) { // a stale version masks older ones
		return false, 0, 0
	}
	if v.delAt <= b || x.pendingDel <= b {
		return false, 0, 0
	}
	return true, v.block, v.data
}

// gettable: the latest version no later than now, unless deleted / without references.
func (m *model) gettable(i int) (pos int) {
	x := &m.idx[i]
	p := x.nearest(m.now)
	if p < 0 {
		return -1
	}
	v := &x.vers[p]
	if m.isStale(v) || v.delAt <= m.now || v.refs() == 0 {
		return -1
	}
	return p
}

// latestHeld: the version in effect at block b that holds the "latest" reference, or -1.
func (x *midx) latestHeld(b uint64) int {
	p := x.nearest(b)
	if p >= 0 && x.vers[p].held {
		return p
	}
	return -1
}

// tick advances the model by one block.
func (m *model) tick() {
	m.now++
	n := m.now
	for i := range m.idx {
		x := &m.idx[i]
		// a future version takes effect exactly at its block; the previous latest loses its extra ref
		if p := x.at(n); p >= 0 && x.vers[p].held && n > 0 {
			if q := x.latestHeld(n - 1); q >= 0 {
				x.vers[q].held = false
				m.zeroCheck(&x.vers[q])
			}
		}
		// a pending delete takes effect
		if x.pendingDel == n {
			x.pendingDel = none
			if q := x.latestHeld(n); q >= 0 {
				x.vers[q].held = false
				x.vers[q].delAt = n
				m.zeroCheck(&x.vers[q])
			}
		}
	}
	m.normalize()
}

// normalize drops stale versions that can never influence a lookup again (no older visible
// version they could mask).
func (m *model) normalize() {
	for i := range m.idx {
		x := &m.idx[i]
		var keep []mver
		for j := range x.vers {
			v := x.vers[j]
			if m.isStale(&v) && (len(keep) == 0 || m.isStale(&keep[len(keep)-1])) {
				continue
			}
			keep = append(keep, v)
		}
		x.vers = keep
		if x.pendingDel != none {
			live := false
			for _, v := range x.vers {
				if v.held && v.block < x.pendingDel {
					live = true
				}
			}
			if !live { // nothing left that the pending delete could apply to
				x.pendingDel = none
			}
		}
	}
}

func (m *model) canon() string {
	var sb strings.Builder
	rel := func(b uint64) string {
		if b == none {
			return "-"
		}
		return fmt.Sprint(int64(b) - int64(m.now))
	}
	for i := range m.idx {
		x := &m.idx[i]
		fmt.Fprintf(&sb, "[%d pd=%s:", i, rel(x.pendingDel))
		for _, v := range x.vers {
			fmt.Fprintf(&sb, "(%s d%d g%d h%v del%s st%s)", rel(v.block), v.data, v.gets, v.held, rel(v.delAt), rel(v.staleAt))
		}
		sb.WriteString("]")
	}
	return sb.String()
}

// ---------------------------------------------------------------------------------------------
// scenario

const (
	kAppend = iota // d = block offset
	kModCur        // modify the nearest-no-later-than-now version
	kModFut        // modify the future version at now+d
	kGet
	kPutCur  // put the nearest-no-later-than-now version
	kPutPrev // put the version before it
	kPutFut  // cancel the future version at now+d
	kDel     // d = block offset
	kTick    // d = number of blocks
)

type opdef struct {
	name string
	kind int
	idx  int
	d    uint64
}

type scen struct {
	stale   uint64
	indices []string
	ops     []opdef
	names   []string

	base  sdk.Context
	fresh func() sdk.Context // builds a new empty context (nil: branch off base instead)
	ctx   sdk.Context
	fs    *fixtypes.FixationStore
	ts    *timertypes.TimerStore

	m model
}

func coin(d int64) *sdk.Coin {
	c := sdk.NewCoin("utest", sdk.NewInt(d))
	return &c
}

func newScen(stale uint64, rich bool, nIdx int) *scen {
	utils.SetGlobalLoggingLevel("fatal")
	zerologlog.Logger = zerolog.New(io.Discard).Level(zerolog.FatalLevel) // panics keep their message, nothing is printed
	s := &scen{stale: stale, indices: []string{"a", "ab"}[:nIdx]}
	for i, n := range s.indices {
		add := func(name string, kind int, d uint64) {
			s.ops = append(s.ops, opdef{fmt.Sprintf("%s(%s)", name, n), kind, i, d})
		}
		add("append@now", kAppend, 0)
		add("append@now+1", kAppend, 1)
		add("append@now+2", kAppend, 2)
		add("modify-current", kModCur, 0)
		add("modify@now+1", kModFut, 1)
		if rich {
			add("modify@now+2", kModFut, 2)
		}
		add("get", kGet, 0)
		add("put-current", kPutCur, 0)
		add("put-previous", kPutPrev, 0)
		add("put-future@now+1", kPutFut, 1)
		add("put-future@now+2", kPutFut, 2)
		add("del@now", kDel, 0)
		if rich {
			add("del@now+1", kDel, 1)
		}
		add("del@now+2", kDel, 2)
	}
	s.ops = append(s.ops, opdef{"tick+1", kTick, 0, 1})
	s.ops = append(s.ops, opdef{fmt.Sprintf("tick+%d", stale), kTick, 0, stale})
	for _, o := range s.ops {
		s.names = append(s.names, o.name)
	}
	ctx, key, cdc, fresh := newCtx()
	s.fresh = fresh
	s.ts = timertypes.NewTimerStore(key, cdc, "verif_fix")
	s.fs = fixtypes.NewFixationStore(key, cdc, "verif_fix", s.ts, func(sdk.Context) uint64 { return stale })
	s.fs.Init(ctx, *fixtypes.DefaultGenesis())
	s.base = ctx
	return s
}

// newCtx builds a bare context like memctx.New, but the (never written, always empty) bottom layer is
// a trivial empty KV store instead of IAVL-over-MemDB: all data lives in the SDK cachekv layers above
// it (the base context's cache layer is never flushed). The code under test only needs KVStore
// semantics; opening an iterator on the IAVL/MemDB bottom layer costs ~20x more than everything else.
func newCtx() (sdk.Context, storetypes.StoreKey, codec.BinaryCodec, func() sdk.Context) {
	if os.Getenv("C14_IAVL") != "" {
		ctx, key, cdc := memctx.New("mock")
		return ctx, key, cdc, nil
	}
	key := sdk.NewKVStoreKey("mock")
	fresh := func() sdk.Context {
		ms := cachemulti.NewStore(tmdb.NewMemDB(), map[storetypes.StoreKey]storetypes.CacheWrapper{key: emptyStore{}},
			map[string]storetypes.StoreKey{"mock": key}, nil, nil)
		return sdk.NewContext(ms, tmproto.Header{Height: 10, Time: memctx.BaseTime}, false, log.NewNopLogger())
	}
	cdc := codec.NewProtoCodec(codectypes.NewInterfaceRegistry())
	return fresh(), key, cdc, fresh
}

type emptyStore struct{}

func (emptyStore) GetStoreType() storetypes.StoreType { return storetypes.StoreTypeDB }
func (e emptyStore) CacheWrap() storetypes.CacheWrap  { return cachekv.NewStore(e) }
func (e emptyStore) CacheWrapWithTrace(io.Writer, storetypes.TraceContext) storetypes.CacheWrap {
	return cachekv.NewStore(e)
}
func (emptyStore) Get([]byte) []byte { return nil }
func (emptyStore) Has([]byte) bool   { return false }
func (emptyStore) Set(k, v []byte)   { panic("c14: the bottom store is read-only") }
func (emptyStore) Delete(k []byte)   { panic("c14: the bottom store is read-only") }
func (emptyStore) Iterator(start, end []byte) storetypes.Iterator {
	return emptyIter{start, end}
}
func (emptyStore) ReverseIterator(start, end []byte) storetypes.Iterator {
	return emptyIter{start, end}
}

type emptyIter struct{ start, end []byte }

func (i emptyIter) Domain() ([]byte, []byte) { return i.start, i.end }
func (emptyIter) Valid() bool                { return false }
func (emptyIter) Next()                      { panic("c14: Next on an empty iterator") }
func (emptyIter) Key() []byte                { panic("c14: Key on an empty iterator") }
func (emptyIter) Value() []byte              { panic("c14: Value on an empty iterator") }
func (emptyIter) Error() error               { return nil }
func (emptyIter) Close() error               { return nil }

func (s *scen) Ops() []string { return s.names }

func (s *scen) Reset() {
	if s.fresh != nil {
		s.ctx = s.fresh()
		s.fs.Init(s.ctx, *fixtypes.DefaultGenesis())
	} else {
		cctx, _ := s.base.CacheContext()
		s.ctx = cctx
	}
	s.m = model{now: uint64(s.ctx.BlockHeight()), stale: s.stale, idx: make([]midx, len(s.indices))}
	for i := range s.m.idx {
		s.m.idx[i].pendingDel = none
	}
}

func (s *scen) Fork() func() {
	saved := s.ctx
	m := s.m.clone()
	cctx, _ := saved.CacheContext()
	s.ctx = cctx
	return func() { s.ctx = saved; s.m = m }
}

func viol(key, what string) []ev.Violation {
	return []ev.Violation{{Property: "C14", Key: key, What: what}}
}

var digits = regexp.MustCompile(`[0-9]+`)

// panicKey turns a panic value into a stable short key (numbers removed, first line only).
func panicKey(r interface{}) string {
	msg := fmt.Sprint(r)
	if i := strings.IndexByte(msg, '\n'); i >= 0 {
		msg = msg[:i]
	}
	msg = digits.ReplaceAllString(msg, "N")
	if i := strings.Index(msg, " key ["); i >= 0 { // timer key bytes
		msg = msg[:i]
	}
	if len(msg) > 80 {
		msg = msg[:80]
	}
	return strings.TrimSpace(msg)
}

// guarded runs f on the real store and converts a panic into a violation (legal use never panics).
func (s *scen) guarded(where string, f func()) (v []ev.Violation) {
	defer func() {
		if r := recover(); r != nil {
			v = viol("panic:"+where+":"+panicKey(r), fmt.Sprintf("legal use panicked in %s: %v; model before the step: %s", where, firstLine(fmt.Sprint(r)), s.m.canon()))
		}
	}()
	f()
	return nil
}

func firstLine(s string) string {
	if i := strings.IndexByte(s, '\n'); i >= 0 {
		return s[:i]
	}
	return s
}

var kindName = map[int]string{kModCur: "modify", kModFut: "modify", kGet: "get", kPutCur: "put", kPutPrev: "put", kPutFut: "put-future", kTick: "tick"}

// Apply executes one operation; violation keys are "<what went wrong>@<kind of the last operation>".
func (s *scen) Apply(op int) bfs.Step {
	st := s.apply(op)
	if len(st.Viol) > 0 {
		o := s.ops[op]
		k := kindName[o.kind]
		switch {
		case o.kind == kAppend && o.d == 0:
			k = "append-now"
		case o.kind == kAppend:
			k = "append-future"
		case o.kind == kDel && o.d == 0:
			k = "del-now"
		case o.kind == kDel:
			k = "del-future"
		}
		for i := range st.Viol {
			st.Viol[i].Key += "@" + k
		}
	}
	return st
}

func (s *scen) apply(op int) bfs.Step {
	o := s.ops[op]
	m := &s.m
	now := m.now
	obs := "ok"
	if o.kind == kTick {
		for k := uint64(0); k < o.d; k++ {
			s.ctx = s.ctx.WithBlockHeight(s.ctx.BlockHeight() + 1)
			before := m.canon()
			if v := s.guarded("tick", func() { s.ts.Tick(s.ctx) }); v != nil {
				v[0].What += " (model before tick: " + before + ")"
				return bfs.Step{Accepted: true, Obs: "panic", Viol: v}
			}
			m.tick()
			if v := s.compare(); v != nil {
				return bfs.Step{Accepted: true, Obs: "mismatch-after-tick", Viol: v}
			}
		}
		return bfs.Step{Accepted: true, Obs: "tick"}
	}

	x := &m.idx[o.idx]
	name := s.indices[o.idx]
	switch o.kind {
	case kAppend:
		b := now + o.d
		p := x.at(b)
		if p >= 0 && x.vers[p].delAt <= now && x.vers[p].gets > 0 {
			// re-append on the very block of a deleted version that is still referenced: the contract
			// does not say what happens to those references
			return bfs.Step{Accepted: false, Obs: "unspecified-append-over-referenced-deleted"}
		}
		if len(x.vers) >= 4 && p < 0 {
			return bfs.Step{Accepted: false, Obs: "cap"}
		}
		var data int64 = 1
		if q := x.nearest(b); q >= 0 {
			data = 3 - x.vers[q].data
		}
		var err error
		if v := s.guarded("append", func() { err = s.fs.AppendEntry(s.ctx, name, b, coin(data)) }); v != nil {
			return bfs.Step{Accepted: true, Obs: "panic", Viol: v}
		}
		mustSucceed := x.pendingDel == none || b < x.pendingDel
		if err != nil {
			if mustSucceed {
				return bfs.Step{Accepted: true, Obs: "append-refused", Viol: viol("append-refused",
					fmt.Sprintf("AppendEntry(%s, now+%d) refused (%v) although the block is current/future and not beyond a pending delete; model %s", name, o.d, firstLine(err.Error()), m.canon()))}
			}
			// refused: nothing may have changed
			if v := s.compare(); v != nil {
				return bfs.Step{Accepted: true, Obs: "refused-append-changed-state", Viol: v}
			}
			return bfs.Step{Accepted: false, Obs: "append-refused-beyond-delete"}
		}
		if !mustSucceed {
			obs = "append-accepted-beyond-delete" // contract silent; treat as accepted below
			return bfs.Step{Accepted: true, Obs: obs, Viol: viol("append-beyond-pending-delete-accepted",
				fmt.Sprintf("AppendEntry(%s, now+%d) accepted on or beyond a pending delete at %d (now %d)", name, o.d, x.pendingDel, now))}
		}
		switch {
		case p >= 0 && x.vers[p].delAt > now:
			// same version again: override data
			x.vers[p].data = data
			obs = "append-override"
		default:
			if p >= 0 {
				x.remove(p) // dead, unreferenced version on the same block is replaced
				obs = "append-replaces-deleted"
			}
			if b == now {
				if q := x.latestHeld(now); q >= 0 && x.vers[q].delAt > now {
					x.vers[q].held = false
					m.zeroCheck(&x.vers[q])
				}
				if obs == "ok" {
					obs = "append-now"
				}
			} else if obs == "ok" {
				obs = "append-future"
			}
			x.insert(mver{block: b, data: data, held: true, delAt: none, staleAt: none})
		}

	case kModCur, kModFut:
		var p int
		if o.kind == kModCur {
			p = x.nearest(now)
		} else {
			p = x.at(now + o.d)
		}
		if p < 0 || m.isStale(&x.vers[p]) {
			return bfs.Step{Accepted: false, Obs: "illegal-modify"}
		}
		data := 3 - x.vers[p].data
		if v := s.guarded("modify", func() { s.fs.ModifyEntry(s.ctx, name, x.vers[p].block, coin(data)) }); v != nil {
			return bfs.Step{Accepted: true, Obs: "panic", Viol: v}
		}
		x.vers[p].data = data
		obs = "modify"

	case kGet:
		p := m.gettable(o.idx)
		if p >= 0 && x.vers[p].gets >= 2 {
			// bound the state space: at most 2 outstanding references per version
			return bfs.Step{Accepted: false, Obs: "cap-gets"}
		}
		var got sdk.Coin
		var found bool
		if v := s.guarded("get", func() { found = s.fs.GetEntry(s.ctx, name, &got) }); v != nil {
			return bfs.Step{Accepted: true, Obs: "panic", Viol: v}
		}
		if found != (p >= 0) || (found && got.Amount.Int64() != x.vers[p].data) {
			return bfs.Step{Accepted: true, Obs: "get-mismatch", Viol: viol("get-mismatch",
				fmt.Sprintf("GetEntry(%s) = (found %v, data %v); model expects found %v; model %s", name, found, got.Amount, p >= 0, m.canon()))}
		}
		if p < 0 {
			// nothing taken; must not have changed anything
			if v := s.compare(); v != nil {
				return bfs.Step{Accepted: true, Obs: "failed-get-changed-state", Viol: v}
			}
			return bfs.Step{Accepted: false, Obs: "get-not-found"}
		}
		x.vers[p].gets++
		obs = "get"

	case kPutCur, kPutPrev:
		p := x.nearest(now)
		if o.kind == kPutPrev {
			p--
		}
		if p < 0 || x.vers[p].gets == 0 {
			return bfs.Step{Accepted: false, Obs: "illegal-put"}
		}
		if v := s.guarded("put", func() { s.fs.PutEntry(s.ctx, name, x.vers[p].block) }); v != nil {
			return bfs.Step{Accepted: true, Obs: "panic", Viol: v}
		}
		x.vers[p].gets--
		m.zeroCheck(&x.vers[p])
		obs = "put"
		if x.vers[p].refs() == 0 {
			obs = "put-last-ref"
		}

	case kPutFut:
		p := x.at(now + o.d)
		if p < 0 || !x.vers[p].held || x.vers[p].gets != 0 || o.d == 0 {
			return bfs.Step{Accepted: false, Obs: "illegal-put"}
		}
		if v := s.guarded("put-future", func() { s.fs.PutEntry(s.ctx, name, x.vers[p].block) }); v != nil {
			return bfs.Step{Accepted: true, Obs: "panic", Viol: v}
		}
		x.remove(p)
		obs = "cancel-future"

	case kDel:
		at := now + o.d
		var err error
		if v := s.guarded("del", func() { err = s.fs.DelEntry(s.ctx, name, at) }); v != nil {
			return bfs.Step{Accepted: true, Obs: "panic", Viol: v}
		}
		// the version that is / will be in effect just before the delete block
		var carrier int
		if o.d == 0 {
			carrier = x.latestHeld(now)
		} else {
			carrier = x.latestHeld(at - 1)
		}
		if carrier >= 0 && x.vers[carrier].delAt <= now {
			carrier = -1
		}
		mustSucceed := carrier >= 0 && x.pendingDel == none
		if err != nil {
			if mustSucceed {
				return bfs.Step{Accepted: true, Obs: "del-refused", Viol: viol("del-refused",
					fmt.Sprintf("DelEntry(%s, now+%d) refused (%v) although a live version is in effect before that block and no delete is pending; model %s", name, o.d, firstLine(err.Error()), m.canon()))}
			}
			if v := s.compare(); v != nil {
				return bfs.Step{Accepted: true, Obs: "refused-del-changed-state", Viol: v}
			}
			return bfs.Step{Accepted: false, Obs: "del-refused"}
		}
		// accepted: pending future versions on or beyond the delete block are discarded
		var keep []mver
		for _, v := range x.vers {
			if v.block > now && v.block >= at {
				continue
			}
			keep = append(keep, v)
		}
		x.vers = keep
		// (positions before `at` are unchanged by the trimming above)
		if x.pendingDel != none && at >= x.pendingDel {
			// contract silent; an accepted later delete cannot postpone the pending one
			at = x.pendingDel
		}
		if o.d == 0 {
			x.pendingDel = none
			if carrier >= 0 {
				x.vers[carrier].held = false
				x.vers[carrier].delAt = now
				m.zeroCheck(&x.vers[carrier])
				obs = "del-now"
			} else {
				obs = "del-now-nothing-live"
			}
		} else {
			if carrier >= 0 {
				x.pendingDel = at
				obs = "del-future"
			} else {
				obs = "del-future-trims-only"
			}
		}
	}
	m.normalize()
	if v := s.compare(); v != nil {
		return bfs.Step{Accepted: true, Obs: "mismatch-after-" + obs, Viol: v}
	}
	return bfs.Step{Accepted: true, Obs: obs}
}

// compare checks every lookup of the real store against the model, then that merely letting blocks
// pass from here cannot panic (on a throw-away branch).
func (s *scen) compare() []ev.Violation {
	if v := s.compareLookups(); v != nil {
		return v
	}
	return s.tickAhead()
}

func (s *scen) tickAhead() (out []ev.Violation) {
	defer func() {
		if r := recover(); r != nil {
			out = viol("panic-ahead:tick:"+panicKey(r), fmt.Sprintf("after this legal history, letting blocks pass panics in begin-block timer processing: %v; model %s", firstLine(fmt.Sprint(r)), s.m.canon()))
		}
	}()
	cctx, _ := s.ctx.CacheContext()
	for k := uint64(0); k < s.stale+3; k++ {
		cctx = cctx.WithBlockHeight(cctx.BlockHeight() + 1)
		s.ts.Tick(cctx)
	}
	return nil
}

func (s *scen) compareLookups() (out []ev.Violation) {
	m := &s.m
	now := m.now
	defer func() {
		if r := recover(); r != nil {
			out = viol("panic:lookup:"+panicKey(r), fmt.Sprintf("lookup panicked: %v; model %s", firstLine(fmt.Sprint(r)), m.canon()))
		}
	}()
	for i, name := range s.indices {
		x := &m.idx[i]
		real := s.fs.GetAllEntryVersions(s.ctx, name)
		// FindEntry is piecewise constant in the block argument; probe both sides of every possible
		// breakpoint (version blocks of the model and of the store, delete blocks) and the near future
		probe := map[uint64]bool{now: true, now + 1: true, now + 2: true}
		around := func(b uint64) {
			if b != none {
				probe[b] = true
				if b > 0 {
					probe[b-1] = true
				}
			}
		}
		for _, v := range x.vers {
			around(v.block)
			around(v.delAt)
		}
		for _, b := range real {
			around(b)
		}
		around(x.pendingDel)
		if x.pendingDel != none {
			probe[x.pendingDel+1] = true
		}
		blocks := make([]uint64, 0, len(probe))
		for b := range probe {
			blocks = append(blocks, b)
		}
		sort.Slice(blocks, func(i, j int) bool { return blocks[i] < blocks[j] })
		for _, b := range blocks {
			var got sdk.Coin
			blk, _, _, found := s.fs.FindEntryDetailed(s.ctx, name, b, &got)
			found2 := found
			if b == now {
				found2 = s.fs.FindEntry(s.ctx, name, b, &got)
			}
			wf, wb, wd := m.find(i, b)
			if found != wf || found2 != wf || (found && (blk != wb || got.Amount.Int64() != wd)) {
				key := "find-mismatch"
				switch {
				case found && !wf:
					key = "find-returns-invisible-version"
				case !found && wf:
					key = "find-misses-visible-version"
				case blk != wb:
					key = "find-wrong-version"
				default:
					key = "find-wrong-data"
				}
				return viol(key, fmt.Sprintf("FindEntry(%s, now%+d) = (found %v, version now%+d, data %v); model expects (found %v, version now%+d, data %d); now=%d; model %s",
					name, int64(b)-int64(now), found, int64(blk)-int64(now), got.Amount, wf, int64(wb)-int64(now), wd, now, m.canon()))
			}
		}
		// Get probe on a throw-away branch
		{
			cctx, _ := s.ctx.CacheContext()
			var got sdk.Coin
			found := s.fs.GetEntry(cctx, name, &got)
			p := m.gettable(i)
			if found != (p >= 0) || (found && got.Amount.Int64() != x.vers[p].data) {
				return viol("get-mismatch", fmt.Sprintf("GetEntry(%s) = (found %v, data %v); model expects found %v; model %s", name, found, got.Amount, p >= 0, m.canon()))
			}
		}
		// versions are garbage-collected only once invisible; cancelled future versions are gone
		inReal := map[uint64]bool{}
		for j, b := range real {
			inReal[b] = true
			if j > 0 && real[j-1] >= b {
				return viol("versions-not-ascending", fmt.Sprintf("GetAllEntryVersions(%s) = %v", name, real))
			}
		}
		for _, v := range x.vers {
			if m.isStale(&v) {
				continue
			}
			if !inReal[v.block] || !s.fs.HasEntry(s.ctx, name, v.block) {
				return viol("visible-version-missing", fmt.Sprintf("version now%+d of %s is not stale in the model but missing from the store (versions %v, HasEntry %v); model %s",
					int64(v.block)-int64(now), name, real, s.fs.HasEntry(s.ctx, name, v.block), m.canon()))
			}
		}
		for _, b := range real {
			if !s.fs.HasEntry(s.ctx, name, b) {
				return viol("has-versions-disagree", fmt.Sprintf("GetAllEntryVersions(%s) lists %d but HasEntry is false", name, b))
			}
			if b > now && x.at(b) < 0 {
				return viol("cancelled-future-version-present", fmt.Sprintf("store holds future version now%+d of %s that the model cancelled / never had; model %s", int64(b)-int64(now), name, m.canon()))
			}
		}
	}
	return nil
}

// Hash: raw entries and timers relative to the current block, plus the model.
func (s *scen) Hash() []byte {
	h := sha256.New()
	now := int64(s.ctx.BlockHeight())
	rel := func(b uint64) string {
		if b == none {
			return "-"
		}
		return fmt.Sprint(int64(b) - now)
	}
	gs := s.fs.Export(s.ctx)
	for _, ge := range gs.Entries {
		fmt.Fprintf(h, "I%s|%v:", ge.Index, ge.IsLive)
		for _, e := range ge.Entries {
			fmt.Fprintf(h, "(%s %s %s %x %v %d)", rel(e.Block), rel(e.StaleAt), rel(e.DeleteAt), e.Data, e.IsLatest, e.Refcount)
		}
	}
	for _, t := range gs.Timerstore.BlockEntries {
		k := []byte(t.Key)
		if len(k) >= 9 {
			var vb uint64
			for _, c := range k[1:9] {
				vb = vb<<8 | uint64(c)
			}
			fmt.Fprintf(h, "T%s|%d|%s|%x;", rel(t.Value), k[0], rel(vb), k[9:])
		} else {
			fmt.Fprintf(h, "T%s|%x;", rel(t.Value), k)
		}
	}
	nb := gs.Timerstore.NextBlockHeight
	if nb != none && int64(nb) < now {
		fmt.Fprint(h, "N<")
	} else {
		fmt.Fprintf(h, "N%s", rel(nb))
	}
	fmt.Fprintf(h, "M%s", s.m.canon())
	return h.Sum(nil)[:16]
}

func init() {
	bfs.Register("c14/one-stale2", func() bfs.Scenario { return newScen(2, false, 1) })
	bfs.Register("c14/one-stale3-rich", func() bfs.Scenario { return newScen(3, true, 1) })
	bfs.Register("c14/two-stale2", func() bfs.Scenario { return newScen(2, false, 2) })
	reg.Register(reg.Check{Property: "C14", Level: "model_checking", Run: func(run *ev.Run) {
		type job struct {
			name  string
			depth int
			dl    time.Duration
		}
		jobs := []job{{"c14/one-stale2", 8, 35 * time.Second}, {"c14/two-stale2", 6, 30 * time.Second}, {"c14/one-stale3-rich", 6, 15 * time.Second}}
		if ev.Tier() == "thorough" {
			jobs = []job{{"c14/one-stale2", 10, 5 * time.Minute}, {"c14/one-stale3-rich", 9, 5 * time.Minute}, {"c14/two-stale2", 7, 5 * time.Minute}}
		}
		if d := os.Getenv("C14_JOB"); d != "" { // development: C14_JOB=scenario:depth
			var n string
			var depth int
			if _, err := fmt.Sscanf(strings.Replace(d, ":", " ", 1), "%s %d", &n, &depth); err == nil {
				jobs = []job{{n, depth, 30 * time.Minute}}
			}
		}
		exh := true
		var bounds []string
		for _, j := range jobs {
			cfg := bfs.Config{Scenario: j.name, MaxDepth: j.depth, Deadline: j.dl}
			st := bfs.Explore(cfg, run)
			bfs.Report(run, strings.TrimPrefix(j.name, "c14/"), cfg, st)
			exh = exh && st.Exhaustive
			bounds = append(bounds, fmt.Sprintf("%s: all legal op sequences up to depth %d over %d ops", j.name, j.depth, len(bfs.Make(j.name).Ops())))
		}
		run.Set("exhaustive", exh)
		run.Set("bound", strings.Join(bounds, "; ")+"; indices a (and ab), <=4 versions per index, <=2 outstanding Get references per version, append/delete at now..now+2, stale period 2 (3 in the rich scenario), every block ticked")
		run.Assume("fixation store behaviour is translation invariant in the block height (it only compares blocks with each other and with the current height); states are merged modulo translation")
		run.Assume("where the contract is silent (AppendEntry on/after a pending delete, DelEntry with nothing live or with a delete already pending) the implementation's refusal is accepted, but a refused call must change no lookup")
		run.Assume("AppendEntry on the very block of a deleted version that still has Get references is treated as unspecified and not issued")
		run.Assume("the KV substrate is the SDK cachekv store over an always-empty bottom layer (no IAVL); only KVStore semantics matter to the fixation and timer stores")
	}})
}
