// Package c13: plan versions used by live subscriptions remain available — BFS over histories of
// plan add / delete proposals and subscription buys, upgrades, advance purchases, auto-renewals and
// expiries on the real plans + subscription + projects + pairing keepers.
package c13

import (
	"fmt"
	"os"
	"sort"
	"strconv"
	"strings"
	"time"

	sdk "github.com/cosmos/cosmos-sdk/types"
	"github.com/lavanet/lava/v5/testutil/common"
	"github.com/lavanet/lava/v5/utils/sigs"
	pairingtypes "github.com/lavanet/lava/v5/x/pairing/types"
	planstypes "github.com/lavanet/lava/v5/x/plans/types"
	subscriptiontypes "github.com/lavanet/lava/v5/x/subscription/types"

	"verifmc/engine/bfs"
	"verifmc/engine/chain"
	"verifmc/engine/ev"
	"verifmc/engine/reg"
)

const (
	kBuy = iota
	kAdvance
	kAutoRenew
	kPlanAdd
	kPlanDel
	kMonth
	kStale
	kEpoch
	kDrain
	kWitness
)

type opdef struct {
	name   string
	kind   int
	plan   string
	months int
	auto   bool // buy: auto-renewal flag; autorenew: enable
}

type scen struct {
	origin0  string // origin bookkeeping at the start state
	origins0 map[string]string
	witness  sigs.Account // second consumer (only buys once); its plan reference is watched too
	w        *chain.World
	ops      []opdef
	names    []string
	cons     sigs.Account
	plans    map[string]planstypes.Plan

	// model: how the subscription obtained each (PlanIndex, PlanBlock) it references:
	// buy / upgrade / renewal / advance-activation
	origins map[string]string
	origin  string // origin of the plan reference of the most recent version
}

func mkPlan(index string, price int64, totalCu uint64) planstypes.Plan {
	p := common.CreateMockPlan()
	p.Index = index
	p.Price = sdk.NewCoin(p.Price.Denom, sdk.NewInt(price))
	p.AnnualDiscountPercentage = 10
	p.PlanPolicy.TotalCuLimit = totalCu
	p.PlanPolicy.EpochCuLimit = totalCu / 10
	return p
}

func build(prefix ...string) *scen {
	s := &scen{plans: map[string]planstypes.Plan{}}
	w := chain.NewWorld()
	s.w = w
	a, b := mkPlan("a", 100, 1000), mkPlan("b", 200, 2000)
	s.plans["a"], s.plans["b"] = a, b
	// both plans come from one governance proposal, i.e. their first versions share a block (later versions, added by
	// the plan-add operations, do not)
	w.StdFixture(chain.StdOpts{Specs: []string{"mock"}, Providers: 2, Consumers: 0, Plan: &a, ExtraPlans: []planstypes.Plan{b}})
	s.cons, _ = w.AddAccount(common.CONSUMER, 0, 10000000)
	s.witness, _ = w.AddAccount(common.CONSUMER, 1, 10000000)
	if p := w.AdvanceToNextEpoch(chain.BlockDt); p != "" {
		panic("fixture: " + p)
	}
	w.MarkFixture()
	s.ops = []opdef{
		{name: "buy(A,1m,autoRenew)", kind: kBuy, plan: "a", months: 1, auto: true},
		{name: "buy(A,1m)", kind: kBuy, plan: "a", months: 1},
		{name: "buy(B,1m)", kind: kBuy, plan: "b", months: 1},
		{name: "advance(A,1m)", kind: kAdvance, plan: "a", months: 1},
		{name: "autoRenewal(on)", kind: kAutoRenew, auto: true},
		{name: "autoRenewal(on,B)", kind: kAutoRenew, auto: true, plan: "b"},
		{name: "autoRenewal(off)", kind: kAutoRenew},
		{name: "gov:plan-add(A,new version)", kind: kPlanAdd, plan: "a"},
		{name: "gov:plan-add(B,new version)", kind: kPlanAdd, plan: "b"},
		{name: "gov:plan-del(A)", kind: kPlanDel, plan: "a"},
		{name: "gov:plan-del(B)", kind: kPlanDel, plan: "b"},
		{name: "->month-expiry(+5s)", kind: kMonth},
		{name: "->stale-period(14 blocks)", kind: kStale},
		{name: "->next-epoch", kind: kEpoch},
		// the consumer sends its whole balance away (ordinary bank transfer): a later auto-renewal cannot be paid
		{name: "drain(consumer funds)", kind: kDrain},
		// a second consumer subscribes for a year to the latest version of plan A: its reference must survive whatever
		// happens to the first consumer's subscription
		{name: "witness:buy(A,12m)", kind: kWitness, plan: "a", months: 12},
	}
	for _, o := range s.ops {
		s.names = append(s.names, o.name)
	}
	s.origins = map[string]string{}
	// a start state on top of the fixture: the prefix operations are applied through Apply, then the state is pinned
	for _, name := range prefix {
		idx := -1
		for i, n := range s.names {
			if n == name {
				idx = i
			}
		}
		if idx < 0 {
			panic("c13: unknown prefix op " + name)
		}
		if st := s.Apply(idx); !st.Accepted || len(st.Viol) > 0 {
			panic(fmt.Sprintf("fixture: prefix op %s: %+v", name, st))
		}
	}
	if len(prefix) > 0 {
		w.MarkFixture()
		s.origin0 = s.origin
		s.origins0 = map[string]string{}
		for k, v := range s.origins {
			s.origins0[k] = v
		}
	}
	return s
}

func (s *scen) Ops() []string { return s.names }
func (s *scen) Reset() {
	s.w.Reset()
	s.origin = s.origin0
	s.origins = map[string]string{}
	for k, v := range s.origins0 {
		s.origins[k] = v
	}
}
func (s *scen) Fork() func() {
	r := s.w.Fork()
	o := s.origin
	saved := map[string]string{}
	for k, v := range s.origins {
		saved[k] = v
	}
	return func() { r(); s.origin = o; s.origins = saved }
}
func (s *scen) Hash() []byte {
	keys := make([]string, 0, len(s.origins))
	for k, v := range s.origins {
		keys = append(keys, k+"="+v)
	}
	sort.Strings(keys)
	return append(s.w.StateHash(), []byte(s.origin+"|"+strings.Join(keys, ";"))...)
}

func (s *scen) setOrigin(sub subscriptiontypes.Subscription, how string) {
	s.origin = how
	s.origins[fmt.Sprintf("%s@%d", sub.PlanIndex, sub.PlanBlock)] = how
}

func (s *scen) nextEpoch() uint64 {
	w := s.w
	ne, err := w.Keepers.Epochstorage.GetNextEpoch(w.Ctx, uint64(w.Ctx.BlockHeight()))
	if err != nil {
		return uint64(w.Ctx.BlockHeight())
	}
	return ne
}

// latest returns the most recent version of the consumer's subscription (including a version that
// takes effect at the next epoch), the way CreateSubscription looks it up.
func (s *scen) latest() (subscriptiontypes.Subscription, bool) {
	sub, _, found := s.w.Keepers.Subscription.GetSubscriptionForBlock(s.w.Ctx, s.cons.Addr.String(), s.nextEpoch())
	return sub, found
}

func viol(key, what string) ev.Violation { return ev.Violation{Property: "C13", Key: key, What: what} }

// checkPlans is the invariant evaluated after every block and every transaction.
func (s *scen) checkPlans() []ev.Violation {
	w := s.w
	var out []ev.Violation
	cur := uint64(w.Ctx.BlockHeight())
	seen := map[string]bool{}
	for _, blk := range []uint64{cur, s.nextEpoch()} {
		sub, _, found := w.Keepers.Subscription.GetSubscriptionForBlock(w.Ctx, s.cons.Addr.String(), blk)
		if !found {
			continue
		}
		k := fmt.Sprintf("%s@%d", sub.PlanIndex, sub.PlanBlock)
		if !seen[k] {
			seen[k] = true
			if _, ok := w.Keepers.Plans.FindPlan(w.Ctx, sub.PlanIndex, sub.PlanBlock); !ok {
				org := s.origins[k]
				if org == "" {
					org = "unknown"
				}
				out = append(out, viol("live-sub-plan-unfindable:"+org, fmt.Sprintf("at block %d the live subscription (version in force at %d, DurationLeft=%d) references plan %s which FindPlan no longer finds; the reference was obtained by: %s", cur, blk, sub.DurationLeft, k, org)))
			}
		}
		if f := sub.FutureSubscription; f != nil {
			fk := fmt.Sprintf("future:%s@%d", f.PlanIndex, f.PlanBlock)
			if !seen[fk] {
				seen[fk] = true
				if _, ok := w.Keepers.Plans.FindPlan(w.Ctx, f.PlanIndex, f.PlanBlock); !ok {
					out = append(out, viol("advance-purchase-plan-unfindable", fmt.Sprintf("at block %d the advance purchase of the live subscription references plan %s which FindPlan no longer finds", cur, fk)))
				}
			}
		}
	}
	// the witness' subscription
	if sub, found := w.Keepers.Subscription.GetSubscription(w.Ctx, s.witness.Addr.String()); found {
		if _, ok := w.Keepers.Plans.FindPlan(w.Ctx, sub.PlanIndex, sub.PlanBlock); !ok {
			out = append(out, viol("other-live-sub-plan-unfindable", fmt.Sprintf("at block %d the live subscription of a second consumer references plan %s@%d which FindPlan no longer finds (its reference was released by operations on the first consumer's subscription)", cur, sub.PlanIndex, sub.PlanBlock)))
		}
	}
	return out
}

// checkPairing: pairing for the consumer must not fail because the plan of its subscription is gone.
func (s *scen) checkPairing() (string, []ev.Violation) {
	w := s.w
	epoch := w.EpochStartNow()
	addr := s.cons.Addr.String()
	if _, _, found := w.Keepers.Subscription.GetSubscriptionForBlock(w.Ctx, addr, epoch); !found {
		return "pairing-no-sub", nil
	}
	if _, err := w.Keepers.Projects.GetProjectForDeveloper(w.Ctx, addr, epoch); err != nil {
		return "pairing-no-project", nil
	}
	cctx, _ := w.Ctx.CacheContext()
	var perr error
	var ppanic string
	func() {
		defer func() {
			if r := recover(); r != nil {
				ppanic = fmt.Sprint(r)
			}
		}()
		_, perr = w.Keepers.Pairing.GetPairing(sdk.WrapSDKContext(cctx), &pairingtypes.QueryGetPairingRequest{ChainID: "mock", Client: addr})
	}()
	if ppanic != "" {
		return "pairing-panic", []ev.Violation{viol("pairing-panic:"+firstLine(ppanic), "pairing query for the subscribed consumer panicked: "+firstLine(ppanic))}
	}
	if perr == nil {
		return "pairing-ok", nil
	}
	if _, err := w.Keepers.Subscription.GetPlanFromSubscription(w.Ctx, addr, epoch); err != nil {
		return "pairing-fails-plan", []ev.Violation{viol("pairing-fails-plan:"+s.origin, fmt.Sprintf("GetPairing for the subscribed consumer fails at epoch %d because the subscription's plan cannot be found (%v); plan reference obtained by: %s", epoch, firstLine(perr.Error()), s.origin))}
	}
	return "pairing-other-error", nil
}

func (s *scen) blockPanic(p, during string) bfs.Step {
	l := firstLine(p)
	if strings.Contains(p, "fixation") || strings.Contains(p, "fixationstore") {
		return bfs.Step{Accepted: true, Obs: "block-panic-fixation", Viol: []ev.Violation{viol("block-panic:"+during+":"+s.origin+":"+short(l), fmt.Sprintf("block processing panicked during %s (plan reference of the subscription obtained by: %s): %s", during, s.origin, l))}}
	}
	return bfs.Step{Accepted: true, Obs: "block-panic", Viol: []ev.Violation{{Property: "C37", Key: "block-panic:" + l, What: "panic in block processing: " + l}}}
}

// short keeps the stable head of a panic line (attributes after the message vary).
func short(l string) string {
	if i := strings.Index(l, " {"); i > 0 {
		l = l[:i]
	}
	if len(l) > 90 {
		l = l[:90]
	}
	return l
}

func (s *scen) Apply(op int) bfs.Step {
	o := s.ops[op]
	w := s.w
	addr := s.cons.Addr.String()
	before, hadBefore := s.latest()
	obs := ""
	var res chain.TxResult
	switch o.kind {
	case kMonth, kStale, kEpoch:
		var viols []ev.Violation
		step := func(dt time.Duration) (string, bool) {
			if p := w.NextBlock(dt); p != "" {
				return p, false
			}
			// origin bookkeeping for month expiries
			if l, ok := s.latest(); ok && hadBefore && (l.PlanIndex != before.PlanIndex || l.PlanBlock != before.PlanBlock) {
				if before.FutureSubscription != nil {
					s.setOrigin(l, "advance-activation")
				} else {
					s.setOrigin(l, "renewal")
				}
				before = l
			} else if !ok {
				s.origin = ""
			}
			viols = append(viols, s.checkPlans()...)
			return "", len(viols) == 0
		}
		during := "block"
		var p string
		switch o.kind {
		case kMonth:
			during = "month-expiry"
			// jump to 5 s after the earliest pending month expiry of any version of the subscription
			// (the version in force and the most recent one), or 31 days when there is none
			dt := 31 * 24 * time.Hour
			now := w.Ctx.BlockTime()
			best := int64(0)
			cands := []uint64{}
			if hadBefore {
				cands = append(cands, before.MonthExpiryTime)
			}
			if cur, ok := w.Keepers.Subscription.GetSubscription(w.Ctx, addr); ok {
				cands = append(cands, cur.MonthExpiryTime)
			}
			for _, c := range cands {
				if int64(c) > now.Unix() && (best == 0 || int64(c) < best) {
					best = int64(c)
				}
			}
			if best != 0 {
				dt = time.Unix(best, 0).Add(5 * time.Second).Sub(now)
			}
			p, _ = step(dt)
			obs = "month"
		case kStale:
			obs = "stale"
			for i := 0; i < 14; i++ {
				var ok bool
				if p, ok = step(chain.BlockDt); p != "" || !ok {
					break
				}
			}
		case kEpoch:
			obs = "epoch"
			start := w.EpochStartNow()
			for i := 0; i < 100; i++ {
				var ok bool
				if p, ok = step(chain.BlockDt); p != "" || !ok || w.EpochStartNow() != start {
					break
				}
			}
		}
		if p != "" {
			return s.blockPanic(p, during)
		}
		if len(viols) > 0 {
			return bfs.Step{Accepted: true, Obs: "violation", Viol: dedup(viols)}
		}
		after, has := s.latest()
		switch {
		case o.kind == kMonth && hadBefore && !has:
			obs = "month-sub-expired"
		case o.kind == kMonth && hadBefore && has && after.Block != before.Block && before.DurationLeft == 1:
			obs = "month-sub-renewed-or-activated"
		case o.kind == kMonth && hadBefore:
			obs = "month-sub-continues"
		}
		pobs, pv := s.checkPairing()
		if len(pv) > 0 {
			return bfs.Step{Accepted: true, Obs: "violation", Viol: pv}
		}
		return bfs.Step{Accepted: true, Obs: obs + "/" + pobs}
	case kBuy, kAdvance:
		res = w.Buy(s.cons, s.cons, o.plan, o.months, o.auto, o.kind == kAdvance)
		obs = "buy"
		if o.kind == kAdvance {
			obs = "advance"
		}
	case kAutoRenew:
		res = w.Tx(func() error {
			msg := &subscriptiontypes.MsgAutoRenewal{Creator: addr, Consumer: addr, Enable: o.auto, Index: o.plan}
			if err := msg.ValidateBasic(); err != nil {
				return err
			}
			_, err := w.Servers.SubscriptionServer.AutoRenewal(w.GoCtx, msg)
			return err
		})
		obs = "autorenew"
	case kPlanAdd:
		p := s.plans[o.plan]
		p.Description = fmt.Sprintf("version of block %d", w.Ctx.BlockHeight())
		res = w.AddPlanGov(false, p)
		obs = "plan-add"
	case kPlanDel:
		res = w.DelPlanGov(o.plan)
		obs = "plan-del"
	case kWitness:
		res = w.Buy(s.witness, s.witness, o.plan, o.months, false, false)
		obs = "witness-buy"
	case kDrain:
		res = w.Tx(func() error {
			bal := w.Keepers.BankKeeper.GetBalance(w.Ctx, s.cons.Addr, w.TokenDenom())
			if !bal.IsPositive() {
				return fmt.Errorf("nothing to send")
			}
			return w.Keepers.BankKeeper.SendCoinsFromAccountToModule(w.Ctx, s.cons.Addr, "verif_sink", sdk.NewCoins(bal))
		})
		obs = "drained"
	}
	if res.Panic != "" {
		return bfs.Step{Accepted: false, Obs: "tx-panic", Viol: []ev.Violation{viol("tx-panic:"+o.name+":"+short(firstLine(res.Panic)), o.name+" panicked: "+firstLine(res.Panic))}}
	}
	if !res.OK() {
		// a purchase/upgrade that fails because the plan of the live subscription is gone
		if o.kind == kBuy && hadBefore && strings.Contains(res.Err.Error(), "failed to find plan for current subscription") {
			return bfs.Step{Accepted: false, Obs: "upgrade-fails-plan", Viol: []ev.Violation{viol("upgrade-fails-plan:"+s.origin, "upgrade is refused because the plan of the live subscription cannot be found: "+firstLine(res.Err.Error()))}}
		}
		return bfs.Step{Accepted: false, Obs: obs + "-rejected"}
	}
	if o.kind == kBuy {
		after, _ := s.latest()
		switch {
		case !hadBefore:
			s.setOrigin(after, "buy")
			obs = "buy-new"
		case after.PlanIndex != before.PlanIndex || after.PlanBlock != before.PlanBlock:
			s.setOrigin(after, "upgrade")
			obs = "buy-upgrade"
		default:
			obs = "buy-extend"
		}
	}
	if v := s.checkPlans(); len(v) > 0 {
		return bfs.Step{Accepted: true, Obs: "violation", Viol: dedup(v)}
	}
	return bfs.Step{Accepted: true, Obs: obs}
}

func dedup(v []ev.Violation) []ev.Violation {
	seen := map[string]bool{}
	var out []ev.Violation
	for _, x := range v {
		if !seen[x.Key] {
			seen[x.Key] = true
			out = append(out, x)
		}
	}
	return out
}

// deadlineScale: VERIF_DEADLINE_SCALE=<n> stretches the internal deadlines (development aid for measuring
// the full bound on a loaded machine); the default is 1.
func deadlineScale(d time.Duration) time.Duration {
	if n, err := strconv.Atoi(os.Getenv("VERIF_DEADLINE_SCALE")); err == nil && n > 1 {
		return d * time.Duration(n)
	}
	return d
}

func firstLine(s string) string {
	if i := strings.IndexByte(s, '\n'); i >= 0 {
		return s[:i]
	}
	return s
}

const nOps = 16

func init() {
	bfs.Register("c13", func() bfs.Scenario { return build() })
	// start state: the first consumer holds an auto-renewing subscription on the old version of plan A, a second consumer
	// subscribed for a year to the new version
	bfs.Register("c13/witnessed", func() bfs.Scenario {
		return build("buy(A,1m,autoRenew)", "gov:plan-add(A,new version)", "->next-epoch", "witness:buy(A,12m)")
	})
	reg.Register(reg.Check{Property: "C13", Level: "model_checking", Run: func(run *ev.Run) {
		depth, deadline := 5, 75*time.Second
		if ev.Tier() == "thorough" {
			depth, deadline = 7, 14*time.Minute
		}
		cfg := bfs.Config{Scenario: "c13", MaxDepth: depth, Deadline: deadlineScale(deadline)}
		st := bfs.Explore(cfg, run)
		bfs.Report(run, "", cfg, st)
		cfgW := bfs.Config{Scenario: "c13/witnessed", MaxDepth: depth, Deadline: deadlineScale(deadline * 2 / 3)}
		stW := bfs.Explore(cfgW, run)
		bfs.Report(run, "witnessed", cfgW, stW)
		run.Set("exhaustive", st.Exhaustive && stW.Exhaustive)
		run.Set("bound", fmt.Sprintf("all histories up to depth %d over %d ops (buy A with/without auto-renewal, buy B = upgrade, advance purchase A, auto-renewal on / on with plan B / off, governance plan-add of a new version of A / B, plan-del A / B, jump to 5 s after the month expiry, 14 blocks (> stale period of 12), next epoch, the consumer sends its funds away, a second consumer buys the latest version of A for a year); from the fixture and from a start state in which the second consumer already holds the new version of A while the first auto-renews the old one; plans A (100) and B (200), EpochBlocks=4, EpochsToSave=3; invariant evaluated after every block", depth, nOps))
		run.Assume("mock bank/account keeper of testutil/keeper; transactions atomic as in baseapp (emulated by the driver); governance proposals applied through the plans proposal handler")
	}})
}
