// Package c19: unresponsive-provider jailing is justified and bounded — BFS on the real keepers.
//
// The scenario keeps a Go-side ledger, fed only by the accepted relay payments, of
//   - serviced CU per (provider, epoch)                    (CuSum of accepted relays paid to the provider)
//   - complaint CU per (provider, epoch)                   (what the chain credited to the reported provider when the
//     reporting relay was accepted, bounded by the relay's CU), split in fresh / consumed
//   - the times at which each provider was jailed.
//
// Every block is driven through the real begin/end blockers; whenever a provider's Jails or JailEndTime
// changes in a block the oracle (written from the property text) is evaluated against the ledger.
package c19

import (
	"fmt"
	"os"
	"sort"
	"strings"
	"time"

	"github.com/lavanet/lava/v5/testutil/common"
	"github.com/lavanet/lava/v5/utils/sigs"
	epochstoragetypes "github.com/lavanet/lava/v5/x/epochstorage/types"
	pairingtypes "github.com/lavanet/lava/v5/x/pairing/types"

	"verifmc/engine/bfs"
	"verifmc/engine/chain"
	"verifmc/engine/ev"
	"verifmc/engine/reg"
)

const (
	specID       = "mock"
	epochBlocks  = 2
	epochsToSave = 12
	factor       = 4     // "four times the CU it serviced"
	svcWindow    = 8     // epochs of serviced CU the code looks at (EPOCHS_NUM_TO_CHECK_CU_FOR_UNRESPONSIVE_PROVIDER)
	cmpWindow    = 2     // epochs of complaints the code looks at (EPOCHS_NUM_TO_CHECK_FOR_COMPLAINERS)
	softJail     = 3600  // README: "temporary, lasting 1 hour each"
	hardJail     = 86400 // README: "jailed for 24 hours and set to a 'frozen' state"
	day          = 86400
)

const (
	kComplain = iota
	kService
	kUnfreeze
	kEpoch
	kHour
	kDay
)

type opdef struct {
	name   string
	kind   int
	cons   int // consumer index (0: plan with MaxProvidersToPair=3, 1: plan with MaxProvidersToPair=2)
	target int // reported provider (complain) / paid provider (service) / unfrozen provider
	cu     uint64
	prev   bool // relay of the previous epoch
}

type pe struct {
	p int
	e uint64
}

type ledger struct {
	serviced map[pe]uint64
	fresh    map[pe]uint64 // complaint CU not yet used to justify a jail
	entry    map[pe]bool   // an unconsumed report exists for (p, e) (possibly of zero weight)
	used     map[pe]uint64 // complaint CU already used to justify a jail
	jails    map[int][]int64
	sess     map[string]uint64 // per (op, relay epoch) counter -> canonical session ids
}

func newLedger() *ledger {
	return &ledger{serviced: map[pe]uint64{}, fresh: map[pe]uint64{}, entry: map[pe]bool{}, used: map[pe]uint64{}, jails: map[int][]int64{}, sess: map[string]uint64{}}
}

func (l *ledger) clone() *ledger {
	n := newLedger()
	for k, v := range l.serviced {
		n.serviced[k] = v
	}
	for k, v := range l.fresh {
		n.fresh[k] = v
	}
	for k, v := range l.entry {
		n.entry[k] = v
	}
	for k, v := range l.used {
		n.used[k] = v
	}
	for k, v := range l.jails {
		n.jails[k] = append([]int64{}, v...)
	}
	for k, v := range l.sess {
		n.sess[k] = v
	}
	return n
}

func (l *ledger) canon() string {
	var parts []string
	for k, v := range l.serviced {
		if v != 0 {
			parts = append(parts, fmt.Sprintf("s%d.%d=%d", k.p, k.e, v))
		}
	}
	for k, v := range l.fresh {
		if v != 0 {
			parts = append(parts, fmt.Sprintf("f%d.%d=%d", k.p, k.e, v))
		}
	}
	for k, v := range l.entry {
		if v {
			parts = append(parts, fmt.Sprintf("e%d.%d", k.p, k.e))
		}
	}
	for k, v := range l.used {
		if v != 0 {
			parts = append(parts, fmt.Sprintf("u%d.%d=%d", k.p, k.e, v))
		}
	}
	for k, v := range l.jails {
		parts = append(parts, fmt.Sprintf("j%d=%v", k, v))
	}
	for k, v := range l.sess {
		parts = append(parts, fmt.Sprintf("n%s=%d", k, v))
	}
	sort.Strings(parts)
	return strings.Join(parts, ";")
}

type variant struct {
	name       string
	rec        uint64 // RecommendedEpochNumToCollectPayment (genesis parameter)
	p3         string // "frozen": provider 3 froze itself in the fixture; "late": staked late (short stake history)
	lateEpochs int    // for p3 == "late": epochs between p3's stake and the end of the fixture
	prefix     []string
	opFilter   func(o opdef) bool
}

type scen struct {
	w     *chain.World
	v     variant
	ops   []opdef
	names []string
	cons  []sigs.Account
	provs []sigs.Account
	paddr []string
	// the plans created by the fixture; the oracle needs the smallest MaxProvidersToPair
	minPlan uint64

	root *ledger
	l    *ledger
}

func allOps() []opdef {
	var ops []opdef
	add := func(o opdef) { ops = append(ops, o) }
	add(opdef{name: "complainA(p0,cu=1)", kind: kComplain, cons: 0, target: 0, cu: 1})
	add(opdef{name: "complainA(p0,cu=5)", kind: kComplain, cons: 0, target: 0, cu: 5})
	add(opdef{name: "complainA(p0,cu=50)", kind: kComplain, cons: 0, target: 0, cu: 50})
	add(opdef{name: "complainB(p0,cu=5)", kind: kComplain, cons: 1, target: 0, cu: 5})
	add(opdef{name: "complainA(p1,cu=50)", kind: kComplain, cons: 0, target: 1, cu: 50})
	add(opdef{name: "complainA(p3,cu=50)", kind: kComplain, cons: 0, target: 3, cu: 50})
	add(opdef{name: "complainPrevEpochA(p0,cu=50)", kind: kComplain, cons: 0, target: 0, cu: 50, prev: true})
	add(opdef{name: "service(p0,cu=1)", kind: kService, cons: 0, target: 0, cu: 1})
	add(opdef{name: "service(p0,cu=10)", kind: kService, cons: 0, target: 0, cu: 10})
	add(opdef{name: "service(p0,cu=13)", kind: kService, cons: 0, target: 0, cu: 13})
	add(opdef{name: "unfreeze(p0)", kind: kUnfreeze, target: 0})
	add(opdef{name: "unfreeze(p3)", kind: kUnfreeze, target: 3})
	add(opdef{name: "next-epoch", kind: kEpoch})
	add(opdef{name: "block(+1h)", kind: kHour})
	add(opdef{name: "block(+1d)", kind: kDay})
	return ops
}

func build(v variant) *scen {
	s := &scen{v: v}
	w := chain.NewWorld()
	s.w = w
	w.SetEpochParams(epochBlocks, epochsToSave)
	pp := w.Keepers.Pairing.GetParams(w.Ctx)
	pp.RecommendedEpochNumToCollectPayment = v.rec
	w.Keepers.Pairing.SetParams(w.Ctx, pp)
	w.AddValidator(0, 1000000)
	w.Must("add spec", w.AddSpecGov(chain.MockSpec(specID)))
	planA := common.CreateMockPlan()
	planA.Index = "plana"
	planA.PlanPolicy.MaxProvidersToPair = 3
	planB := common.CreateMockPlan()
	planB.Index = "planb"
	planB.PlanPolicy.MaxProvidersToPair = 2
	w.Must("add plans", w.AddPlanGov(false, planA, planB))
	s.minPlan = 2
	nextEpoch := func() {
		if p := w.AdvanceToNextEpoch(chain.BlockDt); p != "" {
			panic("fixture: " + p)
		}
	}
	for i := 0; i < 4; i++ {
		acc, _ := w.AddAccount(common.PROVIDER, i, 10000000)
		s.provs = append(s.provs, acc)
		s.paddr = append(s.paddr, acc.Addr.String())
	}
	for i := 0; i < 3; i++ {
		w.Must("stake", w.Stake(s.provs[i], specID, 100000, 1, nil, 100))
	}
	if v.p3 == "frozen" {
		w.Must("stake", w.Stake(s.provs[3], specID, 100000, 1, nil, 100))
	}
	for i, plan := range []string{"plana", "planb"} {
		acc, _ := w.AddAccount(common.CONSUMER, i, 10000000)
		s.cons = append(s.cons, acc)
		w.Must("buy", w.Buy(acc, acc, plan, 1, false, false))
	}
	nextEpoch()
	if v.p3 == "frozen" {
		w.Must("freeze", w.Tx(func() error {
			_, err := w.TxPairingFreezeProvider(s.paddr[3], specID)
			return err
		}))
	}
	// enough epochs for the punishment code to have the history it asks for
	total := int(svcWindow+v.rec) + 2
	for i := 0; i < total; i++ {
		if v.p3 == "late" && i == total-v.lateEpochs {
			w.Must("stake late", w.Stake(s.provs[3], specID, 100000, 1, nil, 100))
		}
		nextEpoch()
	}
	for _, o := range allOps() {
		if v.opFilter != nil && !v.opFilter(o) {
			continue
		}
		s.ops = append(s.ops, o)
		s.names = append(s.names, o.name)
	}
	// scenario prefix: driven through Apply so that the ledger follows
	s.l = newLedger()
	for _, name := range v.prefix {
		idx := -1
		for i, o := range allOps() {
			if o.name == name {
				idx = i
			}
		}
		st := s.apply(allOps()[idx])
		if !st.Accepted || len(st.Viol) > 0 {
			panic(fmt.Sprintf("c19 fixture prefix %q: accepted=%v obs=%s viol=%v", name, st.Accepted, st.Obs, st.Viol))
		}
	}
	s.root = s.l.clone()
	w.MarkFixture()
	return s
}

func (s *scen) Ops() []string { return s.names }
func (s *scen) Reset()        { s.w.Reset(); s.l = s.root.clone() }
func (s *scen) Fork() func() {
	r := s.w.Fork()
	saved := s.l.clone()
	return func() { r(); s.l = saved }
}
func (s *scen) Hash() []byte { return append(s.w.StateHash(), []byte(s.l.canon())...) }

func viol(key, what string) []ev.Violation {
	return []ev.Violation{{Property: "C19", Key: key, What: what}}
}

func firstLine(s string) string {
	if i := strings.IndexByte(s, '\n'); i >= 0 {
		return s[:i]
	}
	return s
}

func (s *scen) entries() []epochstoragetypes.StakeEntry {
	out := make([]epochstoragetypes.StakeEntry, len(s.paddr))
	for i, a := range s.paddr {
		e, ok := s.w.Keepers.Epochstorage.GetStakeEntryCurrent(s.w.Ctx, specID, a)
		if ok {
			out[i] = e
		} else {
			out[i] = epochstoragetypes.StakeEntry{}
		}
	}
	return out
}

// prevEpochs returns n epoch starts going back from e (e itself first); false if the chain is too young.
func (s *scen) prevEpochs(e uint64, n int) ([]uint64, bool) {
	out := []uint64{e}
	for len(out) < n {
		p, err := s.w.Keepers.Epochstorage.GetPreviousEpochStartForBlock(s.w.Ctx, out[len(out)-1])
		if err != nil {
			return out, false
		}
		out = append(out, p)
	}
	return out, true
}

// pairing of a consumer at an epoch, as the payment path computes it (evaluated on a throw-away branch).
func (s *scen) pairing(cons sigs.Account, epoch uint64) []string {
	w := s.w
	cctx, _ := w.Ctx.CacheContext()
	proj, err := w.Keepers.Pairing.GetProjectData(cctx, cons.Addr, specID, epoch)
	if err != nil {
		return nil
	}
	for _, acc := range s.provs {
		ok, _, list, err := w.Keepers.Pairing.ValidatePairingForClient(cctx, specID, acc.Addr, epoch, proj)
		if err == nil && ok {
			var out []string
			for _, e := range list {
				out = append(out, e.Address)
			}
			return out
		}
	}
	return nil
}

// block advances one block and evaluates the oracle on what begin-block did to the providers' stake entries.
func (s *scen) block(dt time.Duration) (obs string, vs []ev.Violation) {
	w := s.w
	pre := s.entries()
	preEpoch := w.EpochStartNow()
	if p := w.NextBlock(dt); p != "" {
		return "block-panic", []ev.Violation{{Property: "C37", Key: "block-panic:" + firstLine(p), What: "panic in block processing: " + firstLine(p)}}
	}
	post := s.entries()
	cur := w.EpochStartNow()
	now := w.Ctx.BlockTime().UTC().Unix()
	var jailed []int
	for i := range pre {
		if pre[i].Jails != post[i].Jails || pre[i].JailEndTime != post[i].JailEndTime {
			jailed = append(jailed, i)
		}
	}
	if len(jailed) == 0 {
		if cur != preEpoch {
			return "epoch-start-no-jail", nil
		}
		return "block", nil
	}
	if cur == preEpoch {
		return "violation", viol("jail-outside-epoch-start", fmt.Sprintf("provider p%d: Jails/JailEndTime changed in block %d which is not an epoch start", jailed[0], w.Ctx.BlockHeight()))
	}
	rec := w.Keepers.Pairing.RecommendedEpochNumToCollectPayment(w.Ctx)
	obs = "jail-soft"
	strictObs := ""
	for _, p := range jailed {
		// ---- the window the code inspects: it starts rec epochs before the current epoch
		win, ok := s.prevEpochs(cur, int(rec)+svcWindow)
		if !ok {
			return "violation", viol("jail-without-history", fmt.Sprintf("p%d jailed at epoch %d although the chain is younger than the checked window", p, cur))
		}
		win = win[rec:] // win[0] = cur - rec epochs, 8 epochs in all
		var complaints, consumed, servWeak, servAll uint64
		for i, e := range win {
			k := pe{p, e}
			if i < cmpWindow {
				complaints += s.l.fresh[k]
				consumed += s.l.used[k]
			}
			servAll += s.l.serviced[k]
			if s.l.entry[k] {
				servWeak += s.l.serviced[k]
			}
		}
		desc := fmt.Sprintf("p%d jailed at epoch start %d (Jails %d->%d, JailEndTime %d->%d): fresh complaint CU in epochs %v = %d, already-consumed complaint CU there = %d, serviced CU in the reported epochs of the 8-epoch window = %d (whole window %d)",
			p, cur, pre[p].Jails, post[p].Jails, pre[p].JailEndTime, post[p].JailEndTime, win[:cmpWindow], complaints, consumed, servWeak, servAll)
		if !(complaints > factor*servWeak) {
			if complaints+consumed > factor*servWeak {
				return "violation", viol("jail-reuses-consumed-complaints", desc)
			}
			return "violation", viol("jail-without-4x-complaints", desc)
		}
		if !(complaints > factor*servAll) {
			strictObs = "jail-soft|strict-whole-window-reading-not-met"
		}
		// ---- stake history
		// (decided from the harness' own jail record - emptied when the provider unfreezes out of a hard jail - not from
		// the chain's Jails counter, which is state of the code under test)
		if len(s.l.jails[p]) == 0 {
			minHist := win[len(win)-1] // win holds the 8 epochs cur-rec .. cur-rec-7; the window of rec+8 epochs starts one epoch earlier
			h, ok := s.prevEpochs(minHist, 2)
			if !ok {
				return "violation", viol("jail-without-history", desc)
			}
			if pre[p].StakeAppliedBlock > h[1] {
				return "violation", viol("jail-short-stake-history", fmt.Sprintf("%s; stake applied at block %d, the checked window starts at block %d", desc, pre[p].StakeAppliedBlock, h[1]))
			}
		}
		// ---- consume the justifying complaints
		for _, e := range win[:cmpWindow] {
			k := pe{p, e}
			s.l.used[k] += s.l.fresh[k]
			delete(s.l.fresh, k)
			delete(s.l.entry, k)
		}
		// ---- kind of jail, escalation
		recent := 0
		for _, t := range s.l.jails[p] {
			if now-t < day {
				recent++
			}
		}
		frozen := post[p].IsFrozen()
		if frozen {
			obs = "jail-hard"
			if len(s.l.jails[p]) < 2 {
				return "violation", viol("hard-jail-without-two-earlier-jails", desc)
			}
			if post[p].JailEndTime != now+hardJail {
				return "violation", viol("hard-jail-end-time", fmt.Sprintf("%s; frozen with JailEndTime-now = %d, expected 24h", desc, post[p].JailEndTime-now))
			}
		} else {
			if recent >= 2 {
				return "violation", viol("no-escalation-third-jail-within-24h", fmt.Sprintf("%s; earlier jails at %v, now %d: third jail within 24h is not a frozen hard jail", desc, s.l.jails[p], now))
			}
			if post[p].JailEndTime != now+softJail {
				return "violation", viol("soft-jail-end-time", fmt.Sprintf("%s; JailEndTime-now = %d, expected 1h", desc, post[p].JailEndTime-now))
			}
		}
		s.l.jails[p] = append(s.l.jails[p], now)
		// keep only what can still matter (bounded ledger): jails of the last 2 days, at most 3
		if n := len(s.l.jails[p]); n > 3 {
			s.l.jails[p] = s.l.jails[p][n-3:]
		}
	}
	// ---- the minimum-providers guard (weaker reading: providers that are neither frozen nor jailed just now)
	isJailedNow := map[string]bool{}
	for _, p := range jailed {
		isJailedNow[s.paddr[p]] = true
	}
	var left, pairable uint64
	for _, e := range w.Keepers.Epochstorage.GetAllStakeEntriesCurrentForChainId(w.Ctx, specID) {
		if !e.IsFrozen() && !isJailedNow[e.Address] {
			left++
			if e.StakeAppliedBlock <= uint64(w.Ctx.BlockHeight()) {
				pairable++
			}
		}
	}
	if left < s.minPlan {
		return "violation", viol("min-providers-guard", fmt.Sprintf("epoch start %d jailed %d provider(s) and left %d providers that are neither frozen nor just jailed; smallest plan MaxProvidersToPair is %d", cur, len(jailed), left, s.minPlan))
	}
	if strictObs != "" && obs == "jail-soft" {
		obs = strictObs
	}
	if pairable < s.minPlan {
		obs += "|strict-guard-reading:pairable-providers-below-min"
	}
	if len(jailed) > 1 {
		obs += "|two-jailed"
	}
	return obs, nil
}

func (s *scen) Apply(op int) bfs.Step { return s.apply(s.ops[op]) }

func (s *scen) apply(o opdef) bfs.Step {
	w := s.w
	switch o.kind {
	case kEpoch:
		start := w.EpochStartNow()
		obs := "block"
		for i := 0; i < 4*epochBlocks; i++ {
			ob, vs := s.block(chain.BlockDt)
			if len(vs) > 0 {
				return bfs.Step{Accepted: true, Obs: ob, Viol: vs}
			}
			obs = ob
			if w.EpochStartNow() != start {
				return bfs.Step{Accepted: true, Obs: obs}
			}
		}
		panic("harness: epoch never advanced")
	case kHour, kDay:
		dt := time.Hour
		if o.kind == kDay {
			dt = 24 * time.Hour
		}
		ob, vs := s.block(dt)
		return bfs.Step{Accepted: true, Obs: "jump:" + ob, Viol: vs}
	case kUnfreeze:
		before, _ := w.Keepers.Epochstorage.GetStakeEntryCurrent(w.Ctx, specID, s.paddr[o.target])
		res := w.Tx(func() error {
			msg := &pairingtypes.MsgUnfreezeProvider{Creator: s.paddr[o.target], ChainIds: []string{specID}}
			if err := msg.ValidateBasic(); err != nil {
				return err
			}
			_, err := w.Servers.PairingServer.UnfreezeProvider(w.GoCtx, msg)
			return err
		})
		if res.Panic != "" {
			return bfs.Step{Accepted: false, Obs: "tx-panic", Viol: viol("unfreeze-panic", "unfreeze panicked: "+firstLine(res.Panic))}
		}
		if !res.OK() {
			return bfs.Step{Accepted: false, Obs: "unfreeze-rejected"}
		}
		after, _ := w.Keepers.Epochstorage.GetStakeEntryCurrent(w.Ctx, specID, s.paddr[o.target])
		if before.IsFrozen() && !after.IsFrozen() {
			// README: a hard-jailed provider resumes with an unfreeze after its jail time (24h) ended; its jail
			// record starts afresh (every recorded jail is then older than a day anyway)
			delete(s.l.jails, o.target)
			return bfs.Step{Accepted: true, Obs: "unfrozen"}
		}
		return bfs.Step{Accepted: true, Obs: "unfreeze-noop"}
	}
	// ---- a relay payment
	epoch := w.EpochStartNow()
	if o.prev {
		pe, err := w.Keepers.Epochstorage.GetPreviousEpochStartForBlock(w.Ctx, epoch)
		if err != nil {
			return bfs.Step{Accepted: false, Obs: "no-prev-epoch"}
		}
		epoch = pe
	}
	cons := s.cons[o.cons]
	paired := s.pairing(cons, epoch)
	if len(paired) == 0 {
		return bfs.Step{Accepted: false, Obs: "no-pairing"}
	}
	inPairing := func(a string) bool {
		for _, x := range paired {
			if x == a {
				return true
			}
		}
		return false
	}
	payee := -1
	if o.kind == kService {
		payee = o.target
	} else {
		if !inPairing(s.paddr[o.target]) {
			return bfs.Step{Accepted: false, Obs: "reported-provider-not-paired"}
		}
		for i := len(s.paddr) - 1; i >= 0; i-- {
			if i != o.target && inPairing(s.paddr[i]) {
				payee = i
				break
			}
		}
		if payee < 0 {
			return bfs.Step{Accepted: false, Obs: "no-payee"}
		}
	}
	sk := fmt.Sprintf("%s@%d", o.name, epoch)
	session := uint64(1000*(opIndex(o.name)+1)) + s.l.sess[sk]
	rs := &pairingtypes.RelaySession{Provider: s.paddr[payee], ContentHash: []byte("apiname"), SessionId: session, SpecId: specID,
		CuSum: o.cu, Epoch: int64(epoch), RelayNum: 1, LavaChainId: chain.ChainID}
	if o.kind == kComplain {
		rs.UnresponsiveProviders = []*pairingtypes.ReportedProvider{{Address: s.paddr[o.target], Disconnections: 1, Errors: 1, TimestampS: w.Ctx.BlockTime().Unix()}}
	}
	chain.SignRelay(cons, rs)
	var before pairingtypes.ProviderEpochComplainerCu
	if o.kind == kComplain {
		before, _ = w.Keepers.Pairing.GetProviderEpochComplainerCu(w.Ctx, epoch, s.paddr[o.target], specID)
	}
	res := w.Pay(s.paddr[payee], rs)
	if res.Panic != "" {
		return bfs.Step{Accepted: false, Obs: "tx-panic", Viol: viol("pay-panic:"+firstLine(res.Panic), "relay payment panicked: "+firstLine(res.Panic))}
	}
	if !res.OK() {
		return bfs.Step{Accepted: false, Obs: "pay-rejected"}
	}
	s.l.sess[sk]++
	s.l.serviced[pe{payee, epoch}] += o.cu
	if o.kind == kService {
		return bfs.Step{Accepted: true, Obs: "serviced"}
	}
	after, found := w.Keepers.Pairing.GetProviderEpochComplainerCu(w.Ctx, epoch, s.paddr[o.target], specID)
	if !found {
		return bfs.Step{Accepted: true, Obs: "complaint-ignored"}
	}
	delta := after.ComplainersCu - before.ComplainersCu
	if after.ComplainersCu < before.ComplainersCu || delta > o.cu {
		return bfs.Step{Accepted: true, Obs: "violation", Viol: viol("complaint-credit-exceeds-relay-cu", fmt.Sprintf("%s: complaint CU of p%d in epoch %d went %d -> %d, the reporting relay carried %d CU", o.name, o.target, epoch, before.ComplainersCu, after.ComplainersCu, o.cu))}
	}
	k := pe{o.target, epoch}
	s.l.entry[k] = true
	s.l.fresh[k] += delta
	if delta == 0 {
		return bfs.Step{Accepted: true, Obs: "complaint-zero-weight"}
	}
	return bfs.Step{Accepted: true, Obs: "complaint"}
}

var opsAll = allOps()

func opIndex(name string) int {
	for i, o := range opsAll {
		if o.name == name {
			return i
		}
	}
	return -1
}

// ---- variants

var variants = []variant{
	// p0,p1,p2 long staked, p3 frozen by itself: 3 non-frozen providers, smallest plan pairs 2 -> one jail per epoch start
	{name: "c19/frozen4th", rec: 1, p3: "frozen",
		opFilter: func(o opdef) bool { return o.name != "unfreeze(p0)" }},
	// p3 staked late: its stake history becomes long enough two epochs into the exploration; 4 non-frozen providers
	{name: "c19/late4th", rec: 1, p3: "late", lateEpochs: 8,
		opFilter: func(o opdef) bool { return o.kind != kUnfreeze }},
	// p0 already has two soft jails (fresh complaints each time) and is back in the pairing
	{name: "c19/twojails", rec: 1, p3: "frozen",
		prefix: []string{"complainA(p0,cu=50)", "next-epoch", "complainPrevEpochA(p0,cu=50)", "next-epoch", "next-epoch", "next-epoch", "next-epoch"},
		opFilter: func(o opdef) bool {
			return o.name != "unfreeze(p3)" && o.name != "complainA(p3,cu=50)" && o.name != "complainA(p0,cu=1)" && o.name != "service(p0,cu=10)" && o.name != "complainB(p0,cu=5)"
		}},
	// p0 went through two soft jails and the hard jail, waited a day and unfroze two epochs ago: its stake history restarts
	// at the unfreeze, so complaints right after it is back in the pairing must not jail it
	{name: "c19/unfrozen", rec: 1, p3: "frozen",
		prefix: []string{"complainA(p0,cu=50)", "next-epoch", "complainPrevEpochA(p0,cu=50)", "next-epoch", "next-epoch", "next-epoch", "next-epoch",
			"complainA(p0,cu=50)", "next-epoch", "block(+1d)", "unfreeze(p0)", "next-epoch", "next-epoch"},
		opFilter: func(o opdef) bool {
			return o.name != "unfreeze(p3)" && o.name != "complainA(p3,cu=50)" && o.name != "complainA(p0,cu=1)" && o.name != "service(p0,cu=10)" && o.name != "complainB(p0,cu=5)"
		}},
	// p0 serviced CU (and got a one-CU report) three epochs ago: serviced CU at the far end of the 8-epoch window, outside
	// the 2-epoch complaints window, must still count against fresh complaints
	{name: "c19/oldservice", rec: 1, p3: "frozen",
		prefix: []string{"service(p0,cu=10)", "complainA(p0,cu=1)", "next-epoch", "next-epoch", "next-epoch"},
		opFilter: func(o opdef) bool { return o.name != "unfreeze(p0)" && o.name != "unfreeze(p3)" && o.name != "complainA(p3,cu=50)" }},
	// the default RecommendedEpochNumToCollectPayment (3) with a reduced alphabet
	{name: "c19/rec3", rec: 3, p3: "frozen",
		opFilter: func(o opdef) bool {
			switch o.name {
			case "complainA(p0,cu=5)", "complainA(p0,cu=50)", "complainA(p1,cu=50)", "complainPrevEpochA(p0,cu=50)", "service(p0,cu=1)", "service(p0,cu=13)", "next-epoch", "block(+1h)":
				return true
			}
			return false
		}},
}

func init() {
	for _, v := range variants {
		v := v
		bfs.Register(v.name, func() bfs.Scenario { return build(v) })
	}
	reg.Register(reg.Check{Property: "C19", Level: "model_checking", Run: func(run *ev.Run) {
		type plan struct {
			name     string
			depth    int
			deadline time.Duration
		}
		plans := []plan{{"c19/frozen4th", 4, 120 * time.Second}, {"c19/late4th", 4, 120 * time.Second}, {"c19/twojails", 4, 120 * time.Second}, {"c19/oldservice", 4, 90 * time.Second}, {"c19/unfrozen", 4, 90 * time.Second}, {"c19/rec3", 5, 120 * time.Second}}
		if ev.Tier() == "thorough" {
			plans = []plan{{"c19/frozen4th", 6, 5 * time.Minute}, {"c19/late4th", 5, 3 * time.Minute}, {"c19/twojails", 6, 3 * time.Minute}, {"c19/oldservice", 6, 3 * time.Minute}, {"c19/unfrozen", 6, 3 * time.Minute}, {"c19/rec3", 7, 3 * time.Minute}}
		}
		exhaustive := true
		var bounds []string
		for _, p := range plans {
			if only := os.Getenv("VERIF_C19_SCEN"); only != "" && !strings.Contains(p.name, only) { // development aid
				continue
			}
			cfg := bfs.Config{Scenario: p.name, MaxDepth: p.depth, Deadline: p.deadline}
			st := bfs.Explore(cfg, run)
			bfs.Report(run, strings.TrimPrefix(p.name, "c19/"), cfg, st)
			exhaustive = exhaustive && st.Exhaustive
			bounds = append(bounds, fmt.Sprintf("%s: depth %d (completed %d)", p.name, p.depth, st.DepthCompleted))
		}
		run.Set("exhaustive", exhaustive)
		run.Set("bound", "all histories up to the stated depth per start state over: relay payments of consumer A (plan MaxProvidersToPair=3) / B (plan MaxProvidersToPair=2) reporting p0/p1/p3 with CU 1/5/50 (current and previous epoch), payments servicing p0 with CU 1/10/13, unfreeze(p0/p3), next epoch, one block of +1h, one block of +1d; 4 providers on one chain; EpochBlocks=2, EpochsToSave=12; start states after 11-14 epochs: "+strings.Join(bounds, "; "))
		run.Assume("mock bank/account keeper of testutil/keeper; transactions atomic as in baseapp; RecommendedEpochNumToCollectPayment is a genesis parameter (1 in three start states, default 3 in c19/rec3); complaint CU of a report is what the chain credits when the reporting relay is accepted (checked to be <= the relay's CU); the threshold is checked under the weaker reading (serviced CU of the epochs of the 8-epoch window that carry a report); the whole-window reading and the 'pairable providers' reading of the guard are only counted as outcomes (strict-*)")
	}})
}
