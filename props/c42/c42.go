// Package c42: IPRPC funds reach the providers that served IPRPC traffic — BFS over fundings, relay payments from an
// IPRPC-eligible and a regular subscription, a provider unstake and month boundaries on the real keepers, with a
// reference model of the monthly IPRPC funds and of the IPRPC CU served, written from the property text.
//
// Oracles:
//
//	after every op : IprpcReward objects (current and future months) == model funds; IPRPC pool balance == their sum;
//	                 IprpcCu of the base-pay records == CU served to the eligible subscription (model);
//	month boundary : for every spec with funds F this month: if staked providers served eligible traffic (CU_p, sum S):
//	                 each gets floor((F - validators' - community participation) * CU_p / S) in its reward records
//	                 (provider + delegators), the rounding leftover and the community participation reach the community
//	                 pool; otherwise F is added to next month's funds; IPRPC pool falls by exactly paid + participation
//	                 + leftovers.
package c42

import (
	"fmt"
	"os"
	"sort"
	"strings"
	"time"

	sdk "github.com/cosmos/cosmos-sdk/types"
	authtypes "github.com/cosmos/cosmos-sdk/x/auth/types"
	distributiontypes "github.com/cosmos/cosmos-sdk/x/distribution/types"
	govtypes "github.com/cosmos/cosmos-sdk/x/gov/types"
	"github.com/lavanet/lava/v5/testutil/common"
	testkeeper "github.com/lavanet/lava/v5/testutil/keeper"
	"github.com/lavanet/lava/v5/utils/sigs"
	dualstakingtypes "github.com/lavanet/lava/v5/x/dualstaking/types"
	pairingtypes "github.com/lavanet/lava/v5/x/pairing/types"
	rewardstypes "github.com/lavanet/lava/v5/x/rewards/types"

	"verifmc/engine/bfs"
	"verifmc/engine/chain"
	"verifmc/engine/ev"
	"verifmc/engine/reg"
)

var debug = os.Getenv("C42_DEBUG") != ""

var specs = []string{"mocka", "mockb"}

const (
	minCost   = 100
	maxMonths = 3
)

type opdef struct {
	name     string
	kind     int // 0 fund 1 pay 2 unstake 3 +1block 4 next-epoch 5 month boundary
	spec     int
	duration uint64
	amount   int64
	p, c     int
	cu       uint64
}

type scen struct {
	w       *chain.World
	ops     []opdef
	names   []string
	cons    []sigs.Account // cons[0] is IPRPC-eligible, cons[1] is a regular subscription
	provs   []sigs.Account
	funder  sigs.Account
	val     sigs.Account
	fixViol []ev.Violation // violations met while building the fixture
	bonus   bool           // variant: provider bonus pools alive, a served regular subscription, IPRPC funds in a second denom
	denom   string         // denom of the IPRPC funds (bond denom, or "uibc" in the bonus variant)

	fixCur   uint64
	fixFunds map[uint64]map[string]sdk.Int

	// reference model
	cur     uint64                        // id of the current month's IprpcReward
	funds   map[uint64]map[string]sdk.Int // month id -> spec -> funds
	cu      map[string]uint64             // "spec|provider index" -> IPRPC CU served this month
	months  int
	session uint64
}

func (s *scen) coin(n int64) sdk.Coin { return sdk.NewCoin(s.w.TokenDenom(), sdk.NewInt(n)) }

// fundCoins is the coin set of an IPRPC funding whose nominal amount is n: in the bond denom it is n (of which the
// minimum cost is kept by the chain); in the bonus variant the minimum cost is paid in the bond denom and the rest in
// the second denom, so that IPRPC rewards can be told apart from the bond-denom bonus rewards.
func (s *scen) fundCoins(n int64) sdk.Coins {
	if s.denom == s.w.TokenDenom() {
		return sdk.NewCoins(s.coin(n))
	}
	return sdk.NewCoins(s.coin(minCost), sdk.NewCoin(s.denom, sdk.NewInt(n-minCost)))
}

func (s *scen) modBal(module string) sdk.Int {
	return s.w.Keepers.BankKeeper.GetBalance(s.w.Ctx, testkeeper.GetModuleAddress(module), s.denom).Amount
}

func build(bonus bool) *scen {
	s := &scen{bonus: bonus}
	w := chain.NewWorld()
	s.w = w
	s.denom = w.TokenDenom()
	if bonus {
		s.denom = "uibc"
	}
	w.SetEpochParams(4, 3)
	s.val = w.AddValidator(0, 1000000)
	for _, sp := range specs {
		w.Must("spec", w.AddSpecGov(chain.MockSpec(sp)))
	}
	w.Must("plan", w.AddPlanGov(false, common.CreateMockPlan()))
	for i := 0; i < 2; i++ {
		p, _ := w.AddAccount(common.PROVIDER, i, 10000000)
		s.provs = append(s.provs, p)
		for _, sp := range specs {
			w.Must("stake", w.Stake(p, sp, 100000, 1, nil, 100))
		}
	}
	for i := 0; i < 2; i++ {
		c, _ := w.AddAccount(common.CONSUMER, i, 10000000)
		s.cons = append(s.cons, c)
	}
	s.funder, _ = w.AddAccount("funder", 0, 100000000)
	if bonus {
		w.Keepers.BankKeeper.SetBalance(w.Ctx, s.funder.Addr, sdk.NewCoins(s.coin(100000000), sdk.NewCoin(s.denom, sdk.NewInt(100000000))))
	}
	// the providers' bonus pools are depleted (as after the 4-year allocation lifetime) so that the only rewards paid
	// at a month boundary are IPRPC rewards
	// (the bonus variant keeps the pools: there a spec pays a bond-denom bonus to the providers with base pay)
	if !bonus {
		for _, pool := range []rewardstypes.Pool{rewardstypes.ProvidersRewardsAllocationPool, rewardstypes.ProviderRewardsDistributionPool} {
			w.Keepers.BankKeeper.SetBalance(w.Ctx, testkeeper.GetModuleAddress(string(pool)), sdk.NewCoins())
		}
	}
	w.Must("iprpc data", w.Tx(func() error {
		_, err := w.TxRewardsSetIprpcDataProposal(authtypes.NewModuleAddress(govtypes.ModuleName).String(), s.coin(minCost), []string{s.cons[0].Addr.String()})
		return err
	}))
	w.AdvanceToNextEpoch(chain.BlockDt)
	w.AdvanceToNextEpoch(chain.BlockDt)
	for _, c := range s.cons {
		w.Must("buy", w.Buy(c, c, "free", 6, false, false))
	}
	w.AdvanceToNextEpoch(chain.BlockDt)
	// the chain has already been funded for a while: mocka 2 months x (1001-100), mockb 1 month x (1000-100), and one
	// month boundary has passed, so the current month holds funds for both specs and the next one for mocka
	s.cur = w.Keepers.Rewards.GetIprpcRewardsCurrentId(w.Ctx)
	s.funds = map[uint64]map[string]sdk.Int{}
	s.cu = map[string]uint64{}
	for _, o := range []opdef{{name: "fixture fund", spec: 0, duration: 2, amount: 1001}, {name: "fixture fund", spec: 1, duration: 1, amount: 1000}} {
		if st := s.fund(o); len(st.Viol) > 0 || !st.Accepted {
			panic(fmt.Sprintf("fixture: funding failed: %+v", st))
		}
	}
	if bonus {
		// p0 serves the regular subscription on mocka in the month before the fixture boundary; its payout lands
		// after the boundary, so in the current month p0 has base pay on mocka (the spec pays a bonus) and p1 has none
		s.session++
		rs := &pairingtypes.RelaySession{Provider: s.provs[0].Addr.String(), ContentHash: []byte("apiname"), SessionId: 900 + s.session, SpecId: specs[0],
			CuSum: 50, Epoch: int64(w.EpochStartNow()), RelayNum: 1, LavaChainId: chain.ChainID}
		chain.SignRelay(s.cons[1], rs)
		w.Must("fixture pay", w.Pay(rs.Provider, rs))
	}
	if viol, _ := s.boundary(); len(viol) > 0 {
		// the oracle fails while the fixture is being built (it is built with real transactions and blocks too):
		// that is a finding of the check, reported by the first operation of every history
		s.fixViol = viol
	}
	w.AdvanceToNextEpoch(chain.BlockDt)
	if bonus && len(s.fixViol) == 0 {
		// let the regular subscription's month expire and its payout (blocks-to-save later) run
		sub, ok := w.Keepers.Subscription.GetSubscription(w.Ctx, s.cons[1].Addr.String())
		if !ok {
			panic("fixture: no regular subscription")
		}
		if left := time.Unix(int64(sub.MonthExpiryTime), 0).Sub(w.Ctx.BlockTime()); left > 0 {
			w.NextBlock(left + time.Second)
		}
		for i := 0; i < 5; i++ {
			w.AdvanceToNextEpoch(chain.BlockDt)
		}
		got := false
		for _, bp := range w.Keepers.Rewards.GetAllBasePay(w.Ctx) {
			if bp.Provider == s.provs[0].Addr.String() && bp.ChainId == specs[0] && bp.BasePay.Total.IsPositive() {
				got = true
			}
		}
		if !got {
			panic("fixture(bonus): p0 has no base pay on " + specs[0])
		}
	}
	s.fixCur = s.cur
	s.fixFunds = copyFunds(s.funds)
	w.MarkFixture()
	for si, d := range []struct {
		dur uint64
		amt int64
	}{{1, 1000}, {2, 1001}, {1, 1001}, {2, 1000}} {
		sp := si / 2
		s.ops = append(s.ops, opdef{name: fmt.Sprintf("fundIprpc(%s,%dm,%d)", specs[sp], d.dur, d.amt), kind: 0, spec: sp, duration: d.dur, amount: d.amt})
	}
	for _, p := range []struct {
		p, c, spec int
		cu         uint64
	}{{0, 0, 0, 1}, {1, 0, 0, 2}, {1, 0, 1, 3}, {0, 0, 1, 2}, {0, 1, 0, 3}} {
		kindName := "eligible c0"
		if p.c == 1 {
			kindName = "regular c1"
		}
		s.ops = append(s.ops, opdef{name: fmt.Sprintf("pay(p%d,%s,%s,cu=%d)", p.p, kindName, specs[p.spec], p.cu), kind: 1, p: p.p, c: p.c, spec: p.spec, cu: p.cu})
	}
	s.ops = append(s.ops,
		opdef{name: "unstake(p1,mocka)", kind: 2, p: 1, spec: 0},
		opdef{name: "+1block", kind: 3},
		opdef{name: "next-epoch", kind: 4},
		opdef{name: "month-boundary", kind: 5},
	)
	for _, o := range s.ops {
		s.names = append(s.names, o.name)
	}
	s.Reset()
	return s
}

func (s *scen) Ops() []string { return s.names }

func (s *scen) Reset() {
	s.w.Reset()
	s.cur = s.fixCur
	s.funds = copyFunds(s.fixFunds)
	s.cu = map[string]uint64{}
	s.months = 0
	s.session = 0
}

func copyFunds(f map[uint64]map[string]sdk.Int) map[uint64]map[string]sdk.Int {
	out := map[uint64]map[string]sdk.Int{}
	for id, m := range f {
		out[id] = map[string]sdk.Int{}
		for k, v := range m {
			out[id][k] = v
		}
	}
	return out
}

func (s *scen) Fork() func() {
	r := s.w.Fork()
	cur, funds, months, session := s.cur, copyFunds(s.funds), s.months, s.session
	cu := map[string]uint64{}
	for k, v := range s.cu {
		cu[k] = v
	}
	return func() {
		r()
		s.cur = cur
		s.funds = funds
		s.cu = cu
		s.months = months
		s.session = session
	}
}

func (s *scen) modelString() string {
	var parts []string
	for id, m := range s.funds {
		for sp, v := range m {
			if !v.IsZero() {
				parts = append(parts, fmt.Sprintf("f%d/%s=%s", id, sp, v))
			}
		}
	}
	for k, v := range s.cu {
		if v != 0 {
			parts = append(parts, fmt.Sprintf("cu/%s=%d", k, v))
		}
	}
	sort.Strings(parts)
	return fmt.Sprintf("cur=%d months=%d %s", s.cur, s.months, strings.Join(parts, " "))
}

func (s *scen) Hash() []byte { return append(s.w.StateHash(), []byte(s.modelString())...) }

func firstLine(x string) string {
	if i := strings.IndexByte(x, '\n'); i >= 0 {
		return x[:i]
	}
	return x
}

func stable(x string) string {
	x = firstLine(x)
	var b strings.Builder
	for _, c := range x {
		if c >= '0' && c <= '9' {
			continue
		}
		b.WriteRune(c)
	}
	r := b.String()
	if len(r) > 120 {
		r = r[:120]
	}
	return r
}

func v(key, what string) ev.Violation { return ev.Violation{Property: "C42", Key: key, What: what} }

func (s *scen) iprpcPool() sdk.Int { return s.modBal(string(rewardstypes.IprpcPoolName)) }

// realFunds reads the IprpcReward objects: month id -> spec -> amount of the bond denom.
func (s *scen) realFunds() map[uint64]map[string]sdk.Int {
	out := map[uint64]map[string]sdk.Int{}
	for _, r := range s.w.Keepers.Rewards.GetAllIprpcReward(s.w.Ctx) {
		for _, sf := range r.SpecFunds {
			a := sf.Fund.AmountOf(s.denom)
			if a.IsZero() {
				continue
			}
			if out[r.Id] == nil {
				out[r.Id] = map[string]sdk.Int{}
			}
			if old, ok := out[r.Id][sf.Spec]; ok {
				a = a.Add(old)
			}
			out[r.Id][sf.Spec] = a
		}
	}
	return out
}

func fundsString(f map[uint64]map[string]sdk.Int) string {
	var parts []string
	for id, m := range f {
		for sp, a := range m {
			if !a.IsZero() {
				parts = append(parts, fmt.Sprintf("month %d %s=%s", id, sp, a))
			}
		}
	}
	sort.Strings(parts)
	return "{" + strings.Join(parts, ", ") + "}"
}

func (s *scen) addFund(id uint64, spec string, a sdk.Int) {
	if s.funds[id] == nil {
		s.funds[id] = map[string]sdk.Int{}
	}
	if old, ok := s.funds[id][spec]; ok {
		a = a.Add(old)
	}
	s.funds[id][spec] = a
}

// invariants that hold after every operation.
func (s *scen) invariants() []ev.Violation {
	var out []ev.Violation
	w := s.w
	real := s.realFunds()
	if fundsString(real) != fundsString(s.funds) {
		out = append(out, v("iprpc-funds-differ-from-model", fmt.Sprintf("IprpcReward objects %s, expected (fundings + roll-overs - months paid out) %s", fundsString(real), fundsString(s.funds))))
	}
	if c := w.Keepers.Rewards.GetIprpcRewardsCurrentId(w.Ctx); c != s.cur {
		out = append(out, v("iprpc-current-month-id", fmt.Sprintf("current IprpcReward id %d, expected %d", c, s.cur)))
	}
	sum := sdk.ZeroInt()
	for id, m := range real {
		for sp, a := range m {
			if id < s.cur {
				out = append(out, v("iprpc-stale-month-object", fmt.Sprintf("IprpcReward of the past month %d still holds %s for %s", id, a, sp)))
			}
			sum = sum.Add(a)
		}
	}
	if bal := s.iprpcPool(); !bal.Equal(sum) {
		out = append(out, v("iprpc-pool-differs-from-promised-funds", fmt.Sprintf("IPRPC pool holds %s, current+future IprpcReward funds sum to %s (%s)", bal, sum, fundsString(real))))
	}
	// IPRPC CU counted by the chain == CU served to the eligible subscription
	seen := map[string]bool{}
	for _, bp := range w.Keepers.Rewards.GetAllBasePay(w.Ctx) {
		pi := -1
		for i, p := range s.provs {
			if p.Addr.String() == bp.Provider {
				pi = i
			}
		}
		k := fmt.Sprintf("%s|%d", bp.ChainId, pi)
		seen[k] = true
		if bp.BasePay.IprpcCu != s.cu[k] {
			out = append(out, v("iprpc-cu-miscounted", fmt.Sprintf("base pay of provider %d on %s counts %d IPRPC CU, the eligible subscription was served %d CU there this month", pi, bp.ChainId, bp.BasePay.IprpcCu, s.cu[k])))
		}
	}
	for k, c := range s.cu {
		if c != 0 && !seen[k] {
			out = append(out, v("iprpc-cu-miscounted", fmt.Sprintf("no base pay record for %s although the eligible subscription was served %d CU", k, c)))
		}
	}
	return out
}

type snap struct {
	iprpc, dualst, commBal, commPool sdk.Int
	rec                              []sdk.Int // per provider: sum of reward records (provider + delegators)
}

func (x snap) String() string {
	return fmt.Sprintf("iprpc=%s dualst=%s community=%s/%s rec=%v", x.iprpc, x.dualst, x.commPool, x.commBal, x.rec)
}

func (s *scen) snap() snap {
	w := s.w
	x := snap{iprpc: s.iprpcPool(), dualst: s.modBal(dualstakingtypes.ModuleName), commBal: s.modBal(distributiontypes.ModuleName),
		commPool: w.Keepers.Distribution.GetFeePool(w.Ctx).CommunityPool.AmountOf(s.denom).TruncateInt()}
	for _, p := range s.provs {
		sum := sdk.ZeroInt()
		for _, r := range w.Keepers.Dualstaking.GetAllDelegatorReward(w.Ctx) {
			if r.Provider == p.Addr.String() {
				sum = sum.Add(r.Amount.AmountOf(s.denom))
			}
		}
		x.rec = append(x.rec, sum)
	}
	return x
}

func (s *scen) refillTime() int64 {
	return s.w.Keepers.Rewards.TimeToNextTimerExpiry(s.w.Ctx) + s.w.Ctx.BlockTime().UTC().Unix()
}

func (s *scen) payoutDue() bool {
	for _, t := range s.w.Keepers.Subscription.ExportCuTrackerTimers(s.w.Ctx).BlockEntries {
		if int64(t.Value) <= s.w.Ctx.BlockHeight() {
			return true
		}
	}
	return false
}

// endPhase runs, on a fork that is discarded, the end-block phase of the current block exactly as World.NextBlock
// does (app.go end-blocker order: staking, pairing, timerstore) and returns the observables after it.
func (s *scen) endPhase() (mid snap, ok bool) {
	w := s.w
	restore := w.Fork()
	defer restore()
	defer func() {
		if r := recover(); r != nil {
			ok = false
		}
	}()
	ctx := w.Ctx
	w.Keepers.StakingKeeper.BlockValidatorUpdates(ctx)
	w.Keepers.Pairing.EndBlock(ctx)
	w.Keepers.TimerStoreKeeper.EndBlock(ctx)
	return s.snap(), true
}

func blockViol(p string) []ev.Violation {
	if chain.IsMockBankPanic(p) {
		return []ev.Violation{v("block-overdraft", "a pool was overdrawn in block processing: "+firstLine(p))}
	}
	return []ev.Violation{{Property: "C37", Key: "block-panic:" + stable(p), What: "panic in block processing: " + firstLine(p)}}
}

// boundary executes the month boundary: one block whose time is one minute past the refill time, and the next block,
// whose creation runs the end-block phase of the former (monthly distribution + refill).
func (s *scen) boundary() (viol []ev.Violation, obs string) {
	w := s.w
	dt := time.Unix(s.refillTime(), 0).Add(time.Minute).Sub(w.Ctx.BlockTime())
	if p := w.NextBlock(dt); p != "" {
		return blockViol(p), "violation"
	}
	if iv := s.invariants(); len(iv) > 0 {
		return iv, "violation"
	}
	// ---- expectation from the property, computed on the state right before the distribution
	denom := s.denom
	mixed := s.payoutDue() && !s.bonus // (in the bonus variant subscription payouts are in the bond denom, IPRPC rewards are not) // a subscription payout in the same end-block phase blurs the per-provider deltas
	wantRec := make([]sdk.Int, len(s.provs))
	for i := range wantRec {
		wantRec[i] = sdk.ZeroInt()
	}
	wantComm, wantPart, wantPaid := sdk.ZeroInt(), sdk.ZeroInt(), sdk.ZeroInt()
	next := copyFunds(s.funds)
	delete(next, s.cur)
	rolled, served, leftoverSeen := false, false, false
	model := s
	addNext := func(spec string, a sdk.Int) {
		if next[model.cur+1] == nil {
			next[model.cur+1] = map[string]sdk.Int{}
		}
		if old, ok := next[model.cur+1][spec]; ok {
			a = a.Add(old)
		}
		next[model.cur+1][spec] = a
	}
	for _, spec := range specs {
		fund, ok := s.funds[s.cur][spec]
		if !ok || fund.IsZero() {
			continue
		}
		total := uint64(0)
		cus := make([]uint64, len(s.provs))
		for i, p := range s.provs {
			if _, staked := w.Keepers.Epochstorage.GetStakeEntryCurrent(w.Ctx, spec, p.Addr.String()); staked {
				cus[i] = s.cu[fmt.Sprintf("%s|%d", spec, i)]
				total += cus[i]
			}
		}
		if total == 0 {
			addNext(spec, fund) // nobody (still staked) served this spec: the funds roll over
			rolled = true
			continue
		}
		served = true
		vc, cc, err := w.Keepers.Rewards.CalculateValidatorsAndCommunityParticipationRewards(w.Ctx, sdk.NewCoin(denom, fund))
		if err != nil {
			return []ev.Violation{v("participation-calculation-failed", err.Error())}, "violation"
		}
		net := fund.Sub(vc.AmountOf(denom)).Sub(cc.AmountOf(denom))
		wantPart = wantPart.Add(vc.AmountOf(denom))
		wantComm = wantComm.Add(cc.AmountOf(denom))
		used := sdk.ZeroInt()
		for i := range s.provs {
			if cus[i] == 0 {
				continue
			}
			share := net.Mul(sdk.NewIntFromUint64(cus[i])).Quo(sdk.NewIntFromUint64(total))
			wantRec[i] = wantRec[i].Add(share)
			used = used.Add(share)
		}
		wantPaid = wantPaid.Add(used)
		if left := net.Sub(used); left.IsPositive() {
			wantComm = wantComm.Add(left)
			leftoverSeen = true
		}
	}
	pre := s.snap()
	mid, probed := s.endPhase()
	if p := w.NextBlock(chain.BlockDt); p != "" {
		return blockViol(p), "violation"
	}
	// model: the month is over
	s.funds = next
	s.cur++
	s.cu = map[string]uint64{}
	s.months++
	if debug {
		fmt.Fprintf(os.Stderr, "[c42 boundary] pre=%s mid=%s wantRec=%v wantComm=%s wantPart=%s model=%s\n", pre, mid, wantRec, wantComm, wantPart, s.modelString())
	}
	if probed {
		if d := pre.iprpc.Sub(mid.iprpc); !d.Equal(wantPaid.Add(wantPart).Add(wantComm)) {
			viol = append(viol, v("iprpc-pool-outflow", fmt.Sprintf("IPRPC pool fell by %s at the month boundary, expected paid %s + validators' participation %s + community participation and leftovers %s", d, wantPaid, wantPart, wantComm)))
		}
		if !mixed {
			for i := range s.provs {
				if d := mid.rec[i].Sub(pre.rec[i]); !d.Equal(wantRec[i]) {
					viol = append(viol, v("provider-iprpc-reward", fmt.Sprintf("provider %d (and delegators) received %s at the month boundary, expected %s = sum over specs of floor((fund - participation) * CU / total CU) (funds after the boundary: %s)", i, d, wantRec[i], fundsString(next))))
				}
			}
			if d := mid.dualst.Sub(pre.dualst); !d.Equal(wantPaid) {
				viol = append(viol, v("claimable-rewards-backing", fmt.Sprintf("dualstaking module received %s, IPRPC rewards paid %s", d, wantPaid)))
			}
			if d, d2 := mid.commPool.Sub(pre.commPool), mid.commBal.Sub(pre.commBal); !d.Equal(wantComm) || !d2.Equal(wantComm) {
				viol = append(viol, v("community-pool-leftovers", fmt.Sprintf("community pool grew by %s (module balance by %s), expected community participation + rounding leftovers %s", d, d2, wantComm)))
			}
		}
	}
	viol = append(viol, s.invariants()...)
	if len(viol) > 0 {
		return viol, "violation"
	}
	var ks []string
	for k, b := range map[string]bool{"paid": served, "rolled-over": rolled, "leftover": leftoverSeen, "with-sub-payout": mixed, "noprobe": !probed} {
		if b {
			ks = append(ks, k)
		}
	}
	sort.Strings(ks)
	if len(ks) == 0 {
		return nil, "month:no-funds"
	}
	return nil, "month:" + strings.Join(ks, "+")
}

func (s *scen) fund(o opdef) bfs.Step {
	w := s.w
	before := s.iprpcPool()
	res := w.Tx(func() error {
		msg := rewardstypes.NewMsgFundIprpc(s.funder.Addr.String(), specs[o.spec], o.duration, s.fundCoins(o.amount))
		if err := msg.ValidateBasic(); err != nil {
			return err
		}
		_, err := w.Servers.RewardsServer.FundIprpc(w.GoCtx, msg)
		return err
	})
	if res.Panic != "" {
		return bfs.Step{Accepted: false, Obs: "tx-panic", Viol: []ev.Violation{{Property: "C37", Key: "tx-panic:" + stable(res.Panic), What: "message handler panicked in " + o.name + ": " + firstLine(res.Panic)}}}
	}
	if !res.OK() {
		return bfs.Step{Accepted: false, Obs: "tx-rejected"}
	}
	// the funds of this funding = what reached the IPRPC pool, spread evenly over <duration> months from next month
	d := s.iprpcPool().Sub(before)
	per := d.QuoRaw(int64(o.duration))
	if !per.MulRaw(int64(o.duration)).Equal(d) || per.GT(sdk.NewInt(o.amount)) || !per.IsPositive() {
		return bfs.Step{Accepted: true, Obs: "violation", Viol: []ev.Violation{v("funding-amount", fmt.Sprintf("%s moved %s into the IPRPC pool", o.name, d))}}
	}
	for m := uint64(1); m <= o.duration; m++ {
		s.addFund(s.cur+m, specs[o.spec], per)
	}
	if iv := s.invariants(); len(iv) > 0 {
		return bfs.Step{Accepted: true, Obs: "violation", Viol: iv}
	}
	return bfs.Step{Accepted: true, Obs: "funded"}
}

func (s *scen) Apply(op int) bfs.Step {
	if len(s.fixViol) > 0 {
		return bfs.Step{Accepted: true, Prune: true, Obs: "violation-in-fixture", Viol: s.fixViol}
	}
	o := s.ops[op]
	w := s.w
	obs := ""
	var res chain.TxResult
	switch o.kind {
	case 3, 4:
		var p string
		if o.kind == 3 {
			p = w.NextBlock(chain.BlockDt)
		} else {
			p = w.AdvanceToNextEpoch(chain.BlockDt)
		}
		if p != "" {
			return bfs.Step{Accepted: true, Obs: "violation", Viol: blockViol(p)}
		}
		obs = "block"
	case 5:
		viol, ob := s.boundary()
		if len(viol) > 0 {
			return bfs.Step{Accepted: true, Obs: "violation", Viol: viol}
		}
		if s.months >= maxMonths {
			return bfs.Step{Accepted: true, Prune: true, Obs: ob + "(horizon)"}
		}
		return bfs.Step{Accepted: true, Obs: ob}
	case 0:
		return s.fund(o)
	case 1:
		s.session++
		rs := &pairingtypes.RelaySession{Provider: s.provs[o.p].Addr.String(), ContentHash: []byte("apiname"), SessionId: 1000 + s.session, SpecId: specs[o.spec],
			CuSum: o.cu, Epoch: int64(w.EpochStartNow()), RelayNum: 1, LavaChainId: chain.ChainID}
		chain.SignRelay(s.cons[o.c], rs)
		res = w.Pay(rs.Provider, rs)
		if res.OK() {
			if o.c == 0 {
				s.cu[fmt.Sprintf("%s|%d", specs[o.spec], o.p)] += o.cu
				obs = "paid-eligible"
			} else {
				obs = "paid-regular"
			}
		}
	case 2:
		res = w.Tx(func() error {
			msg := &pairingtypes.MsgUnstakeProvider{Creator: s.provs[o.p].GetVaultAddr(), Validator: sdk.ValAddress(s.val.Addr).String(), ChainID: specs[o.spec]}
			if err := msg.ValidateBasic(); err != nil {
				return err
			}
			_, err := w.Servers.PairingServer.UnstakeProvider(w.GoCtx, msg)
			return err
		})
		obs = "unstaked"
	}
	if res.Panic != "" {
		return bfs.Step{Accepted: false, Obs: "tx-panic", Viol: []ev.Violation{{Property: "C37", Key: "tx-panic:" + stable(res.Panic), What: "message handler panicked in " + o.name + ": " + firstLine(res.Panic)}}}
	}
	if !res.OK() {
		return bfs.Step{Accepted: false, Obs: "tx-rejected"}
	}
	if iv := s.invariants(); len(iv) > 0 {
		return bfs.Step{Accepted: true, Obs: "violation", Viol: iv}
	}
	return bfs.Step{Accepted: true, Obs: obs}
}

func init() {
	bfs.Register("c42", func() bfs.Scenario { return build(false) })
	bfs.Register("c42/bonus", func() bfs.Scenario { return build(true) })
	reg.Register(reg.Check{Property: "C42", Level: "model_checking", Run: func(run *ev.Run) {
		depth, deadline := 4, 85*time.Second
		if ev.Tier() == "thorough" {
			depth, deadline = 5, 15*time.Minute
		}
		cfg := bfs.Config{Scenario: "c42", MaxDepth: depth, Deadline: deadline}
		st := bfs.Explore(cfg, run)
		bfs.Report(run, "", cfg, st)
		exh := st.Exhaustive
		// second start state: the providers' bonus pools are alive, p0 has base pay on mocka this month (the spec pays a
		// bond-denom bonus), p1 has none; IPRPC funds are in a second denom so that both kinds of reward stay separable
		cfgB := bfs.Config{Scenario: "c42/bonus", MaxDepth: depth - 1, Deadline: deadline / 2}
		stB := bfs.Explore(cfgB, run)
		bfs.Report(run, "bonus", cfgB, stB)
		exh = exh && stB.Exhaustive
		for o, n := range stB.Outcomes {
			st.Outcomes[o] += n
		}
		st.HarnessErrors = append(st.HarnessErrors, stB.HarnessErrors...)
		bad := int64(0)
		for o, n := range st.Outcomes {
			if strings.Contains(o, "noprobe") || strings.Contains(o, "INCONCLUSIVE") {
				bad += n
			}
		}
		run.Set("unprobed_or_inconclusive", bad)
		if bad > 0 || len(st.HarnessErrors) > 0 {
			exh = false
		}
		run.Set("exhaustive", exh)
		run.Set("bound", fmt.Sprintf("all histories up to depth %d over 13 ops (fundIprpc mocka 1 month 1000 / 2 months 1001, mockb 1 month 1001 / 2 months 1000; relay payments by the eligible subscription: p0 on mocka 1 CU, p1 on mocka 2 CU, p1 on mockb 3 CU, p0 on mockb 2 CU; by the regular subscription: p0 on mocka 3 CU; unstake p1 from mocka; +1 block; next epoch; month boundary), at most %d month boundaries; fixture: 2 specs, 2 providers staked on both, min IPRPC cost 100, an eligible and a regular 6-month subscription, fundings mocka 2 months x 1001 and mockb 1 month x 1000 made one month boundary ago; a second start state (depth one less) keeps the bonus pools, gives p0 base pay on mocka in the current month and funds IPRPC in a second denom", depth, maxMonths))
		run.Assume("mock bank/account keeper of testutil/keeper; begin/end blockers in app.go order (engine/chain); the month boundary is measured on a discarded fork that runs the end-block phase (staking, pairing, timerstore) alone; providers' bonus pools emptied in the first fixture so that IPRPC rewards are the only rewards paid at a boundary (in the second one IPRPC funds are in another denom instead); validators'/community participation percentages are taken from the rewards keeper (CalculateValidatorsAndCommunityParticipationRewards) as an input; a provider that unstaked from a spec before the boundary is not counted among the providers that served it (text is silent)")
	}})
}
