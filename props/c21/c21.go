// Package c21: reward pools release funds on schedule and within balance — BFS over block-time progressions,
// subscription payouts and refills on the real keepers, for LeftoverBurnRate in {0, 1/2, 1}.
//
// Oracles (from the property text), evaluated around every single block:
//
//	(a) the validators' block reward (tokens that reach the fee collector in rewards.BeginBlock) never exceeds the
//	    validators' distribution pool as it was just before the reward, and a computable non-zero reward is paid;
//	(b) nothing but a refill changes the allocation pools / the providers' distribution pool, and a refill happens
//	    exactly in the end-block phase of the first block whose time is at/after the refill time;
//	(c) a refill burns floor(rate * balance) of the validators' distribution pool and everything that is left in the
//	    providers' distribution pool, then moves floor(allocation / monthsLeft) into each; monthsLeft decreases;
//	(d) provider bonus paid at a refill <= providers' distribution pool at the start of that month;
//	(e) validators' participation of a subscription payout lands in the leftover pool iff refillTime-now <= 24 h,
//	    otherwise in the distribution pool.
package c21

import (
	"fmt"
	"os"
	"strings"
	"time"

	sdk "github.com/cosmos/cosmos-sdk/types"
	authtypes "github.com/cosmos/cosmos-sdk/x/auth/types"
	distributiontypes "github.com/cosmos/cosmos-sdk/x/distribution/types"
	govtypes "github.com/cosmos/cosmos-sdk/x/gov/types"
	"github.com/lavanet/lava/v5/testutil/common"
	"github.com/lavanet/lava/v5/utils/sigs"
	dualstakingtypes "github.com/lavanet/lava/v5/x/dualstaking/types"
	pairingtypes "github.com/lavanet/lava/v5/x/pairing/types"
	rewardstypes "github.com/lavanet/lava/v5/x/rewards/types"
	subscriptiontypes "github.com/lavanet/lava/v5/x/subscription/types"

	"verifmc/engine/bfs"
	"verifmc/engine/chain"
	"verifmc/engine/ev"
	"verifmc/engine/reg"
)

var debug = os.Getenv("C21_DEBUG") != ""

const (
	spec      = "mock"
	planPrice = 10000
	payCU     = 100
	day       = 24 * time.Hour
)

type opdef struct {
	name string
	kind int // 0 blocks(n,dt) 1 jump-to-refill(+off) 2 jump-to-sub-expiry 3 buy(c1) 4 pay 5 blocks up to the one before the next payout
	n    int
	dt   time.Duration
	off  time.Duration
	p, c int
}

type scen struct {
	w     *chain.World
	ops   []opdef
	names []string
	cons  []sigs.Account
	provs []sigs.Account
	rate  sdk.Dec
	start time.Time

	variants []variant
	cur      int // selected fixture variant, -1 before the selection

	// model state (function of the history)
	monthsLeft int64   // months-left the next refill must divide by
	provStart  sdk.Int // providers' distribution pool right after the last refill (= start of the month)
}

type snap struct {
	valDist, valAlloc, valLeft, provDist, provAlloc, feeColl, dualst, submod, community, iprpc, supply sdk.Int
}

func (x snap) String() string {
	return fmt.Sprintf("valDist=%s valAlloc=%s valLeft=%s provDist=%s provAlloc=%s fee=%s dualst=%s sub=%s comm=%s iprpc=%s supply=%s", x.valDist, x.valAlloc, x.valLeft, x.provDist, x.provAlloc, x.feeColl, x.dualst, x.submod, x.community, x.iprpc, x.supply)
}

func (s *scen) snap() snap {
	w := s.w
	return snap{
		valDist:   w.ModuleBalance(string(rewardstypes.ValidatorsRewardsDistributionPoolName)),
		valAlloc:  w.ModuleBalance(string(rewardstypes.ValidatorsRewardsAllocationPoolName)),
		valLeft:   w.ModuleBalance(string(rewardstypes.ValidatorsRewardsLeftOverPoolName)),
		provDist:  w.ModuleBalance(string(rewardstypes.ProviderRewardsDistributionPool)),
		provAlloc: w.ModuleBalance(string(rewardstypes.ProvidersRewardsAllocationPool)),
		feeColl:   w.ModuleBalance(authtypes.FeeCollectorName),
		dualst:    w.ModuleBalance(dualstakingtypes.ModuleName),
		submod:    w.ModuleBalance(subscriptiontypes.ModuleName),
		community: w.ModuleBalance(distributiontypes.ModuleName),
		iprpc:     w.ModuleBalance(string(rewardstypes.IprpcPoolName)),
		supply:    w.Supply(),
	}
}

// refillTime returns the expiry of the rewards refill timer (unix seconds).
func (s *scen) refillTime() int64 {
	return s.w.Keepers.Rewards.TimeToNextTimerExpiry(s.w.Ctx) + s.w.Ctx.BlockTime().UTC().Unix()
}

type variant struct {
	name       string
	rate       sdk.Dec
	enter      func() // positions the world at the variant's fixture state
	monthsLeft int64
	provStart  sdk.Int
	start      time.Time
}

// build constructs ONE world holding a common base (validator, spec, plan, two staked providers, two consumers) and,
// as branches of it, the six fixture states {early, pending} x LeftoverBurnRate {0, 1/2, 1}. The first operation
// of every history selects the fixture ("fixture:<name>"); this keeps all variants in one BFS run.
func build() *scen {
	s := &scen{}
	w := chain.NewWorld()
	s.w = w
	w.SetEpochParams(4, 3)
	w.AddValidator(0, 1000000)
	w.Must("spec", w.AddSpecGov(chain.MockSpec(spec)))
	plan := common.CreateMockPlan()
	plan.Price = sdk.NewCoin(w.TokenDenom(), sdk.NewInt(planPrice))
	w.Must("plan", w.AddPlanGov(false, plan))
	for i := 0; i < 2; i++ {
		p, _ := w.AddAccount(common.PROVIDER, i, 10000000)
		s.provs = append(s.provs, p)
		w.Must("stake", w.Stake(p, spec, 100000, 1, nil, 100))
	}
	for i := 0; i < 2; i++ {
		c, _ := w.AddAccount(common.CONSUMER, i, 10000000)
		s.cons = append(s.cons, c)
	}
	adv := func(dt time.Duration) {
		if p := w.NextBlock(dt); p != "" {
			panic("fixture: " + p)
		}
	}
	epoch := func() {
		if p := w.AdvanceToNextEpoch(chain.BlockDt); p != "" {
			panic("fixture: " + p)
		}
	}
	epoch()
	epoch()
	w.MarkFixture()
	for _, pending := range []bool{true, false} {
		for _, r := range rates {
			back := w.Fork()
			// LeftoverBurnRate is set through the module params at fixture time
			params := w.Keepers.Rewards.GetParams(w.Ctx)
			params.LeftoverBurnRate = r.rate
			w.Keepers.Rewards.SetParams(w.Ctx, params)
			name := "early/" + r.name
			if !pending {
				// "early": 1 May, c0 subscribed for 6 months and already served by p0; c1 buys through an operation
				w.Must("buy c0", w.Buy(s.cons[0], s.cons[0], plan.Index, 6, false, false))
				epoch()
				w.Must("pay", s.pay(0, 0))
				adv(chain.BlockDt)
			} else {
				// "pending": c0 and c1 bought on 28 May one epoch apart, were served, the June refill has passed, both
				// months expired on 28 June (in consecutive epochs); c0's payout is due in the next block, c1's four
				// blocks later. The next refill is on 1 July.
				name = "pending/" + r.name
				adv(27 * day)
				epoch()
				w.Must("buy c0", w.Buy(s.cons[0], s.cons[0], plan.Index, 6, false, false))
				epoch()
				w.Must("buy c1", w.Buy(s.cons[1], s.cons[1], plan.Index, 6, false, false))
				epoch()
				w.Must("pay", s.pay(0, 0))
				w.Must("pay", s.pay(1, 1))
				adv(chain.BlockDt)
				adv(time.Unix(s.refillTime(), 0).Add(time.Minute).Sub(w.Ctx.BlockTime())) // 1 June 01:02:01
				adv(chain.BlockDt)                                                        // the June refill
				sub, ok := w.Keepers.Subscription.GetSubscription(w.Ctx, s.cons[0].Addr.String())
				if !ok {
					panic("fixture: c0 has no subscription")
				}
				adv(time.Unix(int64(sub.MonthExpiryTime), 0).Sub(w.Ctx.BlockTime())) // c0's month ends
				for i := 0; i < 4; i++ {                                             // one epoch later c1's month ends
					adv(chain.BlockDt)
				}
				if n := len(w.Keepers.Subscription.ExportCuTrackerTimers(w.Ctx).BlockEntries); n != 2 {
					panic(fmt.Sprintf("fixture: %d pending payouts, want 2", n))
				}
				for s.nextPayoutBlock() > w.Ctx.BlockHeight()+1 {
					adv(chain.BlockDt)
				}
			}
			if debug {
				tm := w.Keepers.Subscription.ExportCuTrackerTimers(w.Ctx)
				fmt.Fprintf(os.Stderr, "[c21 fixture %s] height=%d time=%s refill=%s cuTrackerTimers: block=%d time=%d\n", name, w.Ctx.BlockHeight(), w.Ctx.BlockTime().UTC(), time.Unix(s.refillTime(), 0).UTC(), len(tm.BlockEntries), len(tm.TimeEntries))
				for _, t := range tm.BlockEntries {
					fmt.Fprintf(os.Stderr, "   timer at block %d key %q\n", t.Value, t.Key)
				}
				for _, c := range s.cons {
					sub, ok := w.Keepers.Subscription.GetSubscription(w.Ctx, c.Addr.String())
					fmt.Fprintf(os.Stderr, "   sub %v: block %d expiry %s left %d credit %s\n", ok, sub.Block, time.Unix(int64(sub.MonthExpiryTime), 0).UTC(), sub.DurationLeft, sub.Credit)
				}
			}
			vr := variant{name: name, rate: r.rate, start: w.Ctx.BlockTime(),
				monthsLeft: w.Keepers.Rewards.AllocationPoolMonthsLeft(w.Ctx),
				provStart:  w.ModuleBalance(string(rewardstypes.ProviderRewardsDistributionPool))}
			vr.enter = w.Fork() // remembers this state; calling it comes back here
			s.variants = append(s.variants, vr)
			back()
		}
	}
	// "iprpc": 1 May c0 subscribes and is made IPRPC-eligible, c1 funds the IPRPC pool for June and July; the June
	// refill has passed and p0 served c0 in June: the July refill distributes IPRPC rewards (with validators' and
	// community participation) inside the refill callback, where no refill timer exists
	for _, r := range rates {
		back := w.Fork()
		params := w.Keepers.Rewards.GetParams(w.Ctx)
		params.LeftoverBurnRate = r.rate
		w.Keepers.Rewards.SetParams(w.Ctx, params)
		w.Must("buy c0", w.Buy(s.cons[0], s.cons[0], plan.Index, 6, false, false))
		w.Must("iprpc data", w.Tx(func() error {
			_, err := w.TxRewardsSetIprpcDataProposal(authtypes.NewModuleAddress(govtypes.ModuleName).String(), sdk.NewCoin(w.TokenDenom(), sdk.NewInt(100)), []string{s.cons[0].Addr.String()})
			return err
		}))
		w.Must("fund iprpc", w.Tx(func() error {
			msg := rewardstypes.NewMsgFundIprpc(s.cons[1].Addr.String(), spec, 2, sdk.NewCoins(sdk.NewCoin(w.TokenDenom(), sdk.NewInt(500000))))
			if err := msg.ValidateBasic(); err != nil {
				return err
			}
			_, err := w.Servers.RewardsServer.FundIprpc(w.GoCtx, msg)
			return err
		}))
		epoch()
		w.Must("pay", s.pay(0, 0))
		adv(chain.BlockDt)
		adv(time.Unix(s.refillTime(), 0).Add(time.Minute).Sub(w.Ctx.BlockTime()))
		adv(chain.BlockDt) // the June refill
		epoch()
		w.Must("pay", s.pay(0, 0)) // June traffic of the eligible subscription
		adv(chain.BlockDt)
		vr := variant{name: "iprpc/" + r.name, rate: r.rate, start: w.Ctx.BlockTime(),
			monthsLeft: w.Keepers.Rewards.AllocationPoolMonthsLeft(w.Ctx),
			provStart:  w.ModuleBalance(string(rewardstypes.ProviderRewardsDistributionPool))}
		vr.enter = w.Fork()
		s.variants = append(s.variants, vr)
		back()
	}
	for i, vr := range s.variants {
		s.ops = append(s.ops, opdef{name: "fixture:" + vr.name, kind: 6, n: i})
	}
	s.ops = append(s.ops,
		opdef{name: "+1block", kind: 0, n: 1, dt: chain.BlockDt},
		opdef{name: "->block-before-next-payout", kind: 5},
		opdef{name: "+1day", kind: 0, n: 1, dt: day},
		opdef{name: "->refill-25h", kind: 1, off: -25 * time.Hour},
		opdef{name: "->refill-23h", kind: 1, off: -23 * time.Hour},
		opdef{name: "->refill-1h", kind: 1, off: -time.Hour},
		opdef{name: "->refill+1m", kind: 1, off: time.Minute},
		opdef{name: "->next-subscription-month-expiry", kind: 2},
		opdef{name: "buy(c1,6m)", kind: 3},
		opdef{name: "pay(p0,c0,100)", kind: 4, p: 0, c: 0},
		opdef{name: "pay(p1,c1,100)", kind: 4, p: 1, c: 1},
	)
	for _, o := range s.ops {
		s.names = append(s.names, o.name)
	}
	s.Reset()
	return s
}

// nextPayoutBlock returns the height of the earliest pending subscription payout (CU tracker timer), 0 if none.
func (s *scen) nextPayoutBlock() int64 {
	var best uint64
	for _, t := range s.w.Keepers.Subscription.ExportCuTrackerTimers(s.w.Ctx).BlockEntries {
		if best == 0 || t.Value < best {
			best = t.Value
		}
	}
	return int64(best)
}

func (s *scen) pay(p, c int) chain.TxResult {
	w := s.w
	rs := &pairingtypes.RelaySession{Provider: s.provs[p].Addr.String(), ContentHash: []byte("apiname"), SessionId: uint64(w.Ctx.BlockHeight())*100 + uint64(p*10+c), SpecId: spec,
		CuSum: payCU, Epoch: int64(w.EpochStartNow()), RelayNum: 1, LavaChainId: chain.ChainID}
	chain.SignRelay(s.cons[c], rs)
	return w.Pay(rs.Provider, rs)
}

func (s *scen) Ops() []string { return s.names }
func (s *scen) Reset() {
	s.w.Reset()
	s.cur = -1
	s.monthsLeft = 0
	s.provStart = sdk.ZeroInt()
}

func (s *scen) Fork() func() {
	r := s.w.Fork()
	ml, ps, cur, rate, start := s.monthsLeft, s.provStart, s.cur, s.rate, s.start
	return func() {
		r()
		s.monthsLeft = ml
		s.provStart = ps
		s.cur = cur
		s.rate = rate
		s.start = start
	}
}

func (s *scen) Hash() []byte {
	return append(s.w.StateHash(), []byte(fmt.Sprintf("|%d|%d|%s", s.cur, s.monthsLeft, s.provStart))...)
}

func firstLine(x string) string {
	if i := strings.IndexByte(x, '\n'); i >= 0 {
		return x[:i]
	}
	return x
}

func stable(x string) string {
	x = firstLine(x)
	var b strings.Builder
	for _, c := range x {
		if c >= '0' && c <= '9' {
			continue
		}
		b.WriteRune(c)
	}
	r := b.String()
	if len(r) > 120 {
		r = r[:120]
	}
	return r
}

func v(key, what string) ev.Violation { return ev.Violation{Property: "C21", Key: key, What: what} }

// endPhase runs, on a fork that is discarded, the end-block phase of the current block exactly as World.NextBlock
// does (app.go end-blocker order: staking, pairing, timerstore) and returns the balances after it. It is used as a
// measurement point between the refill (end-block timer) and the begin-block phase of the next block.
func (s *scen) endPhase() (mid snap, ok bool) {
	w := s.w
	restore := w.Fork()
	defer restore()
	defer func() {
		if r := recover(); r != nil {
			ok = false
		}
	}()
	ctx := w.Ctx
	w.Keepers.StakingKeeper.BlockValidatorUpdates(ctx)
	w.Keepers.Pairing.EndBlock(ctx)
	w.Keepers.TimerStoreKeeper.EndBlock(ctx)
	return s.snap(), true
}

func floorDiv(a sdk.Int, n int64) sdk.Int {
	if n <= 0 {
		return sdk.ZeroInt()
	}
	return a.QuoRaw(n)
}

// block advances one block and evaluates all oracles around it. obs collects outcome labels.
//
// Anatomy of World.NextBlock: (1) end-block phase of the current block at its block time now0 — this is where the
// refill timer (rewards, registered first) and the subscription payout timers (CU tracker timers) fire; (2) new
// header; (3) begin-block phase: timers of begin-block stores, then rewards.BeginBlock pays the block reward.
func (s *scen) block(dt time.Duration, obs map[string]bool) []ev.Violation {
	w := s.w
	var out []ev.Violation
	denom := w.TokenDenom()
	pre := s.snap()
	now0 := w.Ctx.BlockTime().UTC().Unix()
	e0 := s.refillTime()
	due := e0 <= now0 // the refill timer fires in the end-block phase of this block
	npb := s.nextPayoutBlock()
	payoutDue := npb != 0 && npb <= w.Ctx.BlockHeight()
	mid, probed := pre, false
	if due || payoutDue {
		var ok bool
		if mid, ok = s.endPhase(); !ok {
			mid = pre
		} else {
			probed = true
		}
	}
	oldEM := w.Ctx.EventManager()
	n0 := len(oldEM.Events())
	var inj snap
	var factor sdk.Dec
	var blocksTo int64
	injected := false
	w.BeginBlockInject = func(ctx sdk.Context) {
		inj = s.snap()
		factor = w.Keepers.Rewards.BondedTargetFactor(ctx)
		blocksTo = w.Keepers.Rewards.BlocksToNextTimerExpiry(ctx)
		injected = true
	}
	p := w.NextBlock(dt)
	w.BeginBlockInject = nil
	if p != "" {
		if chain.IsMockBankPanic(p) {
			return append(out, v("block-overdraft", "a pool was overdrawn in block processing: "+firstLine(p)))
		}
		return append(out, ev.Violation{Property: "C37", Key: "block-panic:" + stable(p), What: "panic in block processing: " + firstLine(p)})
	}
	post := s.snap()
	e1 := s.refillTime()
	ml1 := w.Keepers.Rewards.AllocationPoolMonthsLeft(w.Ctx)
	if debug {
		fmt.Fprintf(os.Stderr, "   [block %d dt=%s] due=%v payoutDue=%v\n      pre=%s\n      mid=%s\n      inj=%s\n      post=%s\n", w.Ctx.BlockHeight(), dt, due, payoutDue, pre, mid, inj, post)
	}

	// ---- end-block phase events, in order: validators' participation of payouts before / after the refill
	partBefore, partAfter := sdk.ZeroInt(), sdk.ZeroInt() // all validators' participation
	wantLeft := sdk.ZeroInt()                             // part of it that must be in the leftover pool after the phase
	wrongLeft := sdk.ZeroInt()                            // part of it that must NOT be in the leftover pool
	refillSeen := false
	curE := e0
	var tPayout int64
	for _, e := range oldEM.Events()[n0:] {
		switch e.Type {
		case "lava_" + rewardstypes.DistributionPoolRefillEventName:
			refillSeen = true
			curE = e1
		case "lava_" + rewardstypes.ValidatorsAndCommunityFund:
			for _, a := range e.Attributes {
				if a.Key != "validators" || a.Value == "" {
					continue
				}
				cs, err := sdk.ParseCoinsNormalized(a.Value)
				if err != nil {
					continue
				}
				amt := cs.AmountOf(denom)
				tPayout = curE - now0
				if refillSeen {
					partAfter = partAfter.Add(amt)
				} else {
					partBefore = partBefore.Add(amt)
				}
				if tPayout <= 24*3600 {
					if refillSeen {
						wantLeft = wantLeft.Add(amt)
					} // before the refill: lands in the leftover pool, which the refill merges
					if amt.IsPositive() {
						obs["payout<=24h"] = true
					}
				} else {
					wrongLeft = wrongLeft.Add(amt)
					if amt.IsPositive() {
						obs["payout>24h"] = true
					}
				}
			}
		}
	}
	part := partBefore.Add(partAfter)
	if refillSeen != due {
		out = append(out, v("refill-off-schedule", fmt.Sprintf("refill time %d, block time %d: refill due=%v but executed=%v", e0, now0, due, refillSeen)))
	}

	// ---- (b) schedule
	if due {
		obs["refill"] = true
		if e1 <= now0 {
			out = append(out, v("refill-not-executed-when-due", fmt.Sprintf("refill time %d <= block time %d but the timer was not re-armed in the future (next expiry %d)", e0, now0, e1)))
		}
		next := s.monthsLeft - 1
		if next < 1 {
			next = 1
		}
		if ml1 != next {
			out = append(out, v("months-left-not-decremented", fmt.Sprintf("months left %d before the refill, %d after", s.monthsLeft, ml1)))
		}
	} else if e1 != e0 || !post.valAlloc.Equal(pre.valAlloc) || !post.provAlloc.Equal(pre.provAlloc) || !post.provDist.Equal(pre.provDist) {
		out = append(out, v("pools-moved-off-schedule", fmt.Sprintf("no refill was due (refill time %d > block time %d) but expiry %d->%d, validators allocation %s->%s, providers allocation %s->%s, providers distribution %s->%s", e0, now0, e0, e1, pre.valAlloc, post.valAlloc, pre.provAlloc, post.provAlloc, pre.provDist, post.provDist)))
	}

	// ---- (c)(d) the refill, measured over the end-block phase alone
	if due && probed {
		qV := floorDiv(pre.valAlloc, s.monthsLeft)
		qP := floorDiv(pre.provAlloc, s.monthsLeft)
		if !pre.valAlloc.Sub(mid.valAlloc).Equal(qV) || !pre.provAlloc.Sub(mid.provAlloc).Equal(qP) {
			out = append(out, v("refill-quota-not-allocation-over-months-left", fmt.Sprintf("refill with %d months left (rate %s): validators allocation %s -> %s (expected -%s), providers allocation %s -> %s (expected -%s)", s.monthsLeft, s.rate, pre.valAlloc, mid.valAlloc, qV, pre.provAlloc, mid.provAlloc, qP)))
		}
		if !mid.provDist.Equal(qP) {
			out = append(out, v("providers-distribution-pool-not-fully-burned", fmt.Sprintf("after the refill the providers' distribution pool holds %s, expected exactly the monthly quota %s (before: %s; rate %s)", mid.provDist, qP, pre.provDist, s.rate)))
		}
		// bonus = what the dualstaking module (claimable rewards) received beyond the providers' part of the
		// subscription payouts of the same phase (subscription outflow - validators' - community participation)
		// (the IPRPC pool pays providers, validators and community in the same callback: its outflow is subtracted too)
		bonus := mid.dualst.Sub(pre.dualst).Add(mid.submod.Sub(pre.submod)).Add(mid.iprpc.Sub(pre.iprpc)).Add(part).Add(mid.community.Sub(pre.community))
		if mid.iprpc.LT(pre.iprpc) {
			obs["iprpc-distribution-at-refill"] = true
		}
		if bonus.IsPositive() {
			obs["bonus"] = true
		}
		if bonus.GT(s.provStart) || bonus.GT(pre.provDist) || bonus.IsNegative() {
			out = append(out, v("bonus-exceeds-providers-pool", fmt.Sprintf("provider bonus paid %s, providers' distribution pool was %s at the start of the month and %s before the payout", bonus, s.provStart, pre.provDist)))
		}
		if !pre.provDist.Equal(s.provStart) {
			out = append(out, v("providers-pool-changed-within-month", fmt.Sprintf("providers' distribution pool was %s right after the last refill and %s before this one", s.provStart, pre.provDist)))
		}
		// validators: burned = floor(rate * distribution pool); the leftover pool is merged without burn
		burnV := pre.valDist.Add(pre.valLeft).Add(qV).Add(part).Sub(mid.valDist.Add(mid.valLeft))
		wantV := s.rate.MulInt(pre.valDist).TruncateInt()
		if !burnV.Equal(wantV) {
			out = append(out, v("validators-burn-not-rate-times-leftover", fmt.Sprintf("refill burned %s of the validators' pools, expected floor(%s * %s) = %s (leftover pool %s, quota %s, participation in the same phase %s, after: distribution %s leftover %s)", burnV, s.rate, pre.valDist, wantV, pre.valLeft, qV, part, mid.valDist, mid.valLeft)))
		}
		burned := pre.supply.Sub(mid.supply)
		wantBurn := wantV.Add(pre.provDist.Sub(bonus))
		if !burned.Equal(wantBurn) {
			out = append(out, v("refill-burn-accounting", fmt.Sprintf("supply fell by %s at the refill, expected %s (= floor(rate*validators pool) %s + providers' pool %s - bonus %s)", burned, wantBurn, wantV, pre.provDist, bonus)))
		}
		if !pre.valLeft.IsZero() {
			obs["refill-merges-leftover"] = true
		}
	}
	if due {
		s.monthsLeft--
		if s.monthsLeft < 1 {
			s.monthsLeft = 1
		}
		s.provStart = mid.provDist
		if !probed {
			s.provStart = post.provDist
		}
	}

	// ---- (e) destination of the validators' participation of the payouts of this end-block phase
	if probed && part.IsPositive() {
		if !due {
			dLeft := mid.valLeft.Sub(pre.valLeft)
			dDist := mid.valDist.Sub(pre.valDist)
			switch {
			case wrongLeft.IsPositive() && dLeft.IsPositive():
				out = append(out, v("participation-to-leftover-outside-last-24h", fmt.Sprintf("payout %d s (> 24 h) before the refill: validators' participation %s, leftover pool received %s, distribution pool received %s", tPayout, part, dLeft, dDist)))
			case wrongLeft.IsPositive() && dDist.LT(part):
				out = append(out, v("participation-lost", fmt.Sprintf("validators' participation %s, distribution pool received %s, leftover pool %s", part, dDist, dLeft)))
			case wrongLeft.IsZero() && !dLeft.Equal(part):
				out = append(out, v("participation-to-distribution-in-last-24h", fmt.Sprintf("payout %d s (<= 24 h) before the refill: validators' participation %s, leftover pool received %s, distribution pool received %s", tPayout, part, dLeft, dDist)))
			}
		} else {
			// payouts in the phase of a refill: the leftover pool is emptied by the refill, afterwards it may only
			// hold participation of payouts that are again within 24 h of the next refill
			if mid.valLeft.GT(wantLeft) {
				out = append(out, v("participation-to-leftover-outside-last-24h", fmt.Sprintf("payout right after a refill, %d s (> 24 h) before the next one: validators' participation %s, leftover pool holds %s after the phase (expected %s)", tPayout, partAfter, mid.valLeft, wantLeft)))
			} else if mid.valLeft.LT(wantLeft) {
				out = append(out, v("participation-to-distribution-in-last-24h", fmt.Sprintf("leftover pool holds %s after the refill phase, expected %s", mid.valLeft, wantLeft)))
			}
		}
	} else if probed && !due && !mid.valLeft.Equal(pre.valLeft) {
		out = append(out, v("leftover-pool-unexplained-inflow", fmt.Sprintf("leftover pool %s -> %s without a payout", pre.valLeft, mid.valLeft)))
	}

	// ---- (a) block reward (begin-block phase)
	if injected {
		reward := inj.feeColl.Sub(pre.feeColl)
		poolBefore := inj.valDist.Add(reward)
		if probed && !poolBefore.Equal(mid.valDist) {
			obs["PROBE-MISMATCH"] = true
			return out
		}
		if reward.GT(poolBefore) || reward.IsNegative() {
			out = append(out, v("block-reward-exceeds-pool", fmt.Sprintf("block reward %s, validators' distribution pool before it %s", reward, poolBefore)))
		}
		if reward.IsPositive() {
			obs["reward"] = true
		} else {
			obs["reward-zero"] = true
			if blocksTo > 0 && factor.MulInt(poolBefore).QuoInt64(blocksTo).TruncateInt().GTE(sdk.NewInt(2)) {
				out = append(out, v("block-reward-not-paid", fmt.Sprintf("pool %s, bonded factor %s, blocks to refill %d: a reward was due but nothing reached the fee collector", poolBefore, factor, blocksTo)))
			}
		}
		if !post.valDist.Equal(inj.valDist) || !post.valLeft.Equal(inj.valLeft) {
			obs["PROBE-MISMATCH"] = true
		}
	}
	return out
}

func (s *scen) Apply(op int) bfs.Step {
	o := s.ops[op]
	w := s.w
	obs := map[string]bool{}
	var viol []ev.Violation
	label := func() string {
		var ks []string
		for _, k := range []string{"PROBE-MISMATCH", "refill", "refill-merges-leftover", "bonus", "reward", "reward-zero", "payout>24h", "payout<=24h"} {
			if obs[k] {
				ks = append(ks, k)
			}
		}
		if len(ks) == 0 {
			return "block"
		}
		return strings.Join(ks, "+")
	}
	if (o.kind == 6) != (s.cur < 0) {
		return bfs.Step{Accepted: false, Obs: "not-applicable"}
	}
	switch o.kind {
	case 6:
		vr := s.variants[o.n]
		vr.enter()
		w.Fork() // work on a branch of the remembered state, never on the state itself
		s.cur, s.rate, s.start, s.monthsLeft, s.provStart = o.n, vr.rate, vr.start, vr.monthsLeft, vr.provStart
		return bfs.Step{Accepted: true, Obs: "fixture"}
	case 0:
		for i := 0; i < o.n && len(viol) == 0; i++ {
			viol = s.block(o.dt, obs)
		}
	case 1:
		target := time.Unix(s.refillTime(), 0).Add(o.off)
		dt := target.Sub(w.Ctx.BlockTime())
		if dt < time.Second {
			return bfs.Step{Accepted: false, Obs: "jump-rejected"}
		}
		viol = s.block(dt, obs)
	case 2:
		var best uint64
		now := uint64(w.Ctx.BlockTime().UTC().Unix())
		for _, c := range s.cons {
			if sub, ok := w.Keepers.Subscription.GetSubscription(w.Ctx, c.Addr.String()); ok && sub.MonthExpiryTime > now && (best == 0 || sub.MonthExpiryTime < best) {
				best = sub.MonthExpiryTime
			}
		}
		if best == 0 {
			return bfs.Step{Accepted: false, Obs: "jump-rejected"}
		}
		viol = s.block(time.Duration(best-now)*time.Second, obs)
	case 5:
		nb := s.nextPayoutBlock()
		if nb == 0 || nb <= w.Ctx.BlockHeight()+1 {
			return bfs.Step{Accepted: false, Obs: "jump-rejected"}
		}
		for nb > w.Ctx.BlockHeight()+1 && len(viol) == 0 {
			viol = s.block(chain.BlockDt, obs)
		}
	case 3, 4:
		var res chain.TxResult
		if o.kind == 3 {
			res = w.Buy(s.cons[1], s.cons[1], "free", 6, false, false)
		} else {
			res = s.pay(o.p, o.c)
		}
		if res.Panic != "" {
			return bfs.Step{Accepted: false, Obs: "tx-panic", Viol: []ev.Violation{{Property: "C37", Key: "tx-panic:" + stable(res.Panic), What: "message handler panicked in " + o.name + ": " + firstLine(res.Panic)}}}
		}
		if !res.OK() {
			return bfs.Step{Accepted: false, Obs: "tx-rejected"}
		}
		return bfs.Step{Accepted: true, Obs: "tx-ok"}
	}
	if len(viol) > 0 {
		return bfs.Step{Accepted: true, Obs: "violation", Viol: viol}
	}
	if w.Ctx.BlockTime().Sub(s.start) > 100*day {
		return bfs.Step{Accepted: true, Prune: true, Obs: "horizon"}
	}
	return bfs.Step{Accepted: true, Obs: label()}
}

var rates = []struct {
	name string
	rate sdk.Dec
}{{"burn0", sdk.ZeroDec()}, {"burn50", sdk.NewDecWithPrec(5, 1)}, {"burn100", sdk.OneDec()}}

func init() {
	bfs.Register("c21", func() bfs.Scenario { return build() })
	reg.Register(reg.Check{Property: "C21", Level: "model_checking", Run: func(run *ev.Run) {
		depth, deadline := 4, 85*time.Second
		if ev.Tier() == "thorough" {
			depth, deadline = 5, 15*time.Minute
		}
		cfg := bfs.Config{Scenario: "c21", MaxDepth: depth + 1, Deadline: deadline}
		st := bfs.Explore(cfg, run)
		bfs.Report(run, "", cfg, st)
		exh := st.Exhaustive
		mismatch := int64(0)
		for o, n := range st.Outcomes {
			if strings.Contains(o, "PROBE-MISMATCH") || strings.Contains(o, "INCONCLUSIVE") {
				mismatch += n
			}
		}
		run.Set("probe_mismatches_or_inconclusive", mismatch)
		if mismatch > 0 || len(st.HarnessErrors) > 0 {
			exh = false
		}
		run.Set("exhaustive", exh)
		run.Set("bound", fmt.Sprintf("all histories of one fixture-selecting op followed by up to %d ops out of 11 (+1 block, 30-s blocks up to the one before the next subscription payout, +1 day, jump to refill-25h / -23h / -1h / +1min, jump to the next subscription month expiry, buy(c1, 6 months), relay payments p0<-c0 and p1<-c1 of 100 CU); fixtures = LeftoverBurnRate {0, 1/2, 1} x {early: 1 May, c0 subscribed and served; pending: 28 June, payouts of c0 and c1 due in the next block and four blocks later, refill on 1 July}; horizon 100 days; every single block is checked; a violating state is not expanded further", depth))
		run.Assume("mock bank/account keeper of testutil/keeper; begin/end blockers in app.go order (engine/chain); refill and payouts (end-block timers) are measured on a discarded fork that runs the end-block phase (staking, pairing, timerstore) of the block alone, cross-checked against the real block; the validators' participation amount of a payout is read from the lava_validators_and_community_fund event, its destination from the pool balances; cosmos distribution begin-blocker not run (fee collector only accumulates)")
	}})
}
