package c34

import (
	"os"
	"runtime/pprof"
	"time"
)

func init() {
	if p := os.Getenv("VERIF_C34_PROF"); p != "" {
		f, _ := os.Create(p)
		pprof.StartCPUProfile(f)
		go func() { time.Sleep(5 * time.Second); pprof.StopCPUProfile(); f.Close() }()
	}
}
