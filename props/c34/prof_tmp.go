package c34

import (
	"os"
	"runtime/pprof"

	"verifmc/engine/events"
)

func profTick() {}

func leakCheck() {
	if os.Getenv("VERIF_C34_DUMP") != "" && events.Goroutines() > 5 {
		pprof.Lookup("goroutine").WriteTo(os.Stderr, 1)
		os.Exit(3)
	}
}
