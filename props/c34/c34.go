// Package c34 checks C34 "Consumer relay retries stop correctly and terminate" with the event-order exploration
// engine (engine/events) on the real relaycore.UnifiedRelayStateMachine driven by the real relaypolicy.Policy with the
// consumer's configuration (rpcconsumer.ConsumerStateMachineConfig / ConsumerPolicyConfig with MaxRetries and
// SendRelayAttempts taken from the scenario).
//
// Closed system of one execution
//
//   - the state machine goroutine of GetRelayTaskChannel (real code; unified_relay_state_machine.go is compiled from a
//     derived overlay copy in which only the imports "time" and "context" point to the virtual-clock shims, so the batch
//     ticker, the 15 ms return-condition sleep and the processing timeout fire only when the explorer chooses them);
//   - a consumer goroutine with the structure of RPCConsumerServer.ProcessRelaySend: it reads one instruction at a time
//     from the relay task channel; for a send instruction it waits until the explorer chooses the outcome of the send
//     (UpdateBatch(nil) | UpdateBatch(pairing-list-empty) | UpdateBatch(other error)), performs what GetSessions does to
//     the real lavasession.UsedProviders (TryLockSelection, AddUsed) and calls the real UpdateBatch;
//   - a results checker mock with the counting rules of RelayProcessor (WaitForResults returns after as many responses
//     as the latest batch has sessions, or on the first success / on the agreement threshold, or when the processing
//     context is done; HasRequiredNodeResults / GetResultsSummary report what was delivered). A response is an explorer
//     event result(success | node-error | node-error-nonretryable | protocol-error | epoch-mismatch) for the oldest
//     in-flight relay (relays are interchangeable for every component of the closed system): RemoveUsed on the real
//     UsedProviders, then the response;
//   - timer events tick (batch ticker), rc-timer (the oldest pending 15 ms sleep of validateReturnCondition) and
//     processing-timeout.
//
// Time model: relay timeout T = 1 s, processing timeout P = (K+0.5) T with K = MaxRetries+2 ticks. Environment actions
// take arbitrary time, therefore every order of timers and environment events is offered except the physically
// impossible ones: at most one tick may overtake a pending 15 ms sleep (T > 15 ms), the processing timeout is due only
// after K ticks (it may fire earlier as a deviation: a shorter processing timeout), no tick after the processing
// timeout is due.
//
// Deviations (bounded by the scenario, 2 in quick): UpdateBatch errors, non-success results, a tick that overtakes a
// pending return-condition sleep, an early processing timeout.
//
// Granularity: one event per quiescent point. While the state machine is blocked handing a send instruction to the
// busy consumer (channel of capacity 1 full), only the consumer's completion events are delivered; the queued
// alternatives are equivalent to delivering the event right after the machine is unblocked, up to the order in which Go's
// select picks among several ready channels.
//
// Oracle (from the property text; decisions are observed through a recording wrapper around the real policy, so an
// attempt is attributed to the moment it was decided, not to the moment the consumer dequeued it; "after" is the order
// in which the hooks ran: the decision that a delivered result triggers comes after that result):
//
//	more-than-one-done / instruction-after-done / no-done   exactly one final instruction, nothing after it, and every
//	                                                       execution ends with it (termination; also no-done-before-horizon)
//	new-attempt-after-success, send-retry-after-success     no retry decision after the required result was delivered
//	resend-after-successful-send                            Stateful/CrossValidation: no send decision after a send succeeded
//	new-attempt-after-nonretryable-error                    no Decide()==Retry after a non-retryable node error or a
//	                                                       permanent protocol error was delivered (weaker reading: the
//	                                                       send-failure retry of an attempt that was started earlier is
//	                                                       not a new attempt)
//	send-failure-retries-exceed-allowed                     no send-failure retry after more than SendRelayAttempts
//	                                                       consecutive send failures
//	attempts-exceed-max-retries-plus-send-retries           send attempts decided (initial + Decide()==Retry + send-failure
//	                                                       retries) <= MaxRetries + 1 + max(SendRelayAttempts, send-failure
//	                                                       retries made) — the weakest reading of "the configured maximum
//	                                                       plus the allowed send-failure retries": it accepts both the
//	                                                       constant bound MaxRetries+SendRelayAttempts+1 and any number of
//	                                                       individually allowed send-failure retries
//	send-instruction-without-policy-decision                bookkeeping guard: every send instruction is the initial one
//	                                                       or follows a recorded retry decision
package c34

import (
	"context"
	"errors"
	"fmt"
	"sort"
	"strings"
	"sync"
	"time"

	"github.com/lavanet/lava/v5/protocol/chainlib"
	"github.com/lavanet/lava/v5/protocol/chainlib/extensionslib"
	"github.com/lavanet/lava/v5/protocol/common"
	"github.com/lavanet/lava/v5/protocol/lavaprotocol"
	"github.com/lavanet/lava/v5/protocol/lavasession"
	"github.com/lavanet/lava/v5/protocol/relaycore"
	"github.com/lavanet/lava/v5/protocol/relaypolicy"
	"github.com/lavanet/lava/v5/protocol/rpcconsumer"
	"github.com/lavanet/lava/v5/utils"
	"github.com/lavanet/lava/v5/utils/verifshim/events/clock"
	pairingtypes "github.com/lavanet/lava/v5/x/pairing/types"
	spectypes "github.com/lavanet/lava/v5/x/spec/types"

	"verifmc/engine/ev"
	"verifmc/engine/events"
	"verifmc/engine/reg"
)

const (
	relayTimeout = time.Second // T: period of the batch ticker
	horizon      = 96
	cvMax        = 2 // cross-validation max participants
	cvThreshold  = 2 // cross-validation agreement threshold
	statefulN    = 2 // sessions of one stateful send ("all top providers")
)

type scenario struct {
	name         string
	sel          relaycore.Selection
	batch        bool
	maxRetries   int
	sendAttempts int
	maxDev       int
	thorough     bool
}

func selName(s relaycore.Selection) string {
	switch s {
	case relaycore.Stateless:
		return "stateless"
	case relaycore.Stateful:
		return "stateful"
	}
	return "crossvalidation"
}

var scenarios []scenario

func buildScenarios() {
	for _, sel := range []relaycore.Selection{relaycore.Stateless, relaycore.Stateful, relaycore.CrossValidation} {
		for _, batch := range []bool{false, true} {
			for _, mr := range []int{2, 3} {
				for _, sa := range []int{1, 2} {
					b := "single"
					if batch {
						b = "batch"
					}
					base := fmt.Sprintf("%s-%s-r%d-s%d", selName(sel), b, mr, sa)
					scenarios = append(scenarios, scenario{base + "-dev2", sel, batch, mr, sa, 2, false})
					// the smallest Stateless configuration is explored with 3 deviations in the quick tier too
					scenarios = append(scenarios, scenario{base + "-dev3", sel, batch, mr, sa, 3, !(sel == relaycore.Stateless && !batch && mr == 2 && sa == 1)})
					if sel != relaycore.Stateless || batch {
						scenarios = append(scenarios, scenario{base + "-dev4", sel, batch, mr, sa, 4, true})
					}
				}
			}
		}
	}
}

// ---------------------------------------------------------------------------------------------------
// message and sender mocks (data carriers only)

// fakeChainMessage implements the few ChainMessage methods the state machine reads; any other call panics (nil embed).
type fakeChainMessage struct {
	chainlib.ChainMessage
	api   *spectypes.Api
	batch bool
}

func (m *fakeChainMessage) GetApi() *spectypes.Api             { return m.api }
func (m *fakeChainMessage) IsBatch() bool                      { return m.batch }
func (m *fakeChainMessage) GetRequestedBlocksHashes() []string { return nil }
func (m *fakeChainMessage) GetRawRequestHash() ([]byte, error) { return []byte("verif-c34"), nil }

func newMessage(sc scenario, extensions []string) chainlib.ProtocolMessage {
	api := &spectypes.Api{Name: "verif_c34"}
	if sc.sel == relaycore.Stateful {
		api.Category.Stateful = common.CONSISTENCY_SELECT_ALL_PROVIDERS
	}
	var headers map[string]string
	if sc.sel == relaycore.CrossValidation {
		headers = map[string]string{
			common.CROSS_VALIDATION_HEADER_MAX_PARTICIPANTS:    fmt.Sprint(cvMax),
			common.CROSS_VALIDATION_HEADER_AGREEMENT_THRESHOLD: fmt.Sprint(cvThreshold),
		}
	}
	data := &pairingtypes.RelayPrivateData{ConnectionType: "POST", ApiUrl: "", Data: []byte(`{"jsonrpc":"2.0","id":1,"method":"verif_c34","params":[]}`), ApiInterface: "jsonrpc", Extensions: extensions}
	return chainlib.NewProtocolMessage(&fakeChainMessage{api: api, batch: sc.batch}, headers, data, "dapp", "127.0.0.1")
}

type senderMock struct {
	sc         scenario
	processing time.Duration
}

func (m *senderMock) GetProcessingTimeout(chainMessage chainlib.ChainMessage) (time.Duration, time.Duration) {
	return m.processing, relayTimeout
}
func (m *senderMock) GetChainIdAndApiInterface() (string, string) { return "VERIF", "jsonrpc" }

// ParseRelay is called by the archive upgrade/downgrade of a retry: the new message carries the requested extensions.
func (m *senderMock) ParseRelay(ctx context.Context, url, req, connectionType, dappID, consumerIp string, metadata []pairingtypes.Metadata) (chainlib.ProtocolMessage, error) {
	var ext []string
	for _, md := range metadata {
		if md.Name == common.EXTENSION_OVERRIDE_HEADER_NAME {
			for _, e := range strings.Split(md.Value, ",") {
				if e != "" {
					ext = append(ext, e)
				}
			}
		}
	}
	return newMessage(m.sc, ext), nil
}

var _ = extensionslib.ArchiveExtension

// ---------------------------------------------------------------------------------------------------
// the recording wrapper around the real policy

type recPolicy struct {
	inner *relaypolicy.Policy
	s     *system
}

func (p *recPolicy) Decide(in relaycore.DecisionInput) relaycore.DecisionOutput {
	out := p.inner.Decide(in)
	p.s.noteDecide(in, out)
	return out
}

func (p *recPolicy) OnSendRelayResult(err error, isPairingListEmpty bool) relaycore.SendResult {
	res := p.inner.OnSendRelayResult(err, isPairingListEmpty)
	p.s.noteSendResult(err, res)
	return res
}

func (p *recPolicy) GetConsecutiveBatchErrors() int { return p.inner.GetConsecutiveBatchErrors() }

// ---------------------------------------------------------------------------------------------------
// results checker mock with the counting rules of relaycore.RelayProcessor

type checker struct {
	s         *system
	responses chan string
	mu        sync.Mutex
	sum       relaycore.ResultsSummary
}

func (c *checker) met() bool {
	if c.s.sc.sel == relaycore.CrossValidation {
		return c.sum.SuccessCount >= cvThreshold // every success carries the same reply: equal results == successes
	}
	return c.sum.SuccessCount >= 1
}

func (c *checker) handle(kind string) {
	c.mu.Lock()
	switch kind {
	case "success":
		c.sum.SuccessCount++
	case "node-error":
		c.sum.NodeErrors++
	case "node-error-nonretryable":
		c.sum.NodeErrors++
		c.sum.HasNonRetryableNodeError = true
	case "protocol-error":
		c.sum.ProtocolErrors++
		c.sum.HasPermanentProtocolError = true
	case "epoch-mismatch":
		c.sum.ProtocolErrors++
		c.sum.HasEpochMismatch = true
	}
	met := c.met()
	c.mu.Unlock()
	c.s.noteHandled(kind, met)
}

func (c *checker) WaitForResults(ctx context.Context) error {
	count := 0
	for {
		select {
		case k := <-c.responses:
			count++
			c.handle(k)
			c.mu.Lock()
			met := c.met()
			c.mu.Unlock()
			if count >= c.s.up.SessionsLatestBatch() || met {
				return nil
			}
		case <-ctx.Done():
			return ctx.Err()
		}
	}
}

func (c *checker) HasRequiredNodeResults(tries int) (bool, int) {
	c.mu.Lock()
	defer c.mu.Unlock()
	return c.met(), c.sum.NodeErrors
}

func (c *checker) GetCrossValidationParams() *common.CrossValidationParams {
	return c.s.sm.GetCrossValidationParams()
}

func (c *checker) GetResultsSummary() relaycore.ResultsSummary {
	c.mu.Lock()
	defer c.mu.Unlock()
	return c.sum
}

// ---------------------------------------------------------------------------------------------------
// the closed system

type pendingViol struct{ key, what string }

type system struct {
	sc     scenario
	ctx    context.Context
	cancel context.CancelFunc
	sm     relaycore.RelayStateMachine
	up     *lavasession.UsedProviders
	pol    *recPolicy
	rc     *checker
	ch     chan relaycore.RelayStateSendInstructions
	quit   chan struct{}
	gate   chan string
	ticks  int

	mu           sync.Mutex
	step         int
	sendsRead    int
	finals       int
	finalErr     error
	afterFinal   int
	pending      bool
	pendingN     int
	inflight     []string
	nextProv     int
	starts       int // initial attempt + Decide()==Retry
	sendRetries  int // OnSendRelayResult()==SendRetry
	consecErr    int // consecutive send failures delivered to the machine
	successStep  int
	sendOKStep   int
	fatalStep    int
	fatalKind    string
	overtaken    map[int]bool // pending sleeps a tick has already overtaken
	ticksFired   int
	reasons      map[string]bool
	viol         []pendingViol
	closing      bool
	closed       bool
	epilogueDone bool
}

var (
	once    sync.Once
	retries *lavaprotocol.RelayRetriesManager
)

func makeSystem(sc scenario) events.System {
	once.Do(func() {
		utils.SetGlobalLoggingLevel("fatal")
		retries = lavaprotocol.NewRelayRetriesManager()
	})
	clock.Reset()
	s := &system{sc: sc, successStep: -1, sendOKStep: -1, fatalStep: -1, overtaken: map[int]bool{}, reasons: map[string]bool{}, starts: 1}
	s.ticks = sc.maxRetries + 1
	s.ctx, s.cancel = context.WithCancel(context.Background())
	s.up = lavasession.NewUsedProviders(nil)
	s.quit = make(chan struct{})
	s.gate = make(chan string, 1)

	smCfg := rpcconsumer.ConsumerStateMachineConfig()
	smCfg.MaxRetries = sc.maxRetries
	smCfg.SendRelayAttempts = sc.sendAttempts
	polCfg := rpcconsumer.ConsumerPolicyConfig()
	polCfg.MaxRetries = sc.maxRetries
	polCfg.SendRelayAttempts = sc.sendAttempts
	s.pol = &recPolicy{inner: relaypolicy.NewPolicy(polCfg), s: s}

	sender := &senderMock{sc: sc, processing: time.Duration(s.ticks)*relayTimeout + relayTimeout/2}
	sm, err := relaycore.NewUnifiedRelayStateMachine(s.ctx, s.up, sender, newMessage(sc, nil), nil, false, smCfg, s.pol)
	if err != nil {
		panic("c34: " + err.Error())
	}
	if sm.GetSelection() != sc.sel {
		panic(fmt.Sprintf("c34: selection %v, wanted %v", sm.GetSelection(), sc.sel))
	}
	s.sm = sm
	s.rc = &checker{s: s, responses: make(chan string, 64)}
	sm.SetResultsChecker(s.rc)
	sm.SetRelayRetriesManager(retries)
	ch, err := sm.GetRelayTaskChannel()
	if err != nil {
		panic("c34: " + err.Error())
	}
	s.ch = ch
	go s.consumer()
	return s
}

// consumer has the structure of RPCConsumerServer.ProcessRelaySend; it keeps reading after the final instruction only
// to observe whether anything follows it.
func (s *system) consumer() {
	for {
		var task relaycore.RelayStateSendInstructions
		select {
		case task = <-s.ch:
		case <-s.quit:
			return
		}
		s.mu.Lock()
		if s.closing {
			s.mu.Unlock()
			continue
		}
		if s.finals > 0 {
			s.afterFinal++
			s.viol = append(s.viol, pendingViol{"instruction-after-done", fmt.Sprintf("an instruction (done=%v, err=%v) was emitted after the final instruction", task.Done, task.Err)})
		}
		if task.IsDone() {
			s.finals++
			if s.finals == 1 {
				s.finalErr = task.Err
			} else {
				s.viol = append(s.viol, pendingViol{"more-than-one-done", fmt.Sprintf("%d final instructions were emitted", s.finals)})
			}
			s.mu.Unlock()
			continue
		}
		s.sendsRead++
		if s.sendsRead > s.starts+s.sendRetries {
			// a send that the policy did not decide: it is an attempt started (at the latest) now
			s.viol = append(s.viol, pendingViol{"send-instruction-without-policy-decision", fmt.Sprintf("%d send instructions but only the initial attempt, %d Decide()==Retry and %d send-failure retries were decided by the policy", s.sendsRead, s.starts-1, s.sendRetries)})
			s.attemptStarted("a send instruction the policy had not decided", -1)
		}
		s.pending = true
		s.pendingN = task.NumOfProviders
		if s.sc.sel == relaycore.Stateful {
			s.pendingN = statefulN
		}
		n := s.pendingN
		s.mu.Unlock()

		var outcome string
		select {
		case outcome = <-s.gate:
		case <-s.quit:
			return
		}
		// what ConsumerSessionManager.GetSessions does to the used providers
		s.up.TryLockSelection(s.ctx)
		var sendErr error
		switch outcome {
		case "nil":
			sessions := lavasession.ConsumerSessionsMap{}
			s.mu.Lock()
			for i := 0; i < n; i++ {
				name := fmt.Sprintf("provider%d", s.nextProv)
				s.nextProv++
				sessions[name] = &lavasession.SessionInfo{}
				s.inflight = append(s.inflight, name)
			}
			if s.sendOKStep < 0 {
				s.sendOKStep = s.step
			}
			s.pending = false
			s.mu.Unlock()
			s.up.AddUsed(sessions, nil)
		case "pairing-list-empty":
			sendErr = utils.LavaFormatError("failed getting sessions", lavasession.PairingListEmptyError)
		case "error":
			sendErr = errors.New("send failed")
		case "abort":
			s.up.AddUsed(nil, errors.New("abort"))
			continue
		}
		if sendErr != nil {
			s.mu.Lock()
			s.pending = false
			s.mu.Unlock()
			s.up.AddUsed(lavasession.ConsumerSessionsMap{}, sendErr)
		}
		s.sm.UpdateBatch(sendErr)
	}
}

// --- hooks called from the state machine goroutines

func (s *system) noteDecide(in relaycore.DecisionInput, out relaycore.DecisionOutput) {
	s.mu.Lock()
	defer s.mu.Unlock()
	if s.closing {
		return
	}
	src := "results"
	if in.IsTickerHedge {
		src = "ticker"
	}
	if out.Action != relaycore.ActionRetry {
		s.reasons["stop:"+out.Reason] = true
		return
	}
	s.reasons["retry:"+out.Reason] = true
	s.attemptStarted("Decide("+src+" path) == Retry", in.AttemptNumber)
}

// attemptStarted applies the oracle to a new attempt (s.mu held).
func (s *system) attemptStarted(how string, attemptNumber int) {
	s.starts++
	if s.successStep >= 0 {
		s.viol = append(s.viol, pendingViol{"new-attempt-after-success", fmt.Sprintf("%s although the required successful result had been delivered at event %d", how, s.successStep)})
	}
	if s.fatalStep >= 0 {
		s.viol = append(s.viol, pendingViol{"new-attempt-after-nonretryable-error", fmt.Sprintf("%s although a %s result had been delivered at event %d", how, s.fatalKind, s.fatalStep)})
	}
	if s.sc.sel != relaycore.Stateless && s.sendOKStep >= 0 {
		s.viol = append(s.viol, pendingViol{"resend-after-successful-send", fmt.Sprintf("%s request: %s although a send had succeeded at event %d", selName(s.sc.sel), how, s.sendOKStep)})
	}
	s.checkBound(fmt.Sprintf("%s with AttemptNumber %d", how, attemptNumber))
}

// checkBound (s.mu held): send attempts decided so far (initial + Decide()==Retry + send-failure retries) against the
// weakest reading of "the configured maximum plus the allowed send-failure retries": MaxRetries retries + the initial
// attempt + the larger of SendRelayAttempts and the number of send-failure retries that were made (each of them is
// checked separately to have been allowed, key send-failure-retries-exceed-allowed).
func (s *system) checkBound(last string) {
	allowance := s.sc.sendAttempts
	if s.sendRetries > allowance {
		allowance = s.sendRetries
	}
	if attempts := s.starts + s.sendRetries; attempts > s.sc.maxRetries+1+allowance {
		s.viol = append(s.viol, pendingViol{"attempts-exceed-max-retries-plus-send-retries", fmt.Sprintf("%d send attempts were started (the initial one, %d retries decided by Decide, %d send-failure retries; the last one: %s) with MaxRetries = %d and SendRelayAttempts = %d: more than MaxRetries + 1 + max(SendRelayAttempts, send-failure retries made) = %d", attempts, s.starts-1, s.sendRetries, last, s.sc.maxRetries, s.sc.sendAttempts, s.sc.maxRetries+1+allowance)})
	}
}

func (s *system) noteSendResult(err error, res relaycore.SendResult) {
	s.mu.Lock()
	defer s.mu.Unlock()
	if s.closing {
		return
	}
	if err == nil {
		s.consecErr = 0
	} else {
		s.consecErr++
	}
	switch res {
	case relaycore.SendStop:
		s.reasons["send:stop"] = true
	case relaycore.SendRetry:
		s.reasons["send:retry"] = true
		s.sendRetries++
		s.checkBound("a send-failure retry")
		if err == nil || s.consecErr > s.sc.sendAttempts {
			s.viol = append(s.viol, pendingViol{"send-failure-retries-exceed-allowed", fmt.Sprintf("a send-failure retry was decided after %d consecutive send failures with SendRelayAttempts = %d", s.consecErr, s.sc.sendAttempts)})
		}
		if s.successStep >= 0 {
			s.viol = append(s.viol, pendingViol{"send-retry-after-success", fmt.Sprintf("a send-failure retry was decided although the required successful result had been delivered at event %d", s.successStep)})
		}
		if s.sc.sel != relaycore.Stateless && s.sendOKStep >= 0 {
			s.viol = append(s.viol, pendingViol{"resend-after-successful-send", fmt.Sprintf("%s request: a send-failure retry was decided although a send had succeeded at event %d", selName(s.sc.sel), s.sendOKStep)})
		}
	}
}

func (s *system) noteHandled(kind string, met bool) {
	s.mu.Lock()
	defer s.mu.Unlock()
	if met && s.successStep < 0 {
		s.successStep = s.step
	}
	if (kind == "node-error-nonretryable" || kind == "protocol-error") && s.fatalStep < 0 {
		s.fatalStep = s.step
		s.fatalKind = kind
	}
}

// --- explorer interface

var resultKinds = []string{"success", "node-error", "node-error-nonretryable", "protocol-error", "epoch-mismatch"}

func (s *system) timers() (ticker, ctxT *clock.Timer, sleeps []*clock.Timer) {
	for _, t := range clock.Pending() {
		switch t.Kind {
		case "ticker":
			ticker = t
		case "ctx":
			ctxT = t
		case "sleep":
			sleeps = append(sleeps, t)
		}
	}
	sort.Slice(sleeps, func(i, j int) bool { return sleeps[i].ID < sleeps[j].ID })
	return
}

func (s *system) Enabled() []events.Event {
	s.mu.Lock()
	defer s.mu.Unlock()
	if s.finals > 0 {
		return nil
	}
	var out []events.Event
	if s.pending {
		out = append(out, events.Event{Name: "UpdateBatch(nil)"},
			events.Event{Name: "UpdateBatch(pairing-list-empty)", Deviation: true},
			events.Event{Name: "UpdateBatch(error)", Deviation: true})
	}
	// the machine is blocked handing a send instruction to the busy consumer: only the consumer can move
	if s.starts+s.sendRetries-s.sendsRead-len(s.ch) > 0 {
		return out
	}
	if len(s.inflight) > 0 {
		for _, k := range resultKinds {
			out = append(out, events.Event{Name: "result(" + k + ")", Deviation: k != "success"})
		}
	}
	ticker, ctxT, sleeps := s.timers()
	if ticker != nil && ctxT != nil && ticker.Deadline < ctxT.Deadline { // no tick once the processing timeout is due or has fired
		over := false
		for _, sl := range sleeps {
			over = over || s.overtaken[sl.ID]
		}
		if !over {
			// early timer: the relay timeout elapses during a 15 ms sleep or while the consumer is still sending
			out = append(out, events.Event{Name: "tick", Deviation: len(sleeps) > 0 || s.pending})
		}
	}
	if len(sleeps) > 0 {
		out = append(out, events.Event{Name: "rc-timer"})
	}
	if ctxT != nil {
		early := len(sleeps) > 0 || (ticker != nil && ticker.Deadline < ctxT.Deadline)
		out = append(out, events.Event{Name: "processing-timeout", Deviation: early})
	}
	return out
}

func (s *system) Deliver(name string) {
	s.mu.Lock()
	s.step++
	s.mu.Unlock()
	switch {
	case strings.HasPrefix(name, "UpdateBatch("):
		o := strings.TrimSuffix(strings.TrimPrefix(name, "UpdateBatch("), ")")
		s.gate <- o
	case strings.HasPrefix(name, "result("):
		kind := strings.TrimSuffix(strings.TrimPrefix(name, "result("), ")")
		s.mu.Lock()
		p := s.inflight[0]
		s.inflight = s.inflight[1:]
		s.mu.Unlock()
		s.answer(p, kind)
	case name == "tick":
		ticker, _, sleeps := s.timers()
		s.mu.Lock()
		for _, sl := range sleeps {
			s.overtaken[sl.ID] = true
		}
		s.ticksFired++
		s.mu.Unlock()
		clock.Fire(ticker)
	case name == "rc-timer":
		_, _, sleeps := s.timers()
		clock.Fire(sleeps[0])
	case name == "processing-timeout":
		_, ctxT, _ := s.timers()
		clock.Fire(ctxT)
	default:
		panic("c34: unknown event " + name)
	}
}

// answer is the end of one relay goroutine of sendRelayToProvider: the session is freed (RemoveUsed), then the
// response is handed to the results checker.
func (s *system) answer(provider, kind string) {
	var err error
	switch kind {
	case "protocol-error":
		err = errors.New("permanent protocol error")
	case "epoch-mismatch":
		err = lavasession.EpochMismatchError
	}
	s.up.RemoveUsed(provider, lavasession.NewRouterKey(nil), err)
	s.rc.responses <- kind
}

func (s *system) Check(report events.Reporter) {
	s.mu.Lock()
	defer s.mu.Unlock()
	for _, v := range s.viol {
		report(v.key, v.what)
	}
	if s.step >= horizon-1 && s.finals == 0 {
		report("no-done-before-horizon", fmt.Sprintf("no final instruction after %d events", s.step))
	}
}

// Final: no event is enabled any more. After the final instruction a fixed epilogue lets everything still pending
// happen (pending send completes, in-flight relays answer, every timer fires) to see that nothing follows it.
func (s *system) Final(report events.Reporter) {
	s.mu.Lock()
	finals := s.finals
	s.mu.Unlock()
	if finals == 0 {
		report("no-done", "no event is enabled any more (processing timeout included) but no final instruction was emitted")
		return
	}
	s.up.AddUsed(lavasession.ConsumerSessionsMap{"epilogue": &lavasession.SessionInfo{}}, nil)
	for round := 0; round < 6; round++ {
		s.mu.Lock()
		pending := s.pending
		inflight := s.inflight
		s.inflight = nil
		s.mu.Unlock()
		if !pending && len(inflight) == 0 && len(clock.Pending()) == 0 {
			break
		}
		if pending {
			select {
			case s.gate <- "nil":
			default:
			}
		}
		for _, p := range inflight {
			s.answer(p, "node-error")
		}
		for _, t := range clock.Pending() {
			clock.Fire(t)
		}
		events.Quiesce()
	}
	s.mu.Lock()
	s.epilogueDone = true
	s.mu.Unlock()
	s.Check(report)
}

func (s *system) Outcome() string {
	s.mu.Lock()
	defer s.mu.Unlock()
	fin := "none"
	if s.finals > 0 {
		switch {
		case s.finalErr == nil:
			fin = "ok"
		case errors.Is(s.finalErr, context.DeadlineExceeded):
			fin = "err:processing-timeout"
		case errors.Is(s.finalErr, context.Canceled):
			fin = "err:canceled"
		default:
			fin = "err:send"
		}
		if s.successStep >= 0 {
			fin += "+success"
		}
	}
	var rs []string
	for r := range s.reasons {
		rs = append(rs, r)
	}
	sort.Strings(rs)
	return fmt.Sprintf("final=%s starts=%d sendretries=%d | %s", fin, s.starts, s.sendRetries, strings.Join(rs, ","))
}

// Close makes every goroutine of the execution exit.
func (s *system) Close() {
	if s.closed {
		return
	}
	s.closed = true
	s.mu.Lock()
	s.closing = true
	s.mu.Unlock()
	// a changed batch number and a used provider turn every sleeping validateReturnCondition into a no-op
	s.up.AddUsed(lavasession.ConsumerSessionsMap{"closing": &lavasession.SessionInfo{}}, nil)
	s.cancel()
	for round := 0; round < 4; round++ {
		select {
		case s.gate <- "abort":
		default:
		}
		for _, t := range clock.Pending() {
			clock.Fire(t)
		}
		events.Quiesce()
		s.mu.Lock()
		idle := !s.pending
		s.mu.Unlock()
		if idle && len(clock.Pending()) == 0 && len(s.ch) == 0 {
			break
		}
	}
	close(s.quit)
	clock.Deactivate()
}

// ---------------------------------------------------------------------------------------------------

func init() {
	buildScenarios()
	for _, sc := range scenarios {
		sc := sc
		events.Register("C34", events.Harness{
			Name:          sc.name,
			Make:          func() events.System { return makeSystem(sc) },
			Horizon:       horizon,
			MaxDeviations: sc.maxDev,
			ThoroughOnly:  sc.thorough,
		})
	}
	reg.Register(reg.Check{Property: "C34", Level: "model_checking", Run: run})
}

func run(r *ev.Run) {
	cfg := events.RunConfig{Shards: 16, ShardDepth: 6, Deadline: 75 * time.Second}
	if ev.Tier() == "thorough" {
		cfg.Deadline = 14 * time.Minute
	}
	outcomes := events.Run(r, "C34", cfg)
	// vacuity guard: which decisions of the real policy / which endings the explored executions reached
	reached := map[string]bool{}
	for _, m := range outcomes {
		for o := range m {
			parts := strings.SplitN(o, " | ", 2)
			reached[strings.Fields(parts[0])[0]] = true
			if len(parts) == 2 {
				for _, x := range strings.Split(parts[1], ",") {
					if x != "" {
						reached[x] = true
					}
				}
			}
		}
	}
	var rs []string
	for k := range reached {
		rs = append(rs, k)
	}
	sort.Strings(rs)
	r.Set("decisions_and_endings_reached", rs)
	r.Set("engine", "events")
	devs := "2 (3 for Stateless, single message, MaxRetries 2, SendRelayAttempts 1)"
	if ev.Tier() == "thorough" {
		devs = "2, 3 and (all but Stateless with a single message) 4"
	}
	r.Set("bound", "real UnifiedRelayStateMachine + real relaypolicy.Policy with the consumer configuration; selection in {Stateless, Stateful (2 sessions per send), CrossValidation (2 participants, threshold 2)} x {single, batch message (DisableBatchRequestRetry default)} x MaxRetries in {2,3} x SendRelayAttempts in {1,2}; "+
		"every order of the enabled events UpdateBatch(nil | pairing-list-empty | error), result(success | node-error | node-error-nonretryable | protocol-error | epoch-mismatch) for the oldest in-flight relay, tick, rc-timer, processing-timeout; "+
		"at most "+devs+" deviations (send errors, non-success results, a tick overtaking a pending 15 ms sleep, an early processing timeout); relay timeout 1 s, processing timeout after MaxRetries+2 ticks; one event per quiescent point")
	r.Set("attempt_bound_used", "weakest reading: send attempts decided (initial + Decide()==Retry + send-failure retries) <= MaxRetries + 1 + max(SendRelayAttempts, send-failure retries made), and no send-failure retry after more than SendRelayAttempts consecutive send failures")
	r.Assume("event granularity: one environment event is delivered at a time and the goroutines of the state machine run to quiescence before the next one (GOMAXPROCS=1, no asynchronous preemption; guarded by 5x replay of every candidate); while the machine is blocked handing a send instruction to the busy consumer only the consumer's completion is delivered")
	r.Assume("unified_relay_state_machine.go is compiled from a derived overlay copy in which only the imports \"time\" and \"context\" are rewritten to virtual-clock shims (tools/overlaygen_events.py)")
	r.Assume("the results checker is a mock with the counting rules of RelayProcessor.WaitForResults/HasRequiredNodeResults/GetResultsSummary; the relay sender, the protocol message (a real BaseProtocolMessage over a stub chain message) and the consumer loop (structure of ProcessRelaySend, real UsedProviders) are harness code; retry decisions are observed through a recording wrapper that forwards to the real relaypolicy.Policy")
	r.Assume("timers: any order of tick / return-condition sleep / processing timeout / environment events is possible except more than one tick during one 15 ms sleep and a tick after the processing timeout is due")
}
