// Package c38: request parsing is total and consistent on both sides.
//
// Bounded-exhaustive enumeration of request byte strings (all token sequences up to a length over
// small token alphabets, framed parameter sequences, and every 1- and 2-token mutation of a corpus
// of valid requests) fed to the real chain parsers of protocol/chainlib built from the checked-in
// specs. Every input is parsed the way the consumer does (ParseAndValidateMessage with its latest
// block) and then the way the provider does (same url/data/connection type, the headers the
// consumer forwards, LatestBlock 0 and the consumer's chosen extensions as override).
package c38

import (
	"context"
	"fmt"
	"net/url"
	"os"
	"runtime"
	"sort"
	"strings"
	"sync"
	"sync/atomic"
	"syscall"
	"time"

	"github.com/lavanet/lava/v5/protocol/chainlib"
	"github.com/lavanet/lava/v5/protocol/chainlib/extensionslib"
	"github.com/lavanet/lava/v5/protocol/common"
	"github.com/lavanet/lava/v5/utils"
	specutils "github.com/lavanet/lava/v5/utils/keeper"
	epochstorage "github.com/lavanet/lava/v5/x/epochstorage/types"
	pairingtypes "github.com/lavanet/lava/v5/x/pairing/types"
	spectypes "github.com/lavanet/lava/v5/x/spec/types"

	"verifmc/engine/ev"
	"verifmc/engine/reg"
)

const (
	workers      = 16
	chunkSize    = 2048
	watchdog     = 20 * time.Second // generous: a parse normally takes microseconds
	nestDepth    = 1000
	timeoutRetry = 5
)

// ---------------------------------------------------------------------------------------------
// inputs

type input struct {
	url  string
	data []byte
	conn string
	meta []pairingtypes.Metadata
}

func (in input) String() string {
	d := string(in.data)
	if len(d) > 400 {
		d = d[:200] + fmt.Sprintf("...(%d bytes)...", len(d)) + d[len(d)-100:]
	}
	u := in.url
	if len(u) > 400 {
		u = u[:200] + fmt.Sprintf("...(%d bytes)...", len(u)) + u[len(u)-100:]
	}
	return fmt.Sprintf("url=%q data=%q conn=%q meta=%v", u, d, in.conn, in.meta)
}

// replayable description (full bytes)
func (in input) replay() map[string]interface{} {
	m := []string{}
	for _, h := range in.meta {
		m = append(m, h.Name+": "+h.Value)
	}
	return map[string]interface{}{"url": in.url, "data": string(in.data), "data_hex_len": len(in.data), "connection_type": in.conn, "metadata": m}
}

// ---------------------------------------------------------------------------------------------
// targets: one (consumer parser, provider parser) pair per spec and api interface

type fullPolicy struct {
	addons []string
	exts   []epochstorage.EndpointService
}

func (p *fullPolicy) GetSupportedAddons(string) ([]string, error) { return p.addons, nil }
func (p *fullPolicy) GetSupportedExtensions(string) ([]epochstorage.EndpointService, error) {
	return p.exts, nil
}

type target struct {
	id      string
	kind    string // jsonrpc | tendermintrpc | rest | grpc
	spec    string
	cons    chainlib.ChainParser
	prov    chainlib.ChainParser
	closers []func()
	// REST only: the parser's api table split into one-entry tables (see restCandidates)
	restSingles []map[chainlib.ApiKey]chainlib.ApiContainer
}

// cmode: how the consumer parses - its latest block and the extension directive of the user
// ("lava-extension" header: a list of extensions to add, or "none")
type cmode struct {
	latest uint64
	add    []string
	none   bool
}

func (m cmode) String() string {
	return fmt.Sprintf("latest=%d add=%v none=%v", m.latest, m.add, m.none)
}

// as getExtensionsFromDirectiveHeaders builds it
func (m cmode) info() extensionslib.ExtensionInfo {
	switch {
	case m.none:
		return extensionslib.ExtensionInfo{LatestBlock: m.latest, ExtensionOverride: []string{}}
	case len(m.add) > 0:
		return extensionslib.ExtensionInfo{LatestBlock: m.latest, AdditionalExtensions: m.add}
	}
	return extensionslib.ExtensionInfo{LatestBlock: m.latest}
}

var (
	latestWide  = []uint64{0, 100, 1000, 20000000}
	modeDefault = []cmode{{latest: 1000}}
	modeRest    = []cmode{{latest: 1000}, {latest: 0}}
	modeWide    = func() (out []cmode) {
		for _, l := range latestWide {
			out = append(out, cmode{latest: l}, cmode{latest: l, add: []string{"archive"}}, cmode{latest: l, none: true})
		}
		return out
	}()
)

func wideModes(kind string) []cmode {
	if kind == spectypes.APIInterfaceRest {
		return modeRest // milliseconds per parse, and the REST collections have no extensions
	}
	return modeWide
}

var specCache = map[string]spectypes.Spec{}

func loadSpec(index string) (spectypes.Spec, error) {
	if s, ok := specCache[index]; ok {
		return s, nil
	}
	s, err := specutils.GetASpec(index, "/repo/", nil, nil)
	if err == nil {
		specCache[index] = s
	}
	return s, err
}

func policyFor(spec spectypes.Spec, kind string) *fullPolicy {
	p := &fullPolicy{}
	seenA, seenE := map[string]bool{}, map[string]bool{}
	for _, c := range spec.ApiCollections {
		if c.CollectionData.ApiInterface != kind {
			continue
		}
		if a := c.CollectionData.AddOn; a != "" && !seenA[a] {
			seenA[a] = true
			p.addons = append(p.addons, a)
		}
		for _, e := range c.Extensions {
			if e.Name != "" && !seenE[e.Name] {
				seenE[e.Name] = true
				p.exts = append(p.exts, epochstorage.EndpointService{ApiInterface: kind, Extension: e.Name})
			}
		}
	}
	return p
}

func newParser(spec spectypes.Spec, kind string) (chainlib.ChainParser, error) {
	cp, err := chainlib.NewChainParser(kind)
	if err != nil {
		return nil, err
	}
	cp.SetSpec(spec)
	if err := cp.SetPolicy(policyFor(spec, kind), spec.Index, kind); err != nil {
		return nil, err
	}
	return cp, nil
}

func newTarget(specIndex, kind string) (*target, error) {
	spec, err := loadSpec(specIndex)
	if err != nil {
		return nil, err
	}
	t := &target{id: kind + ":" + specIndex, kind: kind, spec: specIndex}
	if kind == spectypes.APIInterfaceGrpc {
		// the gRPC parser decodes protobuf bodies through a descriptor registry that is only set up
		// by the chain router (reflection against the node) - use the repository's own mock set-up
		// (local reflection server) for both sides.
		for i := 0; i < 2; i++ {
			cp, _, _, closer, _, err := chainlib.CreateChainLibMocks(bgctx(), specIndex, kind, nil, nil, "/repo/", nil)
			if err != nil {
				return nil, fmt.Errorf("grpc mock set-up: %w", err)
			}
			if err := cp.SetPolicy(policyFor(spec, kind), spec.Index, kind); err != nil {
				return nil, err
			}
			t.closers = append(t.closers, closer)
			if i == 0 {
				t.cons = cp
			} else {
				t.prov = cp
			}
		}
		quiet()
		return t, nil
	}
	if t.cons, err = newParser(spec, kind); err != nil {
		return nil, err
	}
	if t.prov, err = newParser(spec, kind); err != nil {
		return nil, err
	}
	if kind == spectypes.APIInterfaceRest {
		for k, v := range chainlib.VerifC38RestServerApis(t.cons) {
			t.restSingles = append(t.restSingles, map[chainlib.ApiKey]chainlib.ApiContainer{k: v})
		}
	}
	return t, nil
}

// restCandidates: the REST matcher (matchSpecApiByName) ranges over a Go map and returns the first
// pattern that matches, so every matching entry is a possible result (each is first in some
// iteration order, and Go randomises the order per call). The set of possible results is obtained
// from the real matcher by offering it each table entry alone.
func restCandidates(t *target, rawURL, conn string) []string {
	u, err := url.Parse(rawURL)
	if err != nil {
		return nil
	}
	seen := map[string]bool{}
	var out []string
	for _, m := range t.restSingles {
		if ac, ok := chainlib.VerifC38MatchSpecApiByName(u.Path, conn, m); ok {
			api := ac.VerifC38Api()
			d := fmt.Sprintf("%s (cu %d, block parser %s%v)", api.Name, api.ComputeUnits, api.BlockParsing.ParserFunc, api.BlockParsing.ParserArg)
			if !seen[d] {
				seen[d] = true
				out = append(out, d)
			}
		}
	}
	sort.Strings(out)
	return out
}

// restResolvedDeterministically: several api patterns match the url; consumer and provider agree only if the real
// matcher's choice does not depend on Go's map iteration order. The matcher is called 256 times on the table
// restricted to the matching entries (a 2-3 entry map: an order-dependent choice flips with probability >= 1/8 per
// call, so a miss has probability < 1e-14); this is the only repetition-based sub-oracle of the check.
func restResolvedDeterministically(t *target, rawURL, conn string) bool {
	u, err := url.Parse(rawURL)
	if err != nil {
		return true
	}
	sub := map[chainlib.ApiKey]chainlib.ApiContainer{}
	for _, m := range t.restSingles {
		if _, ok := chainlib.VerifC38MatchSpecApiByName(u.Path, conn, m); ok {
			for k, v := range m {
				sub[k] = v
			}
		}
	}
	first := ""
	for i := 0; i < 256; i++ {
		ac, ok := chainlib.VerifC38MatchSpecApiByName(u.Path, conn, sub)
		name := "<none>"
		if ok {
			name = ac.VerifC38Api().Name
		}
		if i == 0 {
			first = name
		} else if name != first {
			return false
		}
	}
	return true
}

func bgctx() context.Context { return context.Background() }

// errors are still formatted by the code under test, only the output is dropped
func quiet() { utils.SetGlobalLoggingLevel("fatal") }

// ---------------------------------------------------------------------------------------------
// the oracle

type outcome struct {
	ok     bool
	err    string
	panicF string // top non-runtime frame of a recovered panic
	panicV string
	name   string
	cu     uint64
	addon  string
	block  int64
	exts   []string
	hdrs   []pairingtypes.Metadata
	bad    string // success but API not supported / CU < 1
}

func topFrame() string {
	pcs := make([]uintptr, 64)
	n := runtime.Callers(3, pcs)
	frames := runtime.CallersFrames(pcs[:n])
	for {
		f, more := frames.Next()
		if f.Function != "" && !strings.HasPrefix(f.Function, "runtime.") {
			return f.Function
		}
		if !more {
			break
		}
	}
	return "unknown"
}

var grpcSerial sync.Mutex

func parseOnce(cp chainlib.ChainParser, in input, ext extensionslib.ExtensionInfo) (out outcome) {
	if _, isGrpc := cp.(*chainlib.GrpcChainParser); isGrpc {
		grpcSerial.Lock()
		defer grpcSerial.Unlock()
	}
	defer func() {
		if r := recover(); r != nil {
			out = outcome{panicF: topFrame(), panicV: fmt.Sprint(r)}
		}
	}()
	// the parsers keep references to the slices they are given: hand out private copies
	data := append([]byte(nil), in.data...)
	var meta []pairingtypes.Metadata
	if in.meta != nil {
		meta = append([]pairingtypes.Metadata{}, in.meta...)
	}
	msg, err := chainlib.ParseAndValidateMessage(cp, in.url, data, in.conn, meta, ext)
	if err != nil {
		e := err.Error()
		if len(e) > 60 {
			e = e[:60]
		}
		return outcome{err: e}
	}
	out.ok = true
	if msg == nil {
		out.bad = "nil message without error"
		return out
	}
	api := msg.GetApi()
	coll := msg.GetApiCollection()
	switch {
	case api == nil:
		out.bad = "nil api"
		return out
	case coll == nil:
		out.bad = "nil api collection"
		return out
	case !api.Enabled:
		out.bad = "api not enabled"
	case !coll.Enabled:
		out.bad = "api collection not enabled"
	case api.ComputeUnits < 1:
		out.bad = "compute units < 1"
	case api.Name == "":
		out.bad = "empty api name"
	}
	out.name = api.Name
	out.cu = api.ComputeUnits
	out.addon = chainlib.GetAddon(msg)
	out.block, _ = msg.RequestedBlock()
	out.exts = common.GetExtensionNames(msg.GetExtensions())
	if rpc := msg.GetRPCMessage(); rpc != nil {
		out.hdrs = rpc.GetHeaders()
	}
	return out
}

// short stable class of an api name for violation keys
func apiClass(name string) string {
	if i := strings.Index(name, chainlib.SEP); i >= 0 {
		name = name[:i] + "+batch"
	}
	if strings.HasPrefix(name, chainlib.DefaultApiName) {
		return "Default"
	}
	if len(name) > 60 {
		name = name[:60]
	}
	return name
}

type stats struct {
	evals       int64 // inputs
	parses      int64 // parser invocations
	consOK      int64
	consErr     int64
	compared    int64
	provRawOK   int64
	withExt     int64
	outcomes    map[string]struct{} // distinct (target, api, cu, addon, block, extensions) tuples compared on both sides
	errClasses  map[string]struct{}
	perTarget   map[string]int64
	perTargetOK map[string]int64
	famNanos    map[string]int64
	restAmbiguous map[string]struct{}
	restObserved  int64
	unstable      int64
	viol        []ev.Violation
	samples     []string
}

func newStats() *stats {
	return &stats{outcomes: map[string]struct{}{}, errClasses: map[string]struct{}{}, perTarget: map[string]int64{}, perTargetOK: map[string]int64{}, famNanos: map[string]int64{}, restAmbiguous: map[string]struct{}{}}
}

func (s *stats) merge(o *stats) {
	s.evals += o.evals
	s.parses += o.parses
	s.consOK += o.consOK
	s.consErr += o.consErr
	s.compared += o.compared
	s.provRawOK += o.provRawOK
	s.withExt += o.withExt
	for k := range o.outcomes {
		s.outcomes[k] = struct{}{}
	}
	for k := range o.errClasses {
		s.errClasses[k] = struct{}{}
	}
	for k, v := range o.perTarget {
		s.perTarget[k] += v
	}
	for k, v := range o.perTargetOK {
		s.perTargetOK[k] += v
	}
	for k, v := range o.famNanos {
		s.famNanos[k] += v
	}
	for k := range o.restAmbiguous {
		s.restAmbiguous[k] = struct{}{}
	}
	s.restObserved += o.restObserved
	s.unstable += o.unstable
	s.viol = append(s.viol, o.viol...)
	if len(s.samples) < 40 {
		s.samples = append(s.samples, o.samples...)
	}
}

func (s *stats) violate(t *target, key, what string, in input, extra map[string]interface{}) {
	rp := in.replay()
	rp["target"] = t.id
	for k, v := range extra {
		rp[k] = v
	}
	s.viol = append(s.viol, ev.Violation{Property: "C38", Key: key, What: what, Replay: rp})
}

// confirmPanic: a panic is only reported when it reproduces
func confirmPanic(cp chainlib.ChainParser, in input, ext extensionslib.ExtensionInfo, first outcome) bool {
	for i := 0; i < 2; i++ {
		o := parseOnce(cp, in, ext)
		if o.panicF != first.panicF {
			return false
		}
	}
	return true
}

func extDiff(c, p []string) string {
	cs, ps := map[string]bool{}, map[string]bool{}
	for _, e := range c {
		cs[e] = true
	}
	for _, e := range p {
		ps[e] = true
	}
	var d []string
	for _, e := range p {
		if !cs[e] {
			d = append(d, "provider-adds-"+e)
		}
	}
	for _, e := range c {
		if !ps[e] {
			d = append(d, "provider-drops-"+e)
		}
	}
	sort.Strings(d)
	return strings.Join(d, ",")
}

func evaluate(t *target, in input, modes []cmode, s *stats) {
	s.evals++
	s.perTarget[t.id]++
	for li, mode := range modes {
		latest := mode.String()
		cext := mode.info()
		c := parseOnce(t.cons, in, cext)
		s.parses++
		if c.panicF != "" {
			if confirmPanic(t.cons, in, cext, c) {
				s.violate(t, "panic:"+t.kind+":"+c.panicF, fmt.Sprintf("consumer-side ParseMsg panics (%s) in %s on %s", c.panicV, c.panicF, in), in, map[string]interface{}{"side": "consumer", "consumer_mode": latest})
			}
			continue
		}
		if !c.ok {
			s.consErr++
			s.errClasses[t.kind+"|"+c.err] = struct{}{}
			// totality of the provider side on the raw bytes as well (a provider receives arbitrary relay data)
			p := parseOnce(t.prov, in, extensionslib.ExtensionInfo{LatestBlock: 0, ExtensionOverride: []string{}})
			s.parses++
			if p.panicF != "" {
				if confirmPanic(t.prov, in, extensionslib.ExtensionInfo{LatestBlock: 0, ExtensionOverride: []string{}}, p) {
					s.violate(t, "panic:"+t.kind+":"+p.panicF, fmt.Sprintf("provider-side ParseMsg panics (%s) in %s on %s", p.panicV, p.panicF, in), in, map[string]interface{}{"side": "provider"})
				}
			} else if p.ok {
				s.provRawOK++
			}
			continue
		}
		s.consOK++
		s.perTargetOK[t.id]++
		ambiguous := false
		if t.kind == spectypes.APIInterfaceRest && li == 0 {
			if cands := restCandidates(t, in.url, in.conn); len(cands) > 1 && !restResolvedDeterministically(t, in.url, in.conn) {
				ambiguous = true
				s.restAmbiguous[strings.Join(cands, " | ")] = struct{}{}
				s.violate(t, "disagree:rest:api:ambiguous-pattern-match", fmt.Sprintf("REST url %q (%s) matches %d api patterns of the spec: %s; matchSpecApiByName returns whichever entry its map iteration visits first, so the consumer and the provider resolve the same request to different APIs", in.url, in.conn, len(cands), strings.Join(cands, " | ")), in, map[string]interface{}{"candidates": cands})
			}
		}
		if c.bad != "" {
			s.violate(t, "unsupported-on-success:"+t.kind+":"+strings.ReplaceAll(c.bad, " ", "-"), fmt.Sprintf("consumer parse succeeded but %s (api %q cu %d) on %s", c.bad, c.name, c.cu, in), in, map[string]interface{}{"side": "consumer", "consumer_mode": latest})
		}
		// provider side, honouring the extensions the consumer chose and the headers it forwards
		override := c.exts
		if override == nil {
			override = []string{}
		}
		pin := in
		pin.meta = c.hdrs
		pext := extensionslib.ExtensionInfo{LatestBlock: 0, ExtensionOverride: override}
		p := parseOnce(t.prov, pin, pext)
		s.parses++
		extra := map[string]interface{}{"consumer_mode": latest, "consumer": fmt.Sprintf("api=%q cu=%d addon=%q block=%d extensions=%v", c.name, c.cu, c.addon, c.block, c.exts),
			"provider": fmt.Sprintf("ok=%v err=%q api=%q cu=%d addon=%q block=%d extensions=%v", p.ok, p.err, p.name, p.cu, p.addon, p.block, p.exts), "forwarded_metadata": fmt.Sprint(c.hdrs)}
		if p.panicF != "" {
			if confirmPanic(t.prov, pin, pext, p) {
				s.violate(t, "panic:"+t.kind+":"+p.panicF, fmt.Sprintf("provider-side ParseMsg panics (%s) in %s on %s", p.panicV, p.panicF, in), in, extra)
			}
			continue
		}
		if !p.ok {
			if p2 := parseOnce(t.prov, pin, pext); p2.ok || p2.panicF != "" {
				s.unstable++ // does not reproduce
				continue
			}
			s.violate(t, "disagree:"+t.kind+":provider-rejects:"+apiClass(c.name), fmt.Sprintf("consumer parses %s as %q but the provider-side parse of the same request fails: %s", in, c.name, p.err), in, extra)
			continue
		}
		if p.bad != "" {
			s.violate(t, "unsupported-on-success:"+t.kind+":"+strings.ReplaceAll(p.bad, " ", "-"), fmt.Sprintf("provider parse succeeded but %s (api %q cu %d) on %s", p.bad, p.name, p.cu, in), in, extra)
		}
		s.compared++
		if len(c.exts) > 0 {
			s.withExt++
		}
		s.outcomes[fmt.Sprintf("%s|%s|%d|%s|%d|%v", t.id, c.name, c.cu, c.addon, c.block, c.exts)] = struct{}{}
		var fields []string
		if c.name != p.name {
			fields = append(fields, "api")
		}
		if c.cu != p.cu {
			fields = append(fields, "cu")
		}
		if c.addon != p.addon {
			fields = append(fields, "addon")
		}
		if c.block != p.block {
			fields = append(fields, "requested-block")
		}
		if c.name != p.name && t.kind == spectypes.APIInterfaceRest && (ambiguous || len(restCandidates(t, in.url, in.conn)) > 1) {
			s.restObserved++ // the ambiguity (reported above) really produced different answers in this run
			fields = nil
		}
		if len(fields) > 0 {
			// only a disagreement that reproduces is reported (the gRPC registry talks to a reflection server)
			c2 := parseOnce(t.cons, in, cext)
			p2 := parseOnce(t.prov, pin, pext)
			same := func(a, b outcome) bool {
				return a.ok == b.ok && a.name == b.name && a.cu == b.cu && a.addon == b.addon && a.block == b.block && fmt.Sprint(a.exts) == fmt.Sprint(b.exts)
			}
			if !same(c, c2) || !same(p, p2) {
				s.unstable++
				fields = nil
			}
		}
		for _, field := range fields {
			class := extDiff(c.exts, p.exts)
			if class == "" {
				class = apiClass(c.name)
			}
			s.violate(t, "disagree:"+t.kind+":"+field+":"+class, fmt.Sprintf("consumer and provider disagree on %s for %s: consumer{%s} provider{%s}", field, in, extra["consumer"], extra["provider"]), in, extra)
		}
		if len(s.samples) < 3 && (s.compared%977 == 1) {
			s.samples = append(s.samples, fmt.Sprintf("%s %s => api=%q cu=%d addon=%q block=%d ext=%v (both sides)", t.id, in, c.name, c.cu, c.addon, c.block, c.exts))
		}
	}
}

// ---------------------------------------------------------------------------------------------
// enumeration families

type family struct {
	name    string
	t       *target
	n       int64
	at      func(i int64) input
	modes []cmode // consumer-side modes (default modeDefault)
}

func (f *family) lat() []cmode {
	if f.modes != nil {
		return f.modes
	}
	return modeDefault
}

type chunk struct {
	f      *family
	lo, hi int64
}

type workerState struct {
	started atomic.Int64 // unix nano of the running parse, 0 = idle
	cur     atomic.Int64
	ck      atomic.Pointer[chunk]
	dead    atomic.Bool
	fin     atomic.Bool // whoever flips it (worker on exit, watchdog on abandon) releases the wait group slot
}

type suspect struct {
	f *family
	i int64
}

// runFamilies shards all chunks over `workers` goroutines with a hang watchdog.
func runFamilies(fams []*family, deadline time.Time) (*stats, bool, []suspect) {
	// slow parsers (REST compiles one regexp per api and request; gRPC asks the reflection server)
	// get small chunks and are scheduled first so that they are spread over all workers
	// order: corpus mutations, then framed and URI sequences, raw sequences last (a run cut short by
	// the deadline has then covered the semantically deepest families)
	prio := func(f *family) int {
		switch {
		case strings.Contains(f.name, "/corpus"):
			return 0
		case strings.Contains(f.name, "/raw/"):
			return 2
		}
		return 1
	}
	fams = append([]*family{}, fams...)
	sort.SliceStable(fams, func(i, j int) bool { return prio(fams[i]) < prio(fams[j]) })
	var chunks, fast []chunk
	for pr := 0; pr <= 2; pr++ {
		// within a priority class the chunks of all families are taken round-robin
		var perFam [][]chunk
		var perSlow []bool
		for _, f := range fams {
			if prio(f) != pr {
				continue
			}
			size := int64(chunkSize)
			slow := f.t.kind == spectypes.APIInterfaceRest || f.t.kind == spectypes.APIInterfaceGrpc
			if slow {
				size = 8
			}
			var cs []chunk
			for lo := int64(0); lo < f.n; lo += size {
				hi := lo + size
				if hi > f.n {
					hi = f.n
				}
				cs = append(cs, chunk{f, lo, hi})
			}
			perFam = append(perFam, cs)
			perSlow = append(perSlow, slow)
		}
		for round := 0; ; round++ {
			any := false
			for fi, cs := range perFam {
				if round < len(cs) {
					any = true
					if perSlow[fi] {
						chunks = append(chunks, cs[round])
					} else {
						fast = append(fast, cs[round])
					}
				}
			}
			if !any {
				break
			}
		}
	}
	// interleave: one slow chunk after every k fast ones
	slowChunks := chunks
	chunks = nil
	k := 1
	if len(slowChunks) > 0 && len(fast) > len(slowChunks) {
		k = len(fast) / len(slowChunks)
	}
	for len(slowChunks) > 0 || len(fast) > 0 {
		if len(slowChunks) > 0 {
			chunks = append(chunks, slowChunks[0])
			slowChunks = slowChunks[1:]
		}
		for j := 0; j < k && len(fast) > 0; j++ {
			chunks = append(chunks, fast[0])
			fast = fast[1:]
		}
	}
	var next atomic.Int64
	var mu sync.Mutex
	total := newStats()
	var suspects []suspect
	skip := map[string]bool{}
	var redo []chunk
	var hasSkips atomic.Bool
	exhaustive := atomic.Bool{}
	exhaustive.Store(true)
	var wg sync.WaitGroup
	var states []*workerState

	var spawn func()
	worker := func(ws *workerState) {
		defer func() {
			if ws.fin.CompareAndSwap(false, true) {
				wg.Done()
			}
		}()
		for {
			var ck chunk
			mu.Lock()
			if len(redo) > 0 {
				ck = redo[0]
				redo = redo[1:]
				mu.Unlock()
			} else {
				mu.Unlock()
				k := next.Add(1) - 1
				if k >= int64(len(chunks)) {
					return
				}
				ck = chunks[k]
			}
			if time.Now().After(deadline) {
				exhaustive.Store(false)
				return
			}
			ws.ck.Store(&ck)
			local := newStats()
			t0 := time.Now()
			for i := ck.lo; i < ck.hi; i++ {
				if hasSkips.Load() {
					mu.Lock()
					sk := skip[fmt.Sprintf("%s#%d", ck.f.name, i)]
					mu.Unlock()
					if sk {
						continue
					}
				}
				if (i-ck.lo)%64 == 63 && time.Now().After(deadline) {
					exhaustive.Store(false)
					return // the unfinished chunk is not counted
				}
				in := ck.f.at(i)
				ws.cur.Store(i)
				ws.started.Store(time.Now().UnixNano())
				evaluate(ck.f.t, in, ck.f.lat(), local)
				ws.started.Store(0)
				if ws.dead.Load() {
					return // abandoned by the watchdog: its chunk is redone by a replacement
				}
			}
			local.famNanos[famClass(ck.f.name)] += int64(time.Since(t0))
			mu.Lock()
			total.merge(local)
			mu.Unlock()
		}
	}
	spawn = func() {
		ws := &workerState{}
		mu.Lock()
		states = append(states, ws)
		mu.Unlock()
		wg.Add(1)
		go worker(ws)
	}
	for i := 0; i < workers; i++ {
		spawn()
	}
	done := make(chan struct{})
	go func() { wg.Wait(); close(done) }()
	tick := time.NewTicker(500 * time.Millisecond)
	defer tick.Stop()
loop:
	for {
		select {
		case <-done:
			break loop
		case <-tick.C:
			mu.Lock()
			cur := append([]*workerState{}, states...)
			mu.Unlock()
			for _, ws := range cur {
				st := ws.started.Load()
				if st != 0 && !ws.dead.Load() && time.Since(time.Unix(0, st)) > watchdog {
					if !ws.fin.CompareAndSwap(false, true) {
						continue
					}
					ws.dead.Store(true)
					ck := *ws.ck.Load()
					i := ws.cur.Load()
					mu.Lock()
					suspects = append(suspects, suspect{ck.f, i})
					skip[fmt.Sprintf("%s#%d", ck.f.name, i)] = true
					hasSkips.Store(true)
					redo = append(redo, ck)
					mu.Unlock()
					spawn()
					wg.Done() // the stuck goroutine is abandoned
				}
			}
		}
	}
	return total, exhaustive.Load(), suspects
}

func famClass(k string) string {
	if i := strings.Index(k, "/corpus"); i >= 0 {
		k = k[:i] + "/corpus*" + k[strings.LastIndex(k, "/"):]
	}
	if i := strings.LastIndex(k, "/seq"); i >= 0 {
		k = k[:i] + "/seq*"
	}
	return k
}

// ---------------------------------------------------------------------------------------------
// token machinery

var jsonAlphabetBase = []string{"{", "}", "[", "]", ",", ":", `"jsonrpc"`, `"2.0"`, `"method"`, `"params"`, `"id"`, `"0x1"`, `"latest"`, "1", "-1", "1e400", "null", "true", `"\u0000"`, " "}

func jsonAlphabet(extra ...string) []string {
	return append(append([]string{}, jsonAlphabetBase...), extra...)
}

var urlAlphabet = []string{"/", "?", "&", "=", "cosmos", "base", "tendermint", "v1beta1", "blocks", "latest", "17", "height", "%zz", "..", "%2F", " ", "#", ":", "-1", "0x1", "1e400", "%00", "block", "{height}"}

func tokenizeJSON(s string) []string {
	var out []string
	for i := 0; i < len(s); {
		c := s[i]
		switch {
		case c == ' ' || c == '\n' || c == '\t' || c == '\r':
			i++
		case strings.ContainsRune("{}[],:", rune(c)):
			out = append(out, string(c))
			i++
		case c == '"':
			j := i + 1
			for j < len(s) && s[j] != '"' {
				if s[j] == '\\' {
					j++
				}
				j++
			}
			if j < len(s) {
				j++
			}
			out = append(out, s[i:j])
			i = j
		default:
			j := i
			for j < len(s) && !strings.ContainsRune("{}[],: \n\t\r\"", rune(s[j])) {
				j++
			}
			out = append(out, s[i:j])
			i = j
		}
	}
	return out
}

func tokenizeURL(s string) []string {
	var out []string
	cur := ""
	for i := 0; i < len(s); i++ {
		if strings.ContainsRune("/?&=", rune(s[i])) {
			if cur != "" {
				out = append(out, cur)
				cur = ""
			}
			out = append(out, string(s[i]))
		} else {
			cur += string(s[i])
		}
	}
	if cur != "" {
		out = append(out, cur)
	}
	return out
}

func pow(b int64, e int) int64 {
	r := int64(1)
	for i := 0; i < e; i++ {
		r *= b
	}
	return r
}

// all sequences of exactly `length` tokens, wrapped by build()
func seqFamily(name string, t *target, alphabet []string, length int, build func(s string) input) *family {
	T := int64(len(alphabet))
	return &family{name: fmt.Sprintf("%s/seq%d", name, length), t: t, n: pow(T, length), at: func(i int64) input {
		var sb strings.Builder
		for k := 0; k < length; k++ {
			sb.WriteString(alphabet[i%T])
			i /= T
		}
		return build(sb.String())
	}}
}

func nest(tok string, open, close string) string {
	return strings.Repeat(open, nestDepth) + tok + strings.Repeat(close, nestDepth)
}

// mutation ops on one token: 0 delete, 1 duplicate, 2 nest 1000 deep, 3.. replace by alphabet token
func applyOp(tok string, op int, alphabet []string, open, close string) string {
	switch op {
	case 0:
		return ""
	case 1:
		return tok + tok
	case 2:
		return nest(tok, open, close)
	default:
		return alphabet[op-3]
	}
}

// mutFamilies: every 1-token mutation with the full alphabet (evaluated with the wide set of consumer
// latest blocks) and, when alpha2 != nil, every 2-token mutation with replacement tokens from alpha2.
func mutFamilies(name string, t *target, toks []string, alphabet, alpha2 []string, open, close string, build func(s string) input) []*family {
	n := int64(len(toks))
	M := int64(len(alphabet) + 3)
	fams := []*family{{name: name + "/mut1", t: t, n: n * M, modes: wideModes(t.kind), at: func(i int64) input {
		p, op := i/M, int(i%M)
		var sb strings.Builder
		for k, tk := range toks {
			if int64(k) == p {
				sb.WriteString(applyOp(tk, op, alphabet, open, close))
			} else {
				sb.WriteString(tk)
			}
		}
		return build(sb.String())
	}}}
	if alpha2 != nil && n >= 2 {
		M2 := int64(len(alpha2) + 3)
		pairs := n * (n - 1) / 2
		// pair index -> (p,q), p<q
		type pq struct{ p, q int }
		tab := make([]pq, 0, pairs)
		for p := 0; p < int(n); p++ {
			for q := p + 1; q < int(n); q++ {
				tab = append(tab, pq{p, q})
			}
		}
		fams = append(fams, &family{name: name + "/mut2", t: t, n: pairs * M2 * M2, at: func(i int64) input {
			pr := tab[i/(M2*M2)]
			r := i % (M2 * M2)
			op1, op2 := int(r/M2), int(r%M2)
			var sb strings.Builder
			for k, tk := range toks {
				switch k {
				case pr.p:
					sb.WriteString(applyOp(tk, op1, alpha2, open, close))
				case pr.q:
					sb.WriteString(applyOp(tk, op2, alpha2, open, close))
				default:
					sb.WriteString(tk)
				}
			}
			return build(sb.String())
		}})
	}
	return fams
}

// reduced replacement alphabets for 2-token mutations of long or slow (REST) requests
var (
	jsonAlphabetSmall = []string{"{", "]", `"latest"`, `"0x1"`, "-1", "1e400", "null", `"\u0000"`}
	urlAlphabetSmall  = []string{"/", "?", "latest", "17", "%zz", "..", " ", "-1"}
)

// byte-level mutations for protobuf bodies
var byteAlphabet = []string{"\x00", "\x08", "\x7f", "\x80", "\xff", "\x0a", "\x12"}

func bytesToToks(b []byte) []string {
	out := make([]string, len(b))
	for i := range b {
		out[i] = string(b[i : i+1])
	}
	return out
}

// ---------------------------------------------------------------------------------------------
// corpus

type corpusItem struct {
	kind string // target kind
	spec string
	url  string
	data string
	conn string
	meta []pairingtypes.Metadata
	mut  string // "data-json" | "url" | "data-bytes"
}

const (
	hash32 = "0x88df016429689c079f3b2f6ad39fa052532c56795b733da78a91ebe6a713944b"
	addr20 = "0x407d73d8a49eeb85d32cf465507dd71d507100c1"
)

func hdr(name, value string) []pairingtypes.Metadata {
	return []pairingtypes.Metadata{{Name: name, Value: value}}
}

func corpus() []corpusItem {
	j := func(spec, data string) corpusItem {
		return corpusItem{kind: "jsonrpc", spec: spec, url: "", data: data, conn: "POST", mut: "data-json"}
	}
	tj := func(spec, data string) corpusItem {
		return corpusItem{kind: "tendermintrpc", spec: spec, url: "", data: data, conn: "", mut: "data-json"}
	}
	tu := func(spec, url string) corpusItem {
		return corpusItem{kind: "tendermintrpc", spec: spec, url: url, data: "", conn: "", mut: "url"}
	}
	r := func(spec, url string, meta []pairingtypes.Metadata) corpusItem {
		return corpusItem{kind: "rest", spec: spec, url: url, data: "", conn: "GET", meta: meta, mut: "url"}
	}
	g := func(spec, url, data, mut string, meta []pairingtypes.Metadata) corpusItem {
		return corpusItem{kind: "grpc", spec: spec, url: url, data: data, conn: "", meta: meta, mut: mut}
	}
	return []corpusItem{
		// --- JSON-RPC (ETH1)
		j("ETH1", `{"jsonrpc":"2.0","id":1,"method":"eth_blockNumber","params":[]}`),
		j("ETH1", `{"jsonrpc":"2.0","id":1,"method":"eth_chainId"}`),
		j("ETH1", `{"jsonrpc":"2.0","id":1,"method":"eth_getBalance","params":["`+addr20+`","latest"]}`),
		j("ETH1", `{"jsonrpc":"2.0","id":1,"method":"eth_getBalance","params":["`+addr20+`"]}`),
		j("ETH1", `{"jsonrpc":"2.0","id":1,"method":"eth_getBlockByNumber","params":[]}`),
		j("ETH1", `{"jsonrpc":"2.0","id":"a","method":"eth_getBalance","params":["`+addr20+`","0x10"]}`),
		j("ETH1", `{"jsonrpc":"2.0","id":1,"method":"eth_getBalance","params":["`+addr20+`","0x3e0"]}`),
		j("ETH1", `{"jsonrpc":"2.0","id":1,"method":"eth_getBlockByNumber","params":["0x3e6",true]}`),
		j("ETH1", `{"jsonrpc":"2.0","id":1,"method":"eth_getBlockByNumber","params":["earliest",false]}`),
		j("ETH1", `{"jsonrpc":"2.0","id":1,"method":"eth_getBlockByHash","params":["`+hash32+`",false]}`),
		j("ETH1", `{"jsonrpc":"2.0","id":1,"method":"eth_call","params":[{"to":"`+addr20+`","data":"0x70a08231"},"latest"]}`),
		j("ETH1", `{"jsonrpc":"2.0","id":1,"method":"eth_call","params":[{"to":"`+addr20+`","data":"0x70a08231"},"0x3e0"]}`),
		j("ETH1", `{"jsonrpc":"2.0","id":1,"method":"eth_call","params":[{"to":"`+addr20+`"},{"blockHash":"`+hash32+`"}]}`),
		j("ETH1", `{"jsonrpc":"2.0","id":1,"method":"eth_getLogs","params":[{"fromBlock":"0x1","toBlock":"0x3e7","address":"`+addr20+`"}]}`),
		j("ETH1", `{"jsonrpc":"2.0","id":1,"method":"eth_getTransactionReceipt","params":["`+hash32+`"]}`),
		j("ETH1", `{"jsonrpc":"2.0","id":1,"method":"eth_getProof","params":["`+addr20+`",["0x0"],"finalized"]}`),
		j("ETH1", `{"jsonrpc":"2.0","id":1,"method":"debug_traceCall","params":[{"to":"`+addr20+`"},"0x3e0",{}]}`),
		j("ETH1", `{"jsonrpc":"2.0","id":1,"method":"trace_block","params":["0x2"]}`),
		j("ETH1", `{"jsonrpc":"2.0","id":1,"method":"trace_replayBlockTransactions","params":["latest",["trace"]]}`),
		j("ETH1", `{"jsonrpc":"2.0","id":1,"method":"eth_sendUserOperation","params":[{},"`+addr20+`"]}`),
		j("ETH1", `{"jsonrpc":"2.0","id":1,"method":"no_such_method","params":[1]}`),
		j("ETH1", `[{"jsonrpc":"2.0","id":1,"method":"eth_chainId","params":[]},{"jsonrpc":"2.0","id":2,"method":"eth_getBalance","params":["`+addr20+`","0x5"]},{"jsonrpc":"2.0","id":3,"method":"eth_blockNumber"}]`),
		j("ETH1", `[{"jsonrpc":"2.0","id":1,"method":"eth_getBlockByNumber","params":["0x3e0",false]}]`),
		j("ETH1", `[{"jsonrpc":"2.0","id":1,"method":"debug_traceCall","params":[{},"latest"]},{"jsonrpc":"2.0","id":2,"method":"eth_call","params":[{},"0x3e0"]}]`),
		// --- JSON-RPC of other families: generic (jq) parsers, dictionary-or-ordered, internal paths
		j("NEAR", `{"jsonrpc":"2.0","id":1,"method":"block","params":{"finality":"final"}}`),
		j("NEAR", `{"jsonrpc":"2.0","id":1,"method":"block","params":{"block_id":17}}`),
		j("NEAR", `{"jsonrpc":"2.0","id":1,"method":"block","params":[990]}`),
		j("NEAR", `{"jsonrpc":"2.0","id":1,"method":"query","params":{"request_type":"view_account","block_id":5,"account_id":"a.near"}}`),
		j("SOLANA", `{"jsonrpc":"2.0","id":1,"method":"getBlock","params":[5,{"encoding":"json","maxSupportedTransactionVersion":0}]}`),
		j("SOLANA", `{"jsonrpc":"2.0","id":1,"method":"getBalance","params":["83astBRguLMdt2h5U1Tpdq5tjFoJ6noeGwaY3mDLVcri",{"commitment":"finalized"}]}`),
		j("STRK", `{"jsonrpc":"2.0","id":1,"method":"starknet_getBlockWithTxs","params":{"block_id":{"block_number":5}}}`),
		j("STRK", `{"jsonrpc":"2.0","id":1,"method":"starknet_getBlockWithTxs","params":["latest"]}`),
		// --- Tendermint RPC, JSON and URI (LAV1, COSMOSHUB)
		tj("LAV1", `{"jsonrpc":"2.0","id":1,"method":"status","params":[]}`),
		tj("LAV1", `{"jsonrpc":"2.0","id":1,"method":"block","params":{"height":"5"}}`),
		tj("LAV1", `{"jsonrpc":"2.0","id":1,"method":"block","params":["990"]}`),
		tj("COSMOSHUB", `{"jsonrpc":"2.0","id":1,"method":"abci_query","params":{"path":"/a","data":"00","height":"7","prove":false}}`),
		tj("COSMOSHUB", `{"jsonrpc":"2.0","id":1,"method":"blockchain","params":["1","20"]}`),
		tj("LAV1", `{"jsonrpc":"2.0","id":1,"method":"tx","params":{"hash":"`+hash32[2:]+`","prove":true}}`),
		tj("LAV1", `[{"jsonrpc":"2.0","id":1,"method":"block","params":["3"]},{"jsonrpc":"2.0","id":2,"method":"status"},{"jsonrpc":"2.0","id":3,"method":"block","params":{"height":"999"}}]`),
		tu("LAV1", `status?`),
		tu("LAV1", `block?height=5`),
		tu("COSMOSHUB", `abci_query?path="/a"&data=00&height=7&prove=false`),
		tu("COSMOSHUB", `tx?hash=`+hash32+`&prove=true`),
		// --- REST (LAV1, COSMOSHUB)
		r("LAV1", `/cosmos/base/tendermint/v1beta1/blocks/latest?`, nil),
		r("LAV1", `/cosmos/base/tendermint/v1beta1/blocks/17?`, nil),
		r("COSMOSHUB", `/cosmos/base/tendermint/v1beta1/validatorsets/990?pagination.limit=1`, nil),
		r("COSMOSHUB", `/cosmos/bank/v1beta1/balances/cosmos1abc?pagination.limit=1&height=3`, hdr("x-cosmos-block-height", "5")),
		r("COSMOSHUB", `/cosmos/tx/v1beta1/txs/`+hash32[2:]+`?`, hdr("X-Cosmos-Block-Height", "latest")),
		r("LAV1", `/lavanet/lava/spec/show_all_chains?`, hdr("x-cosmos-block-height", "abc")),
		{kind: "rest", spec: "COSMOSHUB", url: `/cosmos/tx/v1beta1/simulate?`, data: `{"tx_bytes":"AA=="}`, conn: "POST", mut: "data-json"},
		{kind: "rest", spec: "COSMOSHUB", url: `/cosmos/tx/v1beta1/txs?`, data: `{"tx_bytes":"AA==","mode":"BROADCAST_MODE_SYNC"}`, conn: "POST", mut: "url"},
		// --- gRPC (LAV1, COSMOSHUB)
		g("LAV1", `cosmos.base.tendermint.v1beta1.Service/GetLatestBlock`, ``, "url", nil),
		g("LAV1", `cosmos.base.tendermint.v1beta1.Service/GetBlockByHeight`, `{"height":"5"}`, "data-json", nil),
		g("COSMOSHUB", `cosmos.base.tendermint.v1beta1.Service/GetBlockByHeight`, "\x08\x05", "data-bytes", nil),
		g("COSMOSHUB", `cosmos.base.tendermint.v1beta1.Service/GetValidatorSetByHeight`, "\x08\xde\x07\x12\x04\x10\x01\x18\x02", "data-bytes", nil),
		g("COSMOSHUB", `cosmos.bank.v1beta1.Query/Balance`, `{"address":"cosmos1abc","denom":"uatom"}`, "data-json", hdr("x-cosmos-block-height", "12")),
		g("COSMOSHUB", `cosmos.tx.v1beta1.Service/GetTx`, `{"hash":"`+hash32[2:]+`"}`, "url", hdr("grpc-metadata-x-cosmos-block-height", "-4")),
	}
}

// ---------------------------------------------------------------------------------------------
// the check

type bounds struct {
	rawLen   int // raw JSON token sequences up to this length (JSON-RPC, Tendermint JSON)
	frameLen int // framed params sequences
	urlLen   int // URL token sequences (Tendermint URI)
	restLen  int // URL token sequences on the REST parser (regex matching per api: milliseconds per parse)
	grpcLen  int
	// 2-token mutations: requests with at most fullTok tokens use the full alphabet, those with at most
	// smallTok tokens the reduced one, longer ones only 1-token mutations; REST: reduced alphabet or none
	fullTok, smallTok int
	restDouble        bool
	deadline          time.Duration
}

func (b bounds) alpha2(kind string, ntok int, full, small []string) []string {
	switch {
	case kind == spectypes.APIInterfaceRest:
		if b.restDouble {
			return small
		}
		return nil
	case ntok <= b.fullTok:
		return full
	case ntok <= b.smallTok:
		return small
	}
	return nil
}

func buildFamilies(b bounds, tg func(kind, spec string) *target) []*family {
	var fams []*family
	jsonIn := func(conn string) func(string) input {
		return func(s string) input { return input{url: "", data: []byte(s), conn: conn} }
	}
	// (a) raw token sequences
	eth := tg("jsonrpc", "ETH1")
	tml := tg("tendermintrpc", "LAV1")
	rest := tg("rest", "LAV1")
	grpc := tg("grpc", "LAV1")
	ethAlpha := jsonAlphabet(`"eth_getBalance"`)
	tmAlpha := jsonAlphabet(`"block"`, `"height"`)
	for l := 0; l <= b.rawLen; l++ {
		fams = append(fams, seqFamily("jsonrpc:ETH1/raw", eth, ethAlpha, l, jsonIn("POST")))
	}
	for l := 0; l <= b.rawLen-1; l++ {
		fams = append(fams, seqFamily("tendermintrpc:LAV1/raw", tml, tmAlpha, l, jsonIn("")))
	}
	// framed: valid envelope, every token sequence as params
	frame := func(pre, post, conn string) func(string) input {
		return func(s string) input { return input{url: "", data: []byte(pre + s + post), conn: conn} }
	}
	for _, m := range []string{"eth_getBalance", "eth_getBlockByNumber", "eth_call", "eth_getLogs", "trace_block", "eth_getProof"} {
		for l := 0; l <= b.frameLen; l++ {
			fams = append(fams, seqFamily("jsonrpc:ETH1/frame:"+m, eth, ethAlpha, l, frame(`{"jsonrpc":"2.0","id":1,"method":"`+m+`","params":`, `}`, "POST")))
		}
	}
	for l := 0; l <= b.frameLen; l++ {
		fams = append(fams, seqFamily("jsonrpc:ETH1/frame:batch", eth, ethAlpha, l, frame(`[{"jsonrpc":"2.0","id":1,"method":"eth_blockNumber","params":[]},{"jsonrpc":"2.0","id":2,"method":"eth_getBlockByNumber","params":`, `}]`, "POST")))
	}
	for _, m := range []string{"block", "abci_query", "blockchain", "tx"} {
		for l := 0; l <= b.frameLen; l++ {
			fams = append(fams, seqFamily("tendermintrpc:LAV1/frame:"+m, tml, tmAlpha, l, frame(`{"jsonrpc":"2.0","id":1,"method":"`+m+`","params":`, `}`, "")))
		}
	}
	// (c) URL token sequences: Tendermint URI, REST, gRPC method names
	for l := 0; l <= b.urlLen; l++ {
		fams = append(fams, seqFamily("tendermintrpc:LAV1/uri", tml, urlAlphabet, l, func(s string) input { return input{url: s, conn: ""} }))
		if l < b.urlLen {
			fams = append(fams, seqFamily("tendermintrpc:LAV1/uri:block?", tml, urlAlphabet, l, func(s string) input { return input{url: "block?" + s, conn: ""} }))
		}
	}
	for l := 0; l <= b.restLen; l++ {
		fams = append(fams, seqFamily("rest:LAV1/url", rest, urlAlphabet, l, func(s string) input { return input{url: s, conn: "GET"} }))
		if l < b.restLen {
			fams = append(fams, seqFamily("rest:LAV1/url:blocks/", rest, urlAlphabet, l, func(s string) input {
				return input{url: "/cosmos/base/tendermint/v1beta1/blocks/" + s, conn: "GET"}
			}))
		}
	}
	grpcAlpha := jsonAlphabet(`"height"`, `"5"`)
	for l := 0; l <= b.grpcLen; l++ {
		fams = append(fams, seqFamily("grpc:LAV1/json-body", grpc, grpcAlpha, l, func(s string) input {
			return input{url: "cosmos.base.tendermint.v1beta1.Service/GetBlockByHeight", data: []byte(s), conn: ""}
		}))
		fams = append(fams, seqFamily("grpc:LAV1/method", grpc, []string{"cosmos", ".", "/", "base", "tendermint", "v1beta1", "Service", "GetBlockByHeight", "GetLatestBlock", " ", "\x00", "%"}, l, func(s string) input {
			return input{url: s, data: []byte("\x08\x05"), conn: ""}
		}))
	}
	// (b) 1- and 2-token mutations of the corpus
	for ci, c := range corpus() {
		t := tg(c.kind, c.spec)
		c := c
		name := fmt.Sprintf("%s/corpus%02d", t.id, ci)
		switch c.mut {
		case "data-json":
			alpha := ethAlpha
			if c.kind != "jsonrpc" {
				alpha = tmAlpha
			}
			toks := tokenizeJSON(c.data)
			fams = append(fams, mutFamilies(name, t, toks, alpha, b.alpha2(c.kind, len(toks), alpha, jsonAlphabetSmall), "[", "]", func(s string) input {
				return input{url: c.url, data: []byte(s), conn: c.conn, meta: c.meta}
			})...)
		case "url":
			toks := tokenizeURL(c.url)
			fams = append(fams, mutFamilies(name, t, toks, urlAlphabet, b.alpha2(c.kind, len(toks), urlAlphabet, urlAlphabetSmall), "/", "/..", func(s string) input {
				return input{url: s, data: []byte(c.data), conn: c.conn, meta: c.meta}
			})...)
		case "data-bytes":
			fams = append(fams, mutFamilies(name, t, bytesToToks([]byte(c.data)), byteAlphabet, byteAlphabet, "\x0a\x7f", "", func(s string) input {
				return input{url: c.url, data: []byte(s), conn: c.conn, meta: c.meta}
			})...)
		}
		// header value mutations for the items that carry a header
		if len(c.meta) > 0 {
			vals := []string{"", "0", "5", "latest", "earliest", "-1", "0x10", "1e400", "99999999999999999999", "abc", "\x00", strings.Repeat("9", 5000)}
			names := []string{c.meta[0].Name, strings.ToUpper(c.meta[0].Name), "x-unknown", ""}
			fams = append(fams, &family{name: name + "/hdr", t: t, n: int64(len(vals) * len(names)), at: func(i int64) input {
				return input{url: c.url, data: []byte(c.data), conn: c.conn, meta: hdr(names[int(i)%len(names)], vals[int(i)/len(names)])}
			}})
		}
	}
	return fams
}

func run(run *ev.Run) {
	quiet()
	b := bounds{rawLen: 5, frameLen: 4, urlLen: 4, restLen: 2, grpcLen: 3, fullTok: 0, smallTok: 40, restDouble: false, deadline: 75 * time.Second}
	if ev.Tier() == "thorough" {
		b = bounds{rawLen: 6, frameLen: 5, urlLen: 5, restLen: 3, grpcLen: 3, fullTok: 40, smallTok: 1000, restDouble: true, deadline: 17 * time.Minute}
	}
	if v := os.Getenv("C38_SMALL"); v != "" { // development aid
		b = bounds{rawLen: 3, frameLen: 2, urlLen: 2, restLen: 1, grpcLen: 2, deadline: 60 * time.Second}
	}
	if v := os.Getenv("C38_DEADLINE_S"); v != "" { // development aid: measure a complete run on a loaded machine
		var sec int
		fmt.Sscan(v, &sec)
		if sec > 0 {
			b.deadline = time.Duration(sec) * time.Second
		}
	}
	start := time.Now()
	targets := map[string]*target{}
	var terr error
	grpcSkipped := ""
	tg := func(kind, spec string) *target {
		id := kind + ":" + spec
		if t, ok := targets[id]; ok {
			return t
		}
		t, err := newTarget(spec, kind)
		if err != nil {
			if kind == spectypes.APIInterfaceGrpc {
				// no loopback reflection server in this environment: gRPC families are skipped
				grpcSkipped = err.Error()
			} else {
				terr = fmt.Errorf("%s: %w", id, err)
			}
			t = &target{id: id, kind: kind, spec: spec}
		}
		targets[id] = t
		return t
	}
	fams := buildFamilies(b, tg)
	{
		kept := fams[:0]
		for _, f := range fams {
			if f.t.cons != nil {
				kept = append(kept, f)
			}
		}
		fams = kept
	}
	quiet()
	if terr != nil {
		run.Violate(ev.Violation{Key: "harness:target-setup", What: "cannot build chain parser: " + terr.Error()})
		return
	}
	defer func() {
		for _, t := range targets {
			for _, c := range t.closers {
				if c != nil {
					c()
				}
			}
		}
	}()
	// the corpus itself must parse on both sides (vacuity guard): evaluated first, single-threaded
	guard := newStats()
	nCorpus := 0
	for _, c := range corpus() {
		t := tg(c.kind, c.spec)
		if t.cons == nil {
			continue
		}
		nCorpus++
		before := guard.compared
		evaluate(t, input{url: c.url, data: []byte(c.data), conn: c.conn, meta: c.meta}, wideModes(t.kind), guard)
		if guard.compared == before && len(guard.viol) == 0 {
			run.Violate(ev.Violation{Key: "harness:corpus-item-rejected", What: fmt.Sprintf("corpus request is not accepted by %s: url=%q data=%q", t.id, c.url, c.data)})
		}
	}
	var total int64
	for _, f := range fams {
		total += f.n
	}
	setup := time.Since(start)
	if os.Getenv("C38_DRY") != "" {
		cls := map[string]int64{}
		for _, f := range fams {
			cls[famClass(f.name)] += f.n
		}
		keys := []string{}
		for k := range cls {
			keys = append(keys, k)
		}
		sort.Strings(keys)
		for _, k := range keys {
			fmt.Printf("%12d %s\n", cls[k], k)
		}
		fmt.Println("total", total)
		os.Exit(0)
	}
	st, exhaustive, suspects := runFamilies(fams, start.Add(b.deadline))
	st.merge(guard)
	run.Set("enumeration_s", time.Since(start).Seconds()-setup.Seconds())

	// hang suspects: must reproduce 5 times, each in a fresh goroutine with the generous watchdog
	for _, sp := range suspects {
		in := sp.f.at(sp.i)
		hung := 0
		for k := 0; k < timeoutRetry; k++ {
			done := make(chan struct{})
			go func() { evaluate(sp.f.t, in, sp.f.lat(), newStats()); close(done) }()
			select {
			case <-done:
			case <-time.After(watchdog):
				hung++
			}
		}
		if hung == timeoutRetry {
			run.Violate(ev.Violation{Key: "timeout:" + sp.f.t.kind, What: fmt.Sprintf("parsing does not return within %s (reproduced %d times) on %s", watchdog, timeoutRetry, in), Replay: in.replay()})
		}
	}
	for _, v := range st.viol {
		run.Violate(v)
	}
	famNames := map[string]int64{}
	for _, f := range fams {
		famNames[famClass(f.name)] += f.n
	}
	famCPU := map[string]float64{}
	for k, v := range st.famNanos {
		famCPU[k] = float64(v/1e6) / 1e3
	}
	run.Set("family_cpu_s", famCPU)
	perT := []string{}
	for k, v := range st.perTarget {
		perT = append(perT, fmt.Sprintf("%s: %d inputs, %d consumer-accepted", k, v, st.perTargetOK[k]))
	}
	sort.Strings(perT)
	run.Set("evaluations", st.evals)
	run.Set("inputs_generated", total)
	run.Set("parser_invocations", st.parses)
	run.Set("consumer_accepted", st.consOK)
	run.Set("consumer_rejected_cleanly", st.consErr)
	run.Set("both_sides_compared", st.compared)
	run.Set("compared_with_extensions", st.withExt)
	run.Set("distinct_error_classes", int64(len(st.errClasses)))
	run.Set("distinct_nontrivial", int64(len(st.outcomes)))
	run.Set("rule", "inputs are enumerated exhaustively per family (all token sequences of each length over the alphabet; every 1- and 2-token delete/duplicate/nest-1000/replace-by-each-alphabet-token mutation of each corpus request; header name/value grid); an input is non-trivial when the consumer-side parse accepts it so that the CU>=1 check and the consumer/provider comparison of api, CU, add-on and requested block are really executed; distinct_nontrivial counts distinct (parser, api name, CU, add-on, requested block, extensions) outcomes among them")
	run.Set("exhaustive", exhaustive && st.evals == total+int64(nCorpus)-int64(len(suspects)))
	run.Set("families", famNames)
	run.Set("per_target", perT)
	run.Set("hang_suspects", int64(len(suspects)))
	if grpcSkipped != "" {
		run.Set("grpc_skipped", grpcSkipped)
	}
	amb := []string{}
	for k := range st.restAmbiguous {
		amb = append(amb, k)
	}
	sort.Strings(amb)
	run.Set("rest_ambiguous_pattern_sets", amb)
	run.Set("rest_ambiguity_observed_as_disagreement", st.restObserved)
	run.Set("unstable_disagreements_ignored", st.unstable)
	var ru syscall.Rusage
	if syscall.Getrusage(syscall.RUSAGE_SELF, &ru) == nil {
		run.Set("cpu_s", float64(ru.Utime.Sec+ru.Stime.Sec))
	}
	run.Set("setup_s", setup.Seconds())
	run.Set("bound", fmt.Sprintf("raw JSON token sequences len<=%d (|alphabet|=%d), framed params sequences len<=%d for 7 JSON-RPC and 4 Tendermint frames, URI token sequences len<=%d (|alphabet|=%d), REST url sequences len<=%d, gRPC body/method sequences len<=%d; all 1-token mutations (delete, duplicate, nest %d deep, replace by each alphabet token) of %d corpus requests with consumer latest block in %v x {rule-based, +archive directive, none directive}; all 2-token mutations with the full alphabet for requests of <=%d tokens, with an 8-token alphabet for <=%d tokens (REST: %v), consumer latest block %v; header name/value grid; provider with all add-ons and extensions", b.rawLen, len(jsonAlphabetBase)+1, b.frameLen, b.urlLen, len(urlAlphabet), b.restLen, b.grpcLen, nestDepth, len(corpus()), latestWide, b.fullTok, b.smallTok, b.restDouble, modeDefault))
	for _, s := range st.samples {
		run.Sample(s)
	}
	run.Assume("parsers are built from the checked-in specs ETH1, NEAR, SOLANA, STRK (mainnet-1), COSMOSHUB and LAV1 (testnet-2) with a policy that allows every add-on and extension of the spec on both sides; gRPC descriptors come from the repository's local reflection mock (CreateChainLibMocks)")
	run.Assume("the provider-side parse receives exactly what the consumer puts into RelayPrivateData: url, data, connection type, the headers kept by the consumer parse and the names of the extensions it chose")
}

func init() {
	reg.Register(reg.Check{Property: "C38", Level: "exploration", Run: run})
}
