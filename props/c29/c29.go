// Package c29: provider reward proofs keep the best proof and are claimed in window — explicit-state
// search over event histories on the real RewardServer + RewardDB (protocol/rpcprovider/rewardserver),
// with a crash-point enumeration over every prefix of the DB-operation log of every explored history.
//
// Harness: the real RewardServer (built without its background loop, hook verif_export.go), the real
// RewardDB over a harness DB that logs every operation, a mock RewardsTxSender whose TxRelayPayment
// answers are explorer choices. Everything nondeterministic inside sendRewardsClaim is pinned:
//   - the two claim goroutines (new proofs / retried proofs) are serialised by the mock (the second one is
//     released only after the first goroutine has exited), the order being an explorer choice;
//   - Go map iteration decides the order of same-session-id proofs inside one claim; the requested order
//     (ascending / descending) is an explorer choice and is enforced by repeating the claim on a copy of the
//     server (hook VerifClone) until the real code produced it.
package c29

import (
	"bytes"
	"context"
	"crypto/sha256"
	"encoding/json"
	"fmt"
	"os"
	"runtime"
	"sort"
	"strconv"
	"strings"
	"sync"
	"time"

	terderminttypes "github.com/cometbft/cometbft/abci/types"
	"github.com/lavanet/lava/v5/protocol/rpcprovider/rewardserver"
	"github.com/lavanet/lava/v5/utils"
	"github.com/lavanet/lava/v5/utils/sigs"
	pairingtypes "github.com/lavanet/lava/v5/x/pairing/types"

	"verifmc/engine/bfs"
	"verifmc/engine/ev"
	"verifmc/engine/reg"
)

const (
	specID     = "LAV1"
	epochSize  = 10
	blockDist  = 20                                                   // GetEpochSizeMultipliedByRecommendedEpochNumToCollectPayment (epoch size × 2)
	startEpoch = 30                                                   // relays of epoch 20 are still valid (20 > 30-20), so proofs of both epochs can arrive from the start
	maxSubs    = 1 + rewardserver.MaxPaymentRequestsRetiresForSession // property: once plus at most the configured retries
	giveUp     = rewardserver.MaxPaymentRequestsRetiresForSession     // failed submissions after which dropping a proof is by design
	hugeSnap   = 1 << 30                                              // snapshot threshold / timeout out of reach
)

var (
	proofEpochs = [2]uint64{20, 30}
	sessions    = [2]uint64{7, 8}
	cus         = [3]uint64{10, 20, 30}
	memLevels   = [3]uint64{20, 30, 40} // earliest block in memory
)

// ---- proof identities: K = ((epochIdx*2)+consumerIdx)*2+sessionIdx
func kOf(ei, ci, si int) int { return (ei*2+ci)*2 + si }
func kEpoch(k int) uint64    { return proofEpochs[k/4] }
func kCons(k int) int        { return (k / 2) % 2 }
func kSess(k int) uint64     { return sessions[k%2] }
func kRank(k int) int        { return k / 2 } // (epoch, consumer)
func kName(k int) string {
	return fmt.Sprintf("e%d/c%d/s%d", k/4+1, kCons(k)+1, kSess(k))
}

type pg struct{ k, g int } // a gathering generation of proof identity k

type genstat struct{ subs, fails, oks int }

type shouldEnt struct {
	cu     uint64
	g      pg
	lostBy string // set when a DB delete that is neither a payment, an expiry nor a give-up of this proof removed it
}

// ---- logging DB -----------------------------------------------------------------------------------
type dbop struct {
	desc   string
	after  map[string][]byte // DB content after the op
	should map[int]shouldEnt // proofs a restart must bring back after this op
}

type memDB struct {
	s      *scen // nil: plain DB of a crash probe
	data   map[string][]byte
	newOps []dbop
	nops   int
}

func cloneData(m map[string][]byte) map[string][]byte {
	c := make(map[string][]byte, len(m))
	for k, v := range m {
		c[k] = v
	}
	return c
}

func cloneShould(m map[int]shouldEnt) map[int]shouldEnt {
	c := make(map[int]shouldEnt, len(m))
	for k, v := range m {
		c[k] = v
	}
	return c
}

func (d *memDB) Key() string { return specID }
func (d *memDB) Save(e *rewardserver.DBEntry) error {
	return d.BatchSave([]*rewardserver.DBEntry{e})
}

func (d *memDB) BatchSave(es []*rewardserver.DBEntry) error {
	var ks []string
	for _, e := range es {
		d.data[e.Key] = append([]byte{}, e.Data...)
		ks = append(ks, e.Key)
		if d.s != nil {
			d.s.onSave(e.Key, e.Data)
		}
	}
	sort.Strings(ks)
	d.logOp("batchSave{" + strings.Join(ks, ",") + "}")
	return nil
}

func (d *memDB) FindOne(key string) ([]byte, error) {
	if v, ok := d.data[key]; ok {
		return v, nil
	}
	return nil, fmt.Errorf("key not found")
}

func (d *memDB) FindAll() (map[string][]byte, error) { return cloneData(d.data), nil }

func (d *memDB) Delete(key string) error {
	if _, ok := d.data[key]; ok {
		delete(d.data, key)
		if d.s != nil {
			d.s.onDelete(key, "key")
		}
	}
	d.logOp("delete{" + key + "}")
	return nil
}

func (d *memDB) DeletePrefix(prefix string) error {
	shape := "epoch-prefix"
	if strings.Contains(prefix, ".") {
		shape = "proof-key"
	}
	var hit []string
	for k := range d.data {
		if strings.HasPrefix(k, prefix) {
			hit = append(hit, k)
		}
	}
	sort.Strings(hit)
	for _, k := range hit {
		delete(d.data, k)
		if d.s != nil {
			d.s.onDelete(k, shape)
		}
	}
	d.logOp("deletePrefix{" + prefix + "}")
	return nil
}

func (d *memDB) Close() error { return nil }

func (d *memDB) logOp(desc string) {
	d.nops++
	if d.s == nil {
		return
	}
	d.newOps = append(d.newOps, dbop{desc: d.s.cause + ":" + desc, after: cloneData(d.data), should: cloneShould(d.s.should)})
}

// ---- goroutine inspection (used only to serialise the two claim goroutines of sendRewardsClaim) ------
func goid() int64 {
	var buf [64]byte
	n := runtime.Stack(buf[:], false)
	return blockID(string(buf[:n]))
}

func blockID(b string) int64 {
	if !strings.HasPrefix(b, "goroutine ") {
		return -1
	}
	b = b[len("goroutine "):]
	i := strings.IndexByte(b, ' ')
	if i < 0 {
		return -1
	}
	id, err := strconv.ParseInt(b[:i], 10, 64)
	if err != nil {
		return -1
	}
	return id
}

var stackBuf = make([]byte, 1<<15)

func allStacks() []string {
	for {
		n := runtime.Stack(stackBuf, true)
		if n < len(stackBuf) {
			return strings.Split(string(stackBuf[:n]), "\n\n")
		}
		stackBuf = make([]byte, 2*len(stackBuf))
	}
}

// ---- mock tx sender of the explored server ---------------------------------------------------------
const (
	kindNew   = 0
	kindRetry = 1
)

type txCall struct {
	kind   int
	relays []*pairingtypes.RelaySession
	ok     bool
}

type txMock struct {
	s  *scen
	mu sync.Mutex
	// per claim
	preRetry   map[*pairingtypes.RelaySession]bool
	claimer    int64
	newFirst   bool
	okByKind   [2]bool
	calls      []txCall
	viols      []ev.Violation
	claimEpoch uint64
	baseG      int // number of goroutines right before the claim
}

func (m *txMock) GetEpochSizeMultipliedByRecommendedEpochNumToCollectPayment(context.Context) (uint64, error) {
	return blockDist, nil
}
func (m *txMock) EarliestBlockInMemory(context.Context) (uint64, error) { return m.s.mem(), nil }
func (m *txMock) GetEpochSize(context.Context) (uint64, error)          { return epochSize, nil }
func (m *txMock) LatestBlock() int64                                    { return int64(m.s.E) + 1 }
func (m *txMock) GetAverageBlockTime() time.Duration                    { return time.Millisecond }

func (m *txMock) TxRelayPayment(_ context.Context, relays []*pairingtypes.RelaySession, _ string, _ []*pairingtypes.LatestBlockReport) error {
	kind := kindNew
	if len(relays) > 0 && m.preRetry[relays[0]] {
		kind = kindRetry
	}
	second := (kind == kindRetry) == m.newFirst
	if second {
		// released only when the claimer has spawned everything (it is parked in WaitGroup.Wait) and the
		// other claim goroutine, if any, has completely finished (its retry-table update included)
		me := goid()
		for spin := 0; ; spin++ {
			// cheap pre-check (no stop-the-world): only the claimer and this goroutine are left; the stack
			// inspection below stays the deciding test
			if spin > 2000 || runtime.NumGoroutine() <= m.baseG+1 {
				parked, sibs := false, 0
				for _, b := range allStacks() {
					id := blockID(b)
					switch {
					case id == m.claimer:
						parked = strings.Contains(b, "sync.(*WaitGroup).Wait")
					case id == me:
					case strings.Contains(b, "sendRewardsClaim"):
						sibs++
					}
				}
				if parked && sibs == 0 {
					break
				}
			}
			if spin > 20_000_000 {
				panic("c29 harness: claim goroutine gate never opened")
			}
			if spin < 200 {
				runtime.Gosched()
			} else {
				time.Sleep(20 * time.Microsecond)
			}
		}
	}
	m.mu.Lock()
	defer m.mu.Unlock()
	ok := m.okByKind[kind]
	s := m.s
	m.calls = append(m.calls, txCall{kind: kind, relays: append([]*pairingtypes.RelaySession{}, relays...), ok: ok})
	for _, p := range relays {
		id, known := s.ptr[p]
		if !known {
			panic("c29 harness: TxRelayPayment with a proof object the harness never saw")
		}
		st := s.gs[id]
		if st == nil {
			st = &genstat{}
			s.gs[id] = st
		}
		st.subs++
		s.ks[id.k].subs++
		if !ok {
			st.fails++
			s.ks[id.k].fails++
		} else {
			st.oks++
			s.ks[id.k].oks++
		}
		e := uint64(p.Epoch)
		if e+blockDist > m.claimEpoch {
			m.viols = append(m.viols, ev.Violation{Property: "C29", Key: "submitted-while-epoch-still-active",
				What: fmt.Sprintf("TxRelayPayment at epoch update %d carries proof %s of epoch %d (> %d - %d)", m.claimEpoch, kName(id.k), e, m.claimEpoch, blockDist)})
		}
		if e < s.mem() {
			m.viols = append(m.viols, ev.Violation{Property: "C29", Key: "submitted-after-leaving-chain-memory",
				What: fmt.Sprintf("TxRelayPayment carries proof %s of epoch %d while the earliest block in memory is %d", kName(id.k), e, s.mem())})
		}
		if st.subs > maxSubs {
			// two shapes: the retry counter of this proof's session id agrees with the number of submissions (the
			// limit itself is too high) or it has lost count (it was reset or is shared)
			shape := "retry-counter-lost-count"
			for _, r := range s.srv.VerifDumpRetries() {
				if r.Session == p && r.Attempts == uint64(st.subs-1) {
					shape = "retry-counter-in-step"
				}
			}
			m.viols = append(m.viols, ev.Violation{Property: "C29", Key: "proof-submitted-more-than-1-plus-max-retries:" + shape,
				What: fmt.Sprintf("proof %s (cu %d) was submitted %d times in one process lifetime (limit 1+%d; %s)", kName(id.k), p.CuSum, st.subs, rewardserver.MaxPaymentRequestsRetiresForSession, shape)})
		}
		if ok {
			s.paidable[id.k] = append(s.paidable[id.k], p.CuSum)
		}
	}
	if !ok {
		return fmt.Errorf("tx failed (explorer choice)")
	}
	return nil
}

// ---- mock tx sender of a crash probe ------------------------------------------------------------------
type probeTx struct {
	mu   sync.Mutex
	E, M uint64
	subs []*pairingtypes.RelaySession
}

func (m *probeTx) GetEpochSizeMultipliedByRecommendedEpochNumToCollectPayment(context.Context) (uint64, error) {
	return blockDist, nil
}
func (m *probeTx) EarliestBlockInMemory(context.Context) (uint64, error) { return m.M, nil }
func (m *probeTx) GetEpochSize(context.Context) (uint64, error)          { return epochSize, nil }
func (m *probeTx) LatestBlock() int64                                    { return int64(m.E) + 1 }
func (m *probeTx) GetAverageBlockTime() time.Duration                    { return time.Millisecond }
func (m *probeTx) TxRelayPayment(_ context.Context, relays []*pairingtypes.RelaySession, _ string, _ []*pairingtypes.LatestBlockReport) error {
	m.mu.Lock()
	m.subs = append(m.subs, relays...)
	m.mu.Unlock()
	return nil
}

// ---- scenario ------------------------------------------------------------------------------------------
const (
	opProof = iota
	opClaim
	opSnapshot
	opPayment
	opAdvanceMem
	opRestart
)

type opdef struct {
	name string
	kind int
	k    int // proof identity (proof, payment)
	cui  int
	// claim variants
	okNew, okRetry bool
	desc           bool // same-session-id proofs inside the new claim appear in descending (epoch,consumer) order
	retryFirst     bool // the retry goroutine completes before the new-claims goroutine
}

type scen struct {
	ops   []opdef
	names []string
	tmpl  [8][3]*pairingtypes.RelaySession
	addr  [2]string
	addrK map[string]int // consumer address -> consumer index
	// signature -> consumer index of every proof the harness ever signs (identifies the signer of restored
	// proofs without another public-key recovery)
	sigCons map[string]int
	hasDB   bool // the alphabet contains snapshot, i.e. the DB can hold proofs

	// per-history state
	db       *memDB
	srv      *rewardserver.RewardServer
	tx       *txMock
	E        uint64
	mIdx     int
	life     int
	pending  [8]uint64
	gen      [8]int
	ptr      map[*pairingtypes.RelaySession]pg
	gs       map[pg]*genstat
	ks       [8]genstat // the same counters per proof identity (all generations of this process lifetime together)
	should   map[int]shouldEnt
	paidable [8][]uint64
	snapPtr  map[int]*pairingtypes.RelaySession
	cause    string
	path     []int

	// lazy replay: the engine replays the path from Reset() before every operation; the replay is skipped as
	// long as it walks along the history the real server is already in
	virt          []int // the history as the engine sees it since its last Reset
	lazy          bool  // the real state has not been synchronised with virt yet
	virtIsPrefix  bool  // virt is a prefix of path
	dirty         bool  // the real state does not correspond to path
	forkFlag      bool
	lastExpandKey string
	rebuilds      int
	orderRetries  int
}

// alphabet restricts the operation alphabet of a scenario (the full alphabet is the zero value).
type alphabet struct {
	cuIdx   []int        // indexes into cus; nil: all
	sessIdx []int        // indexes into sessions; nil: all
	kinds   map[int]bool // operation kinds; nil: all
}

func has(xs []int, x int) bool {
	if xs == nil {
		return true
	}
	for _, y := range xs {
		if y == x {
			return true
		}
	}
	return false
}

func newScen(al alphabet) *scen {
	utils.SetGlobalLoggingLevel("fatal") // errors are still built by the code under test, only the output is dropped
	s := &scen{addrK: map[string]int{}, sigCons: map[string]int{}}
	var keys [2]sigs.Account
	for ci := 0; ci < 2; ci++ {
		keys[ci] = sigs.GenerateDeterministicFloatingKey(bytes.NewReader([]byte(fmt.Sprintf("c29-consumer-%d--", ci+1))))
		s.addr[ci] = keys[ci].Addr.String()
		s.addrK[s.addr[ci]] = ci
	}
	for k := 0; k < 8; k++ {
		for cui, cu := range cus {
			p := &pairingtypes.RelaySession{
				SpecId:      specID,
				ContentHash: []byte{1},
				SessionId:   kSess(k),
				CuSum:       cu,
				Provider:    "lava@provider",
				RelayNum:    uint64(cui + 1), // never a multiple of the snapshot threshold
				Epoch:       int64(kEpoch(k)),
				LavaChainId: "lava",
			}
			sig, err := sigs.Sign(keys[kCons(k)].SK, *p)
			if err != nil {
				panic(err)
			}
			p.Sig = sig
			s.tmpl[k][cui] = p
			s.sigCons[string(sig)] = kCons(k)
		}
	}
	add := func(o opdef) {
		if al.kinds != nil && !al.kinds[o.kind] {
			return
		}
		if (o.kind == opProof || o.kind == opPayment) && !has(al.sessIdx, o.k%2) {
			return
		}
		s.ops = append(s.ops, o)
		s.names = append(s.names, o.name)
	}
	for k := 0; k < 8; k++ {
		for cui, cu := range cus {
			if !has(al.cuIdx, cui) {
				continue
			}
			add(opdef{name: fmt.Sprintf("proof(%s,cu=%d)", kName(k), cu), kind: opProof, k: k, cui: cui})
		}
	}
	txn := func(a, b bool) string {
		f := func(x bool) string {
			if x {
				return "ok"
			}
			return "fail"
		}
		if a == b {
			return "tx=" + f(a)
		}
		return "tx(new=" + f(a) + ",retry=" + f(b) + ")"
	}
	for _, tv := range [][2]bool{{true, true}, {false, false}, {true, false}, {false, true}} {
		for _, desc := range []bool{false, true} {
			for _, rf := range []bool{false, true} {
				n := "epochUpdate+claim(" + txn(tv[0], tv[1])
				if desc {
					n += ",sameSessionOrder=desc"
				}
				if rf {
					n += ",retryGoroutineFirst"
				}
				add(opdef{name: n + ")", kind: opClaim, okNew: tv[0], okRetry: tv[1], desc: desc, retryFirst: rf})
			}
		}
	}
	add(opdef{name: "snapshot", kind: opSnapshot})
	s.hasDB = al.kinds == nil || al.kinds[opSnapshot]
	for k := 0; k < 8; k++ {
		add(opdef{name: fmt.Sprintf("paymentEvent(%s)", kName(k)), kind: opPayment, k: k})
	}
	add(opdef{name: "advanceChainMemory", kind: opAdvanceMem})
	add(opdef{name: "crash+restart", kind: opRestart})
	return s
}

func (s *scen) Ops() []string { return s.names }
func (s *scen) mem() uint64   { return memLevels[s.mIdx] }

func (s *scen) Fork() func() { s.forkFlag = true; return nil }

func (s *scen) Reset() {
	if s.srv == nil {
		s.resetInternal()
	}
	s.virt = s.virt[:0]
	s.lazy = true
	s.virtIsPrefix = true
}

// materialize brings the real server to the history the engine believes it is in.
func (s *scen) materialize() {
	if !s.lazy {
		return
	}
	s.lazy = false
	if !s.dirty && s.virtIsPrefix && len(s.virt) == len(s.path) {
		return
	}
	s.path = append([]int{}, s.virt...)
	s.rebuild()
}

func (s *scen) resetInternal() {
	s.db = &memDB{s: s, data: map[string][]byte{}}
	s.E = startEpoch
	s.mIdx = 0
	s.life = 0
	s.pending = [8]uint64{}
	s.gen = [8]int{}
	s.ptr = map[*pairingtypes.RelaySession]pg{}
	s.gs = map[pg]*genstat{}
	s.ks = [8]genstat{}
	s.should = map[int]shouldEnt{}
	s.paidable = [8][]uint64{}
	s.snapPtr = nil
	s.cause = "init"
	s.newServer()
}

func (s *scen) newServer() {
	s.life++
	s.tx = &txMock{s: s}
	rdb := rewardserver.NewRewardDB()
	if err := rdb.AddDB(s.db); err != nil {
		panic(err)
	}
	s.srv = rewardserver.VerifNewRewardServer(s.tx, rdb, uint64(s.life), hugeSnap, hugeSnap)
}

// keyToK maps a DB key "epoch.consumerAddr.sessionId.consumerKey" to a proof identity.
func (s *scen) keyToK(key string) (int, bool) {
	parts := strings.SplitN(key, ".", 4)
	if len(parts) < 3 {
		return 0, false
	}
	e, err1 := strconv.ParseUint(parts[0], 10, 64)
	sid, err2 := strconv.ParseUint(parts[2], 10, 64)
	ci, ok := s.addrK[parts[1]]
	if err1 != nil || err2 != nil || !ok {
		return 0, false
	}
	for ei := range proofEpochs {
		for si := range sessions {
			if proofEpochs[ei] == e && sessions[si] == sid {
				return kOf(ei, ci, si), true
			}
		}
	}
	return 0, false
}

func savedCU(data []byte) uint64 {
	var re struct {
		Proof *struct {
			CuSum uint64 `json:"cu_sum"`
		}
	}
	if json.Unmarshal(data, &re) != nil || re.Proof == nil {
		return 0
	}
	return re.Proof.CuSum
}

func (s *scen) onSave(key string, data []byte) {
	k, ok := s.keyToK(key)
	if !ok {
		panic("c29 harness: unparsable DB key " + key)
	}
	ent := shouldEnt{cu: savedCU(data), g: pg{k, -1}}
	if p := s.snapPtr[k]; p != nil {
		ent.g = s.ptr[p]
	}
	s.should[k] = ent
}

// onDelete classifies the removal of a stored proof: a payment event, an epoch that left chain memory and a
// proof whose own submissions failed MaxPaymentRequestsRetiresForSession times are legitimate; anything
// else leaves the proof in the set a restart must bring back.
func (s *scen) onDelete(key, shape string) {
	k, ok := s.keyToK(key)
	if !ok {
		return
	}
	ent, has := s.should[k]
	if !has {
		return
	}
	// give-up by design: the submissions of this proof identity (all its generations in this process lifetime -
	// they share the DB key - counted together, the weaker reading) failed MaxPaymentRequestsRetiresForSession times
	legit := s.cause == "payment" || kEpoch(k) < s.mem() || s.ks[k].fails >= giveUp
	if legit {
		delete(s.should, k)
		return
	}
	// three stable shapes: the identity was already submitted successfully (it waits for its payment event), it
	// was submitted and its retries are cut short, or it was never submitted
	how := "never-submitted"
	if s.ks[k].oks > 0 {
		how = "already-submitted-ok"
	} else if s.ks[k].subs > 0 {
		how = "retried-fewer-than-max"
	}
	ent.lostBy = s.cause + ":" + shape + ":" + how
	s.should[k] = ent
}

func (s *scen) viol(key, what string) ev.Violation {
	return ev.Violation{Property: "C29", Key: key, What: what}
}

func (s *scen) memoryDump() map[int]*pairingtypes.RelaySession {
	out := map[int]*pairingtypes.RelaySession{}
	for _, vp := range s.srv.VerifDumpProofs() {
		ci, ok := s.addrK[vp.Consumer]
		if !ok {
			panic("c29 harness: unknown consumer in memory dump")
		}
		for ei := range proofEpochs {
			for si := range sessions {
				if proofEpochs[ei] == vp.Epoch && sessions[si] == vp.SessionId {
					out[kOf(ei, ci, si)] = vp.Proof
				}
			}
		}
	}
	return out
}

// checkKept: the server holds, for every identity, the highest CU received since its last gathering.
func (s *scen) checkKept(dump map[int]*pairingtypes.RelaySession) []ev.Violation {
	for k := 0; k < 8; k++ {
		if s.pending[k] == 0 {
			continue
		}
		p := dump[k]
		switch {
		case p == nil:
			return []ev.Violation{s.viol("received-proof-not-kept", fmt.Sprintf("proof %s (best cu %d) is not held by the reward server", kName(k), s.pending[k]))}
		case p.CuSum != s.pending[k]:
			return []ev.Violation{s.viol("kept-proof-is-not-the-highest-cu", fmt.Sprintf("proof %s: server holds cu %d, highest cu received is %d", kName(k), p.CuSum, s.pending[k]))}
		}
	}
	return nil
}

type result struct {
	accepted  bool
	mutated   bool // a rejected operation that nevertheless touched the real state (it is rebuilt before the next use)
	obs       string
	viol      []ev.Violation
	orderMiss bool
}

var bg = context.Background()

// checkRestore is the restore oracle on a freshly restarted server.
func checkRestore(should map[int]shouldEnt, M uint64, mem map[int]uint64, inDB func(int) bool, where string) *ev.Violation {
	var ks []int
	for k := range should {
		ks = append(ks, k)
	}
	sort.Ints(ks)
	for _, k := range ks {
		ent := should[k]
		if kEpoch(k) < M {
			continue
		}
		if mem[k] == ent.cu {
			continue
		}
		if !inDB(k) {
			why := ent.lostBy
			if why == "" {
				why = "unknown"
			}
			return &ev.Violation{Property: "C29", Key: "snapshotted-proof-lost:" + why,
				What: fmt.Sprintf("%s: proof %s (cu %d) was snapshotted, never paid, is still in chain memory and its own submissions failed fewer than %d times, but it was removed from the DB (%s) and a restart does not bring it back", where, kName(k), ent.cu, giveUp, why)}
		}
		return &ev.Violation{Property: "C29", Key: "snapshotted-proof-not-restored",
			What: fmt.Sprintf("%s: proof %s (cu %d) is in the DB but the restarted server holds cu %d", where, kName(k), ent.cu, mem[k])}
	}
	return nil
}

// probe restarts a fresh server on DB content D (a crash right after one DB operation) and checks that every
// proof that must survive is restored and submitted again inside its window.
func (s *scen) probe(op dbop, E, M uint64) *ev.Violation {
	db2 := &memDB{data: cloneData(op.after)}
	rdb := rewardserver.NewRewardDB()
	rdb.AddDB(db2)
	claimE := E
	if claimE < proofEpochs[1]+blockDist {
		claimE = proofEpochs[1] + blockDist
	}
	tx := &probeTx{E: claimE, M: M}
	srv := rewardserver.VerifNewRewardServer(tx, rdb, 1<<40, hugeSnap, hugeSnap)
	if err := srv.VerifRestoreFromDB(specID); err != nil {
		return &ev.Violation{Property: "C29", Key: "restore-error", What: "restoreRewardsFromDB failed: " + err.Error()}
	}
	mem := map[int]uint64{}
	for _, vp := range srv.VerifDumpProofs() {
		ci, ok := s.addrK[vp.Consumer]
		if !ok {
			continue
		}
		for ei := range proofEpochs {
			for si := range sessions {
				if proofEpochs[ei] == vp.Epoch && sessions[si] == vp.SessionId {
					mem[kOf(ei, ci, si)] = vp.Proof.CuSum
				}
			}
		}
	}
	where := "crash after DB op [" + op.desc + "]"
	if v := checkRestore(op.should, M, mem, func(k int) bool {
		for key := range op.after {
			if kk, ok := s.keyToK(key); ok && kk == k {
				return true
			}
		}
		return false
	}, where); v != nil {
		return v
	}
	srv.VerifSendRewardsClaim(bg, claimE)
	sub := map[int]uint64{}
	for _, p := range tx.subs {
		ci, ok := s.sigCons[string(p.Sig)]
		if !ok {
			panic("c29 harness: a restarted server submitted a proof the harness never signed")
		}
		for ei := range proofEpochs {
			for si := range sessions {
				if proofEpochs[ei] == uint64(p.Epoch) && sessions[si] == p.SessionId {
					sub[kOf(ei, ci, si)] = p.CuSum
				}
			}
		}
		if uint64(p.Epoch) < M || uint64(p.Epoch)+blockDist > claimE {
			return &ev.Violation{Property: "C29", Key: "restored-proof-submitted-outside-window",
				What: fmt.Sprintf("%s: after the restart a proof of epoch %d is submitted at epoch update %d with earliest block in memory %d", where, p.Epoch, claimE, M)}
		}
	}
	for k, ent := range op.should {
		if kEpoch(k) < M || ent.lostBy != "" {
			continue
		}
		if sub[k] != ent.cu {
			return &ev.Violation{Property: "C29", Key: "restored-proof-not-submitted-again",
				What: fmt.Sprintf("%s: proof %s (cu %d) was restored but the epoch update %d after the restart submitted cu %d", where, kName(k), ent.cu, claimE, sub[k])}
		}
	}
	return nil
}

func (s *scen) exec(op int, probe bool) result {
	o := s.ops[op]
	s.db.newOps = nil
	res := result{accepted: true}
	switch o.kind {
	case opProof:
		if kEpoch(o.k) > s.E {
			return result{obs: "proof-of-future-epoch"}
		}
		if kEpoch(o.k) < s.mem() {
			return result{obs: "proof-of-forgotten-epoch"}
		}
		// the provider serves relays of epoch e only while e > current - blockDist; a relay accepted just before
		// an epoch update may deliver its proof after it, so proofs arrive at most one epoch later than that
		if kEpoch(o.k)+blockDist+epochSize <= s.E {
			return result{obs: "proof-of-expired-epoch"}
		}
		cp := *s.tmpl[o.k][o.cui]
		p := &cp
		s.ptr[p] = pg{o.k, s.gen[o.k]}
		s.cause = "proof"
		_, updated := s.srv.SendNewProof(bg, p, kEpoch(o.k), s.addr[kCons(o.k)], "rest")
		if p.CuSum > s.pending[o.k] {
			s.pending[o.k] = p.CuSum
		}
		res.obs = fmt.Sprintf("proof-updated=%v", updated)
		res.viol = s.checkKept(s.memoryDump())

	case opSnapshot:
		s.snapPtr = s.memoryDump()
		if len(s.snapPtr) == 0 {
			return result{obs: "snapshot-of-nothing"}
		}
		s.cause = "snapshot"
		s.srv.VerifSnapshot()
		s.snapPtr = nil
		res.obs = "snapshot"

	case opAdvanceMem:
		if s.mIdx+1 >= len(memLevels) || memLevels[s.mIdx+1]+blockDist > s.E {
			return result{obs: "memory-cannot-advance"}
		}
		s.mIdx++
		res.obs = "memory-advanced"

	case opPayment:
		if len(s.paidable[o.k]) == 0 {
			return result{obs: "nothing-to-pay"}
		}
		cu := s.paidable[o.k][0]
		s.paidable[o.k] = append([]uint64{}, s.paidable[o.k][1:]...)
		attrs := map[string]string{
			"chainID": specID, "Mint": "5ulava", "CU": strconv.FormatUint(cu, 10), "client": s.addr[kCons(o.k)],
			"uniqueIdentifier": strconv.FormatUint(kSess(o.k), 10), "descriptionString": s.srv.Description(),
			"epoch": strconv.FormatUint(kEpoch(o.k), 10), "provider": "lava@provider", "relayNumber": "1",
		}
		var eas []terderminttypes.EventAttribute
		for _, n := range []string{"chainID", "Mint", "CU", "client", "uniqueIdentifier", "descriptionString", "epoch", "provider", "relayNumber"} {
			eas = append(eas, terderminttypes.EventAttribute{Key: n + ".0", Value: attrs[n]})
		}
		pays, err := rewardserver.BuildPaymentFromRelayPaymentEvent(terderminttypes.Event{Type: "lava_relay_payment", Attributes: eas}, int64(s.E)+1)
		if err != nil || len(pays) != 1 {
			panic(fmt.Sprintf("c29 harness: cannot build payment: %v", err))
		}
		s.cause = "payment"
		s.srv.PaymentHandler(pays[0])
		res.obs = "payment"

	case opRestart:
		s.cause = "restore"
		s.newServer()
		if err := s.srv.VerifRestoreFromDB(specID); err != nil {
			res.viol = append(res.viol, s.viol("restore-error", "restoreRewardsFromDB failed: "+err.Error()))
		}
		dump := s.memoryDump()
		mem := map[int]uint64{}
		for k, p := range dump {
			mem[k] = p.CuSum
		}
		if v := checkRestore(s.should, s.mem(), mem, func(k int) bool {
			for key := range s.db.data {
				if kk, ok := s.keyToK(key); ok && kk == k {
					return true
				}
			}
			return false
		}, "crash+restart"); v != nil {
			res.viol = append(res.viol, *v)
		}
		// new process lifetime: everything not in the DB is gone, counters start again
		s.ptr = map[*pairingtypes.RelaySession]pg{}
		s.gs = map[pg]*genstat{}
		s.ks = [8]genstat{}
		s.paidable = [8][]uint64{}
		for k := 0; k < 8; k++ {
			s.gen[k]++
			s.pending[k] = 0
			if p := dump[k]; p != nil {
				s.pending[k] = p.CuSum
				s.ptr[p] = pg{k, s.gen[k]}
			}
			if ent, ok := s.should[k]; ok {
				if dump[k] != nil {
					ent.g = pg{k, s.gen[k]}
				} else {
					ent.g = pg{k, -1}
				}
				s.should[k] = ent
			}
		}
		res.obs = fmt.Sprintf("restart-restored-%d", len(dump))

	case opClaim:
		pre := map[*pairingtypes.RelaySession]bool{}
		retryAlive := false
		for _, r := range s.srv.VerifDumpRetries() {
			pre[r.Session] = true
			if uint64(r.Session.Epoch) >= s.mem() {
				retryAlive = true
			}
		}
		// variants that cannot differ from the base variant are not separate operations; the two cheap
		// predictions made here are validated against what the real claim did on every accepted variant
		if !retryAlive && (o.retryFirst || o.okNew != o.okRetry) {
			return result{obs: "variant-needs-two-claim-goroutines"}
		}
		if o.desc && o.okNew {
			// a successful new claim leaves the same state whatever the order of its proofs (every proof only has
			// its retry entry removed): the order is neither a separate operation nor enforced
			return result{obs: "variant-needs-a-failing-new-claim"}
		}
		perSession := map[uint64]int{}
		twice := false
		for _, vp := range s.srv.VerifDumpProofs() {
			perSession[vp.SessionId]++
			twice = twice || perSession[vp.SessionId] > 1
		}
		if o.desc && !twice {
			return result{obs: "variant-needs-same-session-proofs-in-one-claim"}
		}
		claim := func() result {
			res := result{accepted: true}
			s.E += epochSize
			m := s.tx
			m.preRetry, m.claimer, m.newFirst = pre, goid(), !o.retryFirst
			m.okByKind = [2]bool{o.okNew, o.okRetry}
			m.calls, m.viols, m.claimEpoch = nil, nil, s.E
			m.baseG = runtime.NumGoroutine()
			pendingBefore := s.pending
			s.cause = "claim"
			s.srv.VerifSendRewardsClaim(bg, s.E)
			var newCall, retryCall *txCall
			for i := range m.calls {
				c := &m.calls[i]
				if c.kind == kindNew {
					if newCall != nil {
						panic("c29 harness: two new-claim calls in one claim")
					}
					newCall = c
				} else {
					if retryCall != nil {
						panic("c29 harness: two retry calls in one claim")
					}
					retryCall = c
				}
			}
			if len(m.viols) > 0 {
				// an oracle inside TxRelayPayment fired (window / retry budget): these do not depend on the order in
				// which this claim processed its proofs
				return result{accepted: true, obs: "claim-violation", viol: m.viols}
			}
			both := newCall != nil && retryCall != nil
			if (retryCall != nil) != retryAlive {
				panic("c29 harness: wrong prediction of the retry claim")
			}
			if !both && (o.retryFirst || o.okNew != o.okRetry) {
				return result{mutated: true, obs: "variant-needs-two-claim-goroutines"}
			}
			if len(m.calls) == 0 && !o.okNew {
				return result{mutated: true, obs: "variant-needs-a-claim"}
			}
			groups := map[uint64][]int{}
			if newCall != nil {
				for _, p := range newCall.relays {
					groups[p.SessionId] = append(groups[p.SessionId], kRank(s.ptr[p].k))
				}
			}
			collide := false
			for _, g := range groups {
				if len(g) > 1 {
					collide = true
				}
			}
			if o.desc && !collide {
				return result{mutated: true, obs: "variant-needs-same-session-proofs-in-one-claim"}
			}
			for _, g := range groups {
				for i := 1; i < len(g) && !o.okNew; i++ {
					if (!o.desc && g[i-1] >= g[i]) || (o.desc && g[i-1] <= g[i]) {
						return result{mutated: true, orderMiss: true}
					}
				}
			}
			// best proof submitted / claimed in window
			submittedNew := map[int]bool{}
			if newCall != nil {
				for _, p := range newCall.relays {
					id := s.ptr[p]
					if id.g != s.gen[id.k] {
						continue
					}
					submittedNew[id.k] = true
					if p.CuSum != pendingBefore[id.k] {
						res.viol = append(res.viol, s.viol("submitted-proof-is-not-the-highest-cu",
							fmt.Sprintf("proof %s submitted with cu %d, highest cu received before its gathering is %d", kName(id.k), p.CuSum, pendingBefore[id.k])))
					}
				}
			}
			for k := 0; k < 8; k++ {
				if pendingBefore[k] == 0 {
					continue
				}
				e := kEpoch(k)
				switch {
				case e < s.mem(): // left chain memory: dropped
					s.pending[k] = 0
					s.gen[k]++
				case e+blockDist <= s.E:
					if !submittedNew[k] {
						res.viol = append(res.viol, s.viol("claimable-proof-not-submitted",
							fmt.Sprintf("epoch update %d (earliest in memory %d): proof %s (cu %d) is inside its claim window but was not submitted", s.E, s.mem(), kName(k), pendingBefore[k])))
					}
					s.pending[k] = 0
					s.gen[k]++
				}
			}
			if len(res.viol) == 0 {
				res.viol = s.checkKept(s.memoryDump())
			}
			res.obs = fmt.Sprintf("claim:new=%d,retry=%d", lenCall(newCall), lenCall(retryCall))
			return res
		}
		var r result
		for attempt := 0; ; attempt++ {
			// the order of same-session proofs inside a failing new claim is decided by Go's map iteration: a copy of
			// the server and of the harness bookkeeping is kept, and the claim is repeated on the copy until the real
			// code produced the requested order
			var bk *claimBackup
			if !o.okNew && twice {
				bk = s.backup()
			}
			r = claim()
			if !r.orderMiss || bk == nil {
				break
			}
			if attempt > 1_000_000 {
				panic("c29 harness: requested map-iteration order never produced")
			}
			s.restoreBackup(bk)
			s.orderRetries++
		}
		if !r.accepted || r.obs == "claim-violation" {
			return r
		}
		res = r
	}
	if probe && len(res.viol) == 0 {
		for _, d := range s.db.newOps {
			if v := s.probe(d, s.E, s.mem()); v != nil {
				res.viol = append(res.viol, *v)
				break
			}
		}
	}
	if probe {
		res.obs += fmt.Sprintf("|cp=%d", len(s.db.newOps))
	}
	return res
}

func lenCall(c *txCall) int {
	if c == nil {
		return 0
	}
	return len(c.relays)
}

// claimBackup is a copy of everything a claim can change: the server (hook VerifClone: a deep copy of its maps,
// the proof objects are shared), the DB and the harness bookkeeping.
type claimBackup struct {
	srv      *rewardserver.RewardServer
	db       *memDB
	E        uint64
	gs       map[pg]*genstat
	ks       [8]genstat
	should   map[int]shouldEnt
	paidable [8][]uint64
	cause    string
}

func (s *scen) backup() *claimBackup {
	db := &memDB{s: s, data: cloneData(s.db.data), newOps: append([]dbop{}, s.db.newOps...), nops: s.db.nops}
	rdb := rewardserver.NewRewardDB()
	if err := rdb.AddDB(db); err != nil {
		panic(err)
	}
	bk := &claimBackup{srv: s.srv.VerifClone(rdb), db: db, E: s.E, gs: map[pg]*genstat{}, ks: s.ks, should: cloneShould(s.should), cause: s.cause}
	for g, st := range s.gs {
		c := *st
		bk.gs[g] = &c
	}
	for k := range s.paidable {
		bk.paidable[k] = append([]uint64{}, s.paidable[k]...)
	}
	return bk
}

func (s *scen) restoreBackup(bk *claimBackup) {
	s.srv, s.db, s.E, s.gs, s.ks, s.should, s.paidable, s.cause = bk.srv, bk.db, bk.E, bk.gs, bk.ks, bk.should, bk.paidable, bk.cause
}

// rebuild re-executes the accepted history on a fresh server until every claim produced its requested
// same-session order.
func (s *scen) rebuild() {
	for attempt := 0; attempt < 200000; attempt++ {
		s.rebuilds++
		s.resetInternal()
		ok := true
		for _, op := range s.path {
			if r := s.exec(op, false); r.orderMiss || !r.accepted {
				ok = false
				break
			}
		}
		if ok {
			s.dirty = false
			return
		}
	}
	panic("c29 harness: requested map-iteration order never produced")
}

func (s *scen) Apply(op int) bfs.Step {
	key := fmt.Sprint(s.virt, op)
	expansion := s.forkFlag || key == s.lastExpandKey
	if s.forkFlag {
		s.lastExpandKey = key
		s.forkFlag = false
	}
	if !expansion && s.lazy && !s.dirty && s.virtIsPrefix && len(s.virt) < len(s.path) && s.path[len(s.virt)] == op {
		s.virt = append(s.virt, op)
		return bfs.Step{Accepted: true, Obs: "replayed"}
	}
	s.materialize()
	h0 := s.hashNow()
	s.dirty = true // stays set if exec panics: the real state is then rebuilt before its next use
	r := s.exec(op, expansion)
	for r.orderMiss {
		s.rebuild()
		s.dirty = true
		r = s.exec(op, expansion)
	}
	s.dirty = len(r.viol) > 0 // a violating successor is never expanded; it is rebuilt should it be needed again
	if !r.accepted {
		if r.mutated {
			s.dirty = true
		}
		return bfs.Step{Accepted: false, Obs: r.obs, Viol: r.viol}
	}
	s.virt = append(s.virt, op)
	if len(r.viol) == 0 && bytes.Equal(s.hashNow(), h0) {
		// nothing the future can depend on has changed: the real server stays registered under the shorter history
		s.virtIsPrefix = false
	} else {
		s.path = append(s.path, op)
	}
	return bfs.Step{Accepted: true, Obs: r.obs, Viol: r.viol}
}

func (s *scen) Hash() []byte {
	s.materialize()
	return s.hashNow()
}

// hashNow: the two session ids are interchangeable (the code only compares them for equality), so a state
// and its mirror image under 7<->8 are merged.
func (s *scen) hashNow() []byte {
	a, b := s.hashPerm(0), s.hashPerm(1)
	if bytes.Compare(a, b) <= 0 {
		return a
	}
	return b
}

func (s *scen) hashPerm(sw int) []byte {
	h := sha256.New()
	e := s.E
	if e > 60 {
		e = 60 // every comparison the server and the harness make with E has the same outcome for all E >= 60
	}
	fmt.Fprintf(h, "E%d M%d|", e, s.mIdx)
	dump := s.memoryDump()
	dbcu := map[int]uint64{}
	for key, data := range s.db.data {
		if k, ok := s.keyToK(key); ok {
			dbcu[k] = savedCU(data)
		} else {
			fmt.Fprintf(h, "db?%s|", key)
		}
	}
	stat := func(g pg) string {
		st := s.gs[g]
		if st == nil {
			return "0/0/false"
		}
		return fmt.Sprintf("%d/%d/%v", st.subs, st.fails, st.oks > 0)
	}
	for kk := 0; kk < 8; kk++ {
		k := kk ^ sw
		var mcu uint64
		if p := dump[k]; p != nil {
			mcu = p.CuSum
		}
		fmt.Fprintf(h, "k%d p%d m%d d%d", kk, s.pending[k], mcu, dbcu[k])
		kf := s.ks[k].fails
		if kf > giveUp {
			kf = giveUp
		}
		if s.hasDB { // the identity counters only decide whether a DB delete is a give-up by design
			fmt.Fprintf(h, " ks%v/%d/%v", s.ks[k].subs > 0, kf, s.ks[k].oks > 0)
		}
		if ent, ok := s.should[k]; ok {
			fmt.Fprintf(h, " s%d,cur=%v,%s,%s", ent.cu, ent.g.g == s.gen[k], stat(ent.g), ent.lostBy)
		}
		fmt.Fprintf(h, " pay%v|", s.paidable[k])
	}
	rt := s.srv.VerifDumpRetries()
	skey := func(key uint64) int {
		for si, id := range sessions {
			if id == key {
				return si ^ sw
			}
		}
		return -1
	}
	sort.Slice(rt, func(i, j int) bool { return skey(rt[i].Key) < skey(rt[j].Key) })
	for _, r := range rt {
		id := s.ptr[r.Session]
		ent, ok := s.should[id.k]
		fmt.Fprintf(h, "r%d:k%d,cu%d,a%d,%s,inDB=%v|", skey(r.Key), id.k^sw, r.Session.CuSum, r.Attempts, stat(id), ok && ent.g == id)
	}
	return h.Sum(nil)[:16]
}

// Scenarios: the full alphabet, the same with cu restricted to {10,20} (quick tier), and the claim/retry
// sub-alphabet (one session id, one cu, proofs and epoch updates only) that is searched deeper.
var scenarios = map[string]alphabet{
	"c29/rewards":     {},
	"c29/rewards-cu2": {cuIdx: []int{0, 1}},
	"c29/retries":     {cuIdx: []int{0}, sessIdx: []int{0}, kinds: map[int]bool{opProof: true, opClaim: true}},
}

const boundText = "proof(consumer c1|c2, session %s shared by both consumers, cu %s, epoch 20|30) via SendNewProof, epochUpdate+claim with tx result per claim goroutine (ok/fail) x same-session order inside the claim (asc/desc) x goroutine order%s"

func init() {
	for name, al := range scenarios {
		al := al
		bfs.Register(name, func() bfs.Scenario { return newScen(al) })
	}
	reg.Register(reg.Check{Property: "C29", Level: "model_checking", Run: func(run *ev.Run) {
		type part struct {
			scen, prefix string
			depth        int
			deadline     time.Duration
			bound        string
		}
		rest := ", snapshot, paymentEvent per proof identity, advanceChainMemory (earliest 20->30->40), crash+restart; plus a restart at every prefix of the DB-operation log"
		parts := []part{
			{"c29/retries", "retries", 8, 20 * time.Second, fmt.Sprintf(boundText, "7", "10", "")},
			{"c29/rewards-cu2", "events", 5, 60 * time.Second, fmt.Sprintf(boundText, "7|8", "10|20", rest)},
		}
		if ev.Tier() == "thorough" {
			parts = []part{
				{"c29/retries", "retries", 16, 2 * time.Minute, fmt.Sprintf(boundText, "7", "10", "")},
				{"c29/rewards", "events", 5, 5 * time.Minute, fmt.Sprintf(boundText, "7|8", "10|20|30", rest)},
				{"c29/rewards-cu2", "events_cu2", 6, 8 * time.Minute, fmt.Sprintf(boundText, "7|8", "10|20", rest)},
			}
		}
		if d, err := strconv.Atoi(os.Getenv("VERIF_C29_DEPTH")); err == nil && d > 0 {
			parts[1].depth = d // development override
		}
		exhaustive := true
		var crashPoints, opsWithDBWrites int64
		var bounds []string
		for _, p := range parts {
			cfg := bfs.Config{Scenario: p.scen, MaxDepth: p.depth, Deadline: p.deadline}
			st := bfs.Explore(cfg, run)
			bfs.Report(run, p.prefix, cfg, st)
			for obs, n := range st.Outcomes {
				if i := strings.LastIndex(obs, "|cp="); i >= 0 {
					c, _ := strconv.ParseInt(obs[i+4:], 10, 64)
					crashPoints += c * n
					if c > 0 {
						opsWithDBWrites += n
					}
				}
			}
			exhaustive = exhaustive && st.Exhaustive
			// the search stopped before the depth bound because no new state was left: every history of any length
			// over this alphabet ends in an explored state
			run.Set(p.prefix+".state_space_closed", st.Exhaustive && st.DepthCompleted < p.depth)
			bounds = append(bounds, fmt.Sprintf("[%s] all histories up to depth %d (completed %d) over %d operations: %s", p.prefix, p.depth, st.DepthCompleted, len(newScen(scenarios[p.scen]).ops), p.bound))
		}
		run.Set("crash_points", crashPoints)
		run.Set("crash_points_meaning", "server restarts on the DB content after every single DB operation (batch save, prefix delete) of every explored transition, each followed by the restore oracle and a claim")
		run.Set("transitions_with_db_operations", opsWithDBWrites)
		run.Set("exhaustive", exhaustive)
		run.Set("bound", strings.Join(bounds, " ;; "))
		run.Assume("SendNewProof is one critical section under the server lock, so concurrent arrivals are equivalent to the sequential orders that are enumerated")
		run.Assume("a proof may be dropped for good (give-up by design) once the submissions of its identity (epoch, consumer, session - all proofs received for it in this process lifetime counted together) failed MaxPaymentRequestsRetiresForSession times; proofs removed by a payment event or whose epoch left chain memory need not be restored")
		run.Assume("the two claim goroutines of sendRewardsClaim (new proofs / retried proofs) are run one after the other in both orders (the second TxRelayPayment is released only after the first goroutine has exited); finer interleavings inside the goroutines are not explored - in particular both goroutines assign the enclosing function's err variable between their TxRelayPayment call and its check")
		run.Assume("a DB BatchSave / DeletePrefix is atomic (badger transaction); crash points lie between DB operations")
		run.Assume("same-session-id proofs inside one claim are enumerated in two orders (ascending / descending by (epoch, consumer)), not in all permutations of groups of 3 or 4")
		run.Assume("a proof of epoch e arrives while e <= current epoch < e + blockDistance + epochSize (a relay served just before an epoch update may deliver its proof after it)")
	}})
}
