// Package c02: pairing lists are valid, distinct and bounded — bounded-exhaustive enumeration of provider
// multisets x policy triples, each configuration built with real transactions and queried on the real keepers.
package c02

import (
	"encoding/json"
	"fmt"
	"os"
	"os/exec"
	"sort"
	"strconv"
	"strings"
	"sync"

	"github.com/lavanet/lava/v5/testutil/common"
	"github.com/lavanet/lava/v5/utils/sigs"
	epochstoragetypes "github.com/lavanet/lava/v5/x/epochstorage/types"
	pairingtypes "github.com/lavanet/lava/v5/x/pairing/types"
	planstypes "github.com/lavanet/lava/v5/x/plans/types"
	projectstypes "github.com/lavanet/lava/v5/x/projects/types"
	spectypes "github.com/lavanet/lava/v5/x/spec/types"

	"verifmc/engine/chain"
	"verifmc/engine/ev"
	"verifmc/engine/reg"
)

const Chain = "spa"

// Profile of a provider.
type Profile struct {
	Name      string
	Stake     int64
	Geo       int32
	Addon     bool
	Ext       bool
	Frozen    bool
	LateStake bool // staked in the epoch that is queried: stake applied only at the next epoch
	Unfreeze  bool // frozen at stake time, unfrozen inside the first queried epoch: applied one block after the next epoch start, i.e. sits out that whole epoch too
}

var Profiles = []Profile{
	{"base-min", 1000, 1, false, false, false, false, false},
	{"base-3x", 3000, 2, false, false, false, false, false},
	{"addon-min", 1000, 2, true, false, false, false, false},
	{"addon-3x", 3000, 1, true, false, false, false, false},
	{"addon-ext-min", 1000, 1, true, true, false, false, false},
	{"addon-ext-3x", 3000, 3, true, true, false, false, false},
	{"frozen", 1000, 1, true, true, true, false, false},
	{"late", 3000, 1, true, true, false, true, false},
	{"unfrozen-late", 3000, 1, true, true, true, false, true},
}

var (
	collBase  = spectypes.CollectionData{ApiInterface: spectypes.APIInterfaceJsonRPC, Type: "POST", AddOn: ""}
	collAddon = spectypes.CollectionData{ApiInterface: spectypes.APIInterfaceJsonRPC, Type: "POST", AddOn: "addon1"}
)

// Spec with a base collection and an add-on collection, both with extension ext1.
func Spec() spectypes.Spec {
	s := chain.MockSpec(Chain)
	ext := []*spectypes.Extension{{Name: "ext1", CuMultiplier: 2}}
	s.ApiCollections[0].Extensions = ext
	s.ApiCollections = append(s.ApiCollections, &spectypes.ApiCollection{Enabled: true, CollectionData: collAddon, Extensions: ext,
		Apis: []*spectypes.Api{{Name: "addonAPI", ComputeUnits: 10, Enabled: true}}})
	return s
}

type PolicyDef struct {
	Name string
	Pol  *planstypes.Policy // nil: none
}

func req(c spectypes.CollectionData, mixed bool, exts ...string) planstypes.ChainRequirement {
	return planstypes.ChainRequirement{Collection: c, Extensions: exts, Mixed: mixed}
}

func pol(max uint64, geo int32, mode planstypes.SELECTED_PROVIDERS_MODE, list []string, reqs ...planstypes.ChainRequirement) *planstypes.Policy {
	p := &planstypes.Policy{TotalCuLimit: 100000, EpochCuLimit: 10000, MaxProvidersToPair: max, GeolocationProfile: geo, SelectedProvidersMode: mode, SelectedProviders: list}
	if len(reqs) > 0 {
		p.ChainPolicies = []planstypes.ChainPolicy{{ChainId: Chain, Requirements: reqs}}
	}
	return p
}

// Cfg is the configuration enumerator bound to one world.
type Cfg struct {
	W       *chain.World
	Provs   []sigs.Account
	Cons    sigs.Account
	Plans   []PolicyDef
	Subs    []PolicyDef
	Admins  []PolicyDef
	Unknown string
}

// NewCfg builds the fixture: spec, validator, provider accounts (not staked), consumer account, one plan per plan policy.
func NewCfg() *Cfg {
	w := chain.NewWorld()
	c := &Cfg{W: w}
	w.SetEpochParams(4, 3)
	w.AddValidator(0, 1000000)
	w.Must("spec", w.AddSpecGov(Spec()))
	for i := 0; i < 4; i++ {
		a, _ := w.AddAccount(common.PROVIDER, i, 10000000)
		c.Provs = append(c.Provs, a)
	}
	c.Cons, _ = w.AddAccount(common.CONSUMER, 0, 100000000)
	unk, _ := w.AddAccount("unknown", 0, 0)
	c.Unknown = unk.Addr.String()
	a := func(i int) string { return c.Provs[i].Addr.String() }
	A, M, E := planstypes.SELECTED_PROVIDERS_MODE_ALLOWED, planstypes.SELECTED_PROVIDERS_MODE_MIXED, planstypes.SELECTED_PROVIDERS_MODE_EXCLUSIVE
	c.Plans = []PolicyDef{
		{"plan:max3", pol(3, 3, A, nil)},
		{"plan:max2", pol(2, 3, A, nil)},
		{"plan:max5+addon", pol(5, 3, A, nil, req(collAddon, false))},
		{"plan:max3+addon.ext(mixed)", pol(3, 3, A, nil, req(collAddon, true, "ext1"))},
		{"plan:max3+MIXED[p0,p1]", pol(3, 3, M, []string{a(0), a(1)})},
		{"plan:max3+EXCL[p0,p3]", pol(3, 3, E, []string{a(0), a(3)})},
	}
	c.Subs = []PolicyDef{
		{"sub:none", nil},
		{"sub:max2", pol(2, 3, A, nil)},
		{"sub:EXCL[p0,p1]", pol(4, 3, E, []string{a(0), a(1)})},
		{"sub:addon.ext", pol(4, 3, A, nil, req(collAddon, false, "ext1"))},
		{"sub:MIXED[p1,unknown]", pol(4, 3, M, []string{a(1), c.Unknown})},
	}
	c.Admins = []PolicyDef{
		{"adm:none", nil},
		{"adm:max5", pol(5, 3, A, nil)},
		{"adm:addon(mixed)+base.ext", pol(4, 3, A, nil, req(collAddon, true), req(collBase, false, "ext1"))},
		{"adm:EXCL[p1,p2]", pol(4, 3, E, []string{a(1), a(2)})},
		{"adm:geo2", pol(4, 2, A, nil)},
	}
	for i, p := range c.Plans {
		plan := common.CreateMockPlan()
		plan.Index = fmt.Sprintf("plan%d", i)
		plan.PlanPolicy = *p.Pol
		w.Must("plan", w.AddPlanGov(false, plan))
	}
	if p := w.AdvanceToNextEpoch(chain.BlockDt); p != "" {
		panic(p)
	}
	w.MarkFixture()
	return c
}

func endpoints(p Profile) []epochstoragetypes.Endpoint {
	var out []epochstoragetypes.Endpoint
	for _, g := range planstypes.GetGeolocationsFromUint(p.Geo) {
		e := epochstoragetypes.Endpoint{IPPORT: "123", Geolocation: int32(g), ApiInterfaces: []string{spectypes.APIInterfaceJsonRPC}}
		if p.Addon {
			e.Addons = []string{"addon1"}
		}
		if p.Ext {
			e.Extensions = []string{"ext1"}
		}
		out = append(out, e)
	}
	return out
}

// Multisets enumerates all multisets of size 4 over the profiles (as sorted index tuples).
func Multisets() [][4]int {
	var out [][4]int
	n := len(Profiles)
	for a := 0; a < n; a++ {
		for b := a; b < n; b++ {
			for c := b; c < n; c++ {
				for d := c; d < n; d++ {
					out = append(out, [4]int{a, b, c, d})
				}
			}
		}
	}
	return out
}

type Result struct {
	Case       string
	Pairing    []string // provider indexes in order
	Eligible   []string
	Want       int
	Err        string
	Nontrivial bool
	Viol       []ev.Violation
}

func (c *Cfg) stakeAll(ms [4]int, late bool) error {
	w := c.W
	for i, pi := range ms {
		p := Profiles[pi]
		if late && p.Unfreeze {
			r := w.Tx(func() error {
				msg := &pairingtypes.MsgUnfreezeProvider{Creator: c.Provs[i].Addr.String(), ChainIds: []string{Chain}}
				if err := msg.ValidateBasic(); err != nil {
					return err
				}
				_, err := w.Servers.PairingServer.UnfreezeProvider(w.GoCtx, msg)
				return err
			})
			if !r.OK() {
				return fmt.Errorf("unfreeze: %v %s", r.Err, r.Panic)
			}
			continue
		}
		if p.LateStake != late {
			continue
		}
		r := w.Stake(c.Provs[i], Chain, p.Stake, p.Geo, endpoints(p), 100)
		if !r.OK() {
			return fmt.Errorf("stake %s: %v %s", p.Name, r.Err, r.Panic)
		}
		if p.Frozen {
			r := w.Tx(func() error {
				msg := &pairingtypes.MsgFreezeProvider{Creator: c.Provs[i].Addr.String(), ChainIds: []string{Chain}, Reason: "verif"}
				if err := msg.ValidateBasic(); err != nil {
					return err
				}
				_, err := w.Servers.PairingServer.FreezeProvider(w.GoCtx, msg)
				return err
			})
			if !r.OK() {
				return fmt.Errorf("freeze: %v %s", r.Err, r.Panic)
			}
		}
	}
	return nil
}

func supports(p Profile, r planstypes.ChainRequirement) bool {
	if r.Collection.AddOn != "" && !p.Addon {
		return false
	}
	if len(r.Extensions) > 0 && !p.Ext {
		return false
	}
	return true
}

// Evaluate builds one configuration on a fork and checks the property. epochs: how many further epochs to check.
func (c *Cfg) Evaluate(ms [4]int, pi, si, ai int, visit func(Result)) {
	w := c.W
	restore := w.Fork()
	defer restore()
	name := fmt.Sprintf("%d%d%d%d|%s|%s|%s", ms[0], ms[1], ms[2], ms[3], c.Plans[pi].Name, c.Subs[si].Name, c.Admins[ai].Name)
	fail := func(msg string) { visit(Result{Case: name, Err: msg}) }
	if err := c.stakeAll(ms, false); err != nil {
		fail(err.Error())
		return
	}
	if r := w.Buy(c.Cons, c.Cons, fmt.Sprintf("plan%d", pi), 1, false, false); !r.OK() {
		fail(fmt.Sprintf("buy: %v", r.Err))
		return
	}
	proj, err := w.Keepers.Projects.GetProjectForDeveloper(w.Ctx, c.Cons.Addr.String(), uint64(w.Ctx.BlockHeight()))
	if err != nil {
		fail("project: " + err.Error())
		return
	}
	if c.Subs[si].Pol != nil {
		r := w.Tx(func() error {
			msg := projectstypes.NewMsgSetSubscriptionPolicy(c.Cons.Addr.String(), []string{proj.Index}, c.Subs[si].Pol)
			if err := msg.ValidateBasic(); err != nil {
				return err
			}
			_, err := w.Servers.ProjectServer.SetSubscriptionPolicy(w.GoCtx, msg)
			return err
		})
		if !r.OK() {
			fail(fmt.Sprintf("sub policy: %v", r.Err))
			return
		}
	}
	if c.Admins[ai].Pol != nil {
		r := w.Tx(func() error {
			msg := projectstypes.NewMsgSetPolicy(c.Cons.Addr.String(), proj.Index, c.Admins[ai].Pol)
			if err := msg.ValidateBasic(); err != nil {
				return err
			}
			_, err := w.Servers.ProjectServer.SetPolicy(w.GoCtx, msg)
			return err
		})
		if !r.OK() {
			fail(fmt.Sprintf("admin policy: %v", r.Err))
			return
		}
	}
	if p := w.AdvanceToNextEpoch(chain.BlockDt); p != "" {
		visit(Result{Case: name, Viol: []ev.Violation{{Property: "C37", Key: "block-panic:" + first(p), What: "panic in block processing: " + first(p)}}})
		return
	}
	// providers that stake inside the queried epoch: their stake is applied only at the next epoch
	if err := c.stakeAll(ms, true); err != nil {
		fail(err.Error())
		return
	}
	w.NextBlock(chain.BlockDt)
	for e := 0; e < 2; e++ {
		r1 := c.check(name+fmt.Sprintf("|epoch+%d", e), ms)
		visit(r1)
		if e == 1 {
			// the same epoch queried again two blocks later: the pairing is a function of the epoch, not of the block
			w.NextBlock(chain.BlockDt)
			w.NextBlock(chain.BlockDt)
			r2 := c.check(name+"|epoch+1|mid", ms)
			if r1.Err == "" && r2.Err == "" && fmt.Sprint(r1.Pairing) != fmt.Sprint(r2.Pairing) {
				r2.Viol = append(r2.Viol, ev.Violation{Property: "C02", Key: "pairing-changes-within-epoch", What: fmt.Sprintf("%s: pairing at the epoch's first block %v, two blocks later %v", name, r1.Pairing, r2.Pairing)})
			}
			visit(r2)
		}
		if e == 0 {
			if p := w.AdvanceToNextEpoch(chain.BlockDt); p != "" {
				visit(Result{Case: name, Viol: []ev.Violation{{Property: "C37", Key: "block-panic:" + first(p), What: "panic in block processing: " + first(p)}}})
				return
			}
		}
	}
}

func (c *Cfg) check(name string, ms [4]int) Result {
	w := c.W
	res := Result{Case: name}
	idx := map[string]int{}
	for i, p := range c.Provs {
		idx[p.Addr.String()] = i
	}
	epoch := w.EpochStartNow()
	eff, err := w.Keepers.Pairing.EffectivePolicy(w.GoCtx, &pairingtypes.QueryEffectivePolicyRequest{Consumer: c.Cons.Addr.String(), SpecID: Chain})
	pairing, perr := w.Keepers.Pairing.GetPairing(w.GoCtx, &pairingtypes.QueryGetPairingRequest{ChainID: Chain, Client: c.Cons.Addr.String()})
	if err != nil || eff.Policy == nil {
		// no effective policy (e.g. empty geolocation intersection): pairing must fail as well, nothing to compare
		if perr == nil && len(pairing.Providers) > 0 {
			res.Viol = append(res.Viol, ev.Violation{Property: "C02", Key: "pairing-without-policy", What: name + ": pairing returned providers although the effective policy cannot be computed"})
		}
		res.Err = "no effective policy"
		return res
	}
	policy := eff.Policy
	anyMixed := false
	var reqs []planstypes.ChainRequirement
	for _, cp := range policy.ChainPolicies {
		if cp.ChainId == Chain {
			reqs = cp.Requirements
		}
	}
	for _, r := range reqs {
		anyMixed = anyMixed || r.Mixed
	}
	sel := map[string]bool{}
	for _, s := range policy.SelectedProviders {
		sel[s] = true
	}
	// reference eligibility from the epoch snapshot
	entries := w.Keepers.Epochstorage.GetAllStakeEntriesForEpochChainId(w.Ctx, epoch, Chain)
	eligible := map[string]bool{}
	for _, se := range entries {
		i, ok := idx[se.Address]
		if !ok {
			continue
		}
		if se.StakeAppliedBlock > epoch {
			continue
		}
		if policy.SelectedProvidersMode == planstypes.SELECTED_PROVIDERS_MODE_EXCLUSIVE && !sel[se.Address] {
			continue
		}
		okReq := true
		if !anyMixed {
			for _, r := range reqs {
				okReq = okReq && supports(Profiles[ms[i]], r)
			}
		}
		if okReq {
			eligible[se.Address] = true
		}
	}
	for a := range eligible {
		res.Eligible = append(res.Eligible, "p"+strconv.Itoa(idx[a]))
	}
	sort.Strings(res.Eligible)
	res.Want = len(eligible)
	if int(policy.MaxProvidersToPair) < res.Want {
		res.Want = int(policy.MaxProvidersToPair)
	}
	if perr != nil {
		res.Err = "pairing error: " + perr.Error()
		if res.Want > 0 {
			res.Viol = append(res.Viol, ev.Violation{Property: "C02", Key: "pairing-fails-with-eligible-providers", What: fmt.Sprintf("%s: %d eligible providers but GetPairing fails: %v", name, res.Want, perr)})
		}
		return res
	}
	seen := map[string]bool{}
	for _, p := range pairing.Providers {
		lbl := "p?" + p.Address
		if i, ok := idx[p.Address]; ok {
			lbl = "p" + strconv.Itoa(i) + ":" + Profiles[ms[i]].Name
		}
		res.Pairing = append(res.Pairing, lbl)
		if seen[p.Address] {
			res.Viol = append(res.Viol, ev.Violation{Property: "C02", Key: "duplicate-provider", What: name + ": provider " + lbl + " appears twice in the pairing list"})
		}
		seen[p.Address] = true
		if !eligible[p.Address] {
			why := "not eligible"
			if i, ok := idx[p.Address]; ok {
				pr := Profiles[ms[i]]
				switch {
				case pr.Unfreeze:
					why = "unfrozen too late for this epoch"
				case pr.Frozen:
					why = "frozen"
				case pr.LateStake:
					why = "stake not applied at this epoch"
				}
			}
			res.Viol = append(res.Viol, ev.Violation{Property: "C02", Key: "ineligible-provider-paired:" + why, What: fmt.Sprintf("%s: provider %s is in the pairing list but is %s (eligible: %v)", name, lbl, why, res.Eligible)})
		}
	}
	if len(pairing.Providers) != res.Want {
		res.Viol = append(res.Viol, ev.Violation{Property: "C02", Key: fmt.Sprintf("wrong-count:mixed=%v", anyMixed || policy.SelectedProvidersMode == planstypes.SELECTED_PROVIDERS_MODE_MIXED), What: fmt.Sprintf("%s: pairing has %d providers %v, expected min(max=%d, eligible=%d)=%d", name, len(pairing.Providers), res.Pairing, policy.MaxProvidersToPair, len(eligible), res.Want)})
	}
	// Get == Verify for every staked provider
	for i, p := range c.Provs {
		vr, verr := w.Keepers.Pairing.VerifyPairing(w.GoCtx, &pairingtypes.QueryVerifyPairingRequest{ChainID: Chain, Client: c.Cons.Addr.String(), Provider: p.Addr.String(), Block: epoch})
		valid := verr == nil && vr.Valid
		if valid != seen[p.Addr.String()] {
			res.Viol = append(res.Viol, ev.Violation{Property: "C02", Key: "get-verify-disagree", What: fmt.Sprintf("%s: provider p%d in pairing=%v but VerifyPairing valid=%v (err=%v)", name, i, seen[p.Addr.String()], valid, verr)})
		}
	}
	res.Nontrivial = res.Want > 0 && len(eligible) != len(entries)
	return res
}

func first(s string) string {
	if i := strings.IndexByte(s, '\n'); i >= 0 {
		return s[:i]
	}
	return s
}

// ---- sharded driver

type shardOut struct {
	Evaluations int64
	Nontrivial  int64
	BuildErrors map[string]int
	Outcomes    map[string]int
	Viol        []ev.Violation
	Samples     []Result
}

// RunShard evaluates the configurations with index % n == i. step thins the multiset list (quick tier).
func RunShard(i, n, step int) shardOut {
	c := NewCfg()
	out := shardOut{BuildErrors: map[string]int{}, Outcomes: map[string]int{}}
	seenKey := map[string]bool{}
	distinct := map[string]bool{}
	k := 0
	for mi, ms := range Multisets() {
		if mi%step != 0 {
			continue
		}
		for pi := range c.Plans {
			for si := range c.Subs {
				for ai := range c.Admins {
					k++
					if k%n != i {
						continue
					}
					c.Evaluate(ms, pi, si, ai, func(r Result) {
						out.Evaluations++
						if r.Err != "" {
							out.BuildErrors[strings.SplitN(r.Err, ":", 2)[0]]++
						}
						if r.Nontrivial {
							key := fmt.Sprint(r.Pairing, r.Eligible, r.Want)
							if !distinct[key] {
								distinct[key] = true
								out.Nontrivial++
							}
						}
						out.Outcomes[fmt.Sprintf("paired=%d,eligible=%d", len(r.Pairing), len(r.Eligible))]++
						if len(out.Samples) < 2 && r.Nontrivial {
							out.Samples = append(out.Samples, r)
						}
						for _, v := range r.Viol {
							if !seenKey[v.Key] {
								seenKey[v.Key] = true
								v.Replay = map[string]interface{}{"case": r.Case, "pairing": r.Pairing, "eligible": r.Eligible, "expected_count": r.Want}
								out.Viol = append(out.Viol, v)
							}
						}
					})
				}
			}
		}
	}
	return out
}

func init() {
	reg.Register(reg.Check{Property: "C02", Level: "exploration", Run: func(run *ev.Run) {
		step := 12
		if ev.Tier() == "thorough" {
			step = 1
		}
		exe, _ := os.Executable()
		n := 16
		outs := make([]shardOut, n)
		errs := make([]error, n)
		var wg sync.WaitGroup
		for i := 0; i < n; i++ {
			wg.Add(1)
			go func(i int) {
				defer wg.Done()
				cmd := exec.Command(exe, "c02shard", strconv.Itoa(i), strconv.Itoa(n), strconv.Itoa(step))
				cmd.Stderr = os.Stderr
				b, err := cmd.Output()
				if err != nil {
					errs[i] = err
					return
				}
				errs[i] = json.Unmarshal(b, &outs[i])
			}(i)
		}
		wg.Wait()
		var evals, nontriv int64
		outcomes := map[string]int{}
		buildErrs := map[string]int{}
		exh := true
		for i, o := range outs {
			if errs[i] != nil {
				run.Set(fmt.Sprintf("shard%d.error", i), errs[i].Error())
				exh = false
				continue
			}
			evals += o.Evaluations
			nontriv += o.Nontrivial
			for k, v := range o.Outcomes {
				outcomes[k] += v
			}
			for k, v := range o.BuildErrors {
				buildErrs[k] += v
			}
			for _, v := range o.Viol {
				run.Violate(v)
			}
			for _, s := range o.Samples {
				run.Sample(s)
			}
		}
		run.Set("evaluations", evals)
		run.Set("distinct_nontrivial", nontriv)
		run.Set("rule", fmt.Sprintf("every %d-th multiset of 4 providers over 9 profiles (stake, geolocation, add-on/extension services, frozen, stake applied next epoch, unfrozen mid-epoch) x 6 plan policies x 5 subscription policies x 5 admin policies x 2 consecutive epochs, the second queried at its first block and two blocks later; each built with real stake/freeze/buy/set-policy transactions; non-trivial = some staked provider is not eligible and the expected list is non-empty, distinct by (pairing, eligible set, expected count)", step))
		run.Set("exhaustive", exh)
		run.Set("outcomes", outcomes)
		run.Set("configurations_without_pairing", buildErrs)
		run.Assume("eligibility is computed from the effective policy reported by the chain (policy merging itself is not part of this property); when any add-on requirement is 'mixed' add-on requirements are treated as non-mandatory (weaker reading)")
	}})
}

// ShardMain: vmc c02shard i n step
func ShardMain(args []string) {
	i, _ := strconv.Atoi(args[0])
	n, _ := strconv.Atoi(args[1])
	step, _ := strconv.Atoi(args[2])
	out := RunShard(i, n, step)
	json.NewEncoder(os.Stdout).Encode(out)
}
