// Package c05: relay payments are accepted only for authentic, paired relays — every single-field corruption of
// valid payment messages, evaluated differentially on forks of reachable chain states.
package c05

import (
	"fmt"

	sdk "github.com/cosmos/cosmos-sdk/types"
	"sort"
	"strings"
	"time"

	"github.com/lavanet/lava/v5/testutil/common"
	"github.com/lavanet/lava/v5/utils/sigs"
	pairingtypes "github.com/lavanet/lava/v5/x/pairing/types"
	projectstypes "github.com/lavanet/lava/v5/x/projects/types"

	"verifmc/engine/chain"
	"verifmc/engine/ev"
	"verifmc/engine/reg"
)

const (
	specA   = "mocka"
	specOff = "mockoff" // staked on, then disabled by governance
)

type fixture struct {
	w        *chain.World
	cons     sigs.Account // subscription owner, developer key of the admin project
	dev2     sigs.Account // second developer key of the project (removed in state 3)
	other    sigs.Account // consumer of another subscription whose pairing does not include pUnpaired's relay? (valid elsewhere)
	stranger sigs.Account // no project at all
	user     sigs.Account // badge user
	provs    []sigs.Account
	project  string
}

func build() *fixture {
	f := &fixture{}
	w := chain.NewWorld()
	f.w = w
	w.SetEpochParams(4, 3)
	w.AddValidator(0, 1000000)
	w.Must("spec", w.AddSpecGov(chain.MockSpec(specA)))
	w.Must("spec", w.AddSpecGov(chain.MockSpec(specOff)))
	plan := common.CreateMockPlan()
	plan.PlanPolicy.MaxProvidersToPair = 2
	w.Must("plan", w.AddPlanGov(false, plan))
	for i := 0; i < 3; i++ {
		p, _ := w.AddAccount(common.PROVIDER, i, 10000000)
		f.provs = append(f.provs, p)
		w.Must("stake", w.Stake(p, specA, int64(100000*(i+1)), 1, nil, 100))
		w.Must("stake", w.Stake(p, specOff, 100000, 1, nil, 100))
	}
	f.cons, _ = w.AddAccount(common.CONSUMER, 0, 10000000)
	f.other, _ = w.AddAccount(common.CONSUMER, 1, 10000000)
	f.stranger, _ = w.AddAccount("stranger", 0, 1000)
	f.dev2, _ = w.AddAccount(common.DEVELOPER, 0, 1000)
	f.user, _ = w.AddAccount("badgeuser", 0, 1000)
	w.Must("buy", w.Buy(f.cons, f.cons, plan.Index, 3, false, false))
	w.Must("buy", w.Buy(f.other, f.other, plan.Index, 3, false, false))
	proj, err := w.Keepers.Projects.GetProjectForDeveloper(w.Ctx, f.cons.Addr.String(), uint64(w.Ctx.BlockHeight()))
	if err != nil {
		panic(err)
	}
	f.project = proj.Index
	w.Must("add key", w.Tx(func() error {
		msg := projectstypes.NewMsgAddKeys(f.cons.Addr.String(), f.project, []projectstypes.ProjectKey{projectstypes.ProjectDeveloperKey(f.dev2.Addr.String())})
		if err := msg.ValidateBasic(); err != nil {
			return err
		}
		_, err := w.Servers.ProjectServer.AddKeys(w.GoCtx, msg)
		return err
	}))
	w.AdvanceToNextEpoch(chain.BlockDt)
	w.AdvanceToNextEpoch(chain.BlockDt)
	// disable specOff (providers stay staked on it)
	off := chain.MockSpec(specOff)
	off.Enabled = false
	w.Must("disable spec", w.AddSpecGov(off))
	w.AdvanceToNextEpoch(chain.BlockDt)
	return f
}

// paired returns the providers (indexes) in the consumer's pairing for specA and one that is not.
func (f *fixture) pairing(consumer sigs.Account) (in []int, out []int) {
	w := f.w
	pr, err := w.Keepers.Pairing.GetPairing(w.GoCtx, &pairingtypes.QueryGetPairingRequest{ChainID: specA, Client: consumer.Addr.String()})
	set := map[string]bool{}
	if err == nil {
		for _, p := range pr.Providers {
			set[p.Address] = true
		}
	}
	for i, p := range f.provs {
		if set[p.Addr.String()] {
			in = append(in, i)
		} else {
			out = append(out, i)
		}
	}
	return
}

type relayCase struct {
	name       string
	rs         *pairingtypes.RelaySession
	creator    string
	mustReject bool   // the property's conditions are violated
	why        string // which condition
}

func (f *fixture) relay(signer sigs.Account, provider string, spec string, session, cu uint64, epoch int64, edit func(*pairingtypes.RelaySession), resign bool) *pairingtypes.RelaySession {
	rs := &pairingtypes.RelaySession{Provider: provider, ContentHash: []byte("apiname"), SessionId: session, SpecId: spec, CuSum: cu, Epoch: epoch, RelayNum: 1, LavaChainId: chain.ChainID}
	if resign && edit != nil {
		edit(rs)
	}
	chain.SignRelay(signer, rs)
	if !resign && edit != nil {
		edit(rs)
	}
	return rs
}

func (f *fixture) badge(signer sigs.Account, user sigs.Account, alloc uint64, epoch uint64, chainID string) *pairingtypes.Badge {
	b := pairingtypes.CreateBadge(alloc, epoch, user.Addr, chainID, nil)
	sig, err := sigs.Sign(signer.SK, *b)
	if err != nil {
		panic(err)
	}
	b.ProjectSig = sig
	return b
}

// cases builds the valid base relays and every corruption for the current state.
func (f *fixture) cases(sessionBase uint64) (valid []relayCase, bad []relayCase) {
	w := f.w
	in, out := f.pairing(f.cons)
	if len(in) == 0 || len(out) == 0 {
		panic("fixture: need a paired and an unpaired provider")
	}
	p := f.provs[in[0]].Addr.String()
	pOther := f.provs[in[len(in)-1]].Addr.String()
	pUnpaired := f.provs[out[0]].Addr.String()
	e := int64(w.EpochStartNow())
	eb := int64(4)
	earliest := int64(w.Keepers.Epochstorage.GetEarliestEpochStart(w.Ctx))
	s := sessionBase
	next := func() uint64 { s++; return s }
	valid = append(valid,
		relayCase{name: "valid-plain", rs: f.relay(f.cons, p, specA, next(), 10, e, nil, true), creator: p},
		relayCase{name: "valid-dev2-key", rs: f.relay(f.dev2, p, specA, next(), 20, e, nil, true), creator: p},
	)
	vb := f.relay(f.user, p, specA, next(), 5, e, func(r *pairingtypes.RelaySession) { r.Badge = f.badge(f.cons, f.user, 10, uint64(e), chain.ChainID) }, true)
	valid = append(valid, relayCase{name: "valid-badge", rs: vb, creator: p})

	add := func(name, why string, creator string, rs *pairingtypes.RelaySession) {
		bad = append(bad, relayCase{name: name, rs: rs, creator: creator, mustReject: true, why: why})
	}
	// --- tampering after signing: every signed field
	tamper := map[string]func(*pairingtypes.RelaySession){
		"CuSum+1":      func(r *pairingtypes.RelaySession) { r.CuSum++ },
		"CuSum*1000":   func(r *pairingtypes.RelaySession) { r.CuSum *= 1000 },
		"SessionId+1":  func(r *pairingtypes.RelaySession) { r.SessionId++ },
		"RelayNum+1":   func(r *pairingtypes.RelaySession) { r.RelayNum++ },
		"Epoch-prev":   func(r *pairingtypes.RelaySession) { r.Epoch -= eb },
		"SpecId-other": func(r *pairingtypes.RelaySession) { r.SpecId = specOff },
		"LavaChainId":  func(r *pairingtypes.RelaySession) { r.LavaChainId = "lava-other" },
		"ContentHash":  func(r *pairingtypes.RelaySession) { r.ContentHash = []byte("apinamf") },
		"QosReport-added": func(r *pairingtypes.RelaySession) {
			r.QosReport = &pairingtypes.QualityOfServiceReport{Latency: one(), Availability: one(), Sync: one()}
		},
		"QosExcellence": func(r *pairingtypes.RelaySession) {
			r.QosExcellenceReport = &pairingtypes.QualityOfServiceReport{Latency: one(), Availability: one(), Sync: one()}
		},
		"Unresponsive": func(r *pairingtypes.RelaySession) {
			r.UnresponsiveProviders = []*pairingtypes.ReportedProvider{{Address: pOther, Errors: 1}}
		},
		"Sig-flipped":   func(r *pairingtypes.RelaySession) { r.Sig = append([]byte{}, r.Sig...); r.Sig[5] ^= 0x40 },
		"Sig-truncated": func(r *pairingtypes.RelaySession) { r.Sig = r.Sig[:len(r.Sig)-1] },
		"Sig-empty":     func(r *pairingtypes.RelaySession) { r.Sig = nil },
	}
	names := make([]string, 0, len(tamper))
	for k := range tamper {
		names = append(names, k)
	}
	sort.Strings(names)
	for _, k := range names {
		add("tampered:"+k, "not signed by a developer key (field changed after signing)", p, f.relay(f.cons, p, specA, next(), 10, e, tamper[k], false))
	}
	// provider field tampered: the relay now names the sender but the consumer signed for another provider
	add("tampered:Provider", "not signed (provider changed after signing)", pOther, f.relay(f.cons, p, specA, next(), 10, e, func(r *pairingtypes.RelaySession) { r.Provider = pOther }, false))
	// --- properly signed relays that violate one stated condition
	add("signed:names-other-provider", "relay does not name the sender as provider", pOther, f.relay(f.cons, p, specA, next(), 10, e, nil, true))
	add("signed:wrong-lava-chain-id", "relay names another lava chain id", p, f.relay(f.cons, p, specA, next(), 10, e, func(r *pairingtypes.RelaySession) { r.LavaChainId = "lava-other" }, true))
	add("signed:empty-lava-chain-id", "relay names another lava chain id", p, f.relay(f.cons, p, specA, next(), 10, e, func(r *pairingtypes.RelaySession) { r.LavaChainId = "" }, true))
	add("signed:future-epoch", "epoch in the future", p, f.relay(f.cons, p, specA, next(), 10, e+eb, nil, true))
	add("signed:negative-epoch", "negative epoch", p, f.relay(f.cons, p, specA, next(), 10, -eb, nil, true))
	add("signed:epoch-out-of-memory", "epoch no longer in memory", p, f.relay(f.cons, p, specA, next(), 10, earliest-eb, nil, true))
	add("signed:epoch-zero", "epoch no longer in memory", p, f.relay(f.cons, p, specA, next(), 10, 0, nil, true))
	add("signed:unknown-spec", "spec does not exist", p, f.relay(f.cons, p, "nospec", next(), 10, e, nil, true))
	add("signed:disabled-spec", "spec is disabled", p, f.relay(f.cons, p, specOff, next(), 10, e, nil, true))
	add("signed:stranger-key", "signer has no project", p, f.relay(f.stranger, p, specA, next(), 10, e, nil, true))
	add("signed:unpaired-provider", "provider is not in the consumer's pairing", pUnpaired, f.relay(f.cons, pUnpaired, specA, next(), 10, e, nil, true))
	// --- badges
	bd := func(name, why string, signer sigs.Account, b *pairingtypes.Badge, cu uint64) {
		add("badge:"+name, why, p, f.relay(signer, p, specA, next(), cu, e, func(r *pairingtypes.RelaySession) { r.Badge = b }, true))
	}
	bd("other-user", "badge issued to another user address", f.stranger, f.badge(f.cons, f.user, 10, uint64(e), chain.ChainID), 5)
	bd("other-epoch", "badge for another epoch", f.user, f.badge(f.cons, f.user, 10, uint64(e-eb), chain.ChainID), 5)
	bd("other-lava-chain", "badge for another lava chain", f.user, f.badge(f.cons, f.user, 10, uint64(e), "lava-other"), 5)
	bd("over-allocation", "relay CU above the badge allocation", f.user, f.badge(f.cons, f.user, 10, uint64(e), chain.ChainID), 11)
	bd("signed-by-stranger", "badge signed by a key without project", f.user, f.badge(f.stranger, f.user, 10, uint64(e), chain.ChainID), 5)
	tb := f.badge(f.cons, f.user, 10, uint64(e), chain.ChainID)
	tb.CuAllocation = 1000000 // allocation raised after the project key signed
	bd("allocation-tampered", "badge changed after the project key signed it", f.user, tb, 500)
	tb2 := f.badge(f.cons, f.user, 10, uint64(e), chain.ChainID)
	tb2.ProjectSig = append([]byte{}, tb2.ProjectSig...)
	tb2.ProjectSig[7] ^= 1
	bd("project-sig-flipped", "badge signature invalid", f.user, tb2, 5)
	return valid, bad
}

func one() sdk.Dec { return sdk.OneDec() }

// state 1: as built; state 2: after accepted payments and one more epoch; state 3: dev2 key removed, other
// subscription... (key removed takes effect next epoch)
func (f *fixture) prepareState(i int) string {
	w := f.w
	switch i {
	case 0:
		return "fresh-epoch"
	case 1:
		in, _ := f.pairing(f.cons)
		p := f.provs[in[0]].Addr.String()
		e := int64(w.EpochStartNow())
		w.Must("pay", w.Pay(p, w.Relay(f.cons, p, specA, 9001, 50, e, 1)))
		w.AdvanceToNextEpoch(chain.BlockDt)
		in, _ = f.pairing(f.cons)
		p = f.provs[in[0]].Addr.String()
		w.Must("pay", w.Pay(p, w.Relay(f.cons, p, specA, 9002, 70, int64(w.EpochStartNow()), 1)))
		w.NextBlock(chain.BlockDt)
		return "after-payments"
	case 3:
		// the provider whose relays were valid so far freezes: it stays paired in the epochs still in memory and
		// is unpaired from the next one on
		in, _ := f.pairing(f.cons)
		p := f.provs[in[0]].Addr.String()
		w.Must("freeze", w.Tx(func() error {
			msg := &pairingtypes.MsgFreezeProvider{Creator: p, ChainIds: []string{specA}, Reason: "verif"}
			if err := msg.ValidateBasic(); err != nil {
				return err
			}
			_, err := w.Servers.PairingServer.FreezeProvider(w.GoCtx, msg)
			return err
		}))
		w.AdvanceToNextEpoch(chain.BlockDt)
		w.NextBlock(chain.BlockDt)
		return "after-provider-freeze"
	default:
		w.Must("del key", w.Tx(func() error {
			msg := projectstypes.NewMsgDelKeys(f.cons.Addr.String(), f.project, []projectstypes.ProjectKey{projectstypes.ProjectDeveloperKey(f.dev2.Addr.String())})
			if err := msg.ValidateBasic(); err != nil {
				return err
			}
			_, err := w.Servers.ProjectServer.DelKeys(w.GoCtx, msg)
			return err
		}))
		for k := 0; k < 5; k++ {
			w.AdvanceToNextEpoch(chain.BlockDt)
		}
		return "after-key-removal-and-memory-turnover"
	}
}

type pctx struct {
	cons  sigs.Account
	name  string
	epoch int64
}

// crossContext enumerates, for every provider, every ordered pair of distinct (consumer, in-memory epoch) contexts
// (a, b) with the provider paired in a and not paired in b, and submits [relay@a, relay@b] and [relay@b, relay@a] in one
// tx: the tx must fail or change exactly what [relay@a] alone changes. The relay for b is properly signed by b's
// consumer and names the sender: the only violated condition is pairing membership.
func (f *fixture) crossContext(run *ev.Run, stateName string, base map[string]string, sessionBase uint64) (evals int64, unpaired int64) {
	w := f.w
	cur := int64(w.EpochStartNow())
	earliest := int64(w.Keepers.Epochstorage.GetEarliestEpochStart(w.Ctx))
	var ctxs []pctx
	for e := earliest; e <= cur; e += 4 { // the fixture keeps EpochBlocks = 4
		if e == 0 {
			continue
		}
		ctxs = append(ctxs, pctx{f.cons, "cons", e}, pctx{f.other, "other", e})
	}
	// each membership query runs on its own fork: the query path fills the per-block pairing cache, which must not
	// leak from one query into the next or into the transactions under test
	paired := func(prov string, c pctx) bool {
		r := w.Fork()
		defer r()
		vr, err := w.Keepers.Pairing.VerifyPairing(w.GoCtx, &pairingtypes.QueryVerifyPairingRequest{ChainID: specA, Client: c.cons.Addr.String(), Provider: prov, Block: uint64(c.epoch)})
		return err == nil && vr.Valid
	}
	s := sessionBase
	for pi, pa := range f.provs {
		prov := pa.Addr.String()
		for _, a := range ctxs {
			if !paired(prov, a) {
				continue
			}
			ra := f.relay(a.cons, prov, specA, s+1, 10, a.epoch, nil, true)
			s++
			r := w.Fork()
			resA := f.submit(prov, []*pairingtypes.RelaySession{ra})
			want := w.StoreDump(nil)
			r()
			if !resA.OK() {
				run.Set(fmt.Sprintf("harness_cross_valid_rejected:%s:p%d:%s@%d", stateName, pi, a.name, a.epoch), fmt.Sprint(resA.Err))
				continue
			}
			for _, b := range ctxs {
				if (b.name == a.name && b.epoch == a.epoch) || paired(prov, b) {
					continue
				}
				unpaired++
				rb := f.relay(b.cons, prov, specA, s+1, 10, b.epoch, nil, true)
				s++
				for _, order := range []string{"valid-first", "unpaired-first"} {
					relays := []*pairingtypes.RelaySession{ra, rb}
					if order == "unpaired-first" {
						relays = []*pairingtypes.RelaySession{rb, ra}
					}
					evals++
					r := w.Fork()
					res := f.submit(prov, relays)
					got := w.StoreDump(nil)
					r()
					name := fmt.Sprintf("p%d valid for %s@%d, unpaired for %s@%d, %s", pi, a.name, a.epoch, b.name, b.epoch, order)
					if res.Panic != "" {
						run.Violate(ev.Violation{Key: "tx-panic:cross-context", What: fmt.Sprintf("state %s, %s: panicked: %s", stateName, name, strings.SplitN(res.Panic, "\n", 2)[0])})
						continue
					}
					if !res.OK() {
						continue
					}
					kind := "other-consumer"
					if a.name == b.name {
						kind = "other-epoch"
					}
					if d := diff(want, got); len(d) > 0 {
						run.Violate(ev.Violation{Key: "credited:cross-context-unpaired:" + kind + ":" + order, What: fmt.Sprintf("state %s, %s: the payment tx succeeded and changed state beyond the tx with the valid relay only: %v", stateName, name, d),
							Replay: map[string]interface{}{"state": stateName, "case": name, "changed_keys": d}})
					}
				}
			}
		}
	}
	_ = base
	return evals, unpaired
}

func (f *fixture) submit(creator string, relays []*pairingtypes.RelaySession) chain.TxResult {
	w := f.w
	return w.Tx(func() error {
		msg := &pairingtypes.MsgRelayPayment{Creator: creator, Relays: relays, DescriptionString: "verif"}
		if err := msg.ValidateBasic(); err != nil {
			return err
		}
		_, err := w.Servers.PairingServer.RelayPayment(w.GoCtx, msg)
		return err
	})
}

func diff(a, b map[string]string) []string {
	var out []string
	for k, v := range a {
		if b[k] != v {
			out = append(out, k)
		}
	}
	for k := range b {
		if _, ok := a[k]; !ok {
			out = append(out, k)
		}
	}
	sort.Strings(out)
	if len(out) > 6 {
		out = append(out[:6], fmt.Sprintf("... %d keys", len(out)))
	}
	for i := range out {
		out[i] = strings.ToValidUTF8(out[i], "?")
	}
	return out
}

func init() {
	reg.Register(reg.Check{Property: "C05", Level: "exploration", Run: func(run *ev.Run) {
		start := time.Now()
		f := build()
		w := f.w
		var evals, rejectedOK, txFailed, acceptedValid, crossEvals, crossUnpaired, coveredByGenuineBadge int64
		distinct := map[string]bool{}
		for st := 0; st < 4; st++ {
			stateName := f.prepareState(st)
			valid, bad := f.cases(uint64(1000 * (st + 1)))
			// in state 3 the dev2 key was removed: its relay must now be rejected
			if st >= 2 {
				for i := range valid {
					if valid[i].name == "valid-dev2-key" {
						c := valid[i]
						c.name, c.mustReject, c.why = "signed:removed-developer-key", true, "developer key was removed from the project"
						bad = append(bad, c)
						valid = append(valid[:i], valid[i+1:]...)
						break
					}
				}
			}
			base := w.StoreDump(nil)
			// sanity: valid relays are accepted alone (vacuity guard)
			for _, v := range valid {
				r := w.Fork()
				res := f.submit(v.creator, []*pairingtypes.RelaySession{v.rs})
				if res.OK() {
					acceptedValid++
				} else {
					run.Set("harness_valid_relay_rejected:"+stateName+":"+v.name, fmt.Sprint(res.Err))
				}
				r()
			}
			// placements: alone, and right after / right before EVERY valid relay of the same sender (plain, second
			// developer key, badge) - state built up by an earlier relay of the same tx (caches, per-tx maps) must not
			// vouch for a later one
			places := []string{"alone"}
			for vi := range valid {
				places = append(places, fmt.Sprintf("after-valid:%d", vi), fmt.Sprintf("before-valid:%d", vi))
			}
			for _, b := range bad {
				for _, place := range places {
					var relays []*pairingtypes.RelaySession
					var without []*pairingtypes.RelaySession
					creator := b.creator
					if place != "alone" {
						var vi int
						kind := place[:strings.IndexByte(place, ':')]
						fmt.Sscanf(place[strings.IndexByte(place, ':')+1:], "%d", &vi)
						if creator != valid[vi].creator {
							continue
						}
						without = []*pairingtypes.RelaySession{valid[vi].rs}
						if kind == "after-valid" {
							relays = []*pairingtypes.RelaySession{valid[vi].rs, b.rs}
						} else {
							relays = []*pairingtypes.RelaySession{b.rs, valid[vi].rs}
						}
						place = kind + ":" + valid[vi].name
						// next to the valid badge relay of the same tx the sender's badge user IS a valid badge holder for
						// that epoch (the chain keeps the first badge per (user, epoch) of a tx): a later relay of the same
						// user whose own badge copy is damaged but which fits in the genuine allocation is covered by the
						// property's "signed by ... a valid badge holder" - not a must-reject case
						// (either order: the first badge of the tx whose signer can be recovered is the one that is kept)
						if strings.HasSuffix(place, ":valid-badge") && (b.name == "badge:project-sig-flipped" || b.name == "badge:signed-by-stranger" || b.name == "badge:other-lava-chain" || b.name == "badge:other-epoch") {
							coveredByGenuineBadge++
							continue
						}
					} else {
						relays = []*pairingtypes.RelaySession{b.rs}
					}
					evals++
					distinct[stateName+"|"+b.name+"|"+place] = true
					r := w.Fork()
					res := f.submit(creator, relays)
					got := w.StoreDump(nil)
					r()
					if res.Panic != "" {
						run.Violate(ev.Violation{Key: "tx-panic:" + b.name, What: fmt.Sprintf("relay payment with corrupted relay %s (%s, %s) panicked: %s", b.name, place, stateName, strings.SplitN(res.Panic, "\n", 2)[0])})
						continue
					}
					if !res.OK() {
						txFailed++
						rejectedOK++
						continue // failed tx: rolled back entirely, nothing credited
					}
					// the tx succeeded: its effect must equal the effect of the tx without the corrupted relay
					want := base
					if without != nil {
						r2 := w.Fork()
						res2 := f.submit(creator, without)
						want = w.StoreDump(nil)
						r2()
						if !res2.OK() {
							want = base
						}
					}
					if d := diff(want, got); len(d) > 0 {
						run.Violate(ev.Violation{Key: "credited:" + b.name, What: fmt.Sprintf("state %s, corrupted relay %s (%s; violates: %s): the payment tx succeeded and changed state beyond the tx without that relay: %v", stateName, b.name, place, b.why, d),
							Replay: map[string]interface{}{"state": stateName, "corruption": b.name, "placement": place, "condition": b.why, "changed_keys": d}})
					} else {
						rejectedOK++
					}
				}
			}
			// --- cross-context pairs: a relay that is valid in one (consumer, epoch) context next to a properly signed
			// relay of the same provider for a context in which it is not in the pairing
			cc, ccUnpaired := f.crossContext(run, stateName, base, uint64(1000*(st+1)+500))
			crossEvals += cc
			crossUnpaired += ccUnpaired
			evals += cc
			run.Sample(map[string]interface{}{"state": stateName, "valid": len(valid), "corruptions": len(bad), "example": bad[len(bad)/2].name, "cross_context_pairs": cc})
		}
		run.Set("evaluations", evals)
		run.Set("distinct_nontrivial", int64(len(distinct)))
		run.Set("rule", "4 reachable chain states (fresh epoch; after accepted payments; after a developer key was removed and chain memory turned over; after the serving provider froze) x every corruption (each signed field edited after signing; properly signed relays violating one stated condition: provider/creator mismatch, lava chain id, future/negative/out-of-memory epoch, unknown/disabled spec, stranger key, removed key, unpaired provider; 7 badge corruptions) x placement alone / right after / right before every valid relay (plain, second developer key, badge) in the same tx; plus, per state, every provider x every ordered pair of (consumer in {cons, other}, epoch in memory) contexts where the provider is paired in the first and not in the second, both orders in one tx; a 4th state has the serving provider frozen; each on a fork, compared with the fork of the tx without the corrupted relay")
		run.Set("exhaustive", true)
		run.Set("cross_context_pairs_evaluated", crossEvals)
		run.Set("cross_context_unpaired_contexts", crossUnpaired)
		if crossEvals == 0 {
			run.Set("harness_no_cross_context_pair", "no provider was paired in one in-memory context and unpaired in another")
		}
		run.Set("damaged_badge_copies_after_the_genuine_badge_of_the_same_tx_not_judged", coveredByGenuineBadge)
		run.Set("corrupted_relays_without_effect", rejectedOK)
		run.Set("payment_tx_failed", txFailed)
		run.Set("valid_relays_accepted_alone", acceptedValid)
		run.Set("wall_build_and_run_s", time.Since(start).Seconds())
		run.Assume("a failed transaction changes nothing (baseapp atomicity emulated by the driver); mock bank; the comparison covers every KV/memory store and all bank balances")
	}})
}
