// Package c04: credited CU never exceeds signed CU or the epoch allowance — BFS on the real keepers.
package c04

import (
	"fmt"
	"sort"
	"strings"
	"time"

	sdk "github.com/cosmos/cosmos-sdk/types"
	"github.com/lavanet/lava/v5/testutil/common"
	"github.com/lavanet/lava/v5/utils/sigs"
	pairingtypes "github.com/lavanet/lava/v5/x/pairing/types"
	planstypes "github.com/lavanet/lava/v5/x/plans/types"
	projectstypes "github.com/lavanet/lava/v5/x/projects/types"

	"verifmc/engine/bfs"
	"verifmc/engine/chain"
	"verifmc/engine/ev"
	"verifmc/engine/reg"
)

type opdef struct {
	name     string
	kind     int // 0 pay, 1 setAdminPolicy, 2 setSubPolicy, 3 next-epoch, 4 downtime-block, 5 month, 6 +1 block
	provider int
	cus      []uint64
	prev     bool
	policy   *planstypes.Policy
}

type scen struct {
	w     *chain.World
	ops   []opdef
	names []string
	cons  sigs.Account
	provs []sigs.Account
	proj  string

	nextSession uint64
	credited    map[string]uint64 // provider|epoch -> credited CU (tracked)
}

const huge = uint64(1) << 40

func pol(epoch, total uint64) *planstypes.Policy {
	return &planstypes.Policy{EpochCuLimit: epoch, TotalCuLimit: total, MaxProvidersToPair: 3, GeolocationProfile: 1}
}

func build() *scen {
	s := &scen{}
	w := chain.NewWorld()
	s.w = w
	plan := common.CreateMockPlan()
	plan.PlanPolicy.TotalCuLimit = 1000
	plan.PlanPolicy.EpochCuLimit = 100
	w.StdFixture(chain.StdOpts{Specs: []string{"mock"}, Providers: 2, Consumers: 1, Plan: &plan})
	s.cons, _ = w.GetAccount(common.CONSUMER, 0)
	for i := 0; i < 2; i++ {
		p, _ := w.GetAccount(common.PROVIDER, i)
		s.provs = append(s.provs, p)
	}
	proj, err := w.Keepers.Projects.GetProjectForDeveloper(w.Ctx, s.cons.Addr.String(), uint64(w.Ctx.BlockHeight()))
	if err != nil {
		panic(err)
	}
	s.proj = proj.Index
	w.MarkFixture()
	for _, c := range []uint64{1, 30, 31, 60, huge} {
		s.ops = append(s.ops, opdef{name: fmt.Sprintf("pay(p0,cu=%d)", c), kind: 0, provider: 0, cus: []uint64{c}})
	}
	for _, c := range []uint64{31, 60} {
		s.ops = append(s.ops, opdef{name: fmt.Sprintf("pay(p1,cu=%d)", c), kind: 0, provider: 1, cus: []uint64{c}})
	}
	s.ops = append(s.ops, opdef{name: "pay(p0,[30,31])", kind: 0, provider: 0, cus: []uint64{30, 31}})
	s.ops = append(s.ops, opdef{name: "payPrevEpoch(p0,cu=60)", kind: 0, provider: 0, cus: []uint64{60}, prev: true})
	s.ops = append(s.ops,
		opdef{name: "adminPolicy(total=50)", kind: 1, policy: pol(0, 50)},
		opdef{name: "adminPolicy(epoch=30,total=1000)", kind: 1, policy: pol(30, 1000)},
		opdef{name: "adminPolicy(epoch=30,total=50)", kind: 1, policy: pol(30, 50)},
		opdef{name: "subPolicy(total=40)", kind: 2, policy: pol(0, 40)},
		opdef{name: "next-epoch", kind: 3},
		opdef{name: "downtime-block(2h)", kind: 4},
		opdef{name: "month(+31d)", kind: 5},
		opdef{name: "+1block", kind: 6},
	)
	for _, o := range s.ops {
		s.names = append(s.names, o.name)
	}
	return s
}

func (s *scen) Ops() []string { return s.names }
func (s *scen) Reset()        { s.w.Reset(); s.credited = map[string]uint64{}; s.nextSession = 100 }
func (s *scen) Fork() func() {
	r := s.w.Fork()
	saved := map[string]uint64{}
	for k, v := range s.credited {
		saved[k] = v
	}
	ns := s.nextSession
	return func() { r(); s.credited = saved; s.nextSession = ns }
}

func (s *scen) Hash() []byte {
	h := s.w.StateHash()
	keys := make([]string, 0, len(s.credited))
	for k, v := range s.credited {
		keys = append(keys, fmt.Sprintf("%s=%d", k, v))
	}
	sort.Strings(keys)
	return append(h, []byte(strings.Join(keys, ";"))...)
}

func (s *scen) tracked(provider string) uint64 {
	w := s.w
	sub, found := w.Keepers.Subscription.GetSubscription(w.Ctx, s.cons.Addr.String())
	if !found {
		return 0
	}
	var t uint64
	for _, info := range w.Keepers.Subscription.GetSubTrackedCuInfoForProvider(w.Ctx, sub.Consumer, provider, sub.Block) {
		t += info.TrackedCu
	}
	return t
}

// epochLimit: min non-zero EpochCuLimit over plan / subscription policy / admin policy in force at epoch,
// times the downtime factor of that epoch (the property's "per-epoch CU allowance times the downtime factor").
func (s *scen) epochLimit(epoch uint64) (uint64, bool) {
	w := s.w
	proj, err := w.Keepers.Projects.GetProjectForDeveloper(w.Ctx, s.cons.Addr.String(), epoch)
	if err != nil {
		return 0, false
	}
	plan, err := w.Keepers.Subscription.GetPlanFromSubscription(w.Ctx, proj.Subscription, epoch)
	if err != nil {
		return 0, false
	}
	lim := plan.PlanPolicy.EpochCuLimit
	for _, p := range []*planstypes.Policy{proj.AdminPolicy, proj.SubscriptionPolicy} {
		if p != nil && p.EpochCuLimit != 0 && p.EpochCuLimit < lim {
			lim = p.EpochCuLimit
		}
	}
	return lim * w.Keepers.Downtime.GetDowntimeFactor(w.Ctx, epoch), true
}

func (s *scen) mkRelays(o opdef, epoch uint64, qos *pairingtypes.QualityOfServiceReport, firstSession uint64) []*pairingtypes.RelaySession {
	paddr := s.provs[o.provider].Addr.String()
	var relays []*pairingtypes.RelaySession
	for i, c := range o.cus {
		rs := &pairingtypes.RelaySession{Provider: paddr, ContentHash: []byte("apiname"), SessionId: firstSession + uint64(i), SpecId: "mock",
			CuSum: c, Epoch: int64(epoch), RelayNum: 1, LavaChainId: chain.ChainID, QosReport: qos}
		chain.SignRelay(s.cons, rs)
		relays = append(relays, rs)
	}
	return relays
}

func (s *scen) submit(paddr string, relays []*pairingtypes.RelaySession) chain.TxResult {
	w := s.w
	return w.Tx(func() error {
		msg := &pairingtypes.MsgRelayPayment{Creator: paddr, Relays: relays, DescriptionString: "verif"}
		if err := msg.ValidateBasic(); err != nil {
			return err
		}
		_, err := w.Servers.PairingServer.RelayPayment(w.GoCtx, msg)
		return err
	})
}

func v(key, what string) []ev.Violation { return []ev.Violation{{Property: "C04", Key: key, What: what}} }

func (s *scen) Apply(op int) bfs.Step {
	o := s.ops[op]
	w := s.w
	switch o.kind {
	case 3, 4, 5, 6:
		var p string
		switch o.kind {
		case 3:
			p = w.AdvanceToNextEpoch(chain.BlockDt)
		case 4:
			p = w.NextBlock(2 * time.Hour)
		case 5:
			p = w.NextBlock(31 * 24 * time.Hour)
		case 6:
			p = w.NextBlock(chain.BlockDt)
		}
		if p != "" {
			return bfs.Step{Accepted: true, Obs: "block-panic", Viol: []ev.Violation{{Property: "C37", Key: "block-panic:" + firstLine(p), What: "panic in block processing: " + firstLine(p)}}}
		}
		return bfs.Step{Accepted: true, Obs: "block"}
	case 1, 2:
		res := w.Tx(func() error {
			if o.kind == 1 {
				msg := projectstypes.NewMsgSetPolicy(s.cons.Addr.String(), s.proj, o.policy)
				if err := msg.ValidateBasic(); err != nil {
					return err
				}
				_, err := w.Servers.ProjectServer.SetPolicy(w.GoCtx, msg)
				return err
			}
			msg := projectstypes.NewMsgSetSubscriptionPolicy(s.cons.Addr.String(), []string{s.proj}, o.policy)
			if err := msg.ValidateBasic(); err != nil {
				return err
			}
			_, err := w.Servers.ProjectServer.SetSubscriptionPolicy(w.GoCtx, msg)
			return err
		})
		if res.Panic != "" {
			return bfs.Step{Accepted: false, Obs: "tx-panic", Viol: v("set-policy-panic", "set policy panicked: "+firstLine(res.Panic))}
		}
		if !res.OK() {
			return bfs.Step{Accepted: false, Obs: "policy-rejected"}
		}
		return bfs.Step{Accepted: true, Obs: "policy-set"}
	}
	// ---- payment
	epoch := w.EpochStartNow()
	if o.prev {
		pe, err := w.Keepers.Epochstorage.GetPreviousEpochStartForBlock(w.Ctx, epoch)
		if err != nil {
			return bfs.Step{Accepted: false, Obs: "no-prev-epoch"}
		}
		epoch = pe
	}
	paddr := s.provs[o.provider].Addr.String()
	first := s.nextSession
	var sumCu uint64
	for _, c := range o.cus {
		sumCu += c
	}
	// QoS differential on forks: the same payment with a QoS report may only credit less or equal
	creditWith := map[string]uint64{}
	for name, q := range map[string]sdk.Dec{"half": sdk.NewDecWithPrec(5, 1), "one": sdk.OneDec(), "tiny": sdk.NewDecWithPrec(1, 3)} {
		restore := w.Fork()
		b := s.tracked(paddr)
		qos := &pairingtypes.QualityOfServiceReport{Latency: q, Availability: q, Sync: q}
		r := s.submit(paddr, s.mkRelays(o, epoch, qos, first))
		if r.OK() {
			creditWith[name] = s.tracked(paddr) - b
		}
		restore()
	}
	before := s.tracked(paddr)
	res := s.submit(paddr, s.mkRelays(o, epoch, nil, first))
	if res.Panic != "" {
		return bfs.Step{Accepted: false, Obs: "tx-panic", Viol: v("pay-panic:"+firstLine(res.Panic), "relay payment panicked: "+firstLine(res.Panic))}
	}
	if !res.OK() {
		return bfs.Step{Accepted: false, Obs: "pay-rejected"}
	}
	s.nextSession += uint64(len(o.cus))
	delta := s.tracked(paddr) - before
	if delta > sumCu {
		return bfs.Step{Accepted: true, Obs: "violation", Viol: v("credited-exceeds-signed", fmt.Sprintf("%s credited %d CU (tracked) but the consumer signed only %d", o.name, delta, sumCu))}
	}
	for name, c := range creditWith {
		if c > delta {
			return bfs.Step{Accepted: true, Obs: "violation", Viol: v("qos-raises-credit", fmt.Sprintf("%s with QoS report '%s' credits %d > %d without", o.name, name, c, delta))}
		}
	}
	key := fmt.Sprintf("p%d|%d", o.provider, epoch)
	s.credited[key] += delta
	lim, ok := s.epochLimit(epoch)
	if ok && s.credited[key] > lim {
		return bfs.Step{Accepted: true, Obs: "violation", Viol: v("epoch-allowance-exceeded", fmt.Sprintf("provider/project/epoch %s credited %d CU in total, allowance x downtime factor is %d (%s)", key, s.credited[key], lim, o.name))}
	}
	obs := "pay-full"
	if delta < sumCu {
		obs = "pay-capped"
	}
	if delta == 0 {
		obs = "pay-zero"
	}
	return bfs.Step{Accepted: true, Obs: obs}
}

func firstLine(s string) string {
	if i := strings.IndexByte(s, '\n'); i >= 0 {
		return s[:i]
	}
	return s
}

func init() {
	bfs.Register("c04", func() bfs.Scenario { return build() })
	reg.Register(reg.Check{Property: "C04", Level: "model_checking", Run: func(run *ev.Run) {
		depth, deadline := 4, 80*time.Second
		if ev.Tier() == "thorough" {
			depth, deadline = 6, 20*time.Minute
		}
		cfg := bfs.Config{Scenario: "c04", MaxDepth: depth, Deadline: deadline}
		st := bfs.Explore(cfg, run)
		bfs.Report(run, "", cfg, st)
		run.Set("exhaustive", st.Exhaustive)
		run.Set("bound", fmt.Sprintf("all histories up to depth %d over %d ops (payments with CU 1/30/31/60/2^40 by two providers, two-relay tx, previous-epoch payment, 3 admin policies, subscription policy, next epoch, 2h downtime block, +31 days, +1 block); plan epoch limit 100 / total 1000; each payment also replayed on forks with 3 QoS reports", depth, len(build0ps)))
		run.Assume("mock bank/account keeper of testutil/keeper; transactions atomic as in baseapp; credited CU is read from the subscription's tracked-CU ledger")
	}})
}

var build0ps = make([]struct{}, 17)
