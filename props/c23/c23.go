// Package c23: delegation credit is a bounded time-weighted average — explicit-state search over histories of
// delegation changes on the real dualstaking keeper (GetDelegation / SetDelegation / RemoveDelegation /
// CalculateMonthlyCredit), with an oracle written from the property text over the recorded history.
package c23

import (
	"crypto/sha256"
	"fmt"
	"time"

	"cosmossdk.io/math"
	sdk "github.com/cosmos/cosmos-sdk/types"
	dualstakingkeeper "github.com/lavanet/lava/v5/x/dualstaking/keeper"
	dualstakingtypes "github.com/lavanet/lava/v5/x/dualstaking/types"

	"verifmc/engine/bfs"
	"verifmc/engine/chain"
	"verifmc/engine/ev"
	"verifmc/engine/reg"
)

const (
	hour  = int64(3600)
	day   = 24 * hour
	month = 30 * day
	// the keeper works at hour resolution: the "last 30 days" window of the bound is widened by one hour
	windowSlack = hour
)

var (
	dtGrid      = []int64{0, hour / 2, hour, 12 * hour, 15 * day, 30*day - hour, 30 * day, 30*day + hour, 45 * day}
	evalOffsets = []int64{0, hour, 12 * hour, 15 * day, 16 * day, 30*day - hour, 30 * day, 31 * day, 45 * day}
)

func durName(s int64) string {
	if s == 0 {
		return "0"
	}
	out := ""
	if d := s / day; d > 0 {
		out += fmt.Sprintf("%dd", d)
		s -= d * day
	}
	if h := s / hour; h > 0 {
		out += fmt.Sprintf("%dh", h)
		s -= h * hour
	}
	if s > 0 {
		out += fmt.Sprintf("%dm", s/60)
	}
	return out
}

type opdef struct {
	name   string
	dt     int64
	amount int64
}

type segment struct {
	start  int64 // unix seconds; the amount is held from start until the start of the next segment
	amount int64
}

const (
	provider  = "lava@verifprovider"
	delegator = "lava@verifdelegator"
)

type scen struct {
	k     dualstakingkeeper.Keeper
	base  sdk.Context
	ctx   sdk.Context
	denom string
	ops   []opdef
	names []string
	hist  []segment
}

func build(amounts []int64) *scen {
	w := chain.NewWorld()
	s := &scen{k: w.Keepers.Dualstaking, base: w.Ctx, denom: w.TokenDenom()}
	for _, dt := range dtGrid {
		for _, a := range amounts {
			s.ops = append(s.ops, opdef{fmt.Sprintf("+%s:set(%d)", durName(dt), a), dt, a})
		}
	}
	for _, o := range s.ops {
		s.names = append(s.names, o.name)
	}
	return s
}

func (s *scen) Ops() []string { return s.names }

func (s *scen) Reset() {
	c, _ := s.base.CacheContext()
	s.ctx = c
	s.hist = nil
}

func (s *scen) Fork() func() {
	saved := s.ctx
	h := append([]segment{}, s.hist...)
	c, _ := saved.CacheContext()
	s.ctx = c
	return func() { s.ctx = saved; s.hist = h }
}

func (s *scen) now() int64 { return s.ctx.BlockTime().UTC().Unix() }

// maxHeld returns the largest amount held at some instant of [from, to] (closed).
func (s *scen) maxHeld(from, to int64) int64 {
	var m int64
	for i, seg := range s.hist {
		end := int64(1) << 62
		if i+1 < len(s.hist) {
			end = s.hist[i+1].start
		}
		if seg.start <= to && end >= from && seg.amount > m {
			m = seg.amount
		}
	}
	return m
}

func (s *scen) viol(key, what string) ev.Violation {
	return ev.Violation{Property: "C23", Key: key, What: what}
}

func (s *scen) histString() string {
	out := ""
	for i, seg := range s.hist {
		if i > 0 {
			out += fmt.Sprintf(" --%s--> ", durName(seg.start-s.hist[i-1].start))
		}
		out += fmt.Sprint(seg.amount)
	}
	return out
}

func (s *scen) Apply(op int) bfs.Step {
	o := s.ops[op]
	k := s.k
	cur := int64(0)
	if n := len(s.hist); n > 0 {
		cur = s.hist[n-1].amount
	}
	if o.amount == cur {
		return bfs.Step{Accepted: false, Obs: "same-amount"}
	}
	s.ctx = s.ctx.WithBlockTime(s.ctx.BlockTime().Add(time.Duration(o.dt) * time.Second)).WithBlockHeight(s.ctx.BlockHeight() + 1)
	ctx := s.ctx
	now := s.now()

	// the keeper's own delegate / unbond path (increaseDelegation / decreaseDelegation) for a delegation
	// that is not tied to a stake entry
	d, found := k.GetDelegation(ctx, provider, delegator)
	if found != (cur != 0) {
		return bfs.Step{Accepted: true, Viol: []ev.Violation{s.viol("harness-model-divergence", fmt.Sprintf("delegation found=%v but the model holds %d", found, cur))}}
	}
	if found && !d.Amount.Amount.Equal(math.NewInt(cur)) {
		return bfs.Step{Accepted: true, Viol: []ev.Violation{s.viol("stored-amount-differs", fmt.Sprintf("stored amount %s, model %d", d.Amount, cur))}}
	}
	var err error
	if o.amount > cur {
		if !found {
			d = dualstakingtypes.NewDelegation(delegator, provider, ctx.BlockTime(), s.denom)
		}
		d.AddAmount(sdk.NewCoin(s.denom, math.NewInt(o.amount-cur)))
		err = k.SetDelegation(ctx, d)
	} else {
		d.SubAmount(sdk.NewCoin(s.denom, math.NewInt(cur-o.amount)))
		if d.Amount.IsZero() {
			err = k.RemoveDelegation(ctx, d)
		} else {
			err = k.SetDelegation(ctx, d)
		}
	}
	if err != nil {
		return bfs.Step{Accepted: true, Viol: []ev.Violation{s.viol("set-delegation-error", err.Error())}}
	}
	s.hist = append(s.hist, segment{now, o.amount})

	if o.amount == 0 {
		if _, still := k.GetDelegation(ctx, provider, delegator); still {
			return bfs.Step{Accepted: true, Viol: []ev.Violation{s.viol("removed-delegation-still-stored", s.histString())}}
		}
		return bfs.Step{Accepted: true, Obs: "removed"}
	}

	stored, ok := k.GetDelegation(ctx, provider, delegator)
	if !ok {
		return bfs.Step{Accepted: true, Viol: []ev.Violation{s.viol("delegation-not-stored", s.histString())}}
	}
	var allMax int64
	for _, seg := range s.hist {
		if seg.amount > allMax {
			allMax = seg.amount
		}
	}
	var viol []ev.Violation
	prev := int64(-1)
	var prevOff int64
	sawPartial, sawFull, sawMono := false, false, false
	for _, off := range evalOffsets {
		te := now + off
		ectx := ctx.WithBlockTime(time.Unix(te, 0).UTC())
		c := k.CalculateMonthlyCredit(ectx, stored)
		where := fmt.Sprintf("history %s, evaluated %s after the last change: credit %s", s.histString(), durName(off), c.Amount)
		if c.Amount.IsNil() {
			viol = append(viol, s.viol("credit-nil", where))
			continue
		}
		if c.Amount.IsNegative() {
			viol = append(viol, s.viol("credit-negative", where))
		}
		if !c.Amount.IsInt64() {
			viol = append(viol, s.viol("credit-exceeds-alltime-max", where))
			continue
		}
		cv := c.Amount.Int64()
		// clause 1: never more than the largest amount held during the last 30 days
		wmax := s.maxHeld(te-month-windowSlack, te)
		if cv > allMax {
			viol = append(viol, s.viol("credit-exceeds-alltime-max", fmt.Sprintf("%s exceeds every amount ever held (max %d)", where, allMax)))
		} else if cv > wmax {
			viol = append(viol, s.viol("credit-exceeds-30d-window-max", fmt.Sprintf("%s exceeds the largest amount held in the 30 days (+1h) before the evaluation (%d)", where, wmax)))
		}
		// clause 2: unchanged for 30 days or more => credit equals the amount
		if off >= month {
			sawFull = true
			if cv != o.amount {
				viol = append(viol, s.viol("unchanged-30d-credit-differs-from-amount", fmt.Sprintf("%s, expected exactly %d", where, o.amount)))
			}
		} else if cv < o.amount {
			sawPartial = true
		}
		// clause 3: holding longer never lowers the credit. Checked when the current amount is at least every
		// amount held in the 30 days before the earlier evaluation (otherwise even an exact 30-day average falls
		// while a larger past amount leaves the window).
		if prev >= 0 && o.amount >= s.maxHeld(now+prevOff-month-windowSlack, now+prevOff) {
			sawMono = true
			if cv < prev {
				viol = append(viol, s.viol("credit-decreases-while-held", fmt.Sprintf("%s, but it was %d when evaluated %s after the change although no larger amount was held in the 30 days before that", where, prev, durName(prevOff))))
			}
		}
		prev, prevOff = cv, off
	}
	if len(viol) > 0 {
		return bfs.Step{Accepted: true, Obs: "violation", Viol: viol}
	}
	obs := "ok"
	if sawPartial {
		obs += "+partial-credit"
	}
	if sawFull {
		obs += "+full-credit"
	}
	if sawMono {
		obs += "+monotone-checked"
	}
	return bfs.Step{Accepted: true, Obs: obs}
}

// Hash: the stored record relative to now, plus the part of the history the oracle can still look at
// (segments reaching into the last 30 days + slack, and the all-time maximum used to classify violations).
func (s *scen) Hash() []byte {
	h := sha256.New()
	now := s.now()
	d, found := s.k.GetDelegation(s.ctx, provider, delegator)
	if found {
		cts := int64(0)
		if d.CreditTimestamp != 0 {
			cts = d.CreditTimestamp - now
		}
		cr := "nil"
		if !d.Credit.Amount.IsNil() {
			cr = d.Credit.Amount.String()
		}
		fmt.Fprintf(h, "rec|%s|%d|%s|%d|%v;", d.Amount.Amount, d.Timestamp-now, cr, cts, d.CreditTimestamp == 0)
	} else {
		fmt.Fprint(h, "norec;")
	}
	var allMax int64
	for i, seg := range s.hist {
		if seg.amount > allMax {
			allMax = seg.amount
		}
		end := now
		if i+1 < len(s.hist) {
			end = s.hist[i+1].start
		}
		if end >= now-month-windowSlack {
			st := seg.start - now
			if st < -month-windowSlack {
				st = -month - windowSlack
			}
			fmt.Fprintf(h, "seg|%d|%d;", st, seg.amount)
		}
	}
	fmt.Fprintf(h, "max|%d", allMax)
	return h.Sum(nil)[:16]
}

func init() {
	bfs.Register("c23/quick", func() bfs.Scenario { return build([]int64{50, 100, 200, 20000000000000000}) })
	bfs.Register("c23/thorough", func() bfs.Scenario { return build([]int64{0, 50, 100, 200, 20000000000000000, 9000000000000000000}) })
	reg.Register(reg.Check{Property: "C23", Level: "model_checking", Run: func(run *ev.Run) {
		tier := ev.Tier()
		depth, deadline, amounts := 4, 150*time.Second, "{50,100,200,2*10^16}"
		if tier == "thorough" {
			depth, deadline, amounts = 5, 15*time.Minute, "{0 (unbond all),50,100,200,2*10^16,9*10^18}"
		}
		cfg := bfs.Config{Scenario: "c23/" + tier, MaxDepth: depth, Deadline: deadline}
		st := bfs.Explore(cfg, run)
		bfs.Report(run, "", cfg, st)
		run.Set("exhaustive", st.Exhaustive)
		run.Set("bound", fmt.Sprintf("all histories of <= %d delegation changes, gaps from {0,30m,1h,12h,15d,29d23h,30d,30d1h,45d}, amounts %s; CalculateMonthlyCredit evaluated after every change at +{0,1h,12h,15d,16d,29d23h,30d,31d,45d}", depth, amounts))
		run.Assume("the delegation is driven like the keeper's increaseDelegation/decreaseDelegation (GetDelegation, NewDelegation, Add/SubAmount, SetDelegation or RemoveDelegation) without the stake-entry update of AfterDelegationModified, which does not touch the credit")
		run.Assume("credit arithmetic is translation invariant in time (only differences of timestamps are used); states are merged modulo translation, keeping the history of the last 30 days + 1 hour")
		run.Assume("'largest amount held during the last 30 days' is taken over the closed window widened by one hour (the keeper's resolution); 'holding longer never lowers the credit' is demanded only when the current amount is at least every amount held in the 30 days before the earlier evaluation")
	}})
}
