// Package c17: developer keys map to one project and usage is charged once — BFS over histories of
// project / key / epoch / month / relay-payment operations on the real projects, subscription and
// pairing keepers.
package c17

import (
	"fmt"
	"strings"
	"time"

	"github.com/lavanet/lava/v5/testutil/common"
	"github.com/lavanet/lava/v5/utils/sigs"
	pairingtypes "github.com/lavanet/lava/v5/x/pairing/types"
	projectstypes "github.com/lavanet/lava/v5/x/projects/types"
	subscriptiontypes "github.com/lavanet/lava/v5/x/subscription/types"

	"verifmc/engine/bfs"
	"verifmc/engine/chain"
	"verifmc/engine/ev"
	"verifmc/engine/reg"
)

const (
	kAddProject = iota
	kDelProject
	kAddKeys
	kDelKeys
	kRelay
	kNextEpoch
	kMonth
)

const (
	epCur = iota
	epPrev
	epOldest
)

type opdef struct {
	name    string
	kind    int
	project int // 0 admin project, 1 p2
	creator int // 0 owner, 1 k, 2 a
	key     int // 1 k, 2 a
	kinds   uint32
	signer  int // relay signer: 0 owner, 1 k, 2 a
	epoch   int
	cu      uint64
}

type scen struct {
	w      *chain.World
	seeded bool
	ops    []opdef
	names  []string
	accs   [3]sigs.Account // owner, k, a
	provs  []sigs.Account
	projs  [2]string

	nextSession uint64
}

const p2Name = "p2"

func build(seeded bool) *scen {
	s := &scen{seeded: seeded}
	w := chain.NewWorld()
	s.w = w
	plan := common.CreateMockPlan()
	plan.PlanPolicy.TotalCuLimit = 100
	plan.PlanPolicy.EpochCuLimit = 100
	w.StdFixture(chain.StdOpts{Specs: []string{"mock"}, Providers: 2, Consumers: 0, Plan: &plan})
	for i := 0; i < 2; i++ {
		p, _ := w.GetAccount(common.PROVIDER, i)
		s.provs = append(s.provs, p)
	}
	s.accs[0], _ = w.AddAccount(common.CONSUMER, 0, 10000000)
	s.accs[1], _ = w.AddAccount("devkey", 0, 10000000)
	s.accs[2], _ = w.AddAccount("adminkey", 0, 10000000)
	// a two-month subscription: the first month boundary snapshots the projects, the second one expires it
	w.Must("buy", w.Buy(s.accs[0], s.accs[0], plan.Index, 2, false, false))
	owner := s.accs[0].Addr.String()
	s.projs[0] = projectstypes.ProjectIndex(owner, projectstypes.ADMIN_PROJECT_NAME)
	s.projs[1] = projectstypes.ProjectIndex(owner, p2Name)
	adv := func(n int) {
		for i := 0; i < n; i++ {
			if p := w.AdvanceToNextEpoch(chain.BlockDt); p != "" {
				panic("fixture: " + p)
			}
		}
	}
	adv(2)
	s.nextSession = 1000
	if seeded {
		// p2 exists for a while with developer key k and admin+developer key a, and has some usage
		w.Must("seed add project", s.txAddProject())
		w.Must("seed add k", s.txKeys(true, 1, 0, 1, uint32(projectstypes.ProjectKey_DEVELOPER)))
		adv(4)
		rs := s.mkRelay(1, w.EpochStartNow(), 0, 16, 900)
		w.Must("seed relay", w.Pay(s.provs[0].Addr.String(), rs))
		w.NextBlock(chain.BlockDt)
	}
	w.MarkFixture()

	dev := uint32(projectstypes.ProjectKey_DEVELOPER)
	adm := uint32(projectstypes.ProjectKey_ADMIN)
	s.ops = []opdef{
		{name: "add-project(p2,[a:admin+dev])", kind: kAddProject},
		{name: "del-project(p2)", kind: kDelProject},
		{name: "add-keys(admin,k:dev)", kind: kAddKeys, project: 0, key: 1, kinds: dev},
		{name: "add-keys(p2,k:dev)", kind: kAddKeys, project: 1, key: 1, kinds: dev},
		{name: "del-keys(admin,k:dev)", kind: kDelKeys, project: 0, key: 1, kinds: dev},
		{name: "del-keys(p2,k:dev)", kind: kDelKeys, project: 1, key: 1, kinds: dev},
		{name: "add-keys(p2,k:dev)by-a", kind: kAddKeys, project: 1, key: 1, kinds: dev, creator: 2},
		{name: "del-keys(p2,a:admin+dev)", kind: kDelKeys, project: 1, key: 2, kinds: adm | dev},
		{name: "add-keys(p2,a:admin+dev)", kind: kAddKeys, project: 1, key: 2, kinds: adm | dev},
		{name: "add-keys(admin,a:dev)", kind: kAddKeys, project: 0, key: 2, kinds: dev},
		{name: "relay(k,cur-epoch,cu=1)", kind: kRelay, signer: 1, epoch: epCur, cu: 1},
		{name: "relay(k,prev-epoch,cu=2)", kind: kRelay, signer: 1, epoch: epPrev, cu: 2},
		{name: "relay(k,oldest-epoch,cu=4)", kind: kRelay, signer: 1, epoch: epOldest, cu: 4},
		{name: "relay(a,cur-epoch,cu=8)", kind: kRelay, signer: 2, epoch: epCur, cu: 8},
		{name: "relay(owner,cur-epoch,cu=64)", kind: kRelay, signer: 0, epoch: epCur, cu: 64},
		{name: "next-epoch", kind: kNextEpoch},
		{name: "month(+31d)", kind: kMonth},
	}
	for _, o := range s.ops {
		s.names = append(s.names, o.name)
	}
	return s
}

func (s *scen) Ops() []string { return s.names }
func (s *scen) Reset()        { s.w.Reset(); s.nextSession = 1000 }
func (s *scen) Fork() func() {
	r := s.w.Fork()
	ns := s.nextSession
	return func() { r(); s.nextSession = ns }
}
func (s *scen) Hash() []byte { return s.w.StateHash() }

// ---- transactions

func (s *scen) txAddProject() chain.TxResult {
	w := s.w
	return w.Tx(func() error {
		pd := projectstypes.ProjectData{Name: p2Name, Enabled: true,
			ProjectKeys: []projectstypes.ProjectKey{{Key: s.accs[2].Addr.String(), Kinds: uint32(projectstypes.ProjectKey_ADMIN) | uint32(projectstypes.ProjectKey_DEVELOPER)}}}
		msg := subscriptiontypes.NewMsgAddProject(s.accs[0].Addr.String(), pd)
		if err := msg.ValidateBasic(); err != nil {
			return err
		}
		_, err := w.Servers.SubscriptionServer.AddProject(w.GoCtx, msg)
		return err
	})
}

func (s *scen) txDelProject() chain.TxResult {
	w := s.w
	return w.Tx(func() error {
		msg := subscriptiontypes.NewMsgDelProject(s.accs[0].Addr.String(), p2Name)
		if err := msg.ValidateBasic(); err != nil {
			return err
		}
		_, err := w.Servers.SubscriptionServer.DelProject(w.GoCtx, msg)
		return err
	})
}

func (s *scen) txKeys(add bool, project, creator, key int, kinds uint32) chain.TxResult {
	w := s.w
	keys := []projectstypes.ProjectKey{{Key: s.accs[key].Addr.String(), Kinds: kinds}}
	return w.Tx(func() error {
		if add {
			msg := projectstypes.NewMsgAddKeys(s.accs[creator].Addr.String(), s.projs[project], keys)
			if err := msg.ValidateBasic(); err != nil {
				return err
			}
			_, err := w.Servers.ProjectServer.AddKeys(w.GoCtx, msg)
			return err
		}
		msg := projectstypes.NewMsgDelKeys(s.accs[creator].Addr.String(), s.projs[project], keys)
		if err := msg.ValidateBasic(); err != nil {
			return err
		}
		_, err := w.Servers.ProjectServer.DelKeys(w.GoCtx, msg)
		return err
	})
}

func (s *scen) mkRelay(signer int, epoch uint64, provider int, cu, session uint64) *pairingtypes.RelaySession {
	rs := &pairingtypes.RelaySession{Provider: s.provs[provider].Addr.String(), ContentHash: []byte("apiname"), SessionId: session, SpecId: "mock",
		CuSum: cu, Epoch: int64(epoch), RelayNum: 1, LavaChainId: chain.ChainID}
	chain.SignRelay(s.accs[signer], rs)
	return rs
}

// ---- observation of the real state

type pver struct {
	found bool
	snap  uint64
	used  uint64
	devs  [3]bool // lists owner / k / a as a developer key
}

type sver struct {
	found bool
	block uint64
	left  uint64
}

type view struct {
	lo, hi uint64
	blocks []uint64  // observed blocks, ascending
	proj   [2][]pver // per project, per observed block
	sub    []sver
}

func (v view) index(b uint64) int {
	for i, x := range v.blocks {
		if x == b {
			return i
		}
	}
	panic(fmt.Sprintf("harness: block %d is not observed (window %d..%d)", b, v.lo, v.hi))
}

func (s *scen) window() (lo, hi uint64) {
	w := s.w
	lo = w.Keepers.Epochstorage.GetEarliestEpochStart(w.Ctx)
	hi, err := w.Keepers.Epochstorage.GetNextEpoch(w.Ctx, uint64(w.Ctx.BlockHeight()))
	if err != nil {
		panic("harness: GetNextEpoch: " + err.Error())
	}
	return lo, hi
}

// look reads the projects and the subscription at the blocks of the window: every block (full), or every
// epoch start plus the current height (entries of the fixation stores are piecewise constant; the full
// window is read after every block-advancing operation).
func (s *scen) look(full bool) view {
	w := s.w
	v := view{}
	v.lo, v.hi = s.window()
	owner := s.accs[0].Addr.String()
	height := uint64(w.Ctx.BlockHeight())
	for b := v.lo; b <= v.hi; b++ {
		if !full && b != height && b != v.lo && b != v.hi {
			if es, _, err := w.Keepers.Epochstorage.GetEpochStartForBlock(w.Ctx, b); err != nil || es != b {
				continue
			}
		}
		v.blocks = append(v.blocks, b)
		for pi := range s.projs {
			var pv pver
			p, err := w.Keepers.Projects.GetProjectForBlock(w.Ctx, s.projs[pi], b)
			if err == nil {
				pv.found, pv.snap, pv.used = true, p.Snapshot, p.UsedCu
				for ki := range s.accs {
					pv.devs[ki] = p.GetKey(s.accs[ki].Addr.String()).IsType(projectstypes.ProjectKey_DEVELOPER)
				}
			}
			v.proj[pi] = append(v.proj[pi], pv)
		}
		sub, eb, found := w.Keepers.Subscription.GetSubscriptionForBlock(w.Ctx, owner, b)
		v.sub = append(v.sub, sver{found: found, block: eb, left: sub.MonthCuLeft})
	}
	return v
}

var keyNames = [3]string{"owner", "k", "a"}
var projNames = [2]string{"admin", "p2"}

func viol(key, what string) ev.Violation { return ev.Violation{Property: "C17", Key: key, What: what} }

// invariants: clause 1 of the property at every block of the window (earliest epoch in memory .. next epoch)
func (s *scen) invariants(v view) (out []ev.Violation, resolved int) {
	w := s.w
	seen := map[string]bool{}
	add := func(key, what string) {
		if !seen[key] {
			seen[key] = true
			out = append(out, viol(key, what))
		}
	}
	for i, b := range v.blocks {
		for ki := range s.accs {
			n := 0
			for pi := range s.projs {
				if v.proj[pi][i].found && v.proj[pi][i].devs[ki] {
					n++
				}
			}
			if n > 1 {
				add("dev-key-in-two-projects", fmt.Sprintf("at block %d (height %d) key %s is listed as developer by both projects", b, w.Ctx.BlockHeight(), keyNames[ki]))
			}
			dd, err := w.Keepers.Projects.GetProjectDeveloperData(w.Ctx, s.accs[ki].Addr.String(), b)
			if err != nil {
				continue
			}
			resolved++
			pi := -1
			for j := range s.projs {
				if s.projs[j] == dd.ProjectID {
					pi = j
				}
			}
			if pi < 0 {
				add("dev-key-resolves-to-unknown-project", fmt.Sprintf("at block %d key %s resolves to project %q which was never created", b, keyNames[ki], dd.ProjectID))
				continue
			}
			if !v.proj[pi][i].found {
				add("dev-key-resolves-to-missing-project", fmt.Sprintf("at block %d (height %d) key %s resolves to project %s which does not exist (deleted) at that block", b, w.Ctx.BlockHeight(), keyNames[ki], projNames[pi]))
				continue
			}
			if !v.proj[pi][i].devs[ki] {
				add("dev-key-resolves-to-project-not-listing-it", fmt.Sprintf("at block %d (height %d) key %s resolves to project %s whose version at that block does not list it as a developer key", b, w.Ctx.BlockHeight(), keyNames[ki], projNames[pi]))
			}
		}
	}
	return out, resolved
}

func (s *scen) blockStep(p string) (bfs.Step, bool) {
	if p == "" {
		return bfs.Step{}, false
	}
	return bfs.Step{Accepted: true, Obs: "block-panic", Viol: []ev.Violation{{Property: "C37", Key: "block-panic:" + firstLine(p), What: "panic in block processing: " + firstLine(p)}}}, true
}

func (s *scen) Apply(op int) bfs.Step {
	o := s.ops[op]
	w := s.w
	var res chain.TxResult
	obs := ""
	switch o.kind {
	case kNextEpoch, kMonth:
		var p string
		if o.kind == kNextEpoch {
			p = w.AdvanceToNextEpoch(chain.BlockDt)
		} else {
			p = w.NextBlock(31 * 24 * time.Hour)
		}
		if st, bad := s.blockStep(p); bad {
			return st
		}
		vs, _ := s.invariants(s.look(true))
		if len(vs) > 0 {
			return bfs.Step{Accepted: true, Obs: "violation", Viol: vs}
		}
		return bfs.Step{Accepted: true, Obs: "block"}
	case kAddProject:
		res, obs = s.txAddProject(), "add-project"
	case kDelProject:
		res, obs = s.txDelProject(), "del-project"
	case kAddKeys:
		res, obs = s.txKeys(true, o.project, o.creator, o.key, o.kinds), "add-keys"
	case kDelKeys:
		res, obs = s.txKeys(false, o.project, o.creator, o.key, o.kinds), "del-keys"
	case kRelay:
		return s.relay(o)
	}
	if res.Panic != "" {
		return bfs.Step{Accepted: false, Obs: "tx-panic", Viol: []ev.Violation{viol("tx-panic:"+obs, o.name+" panicked: "+firstLine(res.Panic))}}
	}
	if !res.OK() {
		return bfs.Step{Accepted: false, Obs: obs + "-rejected"}
	}
	vs, _ := s.invariants(s.look(false))
	if len(vs) > 0 {
		return bfs.Step{Accepted: true, Obs: "violation", Viol: vs}
	}
	return bfs.Step{Accepted: true, Obs: obs + "-ok"}
}

func (s *scen) relay(o opdef) bfs.Step {
	w := s.w
	epoch := w.EpochStartNow()
	switch o.epoch {
	case epPrev:
		pe, err := w.Keepers.Epochstorage.GetPreviousEpochStartForBlock(w.Ctx, epoch)
		if err != nil {
			return bfs.Step{Accepted: false, Obs: "no-such-epoch"}
		}
		epoch = pe
	case epOldest:
		epoch = w.Keepers.Epochstorage.GetEarliestEpochStart(w.Ctx)
	}
	signer := s.accs[o.signer].Addr.String()
	resolved, rerr := w.Keepers.Projects.GetProjectForDeveloper(w.Ctx, signer, epoch)
	before := s.look(false)
	rs := s.mkRelay(o.signer, epoch, 0, o.cu, s.nextSession)
	res := w.Pay(s.provs[0].Addr.String(), rs)
	if res.Panic != "" {
		return bfs.Step{Accepted: false, Obs: "tx-panic", Viol: []ev.Violation{viol("tx-panic:relay", o.name+" panicked: "+firstLine(res.Panic))}}
	}
	if !res.OK() {
		return bfs.Step{Accepted: false, Obs: "relay-rejected"}
	}
	s.nextSession++
	after := s.look(false)
	var vs []ev.Violation
	if rerr != nil {
		vs = append(vs, viol("relay-accepted-for-unresolved-key", fmt.Sprintf("%s accepted at height %d although key %s resolves to no project at epoch %d", o.name, w.Ctx.BlockHeight(), keyNames[o.signer], epoch)))
		return bfs.Step{Accepted: true, Obs: "violation", Viol: vs}
	}
	rpi := -1
	for j := range s.projs {
		if s.projs[j] == resolved.Index {
			rpi = j
		}
	}
	if epoch < before.lo || rpi < 0 {
		panic(fmt.Sprintf("harness: accepted relay for epoch %d below window %d or foreign project %q", epoch, before.lo, resolved.Index))
	}
	seen := map[string]bool{}
	add := func(key, what string) {
		if !seen[key] {
			seen[key] = true
			vs = append(vs, viol(key, what))
		}
	}
	obs := "relay-ok"
	versionsCharged := 0
	for pi := range s.projs {
		var lastCharged pver
		// the snapshot period the relay belongs to: the versions from the relay's epoch on that carry the resolved
		// snapshot number. A newer snapshot ends it for good (later versions must not be charged). After a deletion
		// gap a project re-created under the same name may or may not count as "that project" (the property does
		// not say): its versions with the same snapshot number are then allowed to carry the charge or not.
		inRun, gap := true, false
		for i, b := range before.blocks {
			pb, pa := before.proj[pi][i], after.proj[pi][i]
			if b >= epoch {
				if !pb.found {
					gap = true
				} else if pb.snap != resolved.Snapshot {
					inRun = false
				}
			}
			if pb.found != pa.found || pb.snap != pa.snap {
				add("charge:project-version-set-changed", fmt.Sprintf("%s changed existence/snapshot of project %s at block %d", o.name, projNames[pi], b))
				continue
			}
			if !pb.found {
				continue
			}
			delta := pa.used - pb.used
			same := pi == rpi && pb.snap == resolved.Snapshot && (b < epoch || inRun)
			switch {
			case same && b >= epoch && gap:
				if delta != 0 && delta != o.cu {
					add("charge:recreated-project-odd-delta", fmt.Sprintf("%s: UsedCu of the re-created %s at block %d moved by %d", o.name, projNames[pi], b, delta))
				}
			case same && b >= epoch:
				if delta != o.cu {
					key := "charge:project-version-not-charged-once"
					if delta == 0 && b-epoch > w.Keepers.Epochstorage.BlocksToSaveRaw(w.Ctx) {
						// failure shape: the (future) version lies more than blocks-to-save after the relay's epoch
						key = "charge:version-beyond-blocks-to-save-not-charged"
					}
					add(key, fmt.Sprintf("%s (epoch %d, height %d, resolved to %s snapshot %d): UsedCu of the version of %s in force at block %d (same snapshot) moved by %d, expected exactly %d",
						o.name, epoch, w.Ctx.BlockHeight(), projNames[rpi], resolved.Snapshot, projNames[pi], b, delta, o.cu))
				} else if pb != lastCharged {
					versionsCharged++
					lastCharged = pb
				}
			case same: // versions in force before the relay's epoch: not constrained to carry the charge, but never anything else
				if delta != 0 && delta != o.cu {
					add("charge:earlier-version-odd-delta", fmt.Sprintf("%s: UsedCu of %s at block %d (before the relay epoch %d) moved by %d", o.name, projNames[pi], b, epoch, delta))
				}
			default:
				if delta != 0 {
					add("charge:foreign-version-charged", fmt.Sprintf("%s (resolved to %s snapshot %d): UsedCu of %s snapshot %d at block %d moved by %d",
						o.name, projNames[rpi], resolved.Snapshot, projNames[pi], pb.snap, b, delta))
				}
			}
		}
	}
	if versionsCharged > 1 {
		obs = "relay-ok-multi-version"
	}
	// subscription: the version in force at the relay's epoch pays min(cu, left), once; other versions untouched
	sb := before.sub[before.index(epoch)]
	if !sb.found {
		add("charge:no-subscription-at-epoch", fmt.Sprintf("%s accepted but the subscription has no version at epoch %d", o.name, epoch))
	} else {
		want := o.cu
		if sb.left < want {
			want = sb.left
			obs += "-capped"
		}
		for i, b := range before.blocks {
			xb, xa := before.sub[i], after.sub[i]
			if xb.found != xa.found || xb.block != xa.block {
				add("charge:subscription-version-set-changed", fmt.Sprintf("%s changed the subscription versions at block %d", o.name, b))
				continue
			}
			if !xb.found {
				continue
			}
			d := xb.left - xa.left
			if xb.block == sb.block {
				if d != want {
					add("charge:subscription-not-charged-once", fmt.Sprintf("%s (epoch %d): MonthCuLeft of the subscription version of block %d went %d -> %d, expected a decrease of exactly %d", o.name, epoch, xb.block, xb.left, xa.left, want))
				}
			} else if d != 0 {
				add("charge:other-subscription-version-charged", fmt.Sprintf("%s (epoch %d): MonthCuLeft of the subscription version of block %d went %d -> %d", o.name, epoch, xb.block, xb.left, xa.left))
			}
		}
	}
	iv, _ := s.invariants(after)
	vs = append(vs, iv...)
	if len(vs) > 0 {
		return bfs.Step{Accepted: true, Obs: "violation", Viol: vs}
	}
	if rpi == 1 {
		obs += "-p2"
	}
	return bfs.Step{Accepted: true, Obs: obs}
}

func firstLine(s string) string {
	if i := strings.IndexByte(s, '\n'); i >= 0 {
		return s[:i]
	}
	return s
}

func init() {
	bfs.Register("c17/fresh", func() bfs.Scenario { return build(false) })
	bfs.Register("c17/seeded", func() bfs.Scenario { return build(true) })
	reg.Register(reg.Check{Property: "C17", Level: "model_checking", Run: func(run *ev.Run) {
		// per start state: depth, deadline
		type lim struct {
			depth    int
			deadline time.Duration
		}
		lims := map[string]lim{"seeded": {4, 35 * time.Second}, "fresh": {4, 15 * time.Second}}
		if ev.Tier() == "thorough" {
			lims = map[string]lim{"seeded": {6, 10 * time.Minute}, "fresh": {6, 5 * time.Minute}}
		}
		depth := lims["seeded"].depth
		exh := true
		for _, n := range []string{"seeded", "fresh"} {
			cfg := bfs.Config{Scenario: "c17/" + n, MaxDepth: lims[n].depth, Deadline: lims[n].deadline}
			st := bfs.Explore(cfg, run)
			bfs.Report(run, n, cfg, st)
			exh = exh && st.Exhaustive
		}
		run.Set("exhaustive", exh)
		run.Set("bound", fmt.Sprintf("all histories up to depth %d from the seeded start and depth %d from the fresh start over 17 ops (add/del project p2, add/del developer key k and admin+developer key a on the admin project and p2 by the owner or by a, relays signed by k for the current/previous/oldest epoch, by a and by the owner with CU 1,2,4,8,64, next epoch, +31 days) from 2 start states (fresh 2-month subscription; p2 with k and a existing for 4 epochs with usage); plan total CU 100; window observed at every state = every epoch start from the earliest epoch in memory to the next epoch plus the current height, and every single block of that range after each block-advancing op", depth, lims["fresh"].depth))
		run.Assume("mock bank/account keeper of testutil/keeper; transactions atomic as in baseapp; a charge must be visible in every project version in force at or after the relay's epoch within the same snapshot (versions superseded before the relay's epoch are not required to carry it)")
	}})
}
