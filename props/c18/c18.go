// Package c18: badge usage never exceeds the badge allocation — BFS over histories of badge / plain relay
// payments, epochs and badge-record expiry on the real pairing keeper.
package c18

import (
	"fmt"
	"sort"
	"strings"
	"time"

	"github.com/lavanet/lava/v5/testutil/common"
	"github.com/lavanet/lava/v5/utils/sigs"
	epochstoragetypes "github.com/lavanet/lava/v5/x/epochstorage/types"
	pairingtypes "github.com/lavanet/lava/v5/x/pairing/types"

	"verifmc/engine/bfs"
	"verifmc/engine/chain"
	"verifmc/engine/ev"
	"verifmc/engine/reg"
)

const allocation = 10
const plainCu = 100

// one relay of a payment transaction
type rdef struct {
	badge   int    // -1 none, 0 B0, 1 B1, 2.. variants (index into scen.badges)
	signer  int    // 0 owner (developer key), 1 badge user u, 2 foreign user v
	epochIx int    // relay epoch = E0 + 4*epochIx
	session uint64
	cu      uint64
}

type opdef struct {
	name     string
	kind     int // 0 pay, 1 +1block, 2 next-epoch, 3 to-record-expiry
	provider int
	relays   []rdef
	through  int    // badge whose allocation the tx draws on (-1: variant / plain only)
	variant  string // non-empty: a badge that must never be honoured
}

const (
	bB0 = iota
	bB1
	bWrongChain
	bForeignSigned
)

type scen struct {
	w      *chain.World
	ops    []opdef
	names  []string
	accs   [3]sigs.Account // owner, u, v
	provs  []sigs.Account
	badges []*pairingtypes.Badge
	e0, eb uint64
	save   uint64 // blocks to save

	credited map[string]uint64 // "B<i>|p<j>" -> CU credited through the badge to the provider
}

func (s *scen) mkBadge(epoch uint64, user sigs.Account, chainID string, signer sigs.Account) *pairingtypes.Badge {
	b := pairingtypes.CreateBadge(allocation, epoch, user.Addr, chainID, []byte{})
	sig, err := sigs.Sign(signer.SK, *b)
	if err != nil {
		panic(err)
	}
	b.ProjectSig = sig
	return b
}

func build() *scen {
	s := &scen{}
	w := chain.NewWorld()
	s.w = w
	w.StdFixture(chain.StdOpts{Specs: []string{"mock"}, Providers: 2, Consumers: 1})
	s.accs[0], _ = w.GetAccount(common.CONSUMER, 0)
	s.accs[1], _ = w.AddAccount("badgeuser", 0, 10000000)
	s.accs[2], _ = w.AddAccount("foreignuser", 0, 10000000)
	for i := 0; i < 2; i++ {
		p, _ := w.GetAccount(common.PROVIDER, i)
		s.provs = append(s.provs, p)
	}
	s.e0 = w.EpochStartNow()
	s.eb = w.Keepers.Epochstorage.EpochBlocksRaw(w.Ctx)
	s.save = w.Keepers.Epochstorage.EpochsToSaveRaw(w.Ctx) * s.eb
	e1 := s.e0 + s.eb
	s.badges = []*pairingtypes.Badge{
		bB0:            s.mkBadge(s.e0, s.accs[1], chain.ChainID, s.accs[0]),
		bB1:            s.mkBadge(e1, s.accs[1], chain.ChainID, s.accs[0]),
		bWrongChain:    s.mkBadge(s.e0, s.accs[1], "other-lava-chain", s.accs[0]),
		bForeignSigned: s.mkBadge(s.e0, s.accs[1], chain.ChainID, s.accs[2]),
	}
	// the property's "usage record expiry" is badge epoch + blocks kept in memory; make sure the keeper agrees
	if got := w.Keepers.Pairing.BadgeUsedCuExpiry(w.Ctx, *s.badges[bB0]); got != s.e0+s.save {
		panic(fmt.Sprintf("harness: badge record expiry %d != epoch %d + blocks to save %d", got, s.e0, s.save))
	}
	w.MarkFixture()

	b0 := func(session, cu uint64) rdef { return rdef{badge: bB0, signer: 1, session: session, cu: cu} }
	for p := 0; p < 2; p++ {
		pay := func(name string, through int, relays ...rdef) {
			s.ops = append(s.ops, opdef{name: fmt.Sprintf("pay(p%d,[%s])", p, name), provider: p, relays: relays, through: through})
		}
		pay("B0:s1:4", bB0, b0(1, 4))
		pay("B0:s3:7", bB0, b0(3, 7))
		if p == 1 {
			pay("B0:s1:4,B0:s2:6", bB0, b0(1, 4), b0(2, 6))
		}
		if p == 0 {
			// only the first relay carries the badge; the second is signed by the badge user for the same epoch
			pay("B0:s1:4,u-nobadge:s2:6", bB0, b0(1, 4), rdef{badge: -1, signer: 1, session: 2, cu: 6})
			pay("B0:s2:6", bB0, b0(2, 6))
			pay("B0:s3:7,u-nobadge:s2:6", bB0, b0(3, 7), rdef{badge: -1, signer: 1, session: 2, cu: 6})
			pay("B0:s1:4,plain:s50:100,B0:s2:6", bB0, b0(1, 4), rdef{badge: -1, signer: 0, session: 50, cu: plainCu}, b0(2, 6))
			// several relays of the same badge in one tx: each fits in what is left of the allocation, together they do
			// not (from an unused badge: 6+6; after 4 CU were used: 4+5)
			pay("B0:s6:6,B0:s7:6", bB0, b0(6, 6), b0(7, 6))
			pay("B0:s4:4,B0:s5:5", bB0, b0(4, 4), b0(5, 5))
			pay("plain:s60:100", -1, rdef{badge: -1, signer: 0, session: 60, cu: plainCu})
			pay("B1:s1:7", bB1, rdef{badge: bB1, signer: 1, epochIx: 1, session: 1, cu: 7})
			pay("B1:s2:4", bB1, rdef{badge: bB1, signer: 1, epochIx: 1, session: 2, cu: 4})
		}
	}
	variant := func(name string, r rdef) {
		s.ops = append(s.ops, opdef{name: "pay(p0,[" + name + "])", relays: []rdef{r}, through: -1, variant: name})
	}
	variant("wrong-user:v-signs-with-B0:4", rdef{badge: bB0, signer: 2, session: 11, cu: 4})
	variant("wrong-epoch:B0-on-relay-of-next-epoch:4", rdef{badge: bB0, signer: 1, epochIx: 1, session: 11, cu: 4})
	variant("wrong-lava-chain:badge-for-other-chain:4", rdef{badge: bWrongChain, signer: 1, session: 12, cu: 4})
	variant("badge-signed-by-non-developer:4", rdef{badge: bForeignSigned, signer: 1, session: 13, cu: 4})
	s.ops = append(s.ops, opdef{name: "+1block", kind: 1}, opdef{name: "next-epoch", kind: 2}, opdef{name: "to-B0-record-expiry", kind: 3},
		// governance lengthens the chain memory (takes effect at the next epoch): the usage record of a badge and the
		// deadline for honouring it stay those of the parameters in force at the badge's epoch
		opdef{name: "gov:EpochsToSave+2", kind: 4})
	for _, o := range s.ops {
		s.names = append(s.names, o.name)
	}
	return s
}

func (s *scen) Ops() []string { return s.names }
func (s *scen) Reset()        { s.w.Reset(); s.credited = map[string]uint64{} }
func (s *scen) Fork() func() {
	r := s.w.Fork()
	saved := map[string]uint64{}
	for k, v := range s.credited {
		saved[k] = v
	}
	return func() { r(); s.credited = saved }
}

func (s *scen) Hash() []byte {
	h := s.w.StateHash()
	keys := make([]string, 0, len(s.credited))
	for k, v := range s.credited {
		keys = append(keys, fmt.Sprintf("%s=%d", k, v))
	}
	sort.Strings(keys)
	return append(h, []byte(strings.Join(keys, ";"))...)
}

// tracked: CU credited to the provider on the subscription's ledger (what the provider is paid for)
func (s *scen) tracked(provider string) uint64 {
	w := s.w
	sub, found := w.Keepers.Subscription.GetSubscription(w.Ctx, s.accs[0].Addr.String())
	if !found {
		return 0
	}
	var t uint64
	for _, info := range w.Keepers.Subscription.GetSubTrackedCuInfoForProvider(w.Ctx, sub.Consumer, provider, sub.Block) {
		t += info.TrackedCu
	}
	return t
}

func (s *scen) serviced(provider string) uint64 {
	w := s.w
	var t uint64
	for _, e := range []uint64{s.e0, s.e0 + s.eb} {
		if pec, ok := w.Keepers.Pairing.GetProviderEpochCu(w.Ctx, e, provider, "mock"); ok {
			t += pec.ServicedCu
		}
	}
	return t
}

func viol(key, what string) []ev.Violation { return []ev.Violation{{Property: "C18", Key: key, What: what}} }

func (s *scen) Apply(op int) bfs.Step {
	o := s.ops[op]
	w := s.w
	if o.kind != 0 {
		var p string
		switch o.kind {
		case 1:
			p = w.NextBlock(chain.BlockDt)
		case 2:
			p = w.AdvanceToNextEpoch(chain.BlockDt)
		case 4:
			cur := w.Keepers.Epochstorage.EpochsToSaveRaw(w.Ctx)
			if cur != s.save/s.eb {
				return bfs.Step{Accepted: false, Obs: "already-changed"}
			}
			res := w.ParamChangeGov(epochstoragetypes.ModuleName, string(epochstoragetypes.KeyEpochsToSave), fmt.Sprintf("\"%d\"", cur+2))
			if !res.OK() {
				return bfs.Step{Accepted: false, Obs: "param-change-rejected"}
			}
			s.credited["#param-change-height"] = uint64(w.Ctx.BlockHeight())
			return bfs.Step{Accepted: true, Obs: "param-change"}
		case 3:
			if uint64(w.Ctx.BlockHeight()) >= s.e0+s.save {
				return bfs.Step{Accepted: false, Obs: "already-expired"}
			}
			for uint64(w.Ctx.BlockHeight()) < s.e0+s.save && p == "" {
				p = w.NextBlock(chain.BlockDt)
			}
		}
		if p != "" {
			return bfs.Step{Accepted: true, Obs: "block-panic", Viol: []ev.Violation{{Property: "C37", Key: "block-panic:" + firstLine(p), What: "panic in block processing: " + firstLine(p)}}}
		}
		if uint64(w.Ctx.BlockHeight()) > s.e0+s.save+2*s.eb {
			return bfs.Step{Accepted: true, Prune: true, Obs: "horizon"}
		}
		return bfs.Step{Accepted: true, Obs: "block"}
	}
	paddr := s.provs[o.provider].Addr.String()
	var relays []*pairingtypes.RelaySession
	var sum, plain uint64
	for _, r := range o.relays {
		rs := &pairingtypes.RelaySession{Provider: paddr, ContentHash: []byte("apiname"), SessionId: r.session, SpecId: "mock",
			CuSum: r.cu, Epoch: int64(s.e0 + uint64(r.epochIx)*s.eb), RelayNum: 1, LavaChainId: chain.ChainID}
		if r.badge >= 0 {
			b := *s.badges[r.badge]
			b.ProjectSig = append([]byte{}, b.ProjectSig...)
			rs.Badge = &b
		}
		chain.SignRelay(s.accs[r.signer], rs)
		relays = append(relays, rs)
		sum += r.cu
		if r.signer == 0 {
			plain += r.cu
		}
	}
	beforeT, beforeS := s.tracked(paddr), s.serviced(paddr)
	res := w.Pay(paddr, relays...)
	if res.Panic != "" {
		return bfs.Step{Accepted: false, Obs: "tx-panic", Viol: viol("tx-panic:"+stable(firstLine(res.Panic)), o.name+" panicked: "+firstLine(res.Panic))}
	}
	if !res.OK() {
		return bfs.Step{Accepted: false, Obs: "pay-rejected"}
	}
	// credit = the larger movement of the two provider-side ledgers (tracked CU of the subscription, serviced CU of the epoch)
	credit := s.tracked(paddr) - beforeT
	if d := s.serviced(paddr) - beforeS; d > credit {
		credit = d
	}
	height := uint64(w.Ctx.BlockHeight())
	if o.variant != "" {
		return bfs.Step{Accepted: true, Obs: "violation", Viol: viol("variant-honoured:"+strings.SplitN(o.variant, ":", 2)[0],
			fmt.Sprintf("%s was accepted at height %d (credited %d CU): the relay is signed by an address that is no developer of any project, only the badge could have authorised it", o.name, height, credit))}
	}
	if credit > sum {
		return bfs.Step{Accepted: true, Obs: "violation", Viol: viol("credit-exceeds-signed", fmt.Sprintf("%s credited %d CU > %d signed", o.name, credit, sum))}
	}
	if o.through < 0 {
		return bfs.Step{Accepted: true, Obs: "plain-ok"}
	}
	// CU credited through the badge: everything beyond the developer-signed (plain) relays of the tx
	through := uint64(0)
	if credit > plain {
		through = credit - plain
	}
	key := fmt.Sprintf("B%d|p%d", o.through, o.provider)
	s.credited[key] += through
	b := s.badges[o.through]
	var vs []ev.Violation
	if s.credited[key] > b.CuAllocation {
		vs = append(vs, viol("allocation-exceeded", fmt.Sprintf("badge B%d (allocation %d, epoch %d): provider p%d was credited %d CU through it in total (last tx %s at height %d)",
			o.through, b.CuAllocation, b.Epoch, o.provider, s.credited[key], o.name, height))...)
	}
	// blocks-to-save in force at the badge's epoch: a governance change is fixated at the first epoch start after it
	save := s.save
	if hc := s.credited["#param-change-height"]; hc != 0 {
		fix := s.e0 + ((hc-s.e0)/s.eb+1)*s.eb
		if b.Epoch >= fix {
			save += 2 * s.eb
		}
	}
	if through > 0 && height >= b.Epoch+save {
		vs = append(vs, viol("credited-after-record-expiry", fmt.Sprintf("badge B%d (epoch %d): %d CU credited through it at height %d, its usage record expired at block %d (%s)",
			o.through, b.Epoch, through, height, b.Epoch+save, o.name))...)
	}
	if len(vs) > 0 {
		return bfs.Step{Accepted: true, Obs: "violation", Viol: vs}
	}
	obs := fmt.Sprintf("badge-ok-total-%d", s.credited[key])
	if through != sum-plain {
		obs = "badge-ok-partially-credited"
	}
	return bfs.Step{Accepted: true, Obs: obs}
}

// stable replaces digit runs so that a panic message makes a canonical key
func stable(s string) string {
	var b strings.Builder
	prevDigit := false
	for _, r := range s {
		if r >= '0' && r <= '9' {
			if !prevDigit {
				b.WriteByte('N')
			}
			prevDigit = true
			continue
		}
		prevDigit = false
		b.WriteRune(r)
	}
	if b.Len() > 80 {
		return b.String()[:80]
	}
	return b.String()
}

func firstLine(s string) string {
	if i := strings.IndexByte(s, '\n'); i >= 0 {
		return s[:i]
	}
	return s
}

func init() {
	bfs.Register("c18", func() bfs.Scenario { return build() })
	reg.Register(reg.Check{Property: "C18", Level: "model_checking", Run: func(run *ev.Run) {
		depth, deadline := 12, 110*time.Second // the fixpoint is beyond this budget since the parameter-change op was added; depth 6-7 completes
		if ev.Tier() == "thorough" {
			depth, deadline = 16, 14*time.Minute // the state space is finite (sessions, horizon): the frontier empties around depth 12
		}
		cfg := bfs.Config{Scenario: "c18", MaxDepth: depth, Deadline: deadline}
		st := bfs.Explore(cfg, run)
		bfs.Report(run, "", cfg, st)
		run.Set("exhaustive", st.Exhaustive)
		run.Set("fixpoint_reached", st.Exhaustive && st.DepthCompleted < cfg.MaxDepth)
		run.Set("bound", fmt.Sprintf("all histories up to depth %d over 19 ops: payments through badge B0 (allocation 10, fixture epoch, user u, signed by the developer key) with CU 4/6/7 in sessions s1-s3 to providers p0/p1, in one tx or several (sums 10 and 13), with a plain relay inside the tx or as its own tx, a second relay of the badge user that does not carry the badge in the same tx; badge B1 for the next epoch (CU 7/4); 4 never-valid variants (foreign relay signer, badge epoch != relay epoch, badge for another lava chain, badge signed by a non-developer); +1 block, next epoch, advance to B0's record expiry; horizon 2 epochs past the expiry", depth))
		run.Assume("mock bank/account keeper of testutil/keeper; transactions atomic as in baseapp; credited CU = movement of the provider's tracked-CU / serviced-CU ledgers; record expiry = badge epoch + EpochsToSave*EpochBlocks (cross-checked with the keeper at start-up); plan limits (10000 per epoch) never cap the payments used")
	}})
}
