// Package c08: reward splits conserve value and follow credit and commission.
//
// Bounded-exhaustive enumeration: the real RewardProvidersAndDelegators of x/dualstaking is called on worlds
// built by real transactions (providers staked with a commission on specs with/without contributors,
// delegators delegating at different block times) for every point of a grid of rewards; the split is
// measured with bank deltas and DelegatorReward records and compared, in exact integer arithmetic, with
// the split the property text prescribes.
package c08

import (
	"encoding/json"
	"fmt"
	"math/big"
	"os"
	"os/exec"
	"runtime/debug"
	"runtime/pprof"
	"sort"
	"strings"
	"sync"
	"time"

	sdk "github.com/cosmos/cosmos-sdk/types"
	"github.com/lavanet/lava/v5/testutil/common"
	testkeeper "github.com/lavanet/lava/v5/testutil/keeper"
	"github.com/lavanet/lava/v5/utils/sigs"
	dualstakingtypes "github.com/lavanet/lava/v5/x/dualstaking/types"
	rewardstypes "github.com/lavanet/lava/v5/x/rewards/types"
	subscriptiontypes "github.com/lavanet/lava/v5/x/subscription/types"

	"verifmc/engine/bfs"
	"verifmc/engine/chain"
	"verifmc/engine/ev"
	"verifmc/engine/reg"
)

// ---------------------------------------------------------------- grid

var commissions = []uint64{0, 1, 33, 50, 99, 100}

type specDef struct {
	index   string
	nContr  int
	pct     string // "" = no percentage set
	comment string
}

var specDefs = []specDef{
	{"cnone", 0, "", "no contributors, no percentage"},
	{"clistonly", 3, "", "3 contributors listed, no percentage"},
	{"cpctonly", 0, "0.1", "percentage 0.1, no contributors"},
	{"conea", 1, "0.1", "1 contributor, 0.1"},
	{"coneb", 1, "third", "1 contributor, 1/3"},
	{"cthreea", 3, "0.1", "3 contributors, 0.1"},
	{"cthreeb", 3, "third", "3 contributors, 1/3"},
}

const (
	denom2a = "uusdc"    // sorts after ulava
	denom2b = "ibc/a1b2" // sorts before ulava
)

var rewardVals = []int64{0, 1, 2, 3, 7, 99, 100, 101, 1000001}

// the second-denom amount paired with rewardVals[i] (a derangement of the same list)
var rewardVals2 = []int64{101, 1000001, 0, 7, 1, 100, 3, 99, 2}

type delegSpec struct {
	Amt int64 `json:"amount"`
	Age int   `json:"age"` // 0: 0 h, 1: 15 d, 2: 31 d, 3: 31 d and the same amount again 15 d ago
}

var ageNames = []string{"0h", "15d", "31d", "31d+topup@15d"}

type config struct {
	WorldAge int         `json:"world_age"` // 0: evaluated in the block of the fixture, 1: 15 d later, 2: 31 d later
	Dels     []delegSpec `json:"delegators"`
}

func (c config) String() string {
	var s []string
	for _, d := range c.Dels {
		s = append(s, fmt.Sprintf("%d@%s", d.Amt, ageNames[d.Age]))
	}
	return fmt.Sprintf("provider-age=%s delegators=[%s]", ageNames[c.WorldAge], strings.Join(s, ","))
}

// configs enumerates ordered delegator tuples (order = delegator account index; the iteration order of the
// code under test is by address) of length 0..maxN over amounts x ages allowed by the world age.
func configs(maxN int, amounts []int64, topup bool) []config {
	var out []config
	for wa := 0; wa <= 2; wa++ {
		var opts []delegSpec
		for _, a := range amounts {
			for age := 0; age <= wa; age++ {
				opts = append(opts, delegSpec{a, age})
			}
			if wa == 2 && topup {
				opts = append(opts, delegSpec{a, 3})
			}
		}
		var rec func(cur []delegSpec)
		rec = func(cur []delegSpec) {
			out = append(out, config{WorldAge: wa, Dels: append([]delegSpec{}, cur...)})
			if len(cur) == maxN {
				return
			}
			for _, o := range opts {
				rec(append(cur, o))
			}
		}
		rec(nil)
	}
	return out
}

type tierDef struct {
	maxN     int
	amounts  []int64
	cfgs     []config
	desc     string
	deadline time.Duration
}

func tier() tierDef {
	amounts := []int64{1, 3, 1000000}
	if ev.Tier() == "thorough" {
		t := tierDef{maxN: 4, amounts: amounts, deadline: 14 * time.Minute}
		t.cfgs = configs(3, amounts, true)
		for _, c := range configs(4, amounts, false) {
			if len(c.Dels) == 4 {
				t.cfgs = append(t.cfgs, c)
			}
		}
		t.desc = "all ordered tuples of 0..3 delegators x amounts [1 3 1000000] x ages {0h,15d,31d,31d with the same amount added 15d ago} plus all ordered tuples of 4 delegators x amounts x ages {0h,15d,31d}"
		return t
	}
	return tierDef{maxN: 3, amounts: amounts, cfgs: configs(3, amounts, false), deadline: 100 * time.Second,
		desc: "all ordered tuples of 0..3 delegators x amounts [1 3 1000000] x ages {0h,15d,31d}"}
}

// ---------------------------------------------------------------- world

type world struct {
	w        *chain.World
	provs    []sigs.Account // one per commission
	dels     []sigs.Account
	contribs []sigs.Account
	rewards  []rewardDef
}

type rewardDef struct {
	coins  sdk.Coins
	sender string
}

const stakePerSpec = 501

func buildWorld(maxN int) *world {
	w := chain.NewWorld()
	x := &world{w: w}
	w.SetEpochParams(4, 3)
	w.AddValidator(0, 1000000)
	for i := 0; i < 3; i++ {
		a, _ := w.AddAccount("contributor", i, 0)
		x.contribs = append(x.contribs, a)
	}
	for _, sd := range specDefs {
		s := chain.MockSpec(sd.index)
		s.MinStakeProvider = sdk.NewCoin(w.TokenDenom(), sdk.NewInt(100))
		for i := 0; i < sd.nContr; i++ {
			s.Contributor = append(s.Contributor, x.contribs[i].Addr.String())
		}
		switch sd.pct {
		case "0.1":
			p := sdk.NewDecWithPrec(1, 1)
			s.ContributorPercentage = &p
		case "third":
			p := sdk.OneDec().QuoInt64(3)
			s.ContributorPercentage = &p
		}
		w.Must("add spec "+sd.index, w.AddSpecGov(s))
	}
	for i, c := range commissions {
		acc, _ := w.AddAccount(common.PROVIDER, i, 10000000)
		for _, sd := range specDefs {
			w.Must("stake", w.Stake(acc, sd.index, stakePerSpec, 1, nil, c))
		}
		x.provs = append(x.provs, acc)
	}
	for i := 0; i < maxN; i++ {
		a, _ := w.AddAccount("delegator", i, 100000000)
		x.dels = append(x.dels, a)
	}
	if p := w.AdvanceToNextEpoch(chain.BlockDt); p != "" {
		panic("fixture: " + p)
	}
	w.MarkFixture()
	for i, v := range rewardVals {
		x.rewards = append(x.rewards, rewardDef{sdk.NewCoins(sdk.NewCoin(w.TokenDenom(), sdk.NewInt(v))), subscriptiontypes.ModuleName})
		d2 := denom2a
		if i%2 == 1 {
			d2 = denom2b
		}
		x.rewards = append(x.rewards, rewardDef{sdk.NewCoins(sdk.NewCoin(w.TokenDenom(), sdk.NewInt(v)), sdk.NewCoin(d2, sdk.NewInt(rewardVals2[i]))), string(rewardstypes.IprpcPoolName)})
	}
	return x
}

func (x *world) delegate(del sigs.Account, prov sigs.Account, amt int64) error {
	w := x.w
	val, _ := w.GetAccount(common.VALIDATOR, 0)
	r := w.Tx(func() error {
		msg := &dualstakingtypes.MsgDelegate{Creator: del.Addr.String(), Validator: sdk.ValAddress(val.Addr).String(), Provider: prov.Addr.String(), ChainID: "chainID",
			Amount: sdk.NewCoin(w.TokenDenom(), sdk.NewInt(amt))}
		if err := msg.ValidateBasic(); err != nil {
			return err
		}
		_, err := w.Servers.DualstakingServer.Delegate(w.GoCtx, msg)
		return err
	})
	if r.Panic != "" {
		return fmt.Errorf("panic: %s", first(r.Panic))
	}
	return r.Err
}

// prepare plays the history of a configuration from the fixture. Returns "" or a harness error.
func (x *world) prepare(c config) string {
	w := x.w
	w.Reset()
	stage := func(pred func(d delegSpec) bool) string {
		for i, d := range c.Dels {
			if !pred(d) {
				continue
			}
			for _, p := range x.provs {
				if err := x.delegate(x.dels[i], p, d.Amt); err != nil {
					return fmt.Sprintf("delegate(%d,%s) failed: %v", d.Amt, ageNames[d.Age], err)
				}
			}
		}
		return ""
	}
	if c.WorldAge == 2 {
		if e := stage(func(d delegSpec) bool { return d.Age >= 2 }); e != "" {
			return e
		}
		if p := w.NextBlock(16 * 24 * time.Hour); p != "" {
			return "block panic: " + first(p)
		}
	}
	if c.WorldAge >= 1 {
		if e := stage(func(d delegSpec) bool { return d.Age == 1 || d.Age == 3 }); e != "" {
			return e
		}
		if p := w.NextBlock(15 * 24 * time.Hour); p != "" {
			return "block panic: " + first(p)
		}
	}
	return stage(func(d delegSpec) bool { return d.Age == 0 })
}

// ---------------------------------------------------------------- measurement and oracle

type bigs map[string]*big.Int // denom -> amount

func toBigs(c sdk.Coins) bigs {
	m := bigs{}
	for _, x := range c {
		m[x.Denom] = new(big.Int).Set(x.Amount.BigInt())
	}
	return m
}

func (b bigs) get(d string) *big.Int {
	if v, ok := b[d]; ok {
		return v
	}
	return new(big.Int)
}

func (x *world) bal(addr sdk.AccAddress) bigs {
	return toBigs(x.w.Keepers.BankKeeper.GetAllBalances(x.w.Ctx, addr))
}

func (x *world) records() map[string]bigs {
	m := map[string]bigs{}
	for _, r := range x.w.Keepers.Dualstaking.GetAllDelegatorReward(x.w.Ctx) {
		m[r.Provider+"|"+r.Delegator] = toBigs(r.Amount)
	}
	return m
}

type credited struct {
	Delegator string
	Credit    *big.Int
}

// Case is a concrete evaluated grid point (sample / replay).
type Case struct {
	Config      string            `json:"config"`
	Commission  uint64            `json:"commission"`
	Spec        string            `json:"spec"`
	Reward      string            `json:"reward"`
	Sender      string            `json:"sender_module"`
	SelfCredit  string            `json:"self_credit"`
	Credits     []string          `json:"delegator_credits"`
	Outcome     string            `json:"outcome"`
	Provider    map[string]string `json:"provider_part,omitempty"`
	Delegators  []string          `json:"delegator_parts,omitempty"`
	Contributor []string          `json:"contributor_parts,omitempty"`
	Expected    string            `json:"expected,omitempty"`
}

type shardOut struct {
	Configs       int64
	Evaluations   int64
	Nontrivial    int64 // rounding remainder > 0 went to the provider, >= 1 credited delegator
	Outcomes      map[string]int64
	ErrorClasses  map[string]int64
	ZeroSelf      map[string]int64
	Counters      map[string]int64
	HarnessErrors []string
	Viol          []ev.Violation
	Samples       []Case
}

func fdiv(a, b *big.Int) *big.Int { // floor(a/b), a >= 0, b > 0
	return new(big.Int).Quo(a, b)
}

func cdiv(a, b *big.Int) *big.Int {
	q, r := new(big.Int).QuoRem(a, b, new(big.Int))
	if r.Sign() != 0 {
		q.Add(q, big.NewInt(1))
	}
	return q
}

func bstr(b bigs) map[string]string {
	m := map[string]string{}
	for k, v := range b {
		m[k] = v.String()
	}
	return m
}

func (x *world) evalPoint(out *shardOut, seen map[string]bool, c config, pi int, sd specDef, rd rewardDef, self *big.Int, creds []credited, second bool) {
	w := x.w
	prov := x.provs[pi]
	paddr := prov.Addr.String()
	vault := prov.GetVaultAddr()
	restore := w.Fork()
	defer restore()

	senderAddr := testkeeper.GetModuleAddress(rd.sender)
	dsAddr := testkeeper.GetModuleAddress(dualstakingtypes.ModuleName)
	if !rd.coins.IsZero() {
		w.Keepers.BankKeeper.MintCoins(w.Ctx, rd.sender, rd.coins)
	}
	lastRec := map[string]bigs{}
	rounds := 1
	if second {
		rounds = 2
	}
	for round := 0; round < rounds; round++ {
		if round == 1 && !rd.coins.IsZero() {
			w.Keepers.BankKeeper.MintCoins(w.Ctx, rd.sender, rd.coins)
		}
		preSender, preDs := x.bal(senderAddr), x.bal(dsAddr)
		preContr := make([]bigs, len(x.contribs))
		for i, a := range x.contribs {
			preContr[i] = x.bal(a.Addr)
		}
		preRec := lastRec // the prepared worlds hold no reward records (checked per configuration)

		var ret sdk.Coins
		var err error
		pan := ""
		func() {
			defer func() {
				if r := recover(); r != nil {
					pan = fmt.Sprintf("%v\n%s", r, debug.Stack())
				}
			}()
			ret, err = w.Keepers.Dualstaking.RewardProvidersAndDelegators(w.Ctx, paddr, sd.index, rd.coins, rd.sender, false, false, false)
		}()
		out.Evaluations++

		cs := Case{Config: c.String(), Commission: commissions[pi], Spec: sd.index + " (" + sd.comment + ")", Reward: rd.coins.String(), Sender: rd.sender, SelfCredit: self.String()}
		if round == 1 {
			cs.Config += " [second payout on top of existing reward records]"
		}
		for _, cr := range creds {
			cs.Credits = append(cs.Credits, cr.Credit.String())
		}
		viol := func(key, what string) {
			if seen[key] {
				return
			}
			seen[key] = true
			out.Viol = append(out.Viol, ev.Violation{Property: "C08", Key: key, What: what + " — " + cs.Config + fmt.Sprintf(", commission %d%%, spec %s, reward %s", cs.Commission, sd.index, cs.Reward), Replay: cs})
		}

		// precondition "provider holds stake": zero self credit => skipped and counted
		if self.Sign() == 0 {
			switch {
			case pan != "":
				out.ZeroSelf["panic: "+first(pan)]++
			case err != nil:
				out.ZeroSelf["error"]++
			default:
				out.ZeroSelf["returned"]++
			}
			out.Outcomes["skipped:zero-self-credit"]++
			return
		}
		if pan != "" {
			cs.Outcome = "panic"
			out.Outcomes["panic"]++
			viol("panic:"+first(pan), "RewardProvidersAndDelegators panicked: "+first(pan))
			return
		}

		// ---- measured parts
		postSender, postDs := x.bal(senderAddr), x.bal(dsAddr)
		postRec := x.records()
		lastRec = postRec
		denoms := map[string]bool{}
		for _, cn := range rd.coins {
			denoms[cn.Denom] = true
		}
		for _, m := range []bigs{preSender, postSender, preDs, postDs} {
			for d := range m {
				denoms[d] = true
			}
		}
		for _, m := range postRec {
			for d := range m {
				denoms[d] = true
			}
		}
		total := toBigs(rd.coins)
		retB := toBigs(ret)
		contrPost := make([]bigs, len(x.contribs))
		for i, a := range x.contribs {
			contrPost[i] = x.bal(a.Addr)
		}
		recDelta := func(key, d string) *big.Int {
			post := new(big.Int)
			if m, ok := postRec[key]; ok {
				post = m.get(d)
			}
			pre := new(big.Int)
			if m, ok := preRec[key]; ok {
				pre = m.get(d)
			}
			return new(big.Int).Sub(post, pre)
		}
		keys := map[string]bool{}
		for k := range preRec {
			keys[k] = true
		}
		for k := range postRec {
			keys[k] = true
		}
		provKey := paddr + "|" + vault
		credOf := map[string]*big.Int{}
		D := new(big.Int)
		for _, cr := range creds {
			credOf[paddr+"|"+cr.Delegator] = cr.Credit
			D.Add(D, cr.Credit)
		}

		okAll := true
		exactFloor := true
		nontrivial := false
		anyDelPaid := false
		cs.Provider = map[string]string{}
		var dnames []string
		for d := range denoms {
			dnames = append(dnames, d)
		}
		sort.Strings(dnames)
		for _, d := range dnames {
			T := total.get(d)
			outflow := new(big.Int).Sub(preSender.get(d), postSender.get(d))
			dsIn := new(big.Int).Sub(postDs.get(d), preDs.get(d))
			C := new(big.Int)
			for i := range x.contribs {
				cj := new(big.Int).Sub(contrPost[i].get(d), preContr[i].get(d))
				cs.Contributor = append(cs.Contributor, cj.String()+d)
				if cj.Sign() < 0 {
					okAll = false
					viol("negative-part:contributor", fmt.Sprintf("contributor %d lost %s%s", i, cj.String(), d))
				}
				C.Add(C, cj)
			}
			P := recDelta(provKey, d)
			cs.Provider[d] = P.String()
			if P.Sign() < 0 {
				okAll = false
				viol("negative-part:provider", fmt.Sprintf("provider part is %s%s", P, d))
			}
			sumRec := new(big.Int)
			sumDel := new(big.Int)
			for k := range keys {
				v := recDelta(k, d)
				sumRec.Add(sumRec, v)
				if k == provKey {
					continue
				}
				sumDel.Add(sumDel, v)
				if v.Sign() > 0 {
					anyDelPaid = true
				}
				if v.Sign() < 0 {
					okAll = false
					viol("negative-part:delegator", fmt.Sprintf("reward record %s changed by %s%s", k, v, d))
				}
				if _, known := credOf[k]; !known && v.Sign() != 0 {
					okAll = false
					viol("reward-to-non-delegator", fmt.Sprintf("reward record %s (not a delegation of the provider) received %s%s", k, v, d))
				}
			}
			// conservation: what left the sender = provider + delegators + contributors; what is recorded is backed in escrow
			parts := new(big.Int).Add(sumRec, C)
			if outflow.Cmp(parts) != 0 {
				okAll = false
				viol("parts-do-not-add-up", fmt.Sprintf("%s: sender module paid out %s but provider %s + delegators %s + contributors %s = %s", d, outflow, P, sumDel, C, parts))
			}
			if dsIn.Cmp(sumRec) != 0 {
				okAll = false
				viol("records-not-backed", fmt.Sprintf("%s: reward records grew by %s but the dualstaking module account received %s", d, sumRec, dsIn))
			}
			if err != nil {
				continue
			}
			if outflow.Cmp(T) != 0 {
				okAll = false
				viol("not-fully-distributed", fmt.Sprintf("%s: reward %s but only %s left the sender module (call returned no error)", d, T, outflow))
			}
			if retB.get(d).Cmp(P) != 0 {
				out.Counters["returned_provider_reward_differs_from_record"]++
			}
			// ---- split rule
			R := new(big.Int).Sub(T, C) // split between provider and delegators
			if R.Sign() < 0 {
				okAll = false
				viol("contributors-exceed-reward", fmt.Sprintf("%s: contributors got %s of a reward of %s", d, C, T))
				continue
			}
			if commissions[pi] == 100 {
				if P.Cmp(R) != 0 || sumDel.Sign() != 0 {
					okAll = false
					viol("commission100-not-everything", fmt.Sprintf("%s: at 100%% commission the provider got %s and the delegators %s of %s", d, P, sumDel, R))
				}
				continue
			}
			S := new(big.Int).Add(self, D)
			// candidate provider parts before the remainder: own credit share + commission x raw delegators share,
			// each of the three quotients rounded down or up (the property does not fix their rounding)
			a := new(big.Int).Mul(R, self)
			b := new(big.Int).Mul(R, D)
			cands := map[string]*big.Int{}
			var floorP0 *big.Int
			for _, own := range []*big.Int{fdiv(a, S), cdiv(a, S)} {
				for _, raw := range []*big.Int{fdiv(b, S), cdiv(b, S)} {
					cm := new(big.Int).Mul(raw, big.NewInt(int64(commissions[pi])))
					for _, com := range []*big.Int{fdiv(cm, big.NewInt(100)), cdiv(cm, big.NewInt(100))} {
						p0 := new(big.Int).Add(own, com)
						if floorP0 == nil {
							floorP0 = p0
						}
						if p0.Cmp(R) <= 0 {
							cands[p0.String()] = p0
						}
					}
				}
			}
			match := false
			matchFloor := false
			var exp []string
			var remMatched *big.Int
			ckeys := make([]string, 0, len(cands))
			for k := range cands {
				ckeys = append(ckeys, k)
			}
			sort.Strings(ckeys)
			for _, ck := range ckeys {
				p0 := cands[ck]
				pool := new(big.Int).Sub(R, p0)
				good := true
				used := new(big.Int)
				var e []string
				for _, cr := range creds {
					want := new(big.Int)
					if D.Sign() > 0 {
						want = fdiv(new(big.Int).Mul(pool, cr.Credit), D)
					}
					used.Add(used, want)
					e = append(e, want.String())
					if recDelta(paddr+"|"+cr.Delegator, d).Cmp(want) != 0 {
						good = false
					}
				}
				rem := new(big.Int).Sub(pool, used)
				wantP := new(big.Int).Add(p0, rem)
				if P.Cmp(wantP) != 0 {
					good = false
				}
				exp = append(exp, fmt.Sprintf("%s: provider %s+remainder %s, delegators %v", d, p0, rem, e))
				if good {
					match = true
					if p0.Cmp(floorP0) == 0 {
						matchFloor = true
					}
					if remMatched == nil || p0.Cmp(floorP0) == 0 {
						remMatched = rem
					}
				}
			}
			if !match {
				okAll = false
				var got []string
				for _, cr := range creds {
					got = append(got, recDelta(paddr+"|"+cr.Delegator, d).String())
				}
				cs.Delegators = got
				cs.Expected = strings.Join(exp, " | ")
				kind := "split-not-by-credit-and-commission"
				viol(kind, fmt.Sprintf("%s: of %s (reward %s - contributors %s), self credit %s, delegator credits %v: provider got %s, delegators got %v; admissible: %s", d, R, T, C, self, cs.Credits, P, got, cs.Expected))
				continue
			}
			if !matchFloor {
				exactFloor = false
			}
			if remMatched != nil && remMatched.Sign() > 0 && D.Sign() > 0 {
				nontrivial = true
			}
		}
		if err == nil && len(rd.coins) == 2 {
			zero, pos := false, false
			for _, cn := range rd.coins {
				cd := new(big.Int)
				for i := range x.contribs {
					cd.Add(cd, new(big.Int).Sub(contrPost[i].get(cn.Denom), preContr[i].get(cn.Denom)))
				}
				if cd.Sign() == 0 {
					zero = true
				} else {
					pos = true
				}
			}
			if zero && pos {
				out.Counters["contributors_paid_in_one_denom_only(coin set with a zero entry sent to the bank)"]++
			}
		}
		for _, cr := range creds {
			var s []string
			for _, d := range dnames {
				s = append(s, recDelta(paddr+"|"+cr.Delegator, d).String()+d)
			}
			cs.Delegators = append(cs.Delegators, strings.Join(s, "+"))
		}
		switch {
		case err != nil:
			cs.Outcome = "error: " + errClass(err)
			out.Outcomes["error"]++
			out.ErrorClasses[errClass(err)]++
		default:
			cs.Outcome = "split"
			out.Outcomes["split"]++
			if okAll {
				if exactFloor {
					out.Counters["all_quotients_rounded_down"]++
				} else {
					out.Counters["matched_with_other_rounding_of_provider_terms"]++
				}
				if nontrivial {
					out.Nontrivial++
					out.Counters[fmt.Sprintf("remainder_to_provider:n_credited=%d", nCredited(creds))]++
					if len(out.Samples) < 2 && nCredited(creds) >= 2 && anyDelPaid && (out.Nontrivial%97 == 1) {
						out.Samples = append(out.Samples, cs)
					}
				}
				if round == 1 {
					out.Counters["second_payout_accumulated"]++
				}
			}
		}
	}
}

func nCredited(creds []credited) int {
	n := 0
	for _, c := range creds {
		if c.Credit.Sign() > 0 {
			n++
		}
	}
	return n
}

func errClass(err error) string {
	s := err.Error()
	for _, k := range []string{"trying to pay contributors more than their allowed amount", "not enough coins", "provider metadata"} {
		if strings.Contains(s, k) {
			return k
		}
	}
	if len(s) > 80 {
		s = s[:80]
	}
	return s
}

func first(s string) string {
	if i := strings.IndexByte(s, '\n'); i >= 0 {
		return s[:i]
	}
	return s
}

// simple reading of "time-weighted credit" for a delegation made once: amount x min(hours, 720) / 720, rounded down
func simpleCredit(amt int64, age int) *big.Int {
	h := map[int]int64{0: 0, 1: 360, 2: 720}[age]
	return fdiv(new(big.Int).Mul(big.NewInt(amt), big.NewInt(h)), big.NewInt(720))
}

func runShard(i, n int) shardOut {
	out := shardOut{Outcomes: map[string]int64{}, ErrorClasses: map[string]int64{}, ZeroSelf: map[string]int64{}, Counters: map[string]int64{}}
	t := tier()
	x := buildWorld(t.maxN)
	w := x.w
	seen := map[string]bool{}
	start := time.Now()
	for ci, c := range t.cfgs {
		if ci%n != i {
			continue
		}
		if time.Since(start) > t.deadline {
			out.Counters["configurations_not_evaluated(deadline)"]++
			continue
		}
		if e := x.prepare(c); e != "" {
			if len(out.HarnessErrors) < 5 {
				out.HarnessErrors = append(out.HarnessErrors, c.String()+": "+e)
			}
			out.Counters["harness_errors"]++
			continue
		}
		if len(x.records()) != 0 {
			out.HarnessErrors = append(out.HarnessErrors, c.String()+": reward records exist before the evaluation")
			continue
		}
		out.Configs++
		for pi, prov := range x.provs {
			paddr := prov.Addr.String()
			delegations, err := w.Keepers.Dualstaking.GetProviderDelegators(w.Ctx, paddr)
			if err != nil {
				out.HarnessErrors = append(out.HarnessErrors, "GetProviderDelegators: "+err.Error())
				continue
			}
			self := new(big.Int)
			var creds []credited
			byAddr := map[string]*big.Int{}
			for _, dl := range delegations {
				cr := new(big.Int).Set(w.Keepers.Dualstaking.CalculateMonthlyCredit(w.Ctx, dl).Amount.BigInt())
				if dl.Delegator == prov.GetVaultAddr() {
					self = cr
				} else {
					creds = append(creds, credited{dl.Delegator, cr})
					byAddr[dl.Delegator] = cr
				}
			}
			if len(creds) != len(c.Dels) {
				out.HarnessErrors = append(out.HarnessErrors, fmt.Sprintf("%s: %d delegations found, %d made", c, len(creds), len(c.Dels)))
				continue
			}
			// cross-check of the credit the chain computes with the plain reading of "time-weighted"
			for di, d := range c.Dels {
				if d.Age == 3 {
					continue
				}
				out.Counters["credit_crosschecks"]++
				if got := byAddr[x.dels[di].Addr.String()]; got.Cmp(simpleCredit(d.Amt, d.Age)) != 0 {
					key := "credit-not-time-weighted"
					if !seen[key] {
						seen[key] = true
						out.Viol = append(out.Viol, ev.Violation{Property: "C08", Key: key, What: fmt.Sprintf("%s: delegation of %d made %s ago has credit %s, expected amount*min(hours,720)/720 = %s", c, d.Amt, ageNames[d.Age], got, simpleCredit(d.Amt, d.Age)),
							Replay: map[string]interface{}{"config": c, "delegator_index": di}})
					}
				}
			}
			for si, sd := range specDefs {
				for ri, rd := range x.rewards {
					second := ri == 15 && (si == 0 || si == 6) // reward 101 in two denoms paid twice
					x.evalPoint(&out, seen, c, pi, sd, rd, self, creds, second)
				}
			}
		}
	}
	return out
}

// ---------------------------------------------------------------- driver

const shardScenario = "c08shard"

func shardMain() {
	var i, n int
	fmt.Sscanf(os.Getenv("C08_SHARD"), "%d/%d", &i, &n)
	path := os.Getenv("C08_OUT")
	if n == 0 || path == "" {
		fmt.Fprintln(os.Stderr, "c08shard: internal worker of check C08 (needs C08_SHARD=i/n and C08_OUT)")
		os.Exit(2)
	}
	if pf := os.Getenv("C08_PROF"); pf != "" {
		f, _ := os.Create(pf)
		pprof.StartCPUProfile(f)
		defer pprof.StopCPUProfile()
	}
	out := runShard(i, n)
	pprof.StopCPUProfile()
	b, _ := json.Marshal(out)
	if err := os.WriteFile(path, b, 0o644); err != nil {
		fmt.Fprintln(os.Stderr, "c08shard:", err)
		os.Exit(2)
	}
	os.Exit(0)
}

func init() {
	// the shard worker is reached through the dispatcher's generic "worker <scenario>" entry
	bfs.Register(shardScenario, func() bfs.Scenario { shardMain(); return nil })
	reg.Register(reg.Check{Property: "C08", Level: "exploration", Run: func(run *ev.Run) {
		exe, _ := os.Executable()
		n := 16
		outs := make([]shardOut, n)
		errs := make([]error, n)
		dir, _ := os.MkdirTemp("", "c08-")
		defer os.RemoveAll(dir)
		var wg sync.WaitGroup
		for i := 0; i < n; i++ {
			wg.Add(1)
			go func(i int) {
				defer wg.Done()
				path := fmt.Sprintf("%s/shard%d.json", dir, i)
				cmd := exec.Command(exe, "worker", shardScenario)
				cmd.Env = append(os.Environ(), fmt.Sprintf("C08_SHARD=%d/%d", i, n), "C08_OUT="+path, "GOMAXPROCS=2")
				cmd.Stderr = os.Stderr
				if err := cmd.Run(); err != nil {
					errs[i] = err
					return
				}
				b, err := os.ReadFile(path)
				if err != nil {
					errs[i] = err
					return
				}
				errs[i] = json.Unmarshal(b, &outs[i])
			}(i)
		}
		wg.Wait()
		var evals, nontriv, cfgs int64
		outcomes, errc, zs, counters := map[string]int64{}, map[string]int64{}, map[string]int64{}, map[string]int64{}
		exh := true
		var herr []string
		for i, o := range outs {
			if errs[i] != nil {
				run.Set(fmt.Sprintf("shard%d.error", i), errs[i].Error())
				exh = false
				continue
			}
			evals += o.Evaluations
			nontriv += o.Nontrivial
			cfgs += o.Configs
			for k, v := range o.Outcomes {
				outcomes[k] += v
			}
			for k, v := range o.ErrorClasses {
				errc[k] += v
			}
			for k, v := range o.ZeroSelf {
				zs[k] += v
			}
			for k, v := range o.Counters {
				counters[k] += v
			}
			herr = append(herr, o.HarnessErrors...)
			for _, v := range o.Viol {
				run.Violate(v)
			}
			for _, s := range o.Samples {
				run.Sample(s)
			}
		}
		if counters["configurations_not_evaluated(deadline)"] > 0 {
			exh = false
		}
		if len(herr) > 0 {
			exh = false
			if len(herr) > 10 {
				herr = herr[:10]
			}
			run.Set("harness_errors", herr)
		}
		t := tier()
		run.Set("evaluations", evals)
		run.Set("configurations", cfgs)
		run.Set("distinct_nontrivial", nontriv)
		run.Set("outcomes", outcomes)
		run.Set("error_classes", errc)
		run.Set("zero_self_credit_calls", zs)
		run.Set("counters", counters)
		run.Set("exhaustive", exh)
		bound := fmt.Sprintf("%s (ages bounded by the provider's own age 0h/15d/31d) x commissions %v x %d specs (contributors 0/1/3 x percentage none/0.1/1/3) x 18 rewards (ulava %v alone and with a second denom); self stake %d ulava per provider",
			t.desc, commissions, len(specDefs), rewardVals, stakePerSpec*len(specDefs))
		run.Set("bound", bound)
		run.Set("rule", bound+"; every world is built with real stake/delegate transactions and block-time jumps, the reward is minted into the sender module (subscription / iprpc_pool) and RewardProvidersAndDelegators is called on a fork; non-trivial = a rounding remainder > 0 of the delegators' pool went to the provider while at least one delegator had credit (distinct grid points)")
		run.Assume("mock bank/account keeper of testutil/keeper (it accepts coin sets with a zero entry, the real bank does not)")
		run.Assume("credit_i is what CalculateMonthlyCredit reports for the stored delegation (cross-checked against amount*min(hours,720)/720 for delegations made once)")
		run.Assume("weaker readings: the rounding of the provider's own share, of the delegators' raw share and of the commission on it is not fixed by the property (either direction accepted); 'the whole reward at 100%' = everything that is not paid to contributors; calls that return an error only have to conserve value")
	}})
}
