// Package c03: a relay session is paid at most once — BFS over payment histories on the real keepers.
package c03

import (
	"fmt"
	"sort"
	"strings"
	"time"

	"github.com/lavanet/lava/v5/testutil/common"
	"github.com/lavanet/lava/v5/utils/sigs"
	pairingtypes "github.com/lavanet/lava/v5/x/pairing/types"

	"verifmc/engine/bfs"
	"verifmc/engine/chain"
	"verifmc/engine/ev"
	"verifmc/engine/reg"
)

type proof struct {
	name    string
	session uint64
	cu      uint64
	epochIx int // epoch = E0 + epochIx*epochBlocks
}

var proofs = []proof{
	{"A(s1@E0,cu1)", 1, 1, 0},
	{"A'(s1@E0,cu2)", 1, 2, 0},
	{"B(s2@E0,cu4)", 2, 4, 0},
	{"C(s1@E1,cu8)", 1, 8, 1},
	{"A+(s1@E0+1,cu16)", 1, 16, -1}, // same epoch as A, named by a non-epoch-start block (E0+1)
}

type opdef struct {
	name     string
	kind     int // 0 pay, 1 +1 block, 2 next epoch, 3 past memory
	provider int
	proofs   []int
	upper    bool // the tx creator is spelled in upper case (the same account in bech32)
}

type scen struct {
	w      *chain.World
	ops    []opdef
	names  []string
	e0     uint64
	eb     uint64
	cons   sigs.Account
	provs  []sigs.Account
	aged   bool
	// model: credited keys -> count
	credited map[string]int
}

func build(aged bool, wrap ...bool) *scen {
	s := &scen{aged: aged}
	w := chain.NewWorld()
	s.w = w
	w.StdFixture(chain.StdOpts{Specs: []string{"mock"}, Providers: 2, Consumers: 1})
	s.cons, _ = w.GetAccount(common.CONSUMER, 0)
	for i := 0; i < 2; i++ {
		p, _ := w.GetAccount(common.PROVIDER, i)
		s.provs = append(s.provs, p)
	}
	s.eb = 4
	if aged {
		// a chain that has already paid some sessions and lived past one memory window
		e := w.EpochStartNow()
		w.Must("aged pay", w.Pay(s.provs[0].Addr.String(), w.Relay(s.cons, s.provs[0].Addr.String(), "mock", 1, 32, int64(e), 0)))
		for i := 0; i < 5; i++ {
			w.AdvanceToNextEpoch(chain.BlockDt)
		}
		e = w.EpochStartNow()
		w.Must("aged pay2", w.Pay(s.provs[1].Addr.String(), w.Relay(s.cons, s.provs[1].Addr.String(), "mock", 2, 64, int64(e), 0)))
		w.NextBlock(chain.BlockDt)
	}
	if len(wrap) > 0 && wrap[0] {
		// heights around 256: epoch numbers whose serialized form changes its byte pattern (store keys are built
		// from utils.Serialize(epoch); ordering of such keys is not numeric order across this boundary)
		for w.EpochStartNow() < 256 {
			if p := w.AdvanceToNextEpoch(chain.BlockDt); p != "" {
				panic(p)
			}
		}
	}
	s.e0 = w.EpochStartNow()
	w.MarkFixture()
	sets := [][]int{{0}, {1}, {2}, {3}, {4}, {0, 0}, {0, 1}, {0, 2}, {0, 4}}
	for p := 0; p < 2; p++ {
		for _, set := range sets {
			var n []string
			for _, i := range set {
				n = append(n, proofs[i].name)
			}
			s.ops = append(s.ops, opdef{name: fmt.Sprintf("pay(p%d,[%s])", p, strings.Join(n, ",")), kind: 0, provider: p, proofs: set})
		}
	}
	// the same provider account named by the all-upper-case spelling of its bech32 address in the tx creator field (the
	// relay still names the provider as the consumer signed it): an unusual but valid input
	for _, set := range [][]int{{0}, {0, 0}} {
		var n []string
		for _, i := range set {
			n = append(n, proofs[i].name)
		}
		s.ops = append(s.ops, opdef{name: fmt.Sprintf("pay(P0-UPPER-CASE-CREATOR,[%s])", strings.Join(n, ",")), kind: 0, provider: 0, proofs: set, upper: true})
	}
	s.ops = append(s.ops, opdef{name: "+1block", kind: 1}, opdef{name: "next-epoch", kind: 2}, opdef{name: "past-memory", kind: 3})
	for _, o := range s.ops {
		s.names = append(s.names, o.name)
	}
	return s
}

func (s *scen) Ops() []string { return s.names }
func (s *scen) Reset()        { s.w.Reset(); s.credited = map[string]int{} }
func (s *scen) Fork() func() {
	r := s.w.Fork()
	saved := map[string]int{}
	for k, v := range s.credited {
		saved[k] = v
	}
	return func() { r(); s.credited = saved }
}

func (s *scen) Hash() []byte {
	h := s.w.StateHash()
	keys := make([]string, 0, len(s.credited))
	for k := range s.credited {
		keys = append(keys, k)
	}
	sort.Strings(keys)
	return append(h, []byte(strings.Join(keys, ";"))...)
}

func (s *scen) epochOf(p proof) int64 {
	if p.epochIx == -1 {
		return int64(s.e0) + 1
	}
	return int64(s.e0) + int64(p.epochIx)*int64(s.eb)
}

type ledger struct {
	tracked  uint64
	serviced map[uint64]uint64
	pcec     map[uint64]uint64
	projUsed uint64
	subUsed  uint64
}

func (s *scen) read(provider string, epochs []uint64) ledger {
	w := s.w
	l := ledger{serviced: map[uint64]uint64{}, pcec: map[uint64]uint64{}}
	sub, found := w.Keepers.Subscription.GetSubscription(w.Ctx, s.cons.Addr.String())
	if found {
		for _, info := range w.Keepers.Subscription.GetSubTrackedCuInfoForProvider(w.Ctx, sub.Consumer, provider, sub.Block) {
			l.tracked += info.TrackedCu
		}
		l.subUsed = sub.MonthCuTotal - sub.MonthCuLeft
	}
	proj, err := w.Keepers.Projects.GetProjectForDeveloper(w.Ctx, s.cons.Addr.String(), uint64(w.Ctx.BlockHeight()))
	if err == nil {
		l.projUsed = proj.UsedCu
	}
	for _, e := range epochs {
		if pec, ok := w.Keepers.Pairing.GetProviderEpochCu(w.Ctx, e, provider, "mock"); ok {
			l.serviced[e] = pec.ServicedCu
		}
		if err == nil {
			if pc, ok := w.Keepers.Pairing.GetProviderConsumerEpochCu(w.Ctx, e, provider, proj.Index, "mock"); ok {
				l.pcec[e] = pc.Cu
			}
		}
	}
	return l
}

// decode a CU delta into the sub-multiset of relay indices whose CU sum to it (relays <= 2)
func decode(delta uint64, cus []uint64) ([]int, bool) {
	n := len(cus)
	for mask := 0; mask < 1<<n; mask++ {
		var sum uint64
		var idx []int
		for i := 0; i < n; i++ {
			if mask&(1<<i) != 0 {
				sum += cus[i]
				idx = append(idx, i)
			}
		}
		if sum == delta {
			return idx, true
		}
	}
	return nil, false
}

func (s *scen) Apply(op int) bfs.Step {
	o := s.ops[op]
	w := s.w
	switch o.kind {
	case 1, 2, 3:
		var p string
		switch o.kind {
		case 1:
			p = w.NextBlock(chain.BlockDt)
		case 2:
			p = w.AdvanceToNextEpoch(chain.BlockDt)
		case 3:
			for i := 0; i < 4 && p == ""; i++ {
				p = w.AdvanceToNextEpoch(chain.BlockDt)
			}
		}
		if p != "" {
			return bfs.Step{Accepted: true, Obs: "block-panic", Viol: []ev.Violation{{Property: "C37", Key: "block-panic:" + firstLine(p), What: "panic in block processing: " + firstLine(p)}}}
		}
		// bound the horizon: stop expanding far beyond the memory window
		if uint64(w.Ctx.BlockHeight()) > s.e0+8*s.eb {
			return bfs.Step{Accepted: true, Prune: true, Obs: "horizon"}
		}
		return bfs.Step{Accepted: true, Obs: "block"}
	}
	prov := s.provs[o.provider]
	paddr := prov.Addr.String()
	var relays []*pairingtypes.RelaySession
	var cus []uint64
	var keys []string
	var epochStarts []uint64
	earliest := w.Keepers.Epochstorage.GetEarliestEpochStart(w.Ctx)
	for _, pi := range o.proofs {
		p := proofs[pi]
		ep := s.epochOf(p)
		relays = append(relays, w.Relay(s.cons, paddr, "mock", p.session, p.cu, ep, 0))
		cus = append(cus, p.cu)
		es := uint64(ep) - (uint64(ep)-s.e0)%s.eb
		if uint64(ep) < s.e0 {
			es = uint64(ep)
		}
		epochStarts = append(epochStarts, es)
		keys = append(keys, fmt.Sprintf("%d|p%d|mock|s%d", es, o.provider, p.session))
	}
	before := s.read(paddr, epochStarts)
	res := w.Tx(func() error {
		creator := paddr
		if o.upper {
			creator = strings.ToUpper(paddr)
		}
		msg := &pairingtypes.MsgRelayPayment{Creator: creator, Relays: relays, DescriptionString: "verif"}
		if err := msg.ValidateBasic(); err != nil {
			return err
		}
		_, err := w.Servers.PairingServer.RelayPayment(w.GoCtx, msg)
		return err
	})
	after := s.read(paddr, epochStarts)
	if res.Panic != "" {
		return bfs.Step{Accepted: false, Obs: "tx-panic", Viol: []ev.Violation{{Property: "C03", Key: "tx-panic:" + firstLine(res.Panic), What: "relay payment panicked: " + firstLine(res.Panic)}}}
	}
	// decode every ledger
	creditedNow := map[int]bool{}
	var viol []ev.Violation
	check := func(name string, delta uint64) {
		idx, ok := decode(delta, cus)
		if !ok {
			viol = append(viol, ev.Violation{Property: "C03", Key: "undecodable-delta:" + name, What: fmt.Sprintf("ledger %s moved by %d which is no sub-multiset of the relays' CU %v (%s)", name, delta, cus, o.name)})
			return
		}
		for _, i := range idx {
			creditedNow[i] = true
		}
	}
	check("trackedCU", after.tracked-before.tracked)
	check("projectUsedCu", after.projUsed-before.projUsed)
	check("subscriptionUsedCu", after.subUsed-before.subUsed)
	var dserv, dpcec uint64
	seenE := map[uint64]bool{}
	for _, e := range epochStarts {
		if seenE[e] {
			continue
		}
		seenE[e] = true
		dserv += after.serviced[e] - before.serviced[e]
		dpcec += after.pcec[e] - before.pcec[e]
	}
	check("providerEpochServicedCu", dserv)
	check("providerConsumerEpochCu", dpcec)
	if !res.OK() && len(creditedNow) > 0 {
		viol = append(viol, ev.Violation{Property: "C03", Key: "failed-tx-credited", What: "a failed payment transaction left credit behind: " + o.name})
	}
	inTx := map[string]int{}
	for i := range relays {
		if !creditedNow[i] {
			continue
		}
		inTx[keys[i]]++
		s.credited[keys[i]]++
		if s.credited[keys[i]] > 1 {
			viol = append(viol, ev.Violation{Property: "C03", Key: "double-credit", What: fmt.Sprintf("(epoch,provider,project,chain,session)=%s credited %d times (%s)", keys[i], s.credited[keys[i]], o.name)})
		}
		if epochStarts[i] < earliest {
			viol = append(viol, ev.Violation{Property: "C03", Key: "credit-after-memory", What: fmt.Sprintf("session %s credited although its epoch %d is below the earliest epoch in memory %d", keys[i], epochStarts[i], earliest)})
		}
	}
	if len(viol) > 0 {
		return bfs.Step{Accepted: true, Obs: "violation", Viol: viol}
	}
	if !res.OK() {
		return bfs.Step{Accepted: false, Obs: "pay-rejected"}
	}
	return bfs.Step{Accepted: true, Obs: fmt.Sprintf("pay-accepted-%d", len(creditedNow))}
}

func firstLine(s string) string {
	if i := strings.IndexByte(s, '\n'); i >= 0 {
		return s[:i]
	}
	return s
}

func init() {
	bfs.Register("c03/fresh", func() bfs.Scenario { return build(false) })
	bfs.Register("c03/aged", func() bfs.Scenario { return build(true) })
	bfs.Register("c03/wrap256", func() bfs.Scenario { return build(false, true) })
	reg.Register(reg.Check{Property: "C03", Level: "model_checking", Run: func(run *ev.Run) {
		depth, deadline := 5, 90*time.Second
		if ev.Tier() == "thorough" {
			depth, deadline = 8, 20*time.Minute
		}
		exh := true
		for _, n := range []string{"fresh", "aged", "wrap256"} {
			d := depth
			if n == "wrap256" && d > 4 {
				d = d - 1
			}
			cfg := bfs.Config{Scenario: "c03/" + n, MaxDepth: d, Deadline: deadline / 3}
			st := bfs.Explore(cfg, run)
			bfs.Report(run, n, cfg, st)
			exh = exh && st.Exhaustive
		}
		run.Set("exhaustive", exh)
		run.Set("bound", fmt.Sprintf("all histories up to depth %d over 21 ops (18 payment shapes x 2 providers incl. duplicates, re-signed CU, same epoch named by another block, future epoch; +1 block, next epoch, past memory), 3 fixtures (fresh, aged, and one whose epochs straddle block 256)", depth))
		run.Assume("mock bank/account keeper of testutil/keeper; transactions are atomic as in baseapp (emulated by the driver)")
	}})
}
// x
