package c28

// Sequential histories: every sequence (to a depth) of the operations
//   acquire(slot)  GetSessions(1 provider, CU 10) for request slot 0/1 (a slot whose last relay failed retries
//                  with the same UsedProviders, as rpcconsumer does; otherwise a fresh request)
//   finish(slot,o) report outcome o for the session the slot holds
//   update         UpdateAllProviders(next epoch), once
// is executed on a fresh real ConsumerSessionManager (each operation as a deterministic schedule of its own, every
// goroutine it starts run to completion; second-chance timers never / always expire = parameter).
// Oracle of the blocking clause, evaluated on the state right BEFORE each GetSessions: if the provider chosen was
// in the blocked list of the current epoch, then no provider of the valid (unblocked) list could serve the request:
// each of them is excluded by the request itself (already used / unwanted by this request) or lacks the CU.
// The accounting oracles of the concurrent harnesses are evaluated too.

import (
	"encoding/json"
	"fmt"
	"os"
	"os/exec"
	"strconv"
	"strings"
	"sync"
	"time"

	"github.com/lavanet/lava/v5/protocol/lavasession"

	"verifmc/engine/ev"
)

type seqOp struct {
	Kind int `json:"k"` // 0 acquire, 1 finish, 2 update
	Slot int `json:"s"`
	Out  int `json:"o"`
}

func (o seqOp) String() string {
	switch o.Kind {
	case 0:
		return fmt.Sprintf("acquire(%d)", o.Slot)
	case 1:
		return fmt.Sprintf("finish(%d,%s)", o.Slot, outcomeNames[o.Out])
	}
	return "update"
}

type slot struct {
	sess  *lavasession.SingleConsumerSession
	rq    *relayReq
	retry bool
}

type seqWorld struct {
	w       *world
	slots   [2]slot
	updated bool
	timers  bool
	st      *SeqResult
}

type SeqViol struct {
	Key  string   `json:"key"`
	What string   `json:"what"`
	Ops  []string `json:"ops"`
	Cfg  string   `json:"cfg"`
}

type SeqResult struct {
	Sequences      int64          `json:"sequences"`
	Operations     int64          `json:"operations"`
	Acquisitions   int64          `json:"acquisitions"`
	NoSession      int64          `json:"no_session"`
	BlockedChosen  int64          `json:"blocked_chosen"`                      // guard exercised: a blocked provider was chosen
	BlockedSkipped int64          `json:"unblocked_chosen_while_some_blocked"` // a blocked provider existed and an unblocked one was chosen
	FinalStates    map[string]int `json:"final_states"`
	Viol           []SeqViol      `json:"viol"`
	Exhaustive     bool           `json:"exhaustive"`
}

func (sw *seqWorld) enabled() []seqOp {
	var ops []seqOp
	bothFresh := sw.slots[0].sess == nil && sw.slots[1].sess == nil && !sw.slots[0].retry && !sw.slots[1].retry
	for i := range sw.slots {
		if sw.slots[i].sess == nil {
			if i == 1 && bothFresh {
				continue // symmetric to acquire(0)
			}
			ops = append(ops, seqOp{Kind: 0, Slot: i})
		} else {
			for o := 0; o < nOutcomes; o++ {
				ops = append(ops, seqOp{Kind: 1, Slot: i, Out: o})
			}
		}
	}
	if !sw.updated {
		ops = append(ops, seqOp{Kind: 2})
	}
	return ops
}

// apply runs one operation as its own deterministic schedule.
func (sw *seqWorld) apply(op seqOp) {
	w := sw.w
	sw.st.Operations++
	ok := seq(sw.timers, func() {
		switch op.Kind {
		case 0:
			sl := &sw.slots[op.Slot]
			if sl.rq == nil || !sl.retry {
				sl.rq = &relayReq{}
			}
			sw.acquireChecked(op.Slot)
		case 1:
			sl := &sw.slots[op.Slot]
			w.finish(fmt.Sprintf("R%d", op.Slot), sl.sess, op.Out)
			sl.sess = nil
			sl.retry = !(op.Out == oDone || op.Out == oDoneCU)
		case 2:
			if err := w.csm.UpdateAllProviders(epoch2, w.list2, nil); err != nil {
				w.report("update-rejected", err.Error())
			}
			sw.updated = true
		}
	})
	if !ok {
		w.report("operation-did-not-complete", op.String()+" deadlocked, panicked or ran over the horizon")
	}
	w.checkLimit("after " + op.String())
}

func (sw *seqWorld) acquireChecked(i int) {
	w := sw.w
	sl := &sw.slots[i]
	// ---- state before the call ----
	st := w.csm.VerifState()
	if sl.rq.up == nil {
		sl.rq.up = lavasession.NewUsedProviders(nil)
	}
	unwanted := sl.rq.up.GetUnwantedProvidersToSend(lavasession.NewRouterKey(nil))
	blocked := map[string]bool{}
	for _, a := range st.Blocked {
		blocked[a] = true
	}
	var couldServe []string
	for _, p := range st.Pairing {
		isValid := false
		for _, a := range st.Valid {
			isValid = isValid || a == p.PublicLavaAddress
		}
		if !isValid || blocked[p.PublicLavaAddress] {
			continue
		}
		if _, un := unwanted[p.PublicLavaAddress]; un {
			continue
		}
		if p.UsedComputeUnits+relayCU > p.MaxComputeUnits*(w.ve+1) {
			continue
		}
		couldServe = append(couldServe, p.PublicLavaAddress)
	}
	sess := w.acquire(fmt.Sprintf("R%d", i), sl.rq)
	sw.st.Acquisitions++
	if sess == nil {
		sw.st.NoSession++
		sl.retry = false
		return
	}
	sl.sess = sess
	chosen := sess.Parent.PublicLavaAddress
	if blocked[chosen] {
		sw.st.BlockedChosen++
		if len(couldServe) > 0 {
			w.report("blocked-provider-chosen-while-unblocked-could-serve", fmt.Sprintf("GetSessions chose %s, blocked in epoch %d, while unblocked %v could serve (valid %v, blocked %v, unwanted by the request %v)", chosen, st.Epoch, couldServe, st.Valid, st.Blocked, keys(unwanted)))
		}
	} else if len(st.Blocked) > 0 {
		sw.st.BlockedSkipped++
	}
}

func keys(m map[string]struct{}) []string {
	var k []string
	for a := range m {
		k = append(k, a)
	}
	return sortedCopy(k)
}

type seqCfg struct {
	nProv  int
	timers bool
	ve     uint64
}

func (c seqCfg) String() string {
	return fmt.Sprintf("providers=%d timers=%v ve=%d", c.nProv, c.timers, c.ve)
}

// runSeq replays one operation sequence on a fresh system; returns the ops enabled at its end.
func runSeq(cfg seqCfg, ops []seqOp, st *SeqResult, leaf bool) []seqOp {
	var found []SeqViol
	names := make([]string, len(ops))
	for i, o := range ops {
		names[i] = o.String()
	}
	w := newWorld(cfg.nProv, 0, func(key, what string) {
		found = append(found, SeqViol{Key: key, What: what, Ops: names, Cfg: cfg.String()})
	})
	w.ve = cfg.ve
	sw := &seqWorld{w: w, timers: cfg.timers, st: st}
	for _, op := range ops {
		sw.apply(op)
	}
	if leaf {
		// quiescence oracle needs no session in flight: finish what is held with a success
		for i := range sw.slots {
			if sw.slots[i].sess != nil {
				sw.apply(seqOp{Kind: 1, Slot: i, Out: oDone})
			}
		}
		w.final()
		st.FinalStates[w.summary()]++
	}
	seen := map[string]bool{}
	for _, v := range st.Viol {
		seen[v.Key] = true
	}
	for _, v := range found {
		if !seen[v.Key] {
			seen[v.Key] = true
			st.Viol = append(st.Viol, v)
		}
	}
	return sw.enabled()
}

// SeqMain: vcoop seq C28 <depth> <shard> <shards> <deadline seconds>
func SeqMain(args []string) {
	depth, _ := strconv.Atoi(args[1])
	shard, _ := strconv.Atoi(args[2])
	shards, _ := strconv.Atoi(args[3])
	dl, _ := strconv.Atoi(args[4])
	start := time.Now()
	st := &SeqResult{FinalStates: map[string]int{}, Exhaustive: true}
	counter := 0
	for _, cfg := range []seqCfg{{2, false, 0}, {3, false, 0}, {2, true, 0}, {2, false, 1}} {
		var dfs func(prefix []seqOp)
		dfs = func(prefix []seqOp) {
			if time.Since(start) > time.Duration(dl)*time.Second {
				st.Exhaustive = false
				return
			}
			if len(prefix) == 2 {
				mine := counter%shards == shard
				counter++
				if !mine {
					return
				}
			}
			leaf := len(prefix) == depth
			if len(prefix) < 2 && !leaf {
				// inner nodes above the sharding level are replayed by every shard only to learn the enabled set
				var scratch SeqResult
				scratch.FinalStates = map[string]int{}
				for _, op := range runSeq(cfg, prefix, &scratch, false) {
					dfs(append(append([]seqOp{}, prefix...), op))
				}
				return
			}
			if leaf {
				st.Sequences++
			}
			en := runSeq(cfg, prefix, st, leaf)
			if leaf {
				return
			}
			for _, op := range en {
				dfs(append(append([]seqOp{}, prefix...), op))
			}
		}
		dfs(nil)
	}
	json.NewEncoder(os.Stdout).Encode(st)
}

// StartSequential launches the sequential enumeration in worker processes; the returned function waits for them
// and merges the result into the evidence.
func StartSequential(run *ev.Run) (wait func()) {
	depth, shards, dl := 6, 4, 70
	if ev.Tier() == "thorough" {
		depth, shards, dl = 7, 8, 900
	}
	exe, _ := os.Executable()
	results := make([]SeqResult, shards)
	errs := make([]error, shards)
	var wg sync.WaitGroup
	for i := 0; i < shards; i++ {
		wg.Add(1)
		go func(i int) {
			defer wg.Done()
			cmd := exec.Command(exe, "seq", "C28", strconv.Itoa(depth), strconv.Itoa(i), strconv.Itoa(shards), strconv.Itoa(dl))
			cmd.Env = append(os.Environ(), "GOMAXPROCS=1")
			cmd.Stderr = os.Stderr
			out, err := cmd.Output()
			if err != nil {
				errs[i] = err
				return
			}
			errs[i] = json.Unmarshal(out, &results[i])
		}(i)
	}
	return func() {
		wg.Wait()
		agg := SeqResult{FinalStates: map[string]int{}, Exhaustive: true}
		for i, r := range results {
			if errs[i] != nil {
				run.Set(fmt.Sprintf("sequential.shard%d.error", i), errs[i].Error())
				agg.Exhaustive = false
				continue
			}
			agg.Sequences += r.Sequences
			agg.Operations += r.Operations
			agg.Acquisitions += r.Acquisitions
			agg.NoSession += r.NoSession
			agg.BlockedChosen += r.BlockedChosen
			agg.BlockedSkipped += r.BlockedSkipped
			agg.Exhaustive = agg.Exhaustive && r.Exhaustive
			for k, v := range r.FinalStates {
				agg.FinalStates[k] += v
			}
			for _, v := range r.Viol {
				run.Violate(ev.Violation{Property: "C28", Key: "sequential/" + v.Key, What: "sequential history [" + strings.Join(v.Ops, " ") + "] (" + v.Cfg + "): " + v.What, Replay: v})
			}
		}
		run.Set("sequential.depth", depth)
		run.Set("sequential.sequences", agg.Sequences)
		run.Set("sequential.operations_executed", agg.Operations)
		run.Set("sequential.acquisitions", agg.Acquisitions)
		run.Set("sequential.acquisitions_without_session", agg.NoSession)
		run.Set("sequential.blocked_provider_chosen", agg.BlockedChosen)
		run.Set("sequential.unblocked_chosen_while_some_blocked", agg.BlockedSkipped)
		run.Set("sequential.distinct_final_states", len(agg.FinalStates))
		run.Set("sequential.exhaustive", agg.Exhaustive)
		run.Add("traces_validated_against_impl", agg.Sequences)
		run.Add("states", agg.Operations)
		run.Add("transitions", agg.Operations)
		if !agg.Exhaustive {
			run.Set("exhaustive", false)
		}
		run.Set("sequential.bound", fmt.Sprintf("every sequence of <= %d operations {acquire(slot 0/1), finish(slot, 6 outcomes), update epoch once} for 4 configurations (2 providers; 3 providers; 2 providers with second-chance timers expiring at once; 2 providers with virtual epoch 1); max CU 20, relay CU 10", depth))
		run.Assume("closed system: pre-made endpoint connections over one idle never-dialled grpc.ClientConn and a stub RelayerClient (Probe succeeds at once), deterministic stub ProviderOptimizer (first eligible provider of a fixed preference order), nil metrics manager (lava's NoOpConsumerMetrics), BlockEndpointError not injected (it would force a real dial)")
		run.Assume("goroutines that only call the no-op metrics manager or the stub optimizer's Append* run at their spawn point (they commute with every step); `<-time.After(3min)` second-chance timers never expire within an execution (except harness H6 and one sequential configuration, where they may expire at any point); the 30 s reconnect ticker never ticks; probeProviders waits inline for its probes (its context is never cancelled); Go map iteration order pinned to insertion order rotated by a harness parameter (0, 1)")
		run.Assume("a session counts as held from the return of GetSessions to the call of OnSessionDone/OnSessionDoneIncreaseCUOnly/OnSessionFailure; a failed relay is retried with the same UsedProviders, a successful one starts a new request; 'can serve' in the blocking clause = in the valid list, not excluded by the request's own used/unwanted set, used CU + 10 <= max x (virtual epoch + 1)")
	}
}
