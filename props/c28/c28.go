// Package c28: consumer sessions account CU exactly and are never shared — all interleavings (preemption bounded)
// of 2-3 relay / pairing-update threads on the real ConsumerSessionManager under the cooperative scheduler, plus an
// exhaustive enumeration of sequential operation histories for the clause "a provider blocked in the current
// epoch is chosen only when no unblocked provider can serve the request".
//
// Closed system: endpoint connections are pre-made (an idle, never dialled grpc.ClientConn shared by the process and
// a stub RelayerClient whose Probe answers at once), the provider optimizer is a deterministic stub (first
// candidate of a fixed preference order), the metrics manager is nil (lava's own no-op), Go's map iteration order
// is pinned (engine/mapiter), long timers (second-chance, reconnect ticker) do not expire inside an execution.
package c28

import (
	"context"
	"errors"
	"fmt"
	"sort"
	"strings"
	gotime "time"

	"github.com/lavanet/lava/v5/protocol/common"
	"github.com/lavanet/lava/v5/protocol/lavaprotocol"
	"github.com/lavanet/lava/v5/protocol/lavasession"
	"github.com/lavanet/lava/v5/protocol/provideroptimizer"
	"github.com/lavanet/lava/v5/utils/rand"
	"github.com/lavanet/lava/v5/utils/verifshim/coop"
	pairingtypes "github.com/lavanet/lava/v5/x/pairing/types"
	spectypes "github.com/lavanet/lava/v5/x/spec/types"
	"google.golang.org/grpc"
	"google.golang.org/grpc/credentials/insecure"

	"verifmc/engine/coopdrv"
	"verifmc/engine/mapiter"
)

const (
	epoch1  = uint64(100)
	epoch2  = uint64(200)
	maxCU   = uint64(20)
	relayCU = uint64(10)
	horizon = 60000
)

// outcomes of a relay (what the consumer reports for the session it got)
const (
	oDone       = iota // OnSessionDone
	oDoneCU            // OnSessionDoneIncreaseCUOnly
	oFail              // OnSessionFailure, plain error
	oFailBlock         // OnSessionFailure, BlockProviderError
	oFailReport        // OnSessionFailure, ReportAndBlockProviderError
	oFailSync          // OnSessionFailure, SessionOutOfSyncError
	nOutcomes
)

var outcomeNames = [...]string{"done", "doneCU", "fail", "failBlock", "failReport", "failSync"}

var errPlain = errors.New("relay failed")

func outcomeErr(o int) error {
	switch o {
	case oFail:
		return errPlain
	case oFailBlock:
		return lavasession.BlockProviderError
	case oFailReport:
		return lavasession.ReportAndBlockProviderError
	case oFailSync:
		return lavasession.SessionOutOfSyncError
	}
	return nil
}

// ---- closed environment ----

type stubClient struct{}

func (stubClient) Relay(ctx context.Context, in *pairingtypes.RelayRequest, opts ...grpc.CallOption) (*pairingtypes.RelayReply, error) {
	return nil, errors.New("stub")
}

func (stubClient) RelaySubscribe(ctx context.Context, in *pairingtypes.RelayRequest, opts ...grpc.CallOption) (pairingtypes.Relayer_RelaySubscribeClient, error) {
	return nil, errors.New("stub")
}

// Probe answers at once and successfully (the provider is reachable and synced).
func (stubClient) Probe(ctx context.Context, in *pairingtypes.ProbeRequest, opts ...grpc.CallOption) (*pairingtypes.ProbeReply, error) {
	return &pairingtypes.ProbeReply{Guid: in.Guid, LatestBlock: 1000}, nil
}

var idleConn *grpc.ClientConn

func conn() *grpc.ClientConn {
	if idleConn == nil {
		c, err := grpc.NewClient("passthrough:///verif", grpc.WithTransportCredentials(insecure.NewCredentials()))
		if err != nil {
			panic(err)
		}
		idleConn = c // stays IDLE: no RPC is ever issued on it
		rand.InitRandomSeed()
	}
	return idleConn
}

// stubOptimizer: the first candidate of a fixed preference order that is neither ignored nor absent.
type stubOptimizer struct{ pref []string }

func (o *stubOptimizer) choose(all []string, ignored map[string]struct{}) []string {
	for _, p := range o.pref {
		if _, ig := ignored[p]; ig {
			continue
		}
		for _, a := range all {
			if a == p {
				return []string{p}
			}
		}
	}
	return nil
}

func (o *stubOptimizer) stats(sel []string) *provideroptimizer.SelectionStats {
	if len(sel) == 0 {
		return nil
	}
	return &provideroptimizer.SelectionStats{SelectedProvider: sel[0], ProviderScores: []provideroptimizer.ProviderScoreDetails{{Address: sel[0], Composite: 1}}}
}
func (o *stubOptimizer) AppendProbeRelayData(string, gotime.Duration, bool)      {}
func (o *stubOptimizer) AppendRelayFailure(string)                               {}
func (o *stubOptimizer) AppendRelayData(string, gotime.Duration, uint64, uint64) {}
func (o *stubOptimizer) UpdateWeights(map[string]int64, uint64)                  {}
func (o *stubOptimizer) Strategy() provideroptimizer.Strategy {
	return provideroptimizer.StrategyBalanced
}
func (o *stubOptimizer) GetReputationReportForProvider(string) (*pairingtypes.QualityOfServiceReport, gotime.Time) {
	return nil, gotime.Time{}
}

func (o *stubOptimizer) ChooseProvider(ctx context.Context, all []string, ign map[string]struct{}, cu uint64, rb int64) []string {
	return o.choose(all, ign)
}

func (o *stubOptimizer) ChooseBestProvider(ctx context.Context, all []string, ign map[string]struct{}, cu uint64, rb int64) []string {
	return o.choose(all, ign)
}

func (o *stubOptimizer) ChooseProviderWithStats(ctx context.Context, all []string, ign map[string]struct{}, cu uint64, rb int64) ([]string, *provideroptimizer.SelectionStats) {
	s := o.choose(all, ign)
	return s, o.stats(s)
}

func (o *stubOptimizer) ChooseBestProviderWithStats(ctx context.Context, all []string, ign map[string]struct{}, cu uint64, rb int64) ([]string, *provideroptimizer.SelectionStats) {
	s := o.choose(all, ign)
	return s, o.stats(s)
}

// ---- the system and its ledger ----

type world struct {
	csm    *lavasession.ConsumerSessionManager
	report func(key, what string)
	ve     uint64
	names  []string
	provs  []*lavasession.ConsumerSessionsWithProvider // every provider object ever handed to the manager
	list2  map[uint64]*lavasession.ConsumerSessionsWithProvider

	holder    map[*lavasession.SingleConsumerSession]string // who holds the session (from GetSessions' return to the outcome call)
	sessIdx   map[*lavasession.SingleConsumerSession]int
	lastRelay map[*lavasession.SingleConsumerSession]uint64
	completed map[*lavasession.SingleConsumerSession]uint64 // ledger: CU of the completed relays of the session
	outcome   []string
	acquired  int
}

func (w *world) pairingList(epoch uint64) map[uint64]*lavasession.ConsumerSessionsWithProvider {
	list := map[uint64]*lavasession.ConsumerSessionsWithProvider{}
	for i, name := range w.names {
		ec := lavasession.VerifNewEndpointConnection(stubClient{}, conn())
		ep := &lavasession.Endpoint{NetworkAddress: "verif-" + name, Enabled: true, Connections: []*lavasession.EndpointConnection{ec}}
		p := &lavasession.ConsumerSessionsWithProvider{
			PublicLavaAddress: name,
			Endpoints:         []*lavasession.Endpoint{ep},
			Sessions:          map[int64]*lavasession.SingleConsumerSession{},
			MaxComputeUnits:   maxCU,
			PairingEpoch:      epoch,
		}
		list[uint64(i)] = p
		w.provs = append(w.provs, p)
	}
	return list
}

// seq runs body as a deterministic schedule of its own (every goroutine it starts is run to completion, long
// timers never expire): sequential set-up and the operations of the sequential histories.
func seq(timersFire bool, body func()) (ok bool) {
	s := coop.NewSched(nil, horizon)
	s.TimersFire = timersFire
	t := s.Go("seq", body)
	s.Run()
	return !s.Deadlock && !s.HorizonHit && t.Panic == ""
}

func newWorld(nProv int, mapOffset uintptr, report func(key, what string)) *world {
	conn()
	mapiter.Start(mapiter.Config{Offset: mapOffset, Hash0: 0x5eed, Ordinal: -1})
	w := &world{report: report, names: []string{"lava@A", "lava@B", "lava@C"}[:nProv],
		holder: map[*lavasession.SingleConsumerSession]string{}, sessIdx: map[*lavasession.SingleConsumerSession]int{},
		lastRelay: map[*lavasession.SingleConsumerSession]uint64{}, completed: map[*lavasession.SingleConsumerSession]uint64{}}
	list1 := w.pairingList(epoch1)
	w.list2 = w.pairingList(epoch2)
	ok := seq(false, func() {
		opt := &stubOptimizer{pref: w.names}
		w.csm = lavasession.NewConsumerSessionManager(&lavasession.RPCEndpoint{NetworkAddress: "stub", ChainID: "LAV1", ApiInterface: "jsonrpc", HealthCheckPath: "/"}, opt, nil, "lava@consumer", lavasession.NewActiveSubscriptionProvidersStorage())
		if err := w.csm.UpdateAllProviders(epoch1, list1, nil); err != nil {
			panic(err)
		}
	})
	if !ok {
		report("setup-failed", "sequential set-up did not complete")
	}
	return w
}

type relayReq struct {
	up *lavasession.UsedProviders
}

// acquire = GetSessions for one provider + the oracle of the acquisition. Returns nil when no session was given.
func (w *world) acquire(who string, rq *relayReq) *lavasession.SingleConsumerSession {
	if rq.up == nil {
		rq.up = lavasession.NewUsedProviders(nil)
	}
	sessions, err := w.csm.GetSessions(context.Background(), 1, relayCU, rq.up, spectypes.LATEST_BLOCK, "", nil, common.NO_STATE, w.ve, "", "")
	if err != nil {
		return nil
	}
	if len(sessions) != 1 {
		w.report("wrong-number-of-sessions", fmt.Sprintf("%s: GetSessions(1 provider) returned %d sessions", who, len(sessions)))
		return nil
	}
	for addr, info := range sessions {
		sess := info.Session
		// ---- bookkeeping: atomic w.r.t. the other threads (no shim call below until the outcome call) ----
		w.acquired++
		if _, known := w.sessIdx[sess]; !known {
			w.sessIdx[sess] = len(w.sessIdx)
		}
		id := fmt.Sprintf("%s/s%d", addr, w.sessIdx[sess])
		if other, held := w.holder[sess]; held {
			w.report("session-shared", fmt.Sprintf("session %s was given to %s while %s still holds it", id, who, other))
		}
		w.holder[sess] = who
		if sess.Parent == nil || sess.Parent.PublicLavaAddress != addr {
			w.report("session-of-other-provider", fmt.Sprintf("%s: session returned under %s belongs to another provider", who, addr))
		}
		if sess.LatestRelayCu != relayCU {
			w.report("latest-relay-cu", fmt.Sprintf("%s: session %s LatestRelayCu %d != requested CU %d", who, id, sess.LatestRelayCu, relayCU))
		}
		if last, ok := w.lastRelay[sess]; (ok && sess.RelayNum <= last) || sess.RelayNum == 0 {
			w.report("relay-number-not-increasing", fmt.Sprintf("%s: session %s relay number %d after %d", who, id, sess.RelayNum, last))
		}
		w.lastRelay[sess] = sess.RelayNum
		// the relay session the consumer would sign (real request builder)
		rs := lavaprotocol.ConstructRelaySession("lava", &pairingtypes.RelayPrivateData{}, "LAV1", addr, sess, int64(info.Epoch), nil)
		if rs.CuSum != w.completed[sess]+relayCU {
			w.report("signed-cu-sum", fmt.Sprintf("%s: session %s signs CuSum %d but completed CU %d + relay CU %d = %d", who, id, rs.CuSum, w.completed[sess], relayCU, w.completed[sess]+relayCU))
		}
		if rs.RelayNum != sess.RelayNum {
			w.report("signed-relay-num", fmt.Sprintf("%s: session %s signs relay number %d, session has %d", who, id, rs.RelayNum, sess.RelayNum))
		}
		return sess
	}
	return nil
}

// finish reports the outcome of the relay. The ledger is updated BEFORE the call (the session is released inside).
func (w *world) finish(who string, sess *lavasession.SingleConsumerSession, o int) {
	delete(w.holder, sess)
	var err error
	switch o {
	case oDone:
		w.completed[sess] += relayCU
		err = w.csm.OnSessionDone(sess, 1000, relayCU, gotime.Millisecond, 10*gotime.Millisecond, 0, 1, 1, false, nil)
	case oDoneCU:
		w.completed[sess] += relayCU
		err = w.csm.OnSessionDoneIncreaseCUOnly(sess, 1000)
	default:
		err = w.csm.OnSessionFailure(sess, outcomeErr(o))
	}
	if err != nil {
		w.report("outcome-rejected:"+outcomeNames[o], fmt.Sprintf("%s: %s on a held session returned %v", who, outcomeNames[o], err))
	}
}

// relay = acquire + outcome; a failed relay is retried by the same request (same UsedProviders), as rpcconsumer does.
func (w *world) relays(who string, outs []int) {
	rq := &relayReq{}
	for i, o := range outs {
		sess := w.acquire(who, rq)
		if sess == nil {
			w.outcome = append(w.outcome, fmt.Sprintf("%s%d:nosession", who, i))
			rq = &relayReq{}
			continue
		}
		addr := sess.Parent.PublicLavaAddress
		w.finish(who, sess, o)
		w.outcome = append(w.outcome, fmt.Sprintf("%s%d:%s@%s", who, i, outcomeNames[o], addr))
		if o == oDone || o == oDoneCU {
			rq = &relayReq{} // next request
		}
	}
}

// checkLimit: used CU <= max x (virtual epoch + 1) for every provider object, at every scheduling point.
func (w *world) checkLimit(where string) {
	for _, p := range w.provs {
		if p.UsedComputeUnits > p.MaxComputeUnits*(w.ve+1) {
			w.report("used-exceeds-max", fmt.Sprintf("%s: provider %s (epoch %d) used CU %d > max %d x (virtual epoch %d + 1)", where, p.PublicLavaAddress, p.PairingEpoch, p.UsedComputeUnits, p.MaxComputeUnits, w.ve))
		}
	}
}

// final: at quiescence used CU = sum of the sessions' CU sums = CU of the completed relays (ledger).
func (w *world) final() {
	w.checkLimit("at-quiescence")
	for _, p := range w.provs {
		d := p.VerifDump()
		var sum, ledger uint64
		for _, s := range d.Sessions {
			sum += s.CuSum
			ledger += w.completed[s.Session]
			if s.CuSum != w.completed[s.Session] {
				w.report("session-cu-sum-differs-from-completed", fmt.Sprintf("provider %s (epoch %d): a session has CuSum %d but its completed relays sum to %d", d.Address, d.PairingEpoch, s.CuSum, w.completed[s.Session]))
			}
		}
		if d.Used != sum {
			w.report("used-differs-from-session-sum", fmt.Sprintf("provider %s (epoch %d) at quiescence: used CU %d != sum of session CU sums %d (completed relays %d)", d.Address, d.PairingEpoch, d.Used, sum, ledger))
		}
	}
	if len(w.holder) != 0 {
		w.report("harness-holder-left", "harness error: a session is still marked held at quiescence")
	}
}

func (w *world) summary() string {
	o := append([]string{}, w.outcome...)
	sort.Strings(o)
	var used []string
	for _, p := range w.provs {
		used = append(used, fmt.Sprintf("%d/%d", p.UsedComputeUnits, len(p.Sessions)))
	}
	st := w.csm.VerifState()
	return strings.Join(o, ",") + "|used=" + strings.Join(used, ",") + "|valid=" + strings.Join(sortedCopy(st.Valid), "+") + "|blocked=" + strings.Join(sortedCopy(st.Blocked), "+") + fmt.Sprintf("|e%d", st.Epoch)
}

func sortedCopy(a []string) []string {
	b := append([]string{}, a...)
	sort.Strings(b)
	return b
}

var lastWorld *world

// Outcome labels an execution for the distinct-outcomes guard.
func Outcome(s *coop.Sched) string {
	if lastWorld == nil {
		return ""
	}
	return lastWorld.summary()
}

type spec struct {
	name      string
	nProv     int
	mapOffset uintptr
	setup     func(w *world) // sequential prefix (its own deterministic schedule)
	t1, t2    []int
	update    bool // T3: UpdateAllProviders(next epoch)
	timers    bool // second-chance timers may expire at any point
}

func reg(sp spec) {
	coopdrv.Register("C28", coopdrv.Harness{Name: sp.name, Horizon: horizon, Make: func(s *coop.Sched, report func(key, what string)) func() {
		w := newWorld(sp.nProv, sp.mapOffset, report)
		lastWorld = w
		if sp.setup != nil {
			if !seq(false, func() { sp.setup(w) }) {
				report("setup-failed", "sequential prefix did not complete")
			}
		}
		s.TimersFire = sp.timers
		s.OnPoint = func() { w.checkLimit("at-point") }
		s.Go("T1", func() { w.relays("T1", sp.t1) })
		if sp.t2 != nil {
			s.Go("T2", func() { w.relays("T2", sp.t2) })
		}
		if sp.update {
			s.Go("T3", func() {
				if err := w.csm.UpdateAllProviders(epoch2, w.list2, nil); err != nil {
					report("update-rejected", "UpdateAllProviders(next epoch) returned "+err.Error())
				}
				w.outcome = append(w.outcome, "T3:updated")
			})
		}
		return w.final
	}})
}

func init() {
	// H1: two relays on a fresh pairing; both prefer provider A (max 20 = two relays of 10): session creation race,
	// CU reservation race, second round re-uses / creates sessions.
	reg(spec{name: "H1-done-done", nProv: 2, t1: []int{oDone, oDone}, t2: []int{oDone, oDoneCU}})
	// H2: failures (plain, then retry) racing with successes: Free-then-decrease window of OnSessionFailure.
	reg(spec{name: "H2-fail-vs-done", nProv: 2, t1: []int{oFail, oDone}, t2: []int{oDone, oFail}})
	// H3: out-of-sync failure (session block-listed, provider blocked + second chance) racing with a success.
	reg(spec{name: "H3-sync-vs-done", nProv: 2, t1: []int{oFailSync, oDone}, t2: []int{oDone, oFailSync}})
	// H4: block-provider errors from both threads: concurrent blockProvider, fall-back to the blocked list (redemption sessions).
	reg(spec{name: "H4-block-block", nProv: 2, t1: []int{oFailBlock, oDone}, t2: []int{oFailReport, oFail}})
	// H5: a prefix leaves provider A with one used session (CU 10 of 20) and provider B blocked; the two relays
	// compete for A's remaining CU, the loser falls back to the blocked list (redemption session on B).
	reg(spec{name: "H5-existing-sessions", nProv: 2, mapOffset: 1, setup: func(w *world) {
		w.relays("S", []int{oDone})
		a := w.acquire("S", &relayReq{})
		b := w.acquire("S", &relayReq{})
		w.finish("S", b, oFailBlock)
		w.finish("S", a, oFail)
	}, t1: []int{oFailSync, oDone}, t2: []int{oDoneCU, oFail}})
	// H6: everything blocked in the prefix (redemption path) + second-chance timers allowed to expire.
	reg(spec{name: "H6-redemption", nProv: 2, timers: true, setup: func(w *world) {
		w.relays("S", []int{oFailBlock})
		w.relays("S", []int{oFailSync})
	}, t1: []int{oDone, oFail}, t2: []int{oFailSync, oDone}})
	// H7/H8: pairing update to the next epoch (fresh provider objects, probes, re-blocking) while relays are in flight.
	reg(spec{name: "H7-epoch-update-1", nProv: 2, t1: []int{oDone, oFailBlock}, update: true})
	reg(spec{name: "H8-epoch-update-2", nProv: 2, t1: []int{oFailSync}, t2: []int{oDone}, update: true})
}
