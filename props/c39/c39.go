// Package c39: providers serve only authentic, valid relay requests; rejected requests leave the
// provider's session and CU state unchanged.
//
// Bounded-exhaustive enumeration of single-field (thorough: also two-field) corruptions of a valid relay
// request, pushed through the real RPCProviderServer.initRelay (verifyRelaySession,
// verifyRelayRequestMetaData, getSingleProviderSession, ParseAndValidateMessage, PrepareSessionForUsage)
// with the real ProviderSessionManager and the real JSON-RPC chain parser on the checked-in ETH1 spec.
// Only the state tracker (the chain's answers) is a mock.
//
// A request is built exactly like a consumer does: relay data -> ConstructRelaySession (real content
// hash) -> sigs.Sign. A corruption is applied either BEFORE signing (the consumer really signed the
// odd value; relay-data corruptions are applied before the content hash is computed) or AFTER signing
// (tampering in flight).
//
// Oracle, from the property text (never from the code under test): the conditions
//
//	provider  : RelaySession.Provider is this provider's address
//	spec      : RelaySession.SpecId is this provider's spec
//	lava      : RelaySession.LavaChainId is this provider's lava chain id
//	epoch     : RelaySession.Epoch is not older than what the provider still keeps
//	hash      : the content hash was computed from exactly the relay data that arrived
//	consumer  : the signature authenticates the session (no signed field changed after signing) and the
//	            (mock) chain pairs the signer with this provider for that epoch
//
// are evaluated by construction (the harness knows what it corrupted and who signed). Then
//
//	served and some condition false                      -> violation  served/<condition>
//	rejected, all conditions true, benign corruption      -> violation  rejected-valid/<corruption>
//	rejected and session-manager dump differs from before -> violation  rejected-state-changed/<what>
//	rejected and a session is left locked                 -> violation  rejected-leaves-session-locked
//
// "benign" = the uncorrupted request and corruptions of fields for which neither the property nor the
// session logic can have an objection (fresh salt, QoS reports, reported providers, badge, a fresh
// session id, another paired consumer key, another still-valid paired epoch). For every other corruption
// whose conditions all hold (relay number / CU sum consistency, unparsable data, ...) the outcome is
// recorded as an observation only.
package c39

import (
	"context"
	"crypto/sha256"
	"encoding/json"
	"fmt"
	"reflect"
	"runtime"
	"sort"
	"strings"
	"sync"

	sdk "github.com/cosmos/cosmos-sdk/types"
	"github.com/lavanet/lava/v5/protocol/chainlib"
	"github.com/lavanet/lava/v5/protocol/lavaprotocol"
	"github.com/lavanet/lava/v5/protocol/lavasession"
	"github.com/lavanet/lava/v5/protocol/qos"
	"github.com/lavanet/lava/v5/protocol/rpcprovider"
	"github.com/lavanet/lava/v5/utils"
	specutils "github.com/lavanet/lava/v5/utils/keeper"
	"github.com/lavanet/lava/v5/utils/sigs"
	pairingtypes "github.com/lavanet/lava/v5/x/pairing/types"
	spectypes "github.com/lavanet/lava/v5/x/spec/types"

	"verifmc/engine/ev"
	"verifmc/engine/reg"
)

type (
	session = pairingtypes.RelaySession
	pdata   = pairingtypes.RelayPrivateData
)

func must(err error) {
	if err != nil {
		panic(err)
	}
}

func repoRoot() string {
	return "/repo/"
}

// ---------------------------------------------------------------- fixed universe

const (
	specID      = "ETH1"
	lavaChainID = "lava"
	projectID   = "projA"

	// epochs (block heights of epoch starts); the provider keeps keptBlocks blocks of epochs
	keptBlocks     = 100
	epochBase      = 200 // the base request's epoch
	epochOlderOK   = 180 // still kept, consumers paired
	epochUnpaired  = 160 // still kept, nobody paired
	epochSplit     = 190 // still kept, the chain pairs only the second key of the project (consumer2)
	epochBoundary  = 120 // == oldest-kept boundary when the provider is at epochNow (validity not judged)
	epochTooOld    = 100
	epochNow       = 220 // provider's current epoch in the "valid" epoch world
	epochFarFuture = 380 // unknown to the chain at epochNow; kept and paired when the provider is at epochLater
	epochLater     = 400 // provider's current epoch in the "blocked" epoch world: everything <= 300 is too old

	ampleMaxCU = 1000
	tightMaxCU = 15
	specCU     = 10 // eth_blockNumber
	threshold  = 0.2
)

type universe struct {
	consumer, consumer2, stranger, provider, otherProvider sigs.Account
	parser                                                 chainlib.ChainParser
	endpoint                                               *lavasession.RPCProviderEndpoint
}

func newUniverse() *universe {
	zr := sigs.NewZeroReader(39)
	u := &universe{
		consumer:      sigs.GenerateDeterministicFloatingKey(zr),
		consumer2:     sigs.GenerateDeterministicFloatingKey(zr),
		stranger:      sigs.GenerateDeterministicFloatingKey(zr),
		provider:      sigs.GenerateDeterministicFloatingKey(zr),
		otherProvider: sigs.GenerateDeterministicFloatingKey(zr),
	}
	spec, err := specutils.GetASpec(specID, repoRoot(), nil, nil)
	must(err)
	p, err := chainlib.NewChainParser(spectypes.APIInterfaceJsonRPC)
	must(err)
	p.SetSpec(spec)
	u.parser = p
	u.endpoint = &lavasession.RPCProviderEndpoint{ChainID: specID, ApiInterface: spectypes.APIInterfaceJsonRPC, Geolocation: 1}
	return u
}

// ---------------------------------------------------------------- the mock chain (state tracker)

type pairingMode int

const (
	modeValid      pairingMode = iota // the chain pairs consumer and consumer2 (never the stranger)
	modeInvalid                       // the chain pairs nobody
	modeError                         // the chain pairs them but the query fails
	modeMaxCuError                    // pairing query fine, the max-CU query fails
)

var modeName = map[pairingMode]string{modeValid: "pairing-valid", modeInvalid: "pairing-invalid", modeError: "pairing-query-error", modeMaxCuError: "maxcu-query-error"}

type mockChain struct {
	u        *universe
	mode     pairingMode
	current  uint64 // latest epoch the chain knows
	maxCU    uint64
	nVerify  int
	nMaxCu   int
	lastSeen string
}

// truth: does the chain pair this consumer with our provider at this epoch
func (m *mockChain) pairs(consumer string, epoch uint64) bool {
	if m.mode == modeInvalid {
		return false
	}
	if consumer != m.u.consumer.Addr.String() && consumer != m.u.consumer2.Addr.String() {
		return false
	}
	switch epoch {
	case epochBase, epochOlderOK, epochBoundary, epochTooOld, epochFarFuture:
		return epoch <= m.current
	case epochSplit:
		return consumer == m.u.consumer2.Addr.String() && epoch <= m.current
	}
	return false
}

func (m *mockChain) LatestBlock() int64 { return int64(m.current) + 3 }

func (m *mockChain) GetVirtualEpoch(epoch uint64) uint64 { return 0 }

func (m *mockChain) GetMaxCuForUser(ctx context.Context, consumerAddress, chainID string, epoch uint64) (uint64, error) {
	m.nMaxCu++
	if m.mode == modeMaxCuError {
		return 0, fmt.Errorf("mock: max cu query failed")
	}
	return m.maxCU, nil
}

func (m *mockChain) VerifyPairing(ctx context.Context, consumerAddress, providerAddress string, epoch uint64, chainID string) (bool, int64, string, error) {
	m.nVerify++
	m.lastSeen = consumerAddress
	if m.mode == modeError {
		return false, 0, "", fmt.Errorf("mock: pairing query failed")
	}
	if epoch > m.current {
		return false, 0, "", fmt.Errorf("mock: epoch %d is in the future (chain at %d)", epoch, m.current)
	}
	if providerAddress != m.u.provider.Addr.String() || chainID != specID || !m.pairs(consumerAddress, epoch) {
		return false, 0, "", nil
	}
	return true, 5, projectID, nil
}

// ---------------------------------------------------------------- worlds

type prior int

const (
	priorFresh   prior = iota // nothing registered
	priorServed1              // consumer served relay 1 (cu 10) on session 1 at epochBase; the request under test is relay 2
	priorTight                // like served1 but the project's max CU is 15
	priorSplit                // like served1, and the project's second key served a relay at epochSplit (where only it is paired)
)

var priorName = map[prior]string{priorFresh: "fresh", priorServed1: "served1", priorTight: "served1-tightcu", priorSplit: "served1+other-key-served-at-split-epoch"}

type worldCfg struct {
	prior   prior
	mode    pairingMode
	blocked bool // provider has moved on to epochLater: the base epoch is too old
}

func (c worldCfg) String() string {
	e := "epoch-valid"
	if c.blocked {
		e = "epoch-blocked"
	}
	return priorName[c.prior] + "," + modeName[c.mode] + "," + e
}

type world struct {
	cfg   worldCfg
	u     *universe
	chain *mockChain
	psm   *lavasession.ProviderSessionManager
	srv   *rpcprovider.RPCProviderServer
}

// base numbers of the request under test in a world
func (c worldCfg) baseRelayNum() uint64 {
	if c.prior == priorFresh {
		return 1
	}
	return 2
}

func (c worldCfg) baseCuSum() uint64 { return c.baseRelayNum() * specCU }

func newWorld(u *universe, cfg worldCfg) *world {
	w := &world{cfg: cfg, u: u}
	w.chain = &mockChain{u: u, mode: modeValid, current: epochNow, maxCU: ampleMaxCU}
	if cfg.prior == priorTight {
		w.chain.maxCU = tightMaxCU
	}
	w.psm = lavasession.NewProviderSessionManager(u.endpoint, keptBlocks)
	w.psm.UpdateEpoch(epochNow)
	w.srv = rpcprovider.VerifNewRPCProviderServer(w.psm, u.parser, u.endpoint, w.chain, u.provider.Addr, lavaChainID, threshold)
	if cfg.prior != priorFresh {
		// drive relay 1 through the real code while the chain answers normally
		req := buildRequest(u, worldCfg{prior: priorFresh}, nil)
		s, _, _, err := w.srv.VerifInitRelay(context.Background(), req.req)
		must(err)
		must(w.psm.OnSessionDone(s, req.req.RelaySession.RelayNum))
	}
	if cfg.prior == priorSplit {
		// the second key of the same project is verified and served at epochSplit: the project is now registered there
		other := u.consumer2
		req := buildRequest(u, worldCfg{prior: priorFresh}, []applied{
			{corruption{field: "Signer", variant: "other-paired-consumer-key", signer: &other}, before},
			{corruption{field: "RelaySession.Epoch", variant: "split", sess: func(w *world, s *session) { s.Epoch = epochSplit }}, before},
		})
		s2, _, _, err := w.srv.VerifInitRelay(context.Background(), req.req)
		must(err)
		must(w.psm.OnSessionDone(s2, req.req.RelaySession.RelayNum))
	}
	w.chain.mode = cfg.mode
	if cfg.blocked {
		w.chain.current = epochLater
		w.psm.UpdateEpoch(epochLater)
	}
	w.chain.nVerify, w.chain.nMaxCu = 0, 0
	return w
}

// ---------------------------------------------------------------- state snapshot

type snapshot struct {
	Projects  []lavasession.VerifProjectDump
	Consumers []string // "epoch/consumer->project" registrations
	Locked    []string // "epoch/project/session" of sessions whose lock is held
	Blocked   uint64
	Current   uint64
}

func (w *world) snap() snapshot {
	s := snapshot{Projects: w.psm.VerifDump(), Blocked: w.psm.GetBlockedEpochHeight(), Current: w.psm.GetCurrentEpochAtomic()}
	// consumer -> project registrations (private map, read through reflection; fails loudly if renamed)
	f := reflect.ValueOf(w.psm).Elem().FieldByName("consumerPairedWithProjectMap")
	if !f.IsValid() || f.Kind() != reflect.Map {
		panic("c39: ProviderSessionManager.consumerPairedWithProjectMap not found")
	}
	it := f.MapRange()
	for it.Next() {
		epoch := it.Key().Uint()
		inner := it.Value().Elem().FieldByName("consumerToProjectMap")
		if !inner.IsValid() || inner.Kind() != reflect.Map {
			panic("c39: projectConsumerMapping.consumerToProjectMap not found")
		}
		it2 := inner.MapRange()
		for it2.Next() {
			s.Consumers = append(s.Consumers, fmt.Sprintf("%d/%s->%s", epoch, it2.Key().String(), it2.Value().String()))
		}
	}
	sort.Strings(s.Consumers)
	for _, p := range s.Projects {
		pswc, err := w.psm.IsActiveProject(p.Epoch, p.ProjectID)
		if err != nil {
			continue
		}
		for id, sps := range pswc.Sessions {
			if sps.VerifyLock() == nil { // nil = the lock is held
				s.Locked = append(s.Locked, fmt.Sprintf("%d/%s/%d", p.Epoch, p.ProjectID, id))
			}
		}
	}
	sort.Strings(s.Locked)
	return s
}

func (s snapshot) json() string { b, _ := json.Marshal(s); return string(b) }

// classify what a rejected request changed
func diffClasses(a, b snapshot) []string {
	cls := map[string]bool{}
	type pk struct {
		e uint64
		p string
	}
	pa := map[pk]lavasession.VerifProjectDump{}
	for _, p := range a.Projects {
		pa[pk{p.Epoch, p.ProjectID}] = p
	}
	seen := map[pk]bool{}
	for _, p := range b.Projects {
		k := pk{p.Epoch, p.ProjectID}
		seen[k] = true
		old, ok := pa[k]
		if !ok {
			if p.Used != 0 || p.Missing != 0 {
				cls["cu-accounting"] = true
			}
			cls["project-registered"] = true
			for _, s := range p.Sessions {
				if s.CuSum != 0 || s.RelayNum != 0 || s.LatestRelayCu != 0 {
					cls["cu-accounting"] = true
				}
				cls["empty-session-added"] = true
			}
			continue
		}
		if old.Used != p.Used || old.Missing != p.Missing || old.Max != p.Max {
			cls["cu-accounting"] = true
		}
		os := map[uint64]lavasession.VerifSessionDump{}
		for _, s := range old.Sessions {
			os[s.SessionID] = s
		}
		for _, s := range p.Sessions {
			o, ok := os[s.SessionID]
			delete(os, s.SessionID)
			if !ok {
				if s.CuSum != 0 || s.RelayNum != 0 || s.LatestRelayCu != 0 {
					cls["cu-accounting"] = true
				}
				cls["empty-session-added"] = true
			} else if o != s {
				cls["cu-accounting"] = true
			}
		}
		if len(os) > 0 {
			cls["session-removed"] = true
		}
	}
	for k := range pa {
		if !seen[k] {
			cls["project-removed"] = true
		}
	}
	if strings.Join(a.Consumers, ";") != strings.Join(b.Consumers, ";") {
		cls["consumer-registered"] = true
	}
	if a.Blocked != b.Blocked || a.Current != b.Current {
		cls["epoch-bookkeeping"] = true
	}
	var out []string
	for k := range cls {
		out = append(out, k)
	}
	sort.Strings(out)
	return out
}

// primaryClass reduces a set of difference classes to the most significant one (stable violation keys).
func primaryClass(cls []string) string {
	has := func(x string) bool {
		for _, c := range cls {
			if c == x {
				return true
			}
		}
		return false
	}
	switch {
	case has("cu-accounting"):
		return "cu-accounting"
	case has("session-removed") || has("project-removed") || has("epoch-bookkeeping"):
		return "other:" + strings.Join(cls, "+")
	case has("project-registered") || has("consumer-registered"):
		return "consumer-registered"
	case has("empty-session-added"):
		return "empty-session-added"
	}
	return "other:" + strings.Join(cls, "+")
}

// ---------------------------------------------------------------- corruptions

type when int

const (
	before when = iota // applied before hashing/signing: the consumer really signed it
	after              // applied after signing: tampering
)

func (t when) String() string {
	if t == before {
		return "before-signing"
	}
	return "after-signing"
}

// corruption of one field with one alternative value
type corruption struct {
	field   string // RelaySession.X / RelayData.X / Signer
	variant string
	sess    func(w *world, s *session)
	data    func(w *world, d *pdata)
	signer  *sigs.Account // Signer corruption: sign with this key instead of the consumer's
	only    int           // 0 both timings, 1 only before, 2 only after
	// classification for the oracle
	unsigned bool // session field the signature does not cover per the property (Sig handled separately, Badge)
	unhashed bool // relay-data field whose membership in "its data" is not judged (tracing id)
	benign   bool // when applied before signing and all conditions hold the request must still be served
}

func (c corruption) name() string { return c.field + "/" + c.variant }

type applied struct {
	c corruption
	t when
}

func (a applied) String() string { return a.c.name() + "@" + a.t.String() }

func dec(s string) sdk.Dec { return sdk.MustNewDecFromStr(s) }

func baseData() *pdata {
	d := &pdata{
		ConnectionType: "POST",
		ApiUrl:         "",
		Data:           []byte(`{"jsonrpc":"2.0","method":"eth_blockNumber","params":[],"id":1}`),
		RequestBlock:   spectypes.LATEST_BLOCK,
		SeenBlock:      100,
		ApiInterface:   spectypes.APIInterfaceJsonRPC,
		Metadata:       []pairingtypes.Metadata{{Name: "x-hdr", Value: "one"}},
		Addon:          "",
		Extensions:     nil,
	}
	lavaprotocol.SetSalt(d, 0x1122334455667788)
	return d
}

func catalogue(u *universe) []corruption {
	S := func(field, variant string, f func(w *world, s *session)) corruption {
		return corruption{field: "RelaySession." + field, variant: variant, sess: f}
	}
	D := func(field, variant string, f func(w *world, d *pdata)) corruption {
		return corruption{field: "RelayData." + field, variant: variant, data: f}
	}
	benign := func(c corruption) corruption { c.benign = true; return c }
	onlyAfter := func(c corruption) corruption { c.only = 2; return c }
	cs := []corruption{
		S("Provider", "other-provider", func(w *world, s *session) { s.Provider = u.otherProvider.Addr.String() }),
		S("Provider", "empty", func(w *world, s *session) { s.Provider = "" }),
		S("Provider", "appended-char", func(w *world, s *session) { s.Provider += "x" }),
		S("SpecId", "LAV1", func(w *world, s *session) { s.SpecId = "LAV1" }),
		S("SpecId", "empty", func(w *world, s *session) { s.SpecId = "" }),
		S("SpecId", "ETH1X", func(w *world, s *session) { s.SpecId = "ETH1X" }),
		S("LavaChainId", "lava-testnet", func(w *world, s *session) { s.LavaChainId = "lava-testnet" }),
		S("LavaChainId", "empty", func(w *world, s *session) { s.LavaChainId = "" }),
		S("LavaChainId", "lav", func(w *world, s *session) { s.LavaChainId = "lav" }),
		benign(S("Epoch", "older-kept-paired", func(w *world, s *session) { s.Epoch = epochOlderOK })),
		S("Epoch", "kept-unpaired", func(w *world, s *session) { s.Epoch = epochUnpaired }),
		S("Epoch", "kept-paired-only-for-the-other-key", func(w *world, s *session) { s.Epoch = epochSplit }),
		S("Epoch", "boundary", func(w *world, s *session) { s.Epoch = epochBoundary }),
		S("Epoch", "too-old", func(w *world, s *session) { s.Epoch = epochTooOld }),
		S("Epoch", "zero", func(w *world, s *session) { s.Epoch = 0 }),
		S("Epoch", "negative", func(w *world, s *session) { s.Epoch = -1 }),
		benign(S("Epoch", "far-future", func(w *world, s *session) { s.Epoch = epochFarFuture })),
		benign(S("SessionId", "fresh-id", func(w *world, s *session) { s.SessionId = 77 })),
		S("SessionId", "zero", func(w *world, s *session) { s.SessionId = 0 }),
		S("SessionId", "max", func(w *world, s *session) { s.SessionId = ^uint64(0) }),
		S("RelayNum", "+1", func(w *world, s *session) { s.RelayNum++ }),
		S("RelayNum", "-1", func(w *world, s *session) { s.RelayNum-- }),
		S("RelayNum", "zero", func(w *world, s *session) { s.RelayNum = 0 }),
		S("RelayNum", "+100", func(w *world, s *session) { s.RelayNum += 100 }),
		S("CuSum", "-2", func(w *world, s *session) { s.CuSum -= 2 }),
		S("CuSum", "-specCU", func(w *world, s *session) { s.CuSum -= specCU }),
		S("CuSum", "+5", func(w *world, s *session) { s.CuSum += 5 }),
		S("CuSum", "zero", func(w *world, s *session) { s.CuSum = 0 }),
		S("CuSum", "max", func(w *world, s *session) { s.CuSum = ^uint64(0) }),
		S("ContentHash", "flip-first-bit", func(w *world, s *session) { s.ContentHash[0] ^= 1 }),
		S("ContentHash", "flip-last-bit", func(w *world, s *session) { s.ContentHash[len(s.ContentHash)-1] ^= 0x80 }),
		S("ContentHash", "truncated", func(w *world, s *session) { s.ContentHash = s.ContentHash[:len(s.ContentHash)-1] }),
		S("ContentHash", "nil", func(w *world, s *session) { s.ContentHash = nil }),
		S("ContentHash", "hash-of-other-data", func(w *world, s *session) {
			d := baseData()
			d.Data = []byte(`{"jsonrpc":"2.0","method":"eth_gasPrice","params":[],"id":99}`) // data no corruption produces
			s.ContentHash = sigs.HashMsg(d.GetContentHashData())
		}),
		onlyAfter(S("Sig", "flip-middle-bit", func(w *world, s *session) { s.Sig[20] ^= 4 })),
		onlyAfter(S("Sig", "flip-last-bit", func(w *world, s *session) { s.Sig[len(s.Sig)-1] ^= 1 })),
		onlyAfter(S("Sig", "recovery-byte", func(w *world, s *session) { s.Sig[0] ^= 1 })),
		onlyAfter(S("Sig", "truncated", func(w *world, s *session) { s.Sig = s.Sig[:len(s.Sig)-1] })),
		onlyAfter(S("Sig", "nil", func(w *world, s *session) { s.Sig = nil })),
		onlyAfter(S("Sig", "zeros", func(w *world, s *session) { s.Sig = make([]byte, len(s.Sig)) })),
		{field: "Signer", variant: "stranger-key", signer: &u.stranger, only: 1},
		{field: "Signer", variant: "other-paired-consumer-key", signer: &u.consumer2, only: 1, benign: true},
		benign(S("QosReport", "set", func(w *world, s *session) {
			s.QosReport = &pairingtypes.QualityOfServiceReport{Latency: dec("1.5"), Availability: dec("0.95"), Sync: dec("2")}
		})),
		benign(S("QosExcellenceReport", "set", func(w *world, s *session) {
			s.QosExcellenceReport = &pairingtypes.QualityOfServiceReport{Latency: dec("0.25"), Availability: dec("1"), Sync: dec("0.5")}
		})),
		benign(S("UnresponsiveProviders", "one-report", func(w *world, s *session) {
			s.UnresponsiveProviders = []*pairingtypes.ReportedProvider{{Address: u.otherProvider.Addr.String(), Disconnections: 1, Errors: 2, TimestampS: 1000}}
		})),
		func() corruption {
			c := benign(S("Badge", "set", func(w *world, s *session) {
				s.Badge = &pairingtypes.Badge{CuAllocation: 1000, Epoch: epochBase, Address: u.stranger.Addr.String(), LavaChainId: lavaChainID, ProjectSig: []byte("project-signature-bytes")}
			}))
			c.unsigned = true
			return c
		}(),

		D("ApiUrl", "/x", func(w *world, d *pdata) { d.ApiUrl = "/x" }),
		D("ApiUrl", "/ws", func(w *world, d *pdata) { d.ApiUrl = "/ws" }),
		D("Data", "other-method-same-cu", func(w *world, d *pdata) {
			d.Data = []byte(`{"jsonrpc":"2.0","method":"eth_chainId","params":[],"id":1}`)
		}),
		D("Data", "other-id", func(w *world, d *pdata) {
			d.Data = []byte(`{"jsonrpc":"2.0","method":"eth_blockNumber","params":[],"id":2}`)
		}),
		D("Data", "heavier-method", func(w *world, d *pdata) {
			d.Data = []byte(`{"jsonrpc":"2.0","method":"eth_getLogs","params":[{"fromBlock":"0x1","toBlock":"0x2"}],"id":1}`)
		}),
		D("Data", "unknown-method", func(w *world, d *pdata) {
			d.Data = []byte(`{"jsonrpc":"2.0","method":"foo_bar","params":[],"id":1}`)
		}),
		D("Data", "not-json", func(w *world, d *pdata) { d.Data = []byte(`not json`) }),
		D("Data", "empty", func(w *world, d *pdata) { d.Data = nil }),
		D("ConnectionType", "GET", func(w *world, d *pdata) { d.ConnectionType = "GET" }),
		D("ConnectionType", "empty", func(w *world, d *pdata) { d.ConnectionType = "" }),
		D("ConnectionType", "lowercase", func(w *world, d *pdata) { d.ConnectionType = "post" }),
		D("ApiInterface", "rest", func(w *world, d *pdata) { d.ApiInterface = "rest" }),
		D("ApiInterface", "empty", func(w *world, d *pdata) { d.ApiInterface = "" }),
		D("Addon", "debug", func(w *world, d *pdata) { d.Addon = "debug" }),
		D("Addon", "nonexistent", func(w *world, d *pdata) { d.Addon = "nonexistent" }),
		D("Extensions", "archive", func(w *world, d *pdata) { d.Extensions = []string{"archive"} }),
		D("Extensions", "nonexistent", func(w *world, d *pdata) { d.Extensions = []string{"nonexistent"} }),
		D("Extensions", "archive-twice", func(w *world, d *pdata) { d.Extensions = []string{"archive", "archive"} }),
		D("Metadata", "added-header", func(w *world, d *pdata) {
			d.Metadata = append(d.Metadata, pairingtypes.Metadata{Name: "y-hdr", Value: "two"})
		}),
		D("Metadata", "changed-value", func(w *world, d *pdata) { d.Metadata = []pairingtypes.Metadata{{Name: "x-hdr", Value: "ONE"}} }),
		D("Metadata", "removed", func(w *world, d *pdata) { d.Metadata = nil }),
		D("RequestBlock", "5", func(w *world, d *pdata) { d.RequestBlock = 5 }),
		D("RequestBlock", "earliest", func(w *world, d *pdata) { d.RequestBlock = spectypes.EARLIEST_BLOCK }),
		D("RequestBlock", "zero", func(w *world, d *pdata) { d.RequestBlock = 0 }),
		D("SeenBlock", "zero", func(w *world, d *pdata) { d.SeenBlock = 0 }),
		D("SeenBlock", "negative", func(w *world, d *pdata) { d.SeenBlock = -5 }),
		D("SeenBlock", "huge", func(w *world, d *pdata) { d.SeenBlock = 1 << 40 }),
		benign(D("Salt", "other", func(w *world, d *pdata) { lavaprotocol.SetSalt(d, 0x0102030405060708) })),
		D("Salt", "nil", func(w *world, d *pdata) { d.Salt = nil }),
		D("Salt", "longer", func(w *world, d *pdata) { d.Salt = append(append([]byte{}, d.Salt...), 9) }),
		func() corruption {
			c := D("RequestId", "set", func(w *world, d *pdata) { d.RequestId = "rid-1" })
			c.unhashed = true
			return c
		}(),
	}
	return cs
}

// ---------------------------------------------------------------- building a (corrupted) request

type built struct {
	req *pairingtypes.RelayRequest
	// oracle facts, by construction
	signerAddr    string // address of the key that signed
	sigAuthentic  bool   // no signed field and not the signature changed after signing
	hashJudged    bool
	hashMatches   bool
	changedFields []string
}

func cloneSession(s *session) *session {
	b, err := s.Marshal()
	must(err)
	n := &session{}
	must(n.Unmarshal(b))
	return n
}

func cloneData(d *pdata) *pdata {
	b, err := d.Marshal()
	must(err)
	n := &pdata{}
	must(n.Unmarshal(b))
	return n
}

func reqBytes(r *pairingtypes.RelayRequest) []byte { b, err := r.Marshal(); must(err); return b }

// buildRequest builds the request like a consumer (ConstructRelaySession + sigs.Sign) and applies the
// corruptions at their time. Every corruption must really change the request (checked).
func buildRequest(u *universe, cfg worldCfg, cors []applied) built {
	var w *world // corruptions do not need the world today; kept in the signature for clarity
	out := built{sigAuthentic: true, hashJudged: true, hashMatches: true}
	signer := &u.consumer
	check := func(a applied, beforeBytes []byte, r *pairingtypes.RelayRequest) {
		if string(beforeBytes) == string(reqBytes(r)) {
			panic("c39: corruption " + a.String() + " did not change the request")
		}
	}
	d := baseData()
	for _, a := range cors {
		if a.t == before && a.c.data != nil {
			pre := reqBytes(&pairingtypes.RelayRequest{RelayData: d})
			a.c.data(w, d)
			check(a, pre, &pairingtypes.RelayRequest{RelayData: d})
		}
		if a.c.signer != nil {
			signer = a.c.signer
		}
	}
	scs := &lavasession.SingleConsumerSession{CuSum: cfg.baseCuSum() - specCU, LatestRelayCu: specCU, QoSManager: qos.NewQoSManager(), SessionId: 1, RelayNum: cfg.baseRelayNum()}
	s := lavaprotocol.ConstructRelaySession(lavaChainID, d, specID, u.provider.Addr.String(), scs, epochBase, nil)
	req := &pairingtypes.RelayRequest{RelaySession: s, RelayData: d}
	for _, a := range cors {
		if a.t == before && a.c.sess != nil {
			pre := reqBytes(req)
			a.c.sess(w, s)
			check(a, pre, req)
			if strings.HasSuffix(a.c.field, ".ContentHash") {
				out.hashMatches = false
			}
		}
	}
	sig, err := sigs.Sign(signer.SK, *s)
	must(err)
	s.Sig = sig
	out.signerAddr = signer.Addr.String()
	// the wire: the provider works on its own copy
	req = &pairingtypes.RelayRequest{RelaySession: cloneSession(s), RelayData: cloneData(d)}
	for _, a := range cors {
		if a.t != after {
			continue
		}
		pre := reqBytes(req)
		if a.c.sess != nil {
			a.c.sess(w, req.RelaySession)
			if !a.c.unsigned {
				out.sigAuthentic = false // a signed field, or the signature itself, changed after signing
			}
			if strings.HasSuffix(a.c.field, ".ContentHash") {
				out.hashMatches = false
			}
		}
		if a.c.data != nil {
			a.c.data(w, req.RelayData)
			if a.c.unhashed {
				out.hashJudged = false
			} else {
				out.hashMatches = false
			}
		}
		check(a, pre, req)
	}
	for _, a := range cors {
		out.changedFields = append(out.changedFields, a.String())
	}
	out.req = req
	return out
}

// ---------------------------------------------------------------- oracle

type tri int

const (
	no tri = iota
	yes
	unjudged
)

// epochStillValid: from the property text - the epoch is not older than what the provider keeps.
// The provider is at `current` and keeps keptBlocks blocks.
func epochStillValid(current uint64, epoch int64) tri {
	if epoch <= 0 {
		return no
	}
	oldest := int64(current) - keptBlocks
	switch {
	case epoch < oldest:
		return no
	case epoch == oldest:
		return unjudged // whether the boundary epoch itself is still kept is not stated
	}
	return yes
}

type verdict struct {
	falseConds []string
	unjudged   []string
}

func (w *world) conditions(b built) verdict {
	var v verdict
	s := b.req.RelaySession
	add := func(name string, t tri) {
		switch t {
		case no:
			v.falseConds = append(v.falseConds, name)
		case unjudged:
			v.unjudged = append(v.unjudged, name)
		}
	}
	bt := func(x bool) tri {
		if x {
			return yes
		}
		return no
	}
	add("wrong-provider", bt(s.Provider == w.u.provider.Addr.String()))
	add("wrong-spec", bt(s.SpecId == specID))
	add("wrong-lava-chain", bt(s.LavaChainId == lavaChainID))
	add("epoch-invalid", epochStillValid(w.chain.current, s.Epoch))
	if b.hashJudged {
		add("hash-mismatch", bt(b.hashMatches))
	} else {
		add("hash-mismatch", unjudged)
	}
	paired := b.sigAuthentic && s.Epoch > 0 && w.chain.pairs(b.signerAddr, uint64(s.Epoch))
	// a consumer the provider registered earlier for this epoch stays paired even if the query now fails
	add("not-signed-by-paired-consumer", bt(paired))
	return v
}

// ---------------------------------------------------------------- one case

type outcome struct {
	world      string
	cors       []string
	served     bool
	reason     string
	viols      []ev.Violation
	judged     bool
	caseHash   [16]byte
	allHold    bool
	benign     bool
	nFalse     int
	stateDiff  []string
	benignTrace string
	cuDelta    int64
	verifyCall int
}

func classifyErr(err error) string {
	if err == nil {
		return "served"
	}
	m := err.Error()
	for _, p := range []struct{ pat, cls string }{
		{"consumer lava block", "epoch-mismatch"},
		{"request had the wrong provider", "wrong-provider"},
		{"request had the wrong specID", "wrong-spec"},
		{"request had the wrong lava chain ID", "wrong-lava-chain"},
		{"content hash mismatch", "content-hash-mismatch"},
		{"failed to extract signer", "signature-unrecoverable"},
		{"RecoverCompact", "signature-unrecoverable"},
		{"Failed to VerifyPairing", "pairing-query-error"},
		{"not valid with this provider", "not-paired"},
		{"GetMaxCuForUser failed", "maxcu-query-error"},
		{"Failed to RegisterProviderSessionWithConsumer", "register-failed"},
		{"Failed to get a provider session", "get-session-failed"},
		{"Session Out of sync", "prepare-session-out-of-sync"},
		{"out of sync", "session-out-of-sync"},
	} {
		if strings.Contains(m, p.pat) {
			return p.cls
		}
	}
	if len(m) > 48 {
		m = m[:48]
	}
	return "parse-error: " + m
}

func runCase(u *universe, cfg worldCfg, cors []applied) outcome {
	w := newWorld(u, cfg)
	b := buildRequest(u, cfg, cors)
	o := outcome{world: cfg.String(), cors: b.changedFields}
	h := sha256.Sum256(append([]byte(cfg.String()+"|"+b.signerAddr+"|"), reqBytes(b.req)...))
	copy(o.caseHash[:], h[:16])

	// harness self-check: the by-construction hash fact agrees with an independent recomputation
	if b.hashJudged {
		same := string(b.req.RelaySession.ContentHash) == string(sigs.HashMsg(b.req.RelayData.GetContentHashData()))
		if same != b.hashMatches {
			panic(fmt.Sprintf("c39: harness inconsistency: hashMatches=%v but recomputation says %v for %v", b.hashMatches, same, b.changedFields))
		}
	}
	v := w.conditions(b)
	o.nFalse = len(v.falseConds)
	o.allHold = len(v.falseConds) == 0 && len(v.unjudged) == 0
	o.benign = true
	for _, a := range cors {
		if !a.c.benign {
			o.benign = false
		}
	}
	before := w.snap()
	if len(before.Locked) != 0 {
		panic("c39: a session is locked before the call")
	}
	wire := reqBytes(b.req)
	sess, _, _, err := w.srv.VerifInitRelay(context.Background(), b.req)
	afterSnap := w.snap()
	o.served = err == nil && sess != nil
	o.reason = classifyErr(err)
	o.verifyCall = w.chain.nVerify
	if err == nil && sess == nil {
		panic("c39: initRelay returned neither a session nor an error")
	}
	replay := func() map[string]interface{} {
		r := map[string]interface{}{"world": cfg.String(), "corruptions": b.changedFields, "request": b.req, "signed_by": b.signerAddr,
			"provider": u.provider.Addr.String(), "consumer": u.consumer.Addr.String(), "consumer2": u.consumer2.Addr.String(),
			"state_before": before, "state_after": afterSnap, "false_conditions": v.falseConds, "unjudged_conditions": v.unjudged}
		if err != nil {
			r["error"] = err.Error()
		}
		return r
	}
	if string(wire) != string(reqBytes(b.req)) {
		o.viols = append(o.viols, ev.Violation{Key: "request-modified-by-validation", What: fmt.Sprintf("initRelay changed the request object it validated (%s; %v)", cfg, b.changedFields), Replay: replay()})
	}
	if o.served {
		o.judged = true
		if len(v.falseConds) > 0 {
			o.viols = append(o.viols, ev.Violation{Key: "served/" + v.falseConds[0],
				What:   fmt.Sprintf("provider served a request although [%s] (world %s, corruptions %v)", strings.Join(v.falseConds, ","), cfg, b.changedFields),
				Replay: replay()})
		}
		var used0, used1 uint64
		for _, p := range before.Projects {
			used0 += p.Used
		}
		for _, p := range afterSnap.Projects {
			used1 += p.Used
		}
		o.cuDelta = int64(used1) - int64(used0)
		return o
	}
	// rejected
	if o.allHold && o.benign && cfg.mode == modeValid && cfg.prior != priorTight {
		o.judged = true
		name := "base"
		if len(cors) > 0 {
			var ns []string
			for _, a := range cors {
				ns = append(ns, a.c.name())
			}
			name = strings.Join(ns, "+")
		}
		o.viols = append(o.viols, ev.Violation{Key: "rejected-valid/" + name,
			What:   fmt.Sprintf("provider rejected a request that fulfils every stated condition (world %s, corruptions %v): %v", cfg, b.changedFields, err),
			Replay: replay()})
	}
	o.judged = true
	if len(afterSnap.Locked) != 0 {
		o.viols = append(o.viols, ev.Violation{Key: "rejected-leaves-session-locked",
			What:   fmt.Sprintf("after rejecting (%s) the sessions %v stay locked (world %s, corruptions %v)", o.reason, afterSnap.Locked, cfg, b.changedFields),
			Replay: replay()})
	}
	b0, b1 := before, afterSnap
	b0.Locked, b1.Locked = nil, nil
	if b0.json() != b1.json() {
		o.stateDiff = diffClasses(b0, b1)
		key := "rejected-state-changed/"
		if o.nFalse > 0 {
			// worse: a request that violates a stated condition (not authentic / not for us) left a trace
			key = "rejected-invalid-request-state-changed/"
		}
		pc := primaryClass(o.stateDiff)
		// weaker reading of "session and CU state unchanged": for an authentic request of a paired consumer that is
		// rejected for another reason, a cached consumer registration or a freshly created EMPTY session (zero CU, zero
		// relay number) is not a change of session/CU state (an absent session is created with zeros on first use);
		// it is recorded as an observation only.
		if o.nFalse == 0 && (pc == "consumer-registered" || pc == "empty-session-added") {
			o.benignTrace = pc
			return o
		}
		o.viols = append(o.viols, ev.Violation{Key: key + pc,
			What: fmt.Sprintf("request rejected (%s) but the session manager state changed [%s] (world %s, corruptions %v): before %s after %s",
				o.reason, strings.Join(o.stateDiff, "+"), cfg, b.changedFields, b0.json(), b1.json()),
			Replay: replay()})
	}
	return o
}

// ---------------------------------------------------------------- enumeration

func worlds() []worldCfg {
	var out []worldCfg
	for _, blocked := range []bool{false, true} {
		for _, m := range []pairingMode{modeValid, modeInvalid, modeError, modeMaxCuError} {
			out = append(out, worldCfg{priorFresh, m, blocked})
		}
		// the consumer was registered while the chain answered: only consistent chains afterwards
		for _, m := range []pairingMode{modeValid, modeError, modeMaxCuError} {
			out = append(out, worldCfg{priorServed1, m, blocked})
		}
		out = append(out, worldCfg{priorTight, modeValid, blocked})
		out = append(out, worldCfg{priorSplit, modeValid, blocked})
	}
	return out
}

func timings(c corruption) []when {
	switch c.only {
	case 1:
		return []when{before}
	case 2:
		return []when{after}
	}
	return []when{before, after}
}

type job struct {
	cfg  worldCfg
	cors []applied
}

func jobs(u *universe, pairs bool) (js []job, nCor int) {
	cat := catalogue(u)
	var singles []applied
	for _, c := range cat {
		for _, t := range timings(c) {
			singles = append(singles, applied{c, t})
		}
	}
	for _, cfg := range worlds() {
		js = append(js, job{cfg, nil})
		for _, a := range singles {
			js = append(js, job{cfg, []applied{a}})
		}
		if pairs {
			for i := 0; i < len(singles); i++ {
				for j := i + 1; j < len(singles); j++ {
					if singles[i].c.field == singles[j].c.field {
						continue
					}
					js = append(js, job{cfg, []applied{singles[i], singles[j]}})
				}
			}
		}
	}
	return js, len(singles)
}

func run(r *ev.Run) {
	r.MaxSamples = 10
	utils.SetGlobalLoggingLevel("fatal")
	u := newUniverse()
	pairs := ev.Tier() == "thorough"
	js, nSingles := jobs(u, pairs)

	outs := make([]outcome, len(js))
	var wg sync.WaitGroup
	nw := runtime.NumCPU()
	if nw > 16 {
		nw = 16
	}
	ch := make(chan int, 1024)
	for i := 0; i < nw; i++ {
		wg.Add(1)
		go func() {
			defer wg.Done()
			for k := range ch {
				outs[k] = runCase(u, js[k].cfg, js[k].cors)
			}
		}()
	}
	for k := range js {
		ch <- k
	}
	close(ch)
	wg.Wait()

	distinct := map[[16]byte]struct{}{}
	var served, rejected, servedAllHold, rejectedSomeFalse, rejectedAllHold, rejectedUnjudged, benignServed, stateChecked int64
	reasons := map[string]int64{}
	singleTable := map[string]map[string]bool{} // corruption@timing -> set of outcomes over worlds (singles only)
	stateDiffs := map[string]int64{}
	stateDiffReasons := map[string]int64{}
	var stateDiffInvalid int64
	for k, o := range outs {
		for _, v := range o.viols {
			r.Violate(v)
		}
		if o.judged {
			distinct[o.caseHash] = struct{}{}
		}
		reasons[o.reason]++
		if o.served {
			served++
			if o.allHold {
				servedAllHold++
			}
			if o.benign && o.allHold {
				benignServed++
			}
		} else {
			rejected++
			stateChecked++
			switch {
			case o.nFalse > 0:
				rejectedSomeFalse++
			case o.allHold:
				rejectedAllHold++
			default:
				rejectedUnjudged++
			}
			if len(o.stateDiff) > 0 {
				stateDiffs[strings.Join(o.stateDiff, "+")]++
				stateDiffReasons[strings.Join(o.stateDiff, "+")+" <- "+o.reason]++
				if o.nFalse > 0 {
					stateDiffInvalid++
				}
			}
		}
		if len(js[k].cors) <= 1 {
			name := "base"
			if len(js[k].cors) == 1 {
				name = js[k].cors[0].String()
			}
			if singleTable[name] == nil {
				singleTable[name] = map[string]bool{}
			}
			singleTable[name][o.reason] = true
		}
	}
	// observations: for each single corruption the set of outcomes seen over all worlds
	table := map[string]string{}
	for n, set := range singleTable {
		var l []string
		for x := range set {
			l = append(l, x)
		}
		sort.Strings(l)
		table[n] = strings.Join(l, " | ")
	}
	// samples: a few concrete cases
	want := map[string]bool{"served": true, "content-hash-mismatch": true, "not-paired": true, "epoch-mismatch": true, "wrong-provider": true, "prepare-session-out-of-sync": true, "pairing-query-error": true, "wrong-lava-chain": true}
	for k, o := range outs {
		if want[o.reason] && len(js[k].cors) == 1 {
			want[o.reason] = false
			r.Sample(map[string]interface{}{"world": o.world, "corruption": o.cors, "outcome": o.reason, "conditions_false": o.nFalse, "state_changed": o.stateDiff})
		}
	}

	r.Set("evaluations", int64(len(outs)))
	r.Set("distinct_nontrivial", int64(len(distinct)))
	r.Set("rule", "a case = (world: prior session state x chain answer x epoch validity, request: base request with <= K field corruptions each applied before or after signing); it is pushed once through the real initRelay on a freshly built provider; counted as distinct non-trivial when the oracle judged it (served: all six conditions evaluated against the verdict; rejected: full session-manager dump + lock state compared with the dump before the call) and (world, signer, wire bytes) differ from every other case")
	r.Set("exhaustive", true)
	kk := 1
	if pairs {
		kk = 2
	}
	r.Set("bound", fmt.Sprintf("%d worlds (prior {fresh, 1 relay served, 1 relay served with tight max CU} x chain {pairs, pairs nobody, pairing query error, max-CU query error} x provider epoch {request epoch kept, request epoch too old}; inconsistent chain histories excluded) x all sets of <= %d corruptions on different fields out of %d (field,value,timing) single corruptions over %d catalogue entries (ETH1 spec, JSON-RPC, eth_blockNumber base request)", len(worlds()), kk, nSingles, len(catalogue(u))))
	r.Set("served", served)
	r.Set("rejected", rejected)
	r.Set("served_all_conditions_hold", servedAllHold)
	r.Set("served_benign_all_conditions_hold", benignServed)
	r.Set("rejected_some_condition_false", rejectedSomeFalse)
	r.Set("rejected_all_conditions_hold_observation", rejectedAllHold)
	r.Set("rejected_condition_unjudged", rejectedUnjudged)
	r.Set("rejections_with_state_compared", stateChecked)
	r.Set("rejections_that_changed_state", stateDiffs)
	r.Set("rejections_that_changed_state_by_rejection_reason", stateDiffReasons)
	r.Set("rejections_of_condition_violating_requests_that_changed_state", stateDiffInvalid)
	r.Set("outcome_counts", reasons)
	r.Set("single_corruption_outcomes_over_worlds", table)
	r.Assume("the chain is a mock state tracker: it pairs consumer and consumer2 (same project) with this provider at the epochs 100,120,180,200,380 it already knows, never a third key, never epoch 160; unknown (future) epochs make the pairing query fail; virtual epoch 0")
	r.Assume("condition facts are known by construction (what was corrupted, when, who signed); the signature covers every RelaySession field but Sig and Badge (property C25); the content hash covers every RelayData field of the catalogue except RequestId (not judged); the epoch equal to the oldest-kept boundary is not judged")
	r.Assume("conditions=>served is only demanded for the uncorrupted request and benign corruptions (salt, QoS reports, reported providers, badge, fresh session id, second paired key, other kept paired epoch) under a chain that answers; relay-number / CU-sum / parse rejections are observations")
	r.Assume("initRelay only (session set-up); the later stages of Relay (addon/extension validation, node call, reward proof) are outside this check; one request per freshly built provider, no concurrency")
}

func init() {
	reg.Register(reg.Check{Property: "C39", Level: "exploration", Run: run})
}
