// Package c41 checks C41 "Provider load limiting admits, runs and answers each request once" with the
// event-order exploration engine (engine/events) on the real rpcprovider.ResourceLimiter.
//
// Harness: a fresh limiter (heavy max 1, heavy queue 1..2, normal max 1) and 2..4 callers. The request body of
// caller i records `started(i)` and blocks on a gate until the explorer delivers finish(i, ok|err). The 30 s queue
// timeout (context.WithTimeout in enqueueRequest) is a virtual-clock timer: resource_limiter.go is compiled from a
// derived overlay copy whose `time` and `context` imports point to the shims of engine/events/shim.
//
// Events ordered exhaustively: arrive(i), finish(i,ok), finish(i,err), cancel(i), timer(i).
// Oracle (from the property text), evaluated at every quiescent point:
//   - running heavy <= heavy limit, running normal <= normal limit;
//   - every request body runs at most once;
//   - a caller that has returned: if its request ran, the run is complete and the caller holds exactly the value the
//     run returned; if its request did not run, the caller holds an error;
//   - when nothing is enabled any more (all callers answered, all bodies finished): both semaphores are fully
//     available with no waiter and the heavy queue is empty (verif_export_c41.go probes).
package c41

import (
	"context"
	"errors"
	"fmt"
	"strings"
	"sync"
	"time"

	"github.com/lavanet/lava/v5/protocol/rpcprovider"
	"github.com/lavanet/lava/v5/utils"
	"github.com/lavanet/lava/v5/utils/verifshim/events/clock"
	vcontext "github.com/lavanet/lava/v5/utils/verifshim/events/context"

	"verifmc/engine/ev"
	"verifmc/engine/events"
	"verifmc/engine/reg"
)

const (
	heavyMax    = 1
	normalMax   = 1
	cuThreshold = 100
)

type scenario struct {
	name      string
	kinds     string // one letter per caller: H heavy, N normal
	queueSize int
	maxDev    int // bound on deviation events (cancel, timer, finish err) taken while a plain event is enabled; -1: none
	thorough  bool
	heavyMax  int64 // heavy permits (0: the default of 1)
}

var scenarios = []scenario{
	{"HH-q1", "HH", 1, -1, false, 0},
	{"HHN-q1", "HHN", 1, -1, false, 0},
	{"HHH-q1", "HHH", 1, -1, false, 0},
	{"NN-q1", "NN", 1, -1, false, 0},
	{"HHH-q1-2permits-dev2", "HHH", 1, 2, false, 2}, // two heavy permits: one held by the queue worker, the other free again
	{"HHHH-q1-dev2", "HHHH", 1, 2, false, 0},        // 4 heavy callers are needed to fill a queue of 1 (running + held by the worker + queued)
	{"HHH-q2", "HHH", 2, -1, true, 0},
	{"HHHH-q1", "HHHH", 1, -1, true, 0},
	{"HHHH-q2", "HHHH", 2, -1, true, 0},
	{"HHNN-q1-dev3", "HHNN", 1, 3, true, 0}, // unbounded: 6.3e6 executions (measured once, same two keys only)
	{"HHHN-q2-dev3", "HHHN", 2, 3, true, 0},
	{"HHH-q1-2permits", "HHH", 1, -1, true, 2},
}

type caller struct {
	idx      int
	heavy    bool
	ctx      context.Context
	cancelFn context.CancelFunc
	gate     chan error
	bodyErr  error // the distinguished error value finish(i,err) makes the body return

	// all below guarded by sys.mu
	arrived   bool
	canceled  bool
	started   int
	running   bool
	finished  bool
	result    error
	returned  bool
	ret       error
	startSeq  int
	finishSeq int
	returnSeq int
	// the queue worker was parked holding an execution permit when this caller was answered
	workerHeldPermit bool
}

type system struct {
	sc       scenario
	rl       *rpcprovider.ResourceLimiter
	mu       sync.Mutex
	seq      int
	callers  []*caller
	closed   bool
	heavyMax int64
}

var (
	once    sync.Once
	counter int
)

func makeSystem(sc scenario) events.System {
	once.Do(func() { utils.SetGlobalLoggingLevel("fatal") })
	clock.Reset()
	counter++
	s := &system{sc: sc}
	s.heavyMax = int64(heavyMax)
	if sc.heavyMax > 0 {
		s.heavyMax = sc.heavyMax
	}
	s.rl = rpcprovider.NewResourceLimiter(true, fmt.Sprintf("verif-c41-%d", counter), cuThreshold, s.heavyMax, sc.queueSize, normalMax)
	for i, k := range sc.kinds {
		c := &caller{idx: i, heavy: k == 'H', gate: make(chan error, 1), bodyErr: fmt.Errorf("body error of request %d", i)}
		// the caller's context cancels the limiter's WithTimeout child synchronously, as a standard context does
		c.ctx, c.cancelFn = vcontext.WithCancelSync(context.Background())
		s.callers = append(s.callers, c)
	}
	return s
}

func (s *system) kind(c *caller) string {
	if c.heavy {
		return "heavy"
	}
	return "normal"
}

// Enabled lists the environment events that can happen now.
func (s *system) Enabled() []events.Event {
	s.mu.Lock()
	defer s.mu.Unlock()
	var out []events.Event
	timers := clock.Enabled()
	for _, c := range s.callers {
		if !c.arrived {
			// callers of the same kind are interchangeable before they arrive: they arrive in index order
			first := true
			for _, d := range s.callers[:c.idx] {
				if d.heavy == c.heavy && !d.arrived {
					first = false
				}
			}
			if first {
				out = append(out, events.Event{Name: fmt.Sprintf("arrive(%d:%s)", c.idx, s.kind(c))})
			}
		}
		if c.running {
			out = append(out, events.Event{Name: fmt.Sprintf("finish(%d,ok)", c.idx)})
			out = append(out, events.Event{Name: fmt.Sprintf("finish(%d,err)", c.idx), Deviation: true})
		}
		if !c.canceled && !c.returned {
			out = append(out, events.Event{Name: fmt.Sprintf("cancel(%d)", c.idx), Deviation: true})
		}
		for _, t := range timers {
			if t.Kind == "ctx" && t.Owner == interface{}(c.ctx) {
				out = append(out, events.Event{Name: fmt.Sprintf("timer(%d)", c.idx), Deviation: true})
			}
		}
	}
	// the queue worker is parked right after it obtained the permit for a queued request (preemption point inserted
	// by the overlay): resuming it is an event like any other, so cancellations and timeouts can land in between
	if len(clock.Parked()) > 0 {
		out = append(out, events.Event{Name: "resume(worker)"})
	}
	// two environment events that land before any goroutine of the limiter runs again: a running request finishes
	// while the caller of a request that waits in the heavy queue gives up (both orders). Delivered back to back, they
	// reach the interleavings in which the queue worker obtains the permit and finds its request's context done.
	for _, c := range s.callers {
		if !c.running {
			continue
		}
		for _, d := range s.callers {
			if d == c || !d.heavy || !d.arrived || d.started > 0 || d.returned || d.canceled {
				continue
			}
			out = append(out, events.Event{Name: fmt.Sprintf("cancel(%d)+finish(%d,ok)", d.idx, c.idx), Deviation: true})
			out = append(out, events.Event{Name: fmt.Sprintf("finish(%d,ok)+cancel(%d)", c.idx, d.idx), Deviation: true})
		}
	}
	return out
}

func (s *system) Deliver(name string) {
	if k := strings.Index(name, ")+"); k >= 0 {
		s.Deliver(name[:k+1])
		s.Deliver(name[k+2:])
		return
	}
	if name == "resume(worker)" {
		if p := clock.Parked(); len(p) > 0 {
			clock.Resume(p[0])
			return
		}
		panic("c41: no parked worker")
	}
	var i int
	var arg string
	open := strings.IndexByte(name, '(')
	op := name[:open]
	rest := strings.TrimSuffix(name[open+1:], ")")
	if j := strings.IndexAny(rest, ":,"); j >= 0 {
		arg = rest[j+1:]
		rest = rest[:j]
	}
	fmt.Sscanf(rest, "%d", &i)
	c := s.callers[i]
	switch op {
	case "arrive":
		s.mu.Lock()
		c.arrived = true
		s.mu.Unlock()
		go s.call(c)
	case "finish":
		var r error
		if arg == "err" {
			r = c.bodyErr
		}
		c.gate <- r
	case "cancel":
		s.mu.Lock()
		c.canceled = true
		s.mu.Unlock()
		c.cancelFn()
	case "timer":
		for _, t := range clock.Enabled() {
			if t.Kind == "ctx" && t.Owner == interface{}(c.ctx) {
				clock.Fire(t)
				return
			}
		}
		panic("c41: timer not pending: " + name)
	default:
		panic("c41: unknown event " + name)
	}
}

// call is the caller goroutine: one Acquire with the gated body.
func (s *system) call(c *caller) {
	cu, method := uint64(10), "eth_blockNumber"
	if c.heavy {
		cu, method = 500, "debug_traceTransaction"
	}
	err := s.rl.Acquire(c.ctx, cu, method, func() error {
		s.mu.Lock()
		c.started++
		c.running = true
		s.seq++
		c.startSeq = s.seq
		s.mu.Unlock()
		r := <-c.gate
		s.mu.Lock()
		c.running = false
		c.finished = true
		c.result = r
		s.seq++
		c.finishSeq = s.seq
		s.mu.Unlock()
		return r
	})
	held := len(clock.Parked()) > 0
	s.mu.Lock()
	c.returned = true
	c.ret = err
	c.workerHeldPermit = held
	s.seq++
	c.returnSeq = s.seq
	s.mu.Unlock()
}

func errStr(e error) string {
	if e == nil {
		return "nil"
	}
	return fmt.Sprintf("error %q", e.Error())
}

// Check is the oracle at a quiescent point.
func (s *system) Check(report events.Reporter) {
	s.mu.Lock()
	defer s.mu.Unlock()
	runH, runN := 0, 0
	for _, c := range s.callers {
		if c.running {
			if c.heavy {
				runH++
			} else {
				runN++
			}
		}
	}
	if int64(runH) > s.heavyMax {
		report("heavy-limit-exceeded", fmt.Sprintf("%d heavy requests run at once, limit %d", runH, s.heavyMax))
	}
	if runN > normalMax {
		report("normal-limit-exceeded", fmt.Sprintf("%d normal requests run at once, limit %d", runN, normalMax))
	}
	for _, c := range s.callers {
		if c.started > 1 {
			report("ran-twice", fmt.Sprintf("request %d was executed %d times", c.idx, c.started))
		}
		if !c.returned {
			continue
		}
		switch {
		case c.started == 0:
			if c.ret == nil {
				report("not-run-but-caller-got-success", fmt.Sprintf("request %d was never executed but its caller got nil", c.idx))
			}
		case c.startSeq > c.returnSeq:
			when := ":worker-was-waiting-for-the-permit"
			if c.workerHeldPermit {
				when = ":worker-held-the-permit"
			}
			report("ran-after-caller-was-answered:"+classify(c.ret)+when, fmt.Sprintf("request %d started executing after its caller had already been answered with %s", c.idx, errStr(c.ret)))
		case !c.finished || c.returnSeq < c.finishSeq:
			// the caller was answered while its request was still executing: it cannot hold that run's result
			key := "ran-but-caller-got-other-answer"
			switch {
			case c.ret == nil:
				key = "caller-got-success-while-still-running"
			case strings.Contains(c.ret.Error(), "request timeout in queue"):
				key = "ran-but-caller-got-timeout"
			case errors.Is(c.ret, context.Canceled):
				key = "ran-but-caller-got-canceled"
			}
			report(key, fmt.Sprintf("request %d had been started by the queue worker and had not finished when its caller was answered with %s", c.idx, errStr(c.ret)))
		case c.ret != c.result:
			report("caller-result-differs-from-run-result", fmt.Sprintf("request %d ran and returned %s but its caller got %s", c.idx, errStr(c.result), errStr(c.ret)))
		}
	}
}

// Final is the oracle once the load has stopped.
func (s *system) Final(report events.Reporter) {
	s.mu.Lock()
	idle := true
	for _, c := range s.callers {
		if !c.arrived || !c.returned || c.running {
			idle = false
			report("request-never-answered", fmt.Sprintf("no event is enabled but request %d: arrived=%v answered=%v running=%v", c.idx, c.arrived, c.returned, c.running))
		}
	}
	s.mu.Unlock()
	if !idle {
		return
	}
	if !s.rl.VerifHeavyIdle() {
		report("heavy-permit-not-released", "all requests are answered and finished but the heavy semaphore is not fully available")
	}
	if !s.rl.VerifNormalIdle() {
		report("normal-permit-not-released", "all requests are answered and finished but the normal semaphore is not fully available")
	}
	if n := s.rl.VerifQueueLen(); n != 0 {
		report("queue-slot-not-released", fmt.Sprintf("all requests are answered and finished but %d request(s) still sit in the heavy queue", n))
	}
}

func classify(e error) string {
	switch {
	case e == nil:
		return "ok"
	case strings.HasPrefix(e.Error(), "body error"):
		return "bodyerr"
	case strings.Contains(e.Error(), "request timeout in queue"):
		return "timeout"
	case strings.Contains(e.Error(), "queue full"):
		return "queuefull"
	case strings.Contains(e.Error(), "provider busy"):
		return "busy"
	case errors.Is(e, context.Canceled):
		return "canceled"
	case errors.Is(e, context.DeadlineExceeded):
		return "deadline"
	}
	return "other"
}

func (s *system) Outcome() string {
	s.mu.Lock()
	defer s.mu.Unlock()
	var parts []string
	for _, c := range s.callers {
		p := fmt.Sprintf("%d:", c.idx)
		switch {
		case c.started == 0:
			p += "notrun"
		case c.finished:
			p += "ran=" + classify(c.result)
		default:
			p += "running"
		}
		if c.returned {
			p += ",got=" + classify(c.ret)
		} else {
			p += ",unanswered"
		}
		parts = append(parts, p)
	}
	return strings.Join(parts, " ")
}

// Close releases everything so that no goroutine of this execution survives.
func (s *system) Close() {
	if s.closed {
		return
	}
	s.closed = true
	for _, c := range s.callers {
		c.cancelFn()
	}
	for round := 0; round < 3*len(s.callers)+3; round++ {
		events.Quiesce()
		s.mu.Lock()
		n := 0
		for _, t := range clock.Parked() {
			clock.Resume(t)
			n++
		}
		for _, c := range s.callers {
			if c.running {
				select {
				case c.gate <- nil:
				default:
				}
				n++
			}
		}
		s.mu.Unlock()
		if n == 0 {
			break
		}
	}
	for _, t := range clock.Pending() {
		clock.Fire(t)
	}
	events.Quiesce()
	s.rl.VerifShutdown()
	clock.Deactivate()
}

// Outcomes in which the interesting branches of the limiter were really taken (vacuity guard).
var interesting = []string{"got=timeout", "got=queuefull", "got=busy", "got=canceled", "ran=bodyerr,got=bodyerr", "ran=ok,got=ok"}

func init() {
	for _, sc := range scenarios {
		sc := sc
		events.Register("C41", events.Harness{
			Name:          sc.name,
			Make:          func() events.System { return makeSystem(sc) },
			Horizon:       40,
			MaxDeviations: sc.maxDev,
			ThoroughOnly:  sc.thorough,
		})
	}
	reg.Register(reg.Check{Property: "C41", Level: "model_checking", Run: run})
}

func run(r *ev.Run) {
	cfg := events.RunConfig{Shards: 16, ShardDepth: 5, Deadline: 50 * time.Second}
	if ev.Tier() == "thorough" {
		cfg.Deadline = 13 * time.Minute
	}
	outcomes := events.Run(r, "C41", cfg)
	var desc []string
	for _, sc := range scenarios {
		if sc.thorough && ev.Tier() != "thorough" {
			continue
		}
		d := fmt.Sprintf("%s(callers %s, heavy queue %d", sc.name, sc.kinds, sc.queueSize)
		if sc.maxDev >= 0 {
			d += fmt.Sprintf(", at most %d early cancel/timer/error events", sc.maxDev)
		}
		desc = append(desc, d+")")
	}
	// vacuity guard: which answers of the limiter the explored executions reached
	reached := map[string]bool{}
	for _, m := range outcomes {
		for o := range m {
			for _, k := range interesting {
				if strings.Contains(o, k) {
					reached[k] = true
				}
			}
		}
	}
	var rs []string
	for _, k := range interesting {
		if reached[k] {
			rs = append(rs, k)
		}
	}
	r.Set("limiter_answers_reached", rs)
	r.Set("engine", "events")
	r.Set("bound", "real ResourceLimiter with heavy max 1, normal max 1; scenarios "+strings.Join(desc, ", ")+
		"; every order of the enabled events arrive(i), finish(i,ok), finish(i,err), cancel(i) (also before arrival), timer(i) (virtual 30 s queue deadline of caller i), "+
		"callers of the same kind arrive in index order (symmetry); no bound on cancellations/timeouts; one event per quiescent point, plus the pairs (finish of a running request, cancel of a queued heavy one) delivered back to back in both orders")
	r.Assume("event granularity: one environment event is delivered at a time and the limiter's goroutines run to quiescence (all blocked) before the next one; the interleaving of the limiter's internal goroutines between two quiescent points is the deterministic one of GOMAXPROCS=1 without asynchronous preemption (guarded by 5x replay of every candidate and by comparing the enabled-event sets on every re-executed prefix)")
	r.Assume("resource_limiter.go is compiled from a derived overlay copy in which only the imports \"time\" and \"context\" are rewritten to virtual-clock shims (tools/overlaygen_events.py); context.WithTimeout's deadline fires only when the explorer chooses timer(i); golang.org/x/sync/semaphore and the rest of the package are unmodified")
	r.Assume("a caller that was answered while the queue worker is still executing its request is counted as 'did not get that run's result' (separate keys for a queue-timeout answer and for the caller's own cancellation)")
}
