// Package c27: provider sessions enforce CU limits and replay protection — all interleavings (preemption
// bounded) of 2-3 relay / update threads on the real ProviderSessionManager under the cooperative scheduler.
package c27

import (
	"context"
	"fmt"
	"sort"
	"strings"

	"github.com/lavanet/lava/v5/protocol/lavasession"
	"github.com/lavanet/lava/v5/utils/verifshim/coop"

	"verifmc/engine/coopdrv"
)

const (
	epoch      = uint64(100)
	consumer   = "consumer1"
	project    = "project1"
	blockDist  = uint64(20)
	noMissing  = 0.0
)

type relaySpec struct {
	name      string
	sid       uint64
	relayNum  uint64
	specCU    uint64
	reqCuSum  uint64
	fail      bool
}

type sys struct {
	psm     *lavasession.ProviderSessionManager
	maxCU   uint64
	ve      uint64
	report  func(key, what string)
	inProg  map[uint64]int
	doneSeq map[uint64][]uint64 // per session id: relay numbers of successfully completed relays, in completion order
	acceptedCU uint64
	outcome []string
	hasUpdateCU bool
}

func newSys(maxCU uint64, report func(key, what string)) *sys {
	psm := lavasession.NewProviderSessionManager(&lavasession.RPCProviderEndpoint{ChainID: "LAV1", ApiInterface: "jsonrpc"}, blockDist)
	psm.UpdateEpoch(epoch)
	return &sys{psm: psm, maxCU: maxCU, report: report, inProg: map[uint64]int{}, doneSeq: map[uint64][]uint64{}}
}

// relay mirrors rpcprovider_server: getSingleProviderSession -> PrepareSessionForUsage -> OnSessionDone/Failure.
func (y *sys) relay(r relaySpec) {
	ctx := context.Background()
	sess, err := y.psm.GetSession(ctx, consumer, epoch, r.sid, r.relayNum)
	if err != nil && lavasession.ConsumerNotRegisteredYet.Is(err) {
		sess, err = y.psm.RegisterProviderSessionWithConsumer(ctx, consumer, epoch, r.sid, r.relayNum, y.maxCU, 2, project)
	}
	if err != nil {
		y.outcome = append(y.outcome, r.name+":nosession")
		return
	}
	y.inProg[r.sid]++
	if y.inProg[r.sid] > 1 {
		y.report("two-relays-in-one-session", fmt.Sprintf("session id %d is held by %d relays at once (%s)", r.sid, y.inProg[r.sid], r.name))
	}
	err = sess.PrepareSessionForUsage(ctx, r.specCU, r.reqCuSum, noMissing, y.ve)
	if err != nil {
		sess.DisbandSession()
		y.inProg[r.sid]--
		y.outcome = append(y.outcome, r.name+":rejected")
		return
	}
	// acceptance: the CU accepted for the project must be within max*(virtualEpoch+1)
	if !y.hasUpdateCU {
		y.checkLimit("at-acceptance " + r.name)
	}
	if r.fail {
		y.psm.OnSessionFailure(sess, r.relayNum)
		y.inProg[r.sid]--
		y.outcome = append(y.outcome, r.name+":failed")
		return
	}
	y.psm.OnSessionDone(sess, r.relayNum)
	y.inProg[r.sid]--
	seq := y.doneSeq[r.sid]
	if len(seq) > 0 && seq[len(seq)-1] >= r.relayNum {
		y.report("relay-number-not-increasing", fmt.Sprintf("session %d completed relay number %d after %d", r.sid, r.relayNum, seq[len(seq)-1]))
	}
	y.doneSeq[r.sid] = append(seq, r.relayNum)
	y.outcome = append(y.outcome, r.name+":done")
}

func (y *sys) checkLimit(where string) {
	for _, d := range y.psm.VerifDump() {
		if d.Used > d.Max*(y.ve+1) {
			y.report("used-exceeds-max", fmt.Sprintf("%s: project %s epoch %d used CU %d > max %d x (virtual epoch %d + 1)", where, d.ProjectID, d.Epoch, d.Used, d.Max, y.ve))
		}
	}
}

// final: used CU equals the sum of the sessions' CU sums (for epochs still valid)
func (y *sys) final() {
	for _, d := range y.psm.VerifDump() {
		if !y.psm.IsValidEpoch(d.Epoch) {
			continue
		}
		var sum uint64
		for _, s := range d.Sessions {
			sum += s.CuSum
			if s.LatestRelayCu != 0 {
				y.report("latest-relay-cu-left", fmt.Sprintf("session %d has LatestRelayCu %d at quiescence", s.SessionID, s.LatestRelayCu))
			}
		}
		if d.Used != sum {
			y.report("used-differs-from-session-sum", fmt.Sprintf("project %s epoch %d: used CU %d != sum of session CU sums %d (sessions %+v)", d.ProjectID, d.Epoch, d.Used, sum, d.Sessions))
		}
	}
	if !y.hasUpdateCU {
		y.checkLimit("at-quiescence")
	}
}

func outcomeKey(y *sys) string {
	o := append([]string{}, y.outcome...)
	sort.Strings(o)
	var used []string
	for _, d := range y.psm.VerifDump() {
		used = append(used, fmt.Sprintf("%d", d.Used))
	}
	return strings.Join(o, ",") + "|used=" + strings.Join(used, ",")
}

var lastSys *sys

func reg(name string, maxCU uint64, setup func(y *sys), threads func(y *sys, s *coop.Sched)) {
	coopdrv.Register("C27", coopdrv.Harness{Name: name, Make: func(s *coop.Sched, report func(key, what string)) func() {
		y := newSys(maxCU, report)
		lastSys = y
		if setup != nil {
			setup(y) // sequential, before the scheduler is active
		}
		if !y.hasUpdateCU {
			s.OnPoint = func() { y.checkLimit("at-point") }
		}
		threads(y, s)
		return y.final
	}})
}

// Outcome labels an execution for the distinct-outcomes guard.
func Outcome(s *coop.Sched) string {
	if lastSys == nil {
		return ""
	}
	return outcomeKey(lastSys)
}

func init() {
	// H1: two relays racing on the same NEW session id
	reg("H1-same-new-session", 20, nil, func(y *sys, s *coop.Sched) {
		s.Go("T1", func() { y.relay(relaySpec{"T1", 7, 1, 10, 10, false}) })
		s.Go("T2", func() { y.relay(relaySpec{"T2", 7, 1, 10, 10, false}) })
	})
	// H2: two relays on an existing session (lock retry path), relay numbers 2 and 3
	reg("H2-existing-session", 40, func(y *sys) { y.relay(relaySpec{"S0", 7, 1, 10, 10, false}) }, func(y *sys, s *coop.Sched) {
		s.Go("T1", func() { y.relay(relaySpec{"T1", 7, 2, 10, 20, false}) })
		s.Go("T2", func() { y.relay(relaySpec{"T2", 7, 3, 10, 30, false}) })
	})
	// H3: sessions of one project near the CU limit, one failing
	reg("H3-cu-limit", 20, nil, func(y *sys, s *coop.Sched) {
		s.Go("T1", func() { y.relay(relaySpec{"T1", 7, 1, 10, 10, false}) })
		s.Go("T2", func() { y.relay(relaySpec{"T2", 8, 1, 15, 15, false}) })
		s.Go("T3", func() { y.relay(relaySpec{"T3", 9, 1, 10, 10, true}) })
	})
	// H4: relay + reward-server CU update (higher CU) + failing relay on another session
	reg("H4-update-session-cu", 60, func(y *sys) {
		y.hasUpdateCU = true
		y.relay(relaySpec{"S0", 7, 1, 10, 10, false})
	}, func(y *sys, s *coop.Sched) {
		s.Go("T1", func() { y.relay(relaySpec{"T1", 8, 1, 10, 10, false}) })
		s.Go("U", func() { y.psm.UpdateSessionCU(consumer, epoch, 7, 25) })
		s.Go("T3", func() { y.relay(relaySpec{"T3", 9, 1, 10, 10, true}) })
	})
	// H5: relay + failing relay + epoch update that invalidates the epoch mid-flight
	reg("H5-epoch-update", 40, func(y *sys) { y.relay(relaySpec{"S0", 7, 1, 10, 10, false}) }, func(y *sys, s *coop.Sched) {
		s.Go("T1", func() { y.relay(relaySpec{"T1", 7, 2, 10, 20, true}) })
		s.Go("T2", func() { y.relay(relaySpec{"T2", 8, 1, 10, 10, false}) })
		s.Go("E", func() { y.psm.UpdateEpoch(epoch + blockDist + 5) })
	})
	// H6: relay on an existing session racing with the reward-server update of the SAME session
	reg("H6-update-same-session", 60, func(y *sys) {
		y.hasUpdateCU = true
		y.relay(relaySpec{"S0", 7, 1, 10, 10, false})
	}, func(y *sys, s *coop.Sched) {
		s.Go("T1", func() { y.relay(relaySpec{"T1", 7, 2, 10, 20, true}) })
		s.Go("U", func() { y.psm.UpdateSessionCU(consumer, epoch, 7, 25) })
	})
}
