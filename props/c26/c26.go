// Package c26: content hashes identify relay requests unambiguously.
//
// Bounded-exhaustive enumeration: every RelayPrivateData whose hashed fields range over a small
// alphabet is pushed through the real sigs.HashMsg(rp.GetContentHashData()) (the value the consumer
// signs in RelaySession.ContentHash and the provider compares in verifyRelayRequestMetaData).  Records
// are bucketed by that hash; two records in one bucket that differ in a hashed field are a collision,
// which is exactly what the property forbids.  The oracle never looks at how the hash is computed.
package c26

import (
	"bytes"
	"context"
	"fmt"
	"runtime"
	"sort"
	"strings"
	"sync"

	"github.com/lavanet/lava/v5/protocol/lavaprotocol"
	"github.com/lavanet/lava/v5/protocol/lavasession"
	"github.com/lavanet/lava/v5/protocol/qos"
	"github.com/lavanet/lava/v5/utils"
	"github.com/lavanet/lava/v5/utils/sigs"
	pairingtypes "github.com/lavanet/lava/v5/x/pairing/types"

	"verifmc/engine/ev"
	"verifmc/engine/reg"
)

// hashed fields, in the order the property lists them is irrelevant; this order is only used for keys
const (
	fMetadata = iota
	fExtensions
	fAddon
	fApiInterface
	fConnectionType
	fApiUrl
	fData
	fRequestBlock
	fSeenBlock
	fSalt
	nHashed
	fRequestId = nHashed // NOT covered by the content hash: twins differing only here must share a hash
	nFields    = nHashed + 1
)

var fieldNames = [nHashed]string{"Metadata", "Extensions", "Addon", "ApiInterface", "ConnectionType", "ApiUrl", "Data", "RequestBlock", "SeenBlock", "Salt"}

type rec [nFields]uint8

type alphabet struct {
	strs   []string
	data   [][]byte
	salt   [][]byte
	exts   [][]string
	metas  [][]pairingtypes.Metadata
	reqBlk []int64
	seenB  []int64
	reqIds []string
}

func (a *alphabet) size(f int) int {
	switch f {
	case fMetadata:
		return len(a.metas)
	case fExtensions:
		return len(a.exts)
	case fAddon, fApiInterface, fConnectionType, fApiUrl:
		return len(a.strs)
	case fData:
		return len(a.data)
	case fRequestBlock:
		return len(a.reqBlk)
	case fSeenBlock:
		return len(a.seenB)
	case fSalt:
		return len(a.salt)
	case fRequestId:
		return len(a.reqIds)
	}
	return 0
}

func (a *alphabet) build(r rec) *pairingtypes.RelayPrivateData {
	return &pairingtypes.RelayPrivateData{
		Metadata:       a.metas[r[fMetadata]],
		Extensions:     a.exts[r[fExtensions]],
		Addon:          a.strs[r[fAddon]],
		ApiInterface:   a.strs[r[fApiInterface]],
		ConnectionType: a.strs[r[fConnectionType]],
		ApiUrl:         a.strs[r[fApiUrl]],
		Data:           a.data[r[fData]],
		RequestBlock:   a.reqBlk[r[fRequestBlock]],
		SeenBlock:      a.seenB[r[fSeenBlock]],
		Salt:           a.salt[r[fSalt]],
		RequestId:      a.reqIds[r[fRequestId]],
	}
}

func (a *alphabet) describe(r rec) map[string]interface{} {
	rp := a.build(r)
	md := []string{}
	for _, m := range rp.Metadata {
		md = append(md, fmt.Sprintf("(%q,%q)", m.Name, m.Value))
	}
	return map[string]interface{}{
		"Metadata": md, "Extensions": fmt.Sprintf("%q", rp.Extensions), "Addon": rp.Addon, "ApiInterface": rp.ApiInterface,
		"ConnectionType": rp.ConnectionType, "ApiUrl": rp.ApiUrl, "Data": fmt.Sprintf("%q", rp.Data),
		"RequestBlock": rp.RequestBlock, "SeenBlock": rp.SeenBlock, "Salt": fmt.Sprintf("%q", rp.Salt), "RequestId(not hashed)": rp.RequestId,
	}
}

func md(pairs ...string) []pairingtypes.Metadata {
	var out []pairingtypes.Metadata
	for i := 0; i+1 < len(pairs); i += 2 {
		out = append(out, pairingtypes.Metadata{Name: pairs[i], Value: pairs[i+1]})
	}
	return out
}

func makeAlphabet(tier string) (*alphabet, string) {
	z8 := sigs.EncodeUint64(0) // the 8 bytes a block number 0 contributes
	o8 := sigs.EncodeUint64(1)
	a := &alphabet{
		strs:   []string{"", "a", "b", "ab"},
		data:   [][]byte{nil, []byte("a"), []byte("b"), []byte("ab"), z8},
		salt:   [][]byte{nil, []byte("a"), z8},
		exts:   [][]string{nil, {"a"}, {"a", "b"}, {"ab"}},
		metas:  [][]pairingtypes.Metadata{nil, md("a", "b"), md("ab", ""), md("", "ab"), md("a", "b", "a", "a")}, // the last one repeats a header name
		reqBlk: []int64{0, 1},
		seenB:  []int64{0, 1},
		reqIds: []string{"", "r"},
	}
	bound := `strings(Addon,ApiInterface,ConnectionType,ApiUrl) in {"",a,b,ab}; Data in {"",a,b,ab,le64(0)}; Salt in {"",a,le64(0)}; Extensions in {[],[a],[a,b],[ab]}; Metadata in {[],[(a,b)],[(ab,"")],[("",ab)],[(a,b),(a,a)]}; RequestBlock,SeenBlock in {0,1}; RequestId(not hashed) in {"",r}`
	if tier == "thorough" {
		a.strs = append(a.strs, "ba")
		a.data = append(a.data, o8)
		a.exts = append(a.exts, []string{"b", "a"})
		a.metas = append(a.metas, md("a", "", "", "b"), md("a", "b", "b", "a"), md("b", "a", "a", "b"))
		a.reqBlk = append(a.reqBlk, -1)
		bound = `strings(Addon,ApiInterface,ConnectionType,ApiUrl) in {"",a,b,ab,ba}; Data in {"",a,b,ab,le64(0),le64(1)}; Salt in {"",a,le64(0)}; Extensions in {[],[a],[a,b],[ab],[b,a]}; Metadata in {[],[(a,b)],[(ab,"")],[("",ab)],[(a,b),(a,a)],[(a,""),("",b)],[(a,b),(b,a)],[(b,a),(a,b)]}; RequestBlock in {0,1,-1}; SeenBlock in {0,1}; RequestId(not hashed) in {"",r}`
	}
	return a, bound
}

type entry struct {
	h [32]byte
	r rec
}

// diff returns the bitmask of hashed fields in which the two records differ (by alphabet index; all
// alphabet values of a field are pairwise different, see selfCheck).
func diff(x, y rec) uint32 {
	var m uint32
	for f := 0; f < nHashed; f++ {
		if x[f] != y[f] {
			m |= 1 << uint(f)
		}
	}
	return m
}

func maskNames(m uint32) []string {
	var out []string
	for f := 0; f < nHashed; f++ {
		if m&(1<<uint(f)) != 0 {
			out = append(out, fieldNames[f])
		}
	}
	return out
}

// for a collision in which only one list-valued field differs, say whether the two lists flatten to
// the same byte string (a regrouping of the same bytes) or not (content really ignored). Used only to
// name the violation, never to decide it.
func listSubKind(a *alphabet, m uint32, x, y rec) string {
	flatM := func(v []pairingtypes.Metadata) string {
		s := ""
		for _, e := range v {
			s += e.Name + e.Value
		}
		return s
	}
	switch m {
	case 1 << fMetadata:
		if flatM(a.metas[x[fMetadata]]) == flatM(a.metas[y[fMetadata]]) {
			return "(regroup)"
		}
		return "(content)"
	case 1 << fExtensions:
		if strings.Join(a.exts[x[fExtensions]], "") == strings.Join(a.exts[y[fExtensions]], "") {
			return "(regroup)"
		}
		return "(content)"
	}
	return ""
}

// simpler orders candidate example pairs (a total order, so the reported example does not depend on
// scheduling): fewest non-default field values first, then lexicographic.
func simpler(x1, y1, x2, y2 rec) bool {
	w := func(x, y rec) int {
		n := 0
		for f := 0; f < nFields; f++ {
			n += int(x[f]) + int(y[f])
		}
		return n
	}
	w1, w2 := w(x1, y1), w(x2, y2)
	if w1 != w2 {
		return w1 < w2
	}
	if c := bytes.Compare(x1[:], x2[:]); c != 0 {
		return c < 0
	}
	return bytes.Compare(y1[:], y2[:]) < 0
}

type classInfo struct {
	mask  uint32
	sub   string
	count int64
	x, y  rec
}

func selfCheck(a *alphabet) {
	// every alphabet value of a field must be distinct as a value, otherwise "differs in field f" would be wrong
	for f := 0; f < nHashed; f++ {
		seen := map[string]bool{}
		for i := 0; i < a.size(f); i++ {
			var r rec
			r[f] = uint8(i)
			rp := a.build(r)
			var k string
			switch f {
			case fMetadata:
				k = fmt.Sprintf("%q", rp.Metadata)
			case fExtensions:
				k = fmt.Sprintf("%q", rp.Extensions)
			case fAddon:
				k = rp.Addon
			case fApiInterface:
				k = rp.ApiInterface
			case fConnectionType:
				k = rp.ConnectionType
			case fApiUrl:
				k = rp.ApiUrl
			case fData:
				k = string(rp.Data)
			case fRequestBlock:
				k = fmt.Sprint(rp.RequestBlock)
			case fSeenBlock:
				k = fmt.Sprint(rp.SeenBlock)
			case fSalt:
				k = string(rp.Salt)
			}
			if seen[k] {
				panic(fmt.Sprintf("c26 harness: alphabet of %s has a duplicate value %q", fieldNames[f], k))
			}
			seen[k] = true
		}
	}
}

// demonstrate: a consumer-signed session built by the real ConstructRelayRequest for request x satisfies the
// provider's content-hash condition for request y (and its signature still recovers the consumer).
func demonstrate(a *alphabet, x, y rec) map[string]interface{} {
	out := map[string]interface{}{}
	defer func() {
		if r := recover(); r != nil {
			out["demo_error"] = fmt.Sprint(r)
		}
	}()
	consumer := sigs.GenerateDeterministicFloatingKey(sigs.NewZeroReader(7))
	scs := &lavasession.SingleConsumerSession{CuSum: 10, LatestRelayCu: 10, QoSManager: qos.NewQoSManager(), SessionId: 77, RelayNum: 1}
	req, err := lavaprotocol.ConstructRelayRequest(context.Background(), consumer.SK, "lava", "LAV1", a.build(x), "lava@provider", scs, 20, nil)
	if err != nil {
		out["demo_error"] = err.Error()
		return out
	}
	other := a.build(y)
	providerCondition := bytes.Equal(req.RelaySession.ContentHash, sigs.HashMsg(other.GetContentHashData()))
	signer, err := sigs.ExtractSignerAddress(req.RelaySession)
	out["session_signed_for_A_passes_provider_content_hash_check_for_B"] = providerCondition
	out["session_signature_still_recovers_consumer"] = err == nil && signer.Equals(consumer.Addr)
	return out
}

func run(r *ev.Run) {
	utils.SetGlobalLoggingLevel("fatal")
	tier := ev.Tier()
	a, bound := makeAlphabet(tier)
	selfCheck(a)

	total := 1
	var sizes [nFields]int
	for f := 0; f < nFields; f++ {
		sizes[f] = a.size(f)
		total *= sizes[f]
	}
	entries := make([]entry, total)
	decode := func(i int) rec {
		var rc rec
		// RequestId is the fastest-moving digit
		for f := nFields - 1; f >= 0; f-- {
			rc[f] = uint8(i % sizes[f])
			i /= sizes[f]
		}
		return rc
	}
	// 0. sequential pass over consecutive records: the bytes returned for one request must stay what they were when the
	// next request is serialised (a returned slice that aliases reused storage would make the hash of a request
	// depend on what else is in flight)
	{
		var prev, prevCopy []byte
		var prevRec rec
		aliased := 0
		for i := 0; i < total; i++ {
			rc := decode(i)
			cur := a.build(rc).GetContentHashData()
			if prev != nil && !bytes.Equal(prev, prevCopy) {
				aliased++
				if aliased == 1 {
					r.Violate(ev.Violation{Key: "hash-input-changes-after-next-call", What: fmt.Sprintf("the bytes returned by GetContentHashData for %v changed when the next request %v was serialised (the returned slice aliases reused storage)", a.describe(prevRec), a.describe(rc)),
						Replay: map[string]interface{}{"A": a.describe(prevRec), "B": a.describe(rc)}})
				}
			}
			prev, prevRec = cur, rc
			prevCopy = append(prevCopy[:0], cur...)
		}
		r.Set("consecutive_pairs_checked_for_aliasing", int64(total-1))
		r.Set("aliased_results", int64(aliased))
	}

	// 1. hash every record with the real code (parallel over index ranges)
	workers := runtime.NumCPU()
	var wg sync.WaitGroup
	chunk := (total + workers - 1) / workers
	for w := 0; w < workers; w++ {
		lo, hi := w*chunk, (w+1)*chunk
		if hi > total {
			hi = total
		}
		if lo >= hi {
			continue
		}
		wg.Add(1)
		go func(lo, hi int) {
			defer wg.Done()
			for i := lo; i < hi; i++ {
				rc := decode(i)
				rp := a.build(rc)
				h := sigs.HashMsg(rp.GetContentHashData())
				copy(entries[i].h[:], h)
				entries[i].r = rc
			}
		}(lo, hi)
	}
	wg.Wait()

	// 2. bucket by hash
	sort.Slice(entries, func(i, j int) bool { return bytes.Compare(entries[i].h[:], entries[j].h[:]) < 0 })

	// 3. inside each bucket compare all pairs
	type group struct{ lo, hi int }
	var groups []group
	for i := 0; i < total; {
		j := i + 1
		for j < total && entries[j].h == entries[i].h {
			j++
		}
		groups = append(groups, group{i, j})
		i = j
	}
	var mu sync.Mutex
	classes := map[string]*classInfo{}
	var bucketsCompared, collidingBuckets, collidingPairs, twinPairs, maxBucket int64
	gch := make(chan group, 1024)
	for w := 0; w < workers; w++ {
		wg.Add(1)
		go func() {
			defer wg.Done()
			local := map[string]*classInfo{}
			var lb, lc, lp, lt, lmax int64
			for g := range gch {
				n := g.hi - g.lo
				if int64(n) > lmax {
					lmax = int64(n)
				}
				if n < 2 {
					continue
				}
				lb++
				coll := false
				for i := g.lo; i < g.hi; i++ {
					for j := i + 1; j < g.hi; j++ {
						m := diff(entries[i].r, entries[j].r)
						if m == 0 {
							lt++ // twins: same hashed fields (differ only in RequestId) - must and do share the hash
							continue
						}
						coll = true
						lp++
						sub := listSubKind(a, m, entries[i].r, entries[j].r)
						k := fmt.Sprintf("%d%s", m, sub)
						ex, ey := entries[i].r, entries[j].r
						if bytes.Compare(ex[:], ey[:]) > 0 {
							ex, ey = ey, ex
						}
						ci := local[k]
						if ci == nil {
							ci = &classInfo{mask: m, sub: sub, x: ex, y: ey}
							local[k] = ci
						} else if simpler(ex, ey, ci.x, ci.y) {
							ci.x, ci.y = ex, ey
						}
						ci.count++
					}
				}
				if coll {
					lc++
				}
			}
			mu.Lock()
			bucketsCompared += lb
			collidingBuckets += lc
			collidingPairs += lp
			twinPairs += lt
			if lmax > maxBucket {
				maxBucket = lmax
			}
			for k, ci := range local {
				if g := classes[k]; g == nil {
					classes[k] = ci
				} else {
					g.count += ci.count
					if simpler(ci.x, ci.y, g.x, g.y) {
						g.x, g.y = ci.x, ci.y
					}
				}
			}
			mu.Unlock()
		}()
	}
	for _, g := range groups {
		gch <- g
	}
	close(gch)
	wg.Wait()

	// 4. report the minimal collision classes: a set of differing fields is reported unless a proper
	// non-empty subset of it also collides (then the larger one is a combination of smaller ones).
	masks := map[uint32]bool{}
	for _, ci := range classes {
		masks[ci.mask] = true
	}
	isMinimal := func(m uint32) bool {
		for s := (m - 1) & m; s > 0; s = (s - 1) & m {
			if masks[s] {
				return false
			}
		}
		return true
	}
	var keys []string
	for k := range classes {
		keys = append(keys, k)
	}
	sort.Strings(keys)
	classList := []string{}
	nonMinimal := 0
	for _, k := range keys {
		ci := classes[k]
		if !isMinimal(ci.mask) {
			nonMinimal++
			continue
		}
		name := strings.Join(maskNames(ci.mask), "|") + ci.sub
		classList = append(classList, fmt.Sprintf("%s x%d", name, ci.count))
		A, B := a.build(ci.x), a.build(ci.y)
		replay := map[string]interface{}{
			"A":                a.describe(ci.x),
			"B":                a.describe(ci.y),
			"content_hash_hex": fmt.Sprintf("%x", sigs.HashMsg(A.GetContentHashData())),
			"hashed_bytes_A":   fmt.Sprintf("%q", A.GetContentHashData()),
			"hashed_bytes_B":   fmt.Sprintf("%q", B.GetContentHashData()),
			"differing_fields": maskNames(ci.mask),
			"pairs_in_class":   ci.count,
		}
		for dk, dv := range demonstrate(a, ci.x, ci.y) {
			replay[dk] = dv
		}
		r.Violate(ev.Violation{
			Key: "collision:" + name,
			What: fmt.Sprintf("two relay requests that differ in hashed field(s) %s have the same content hash: A=%v B=%v",
				strings.Join(maskNames(ci.mask), ","), a.describe(ci.x), a.describe(ci.y)),
			Replay: replay,
		})
	}

	r.Set("evaluations", int64(total))
	r.Set("distinct_nontrivial", bucketsCompared)
	r.Set("rule", "every record of the alphabet product is hashed by sigs.HashMsg(RelayPrivateData.GetContentHashData()); a case is one content-hash bucket; it is non-trivial when it holds >= 2 records so that the same-bucket comparison (all pairs: equal hash => equal hashed fields) really ran; every record has a twin differing only in the non-hashed RequestId, which must (and does) land in the same bucket")
	r.Set("exhaustive", true)
	r.Set("bound", bound)
	r.Set("buckets", int64(len(groups)))
	r.Set("largest_bucket", maxBucket)
	r.Set("twin_pairs_same_hash_ok", twinPairs)
	r.Set("colliding_buckets", collidingBuckets)
	r.Set("colliding_pairs", collidingPairs)
	r.Set("collision_classes_minimal", classList)
	r.Set("collision_classes_non_minimal", int64(nonMinimal))
	r.Sample(a.describe(decode(total / 3)))
	r.Sample(a.describe(decode(total/2 + 12345%total)))
	r.Sample(a.describe(decode(total - 2)))
	r.Assume("SHA-256 is treated as injective on the enumerated inputs: a shared hash is read as identical hashed bytes (the replay shows the identical byte strings)")
	r.Assume("values outside the alphabet (longer strings, more list entries) are not enumerated; the alphabet contains every shape needed to move one byte or one 8-byte word across each pair of neighbouring hashed fields")
}

func init() {
	reg.Register(reg.Check{Property: "C26", Level: "exploration", Run: run})
}
