// Package c33: cross-validated responses reflect an agreeing quorum.
//
// Exhaustive enumeration on the real relaycore.RelayProcessor (cross-validation selection) and its real
// results manager: every multiset of provider responses of size n over
// {success A, success B, success C, success with empty data, node error, protocol error}, every agreement
// threshold t in 1..n and EVERY arrival permutation of the n (provider-labelled) responses. The permutation is
// pre-loaded into the processor's response channel (SetResponse), then WaitForResults and ProcessingResult run.
// The oracle is written from the property text and evaluated over the responses the processor really consumed
// (read back from the results manager).
package c33

import (
	"bytes"
	"context"
	"fmt"
	"net/http"
	"runtime"
	"sort"
	"strings"
	"sync"
	"time"

	"github.com/lavanet/lava/v5/protocol/chainlib"
	"github.com/lavanet/lava/v5/protocol/chainlib/extensionslib"
	"github.com/lavanet/lava/v5/protocol/common"
	"github.com/lavanet/lava/v5/protocol/lavaprotocol"
	"github.com/lavanet/lava/v5/protocol/lavasession"
	"github.com/lavanet/lava/v5/protocol/relaycore"
	"github.com/lavanet/lava/v5/utils"
	specutils "github.com/lavanet/lava/v5/utils/keeper"
	pairingtypes "github.com/lavanet/lava/v5/x/pairing/types"
	spectypes "github.com/lavanet/lava/v5/x/spec/types"

	"verifmc/engine/ev"
	"verifmc/engine/reg"
)

// ---------------------------------------------------------------------------------------------
// alphabet

const (
	symA = iota
	symB
	symC
	symEmpty
	symNodeErr
	symProtoErr
	numSyms
)

var symNames = [numSyms]string{"A", "B", "C", "empty", "nodeErr", "protoErr"}

var symData = [numSyms][]byte{
	[]byte(`{"block":{"height":"17","hash":"AAAA"}}`),
	[]byte(`{"block":{"height":"17","hash":"BBBB"}}`),
	[]byte(`{"block":{"height":"17","hash":"CCCC"}}`),
	{},
	[]byte(`{"message":"node error","code":500}`),
	nil,
}

// ---------------------------------------------------------------------------------------------
// mocks of the processor's collaborators (same shape as relay_processor_test.go)

type stateMachine struct {
	pm     chainlib.ProtocolMessage
	used   *lavasession.UsedProviders
	params *common.CrossValidationParams
}

func (m *stateMachine) GetProtocolMessage() chainlib.ProtocolMessage { return m.pm }
func (m *stateMachine) GetDebugState() bool                          { return false }
func (m *stateMachine) GetRelayTaskChannel() (chan relaycore.RelayStateSendInstructions, error) {
	return make(chan relaycore.RelayStateSendInstructions), nil
}
func (m *stateMachine) UpdateBatch(err error)                                    {}
func (m *stateMachine) GetSelection() relaycore.Selection                        { return relaycore.CrossValidation }
func (m *stateMachine) GetCrossValidationParams() *common.CrossValidationParams  { return m.params }
func (m *stateMachine) GetUsedProviders() *lavasession.UsedProviders             { return m.used }
func (m *stateMachine) SetResultsChecker(relaycore.ResultsCheckerInf)            {}
func (m *stateMachine) SetRelayRetriesManager(*lavaprotocol.RelayRetriesManager) {}

type metricsMock struct{}

func (metricsMock) SetRelayNodeErrorMetric(chainId, apiInterface, providerAddress, method string) {}
func (metricsMock) GetChainIdAndApiInterface() (string, string)                                   { return "LAV1", "rest" }

var (
	retries = lavaprotocol.NewRelayRetriesManager()
	metrics = metricsMock{}
)

func newProtocolMessage() (chainlib.ProtocolMessage, error) {
	spec, err := specutils.GetASpec("LAV1", "/repo/", nil, nil)
	if err != nil {
		return nil, err
	}
	cp, err := chainlib.NewChainParser(spectypes.APIInterfaceRest)
	if err != nil {
		return nil, err
	}
	cp.SetSpec(spec)
	chainMsg, err := cp.ParseMsg("/cosmos/base/tendermint/v1beta1/blocks/17", nil, http.MethodGet, nil, extensionslib.ExtensionInfo{LatestBlock: 0})
	if err != nil {
		return nil, err
	}
	return chainlib.NewProtocolMessage(chainMsg, nil, nil, "dapp", "127.0.0.1"), nil
}

func provider(label int) string { return fmt.Sprintf("lava@p%d", label) }

func makeResponse(label, sym int) (*relaycore.RelayResponse, error) {
	res := common.RelayResult{
		Request: &pairingtypes.RelayRequest{
			RelaySession: &pairingtypes.RelaySession{},
			RelayData:    &pairingtypes.RelayPrivateData{},
		},
		ProviderInfo: common.ProviderInfo{ProviderAddress: provider(label)},
	}
	switch sym {
	case symNodeErr:
		res.Reply = &pairingtypes.RelayReply{Data: append([]byte(nil), symData[sym]...)}
		res.StatusCode = http.StatusInternalServerError
		return &relaycore.RelayResponse{RelayResult: res}, nil
	case symProtoErr:
		err := fmt.Errorf("provider %s: relay failed, connection refused", provider(label))
		return &relaycore.RelayResponse{RelayResult: res, Err: err}, err
	default:
		res.Reply = &pairingtypes.RelayReply{Data: append([]byte{}, symData[sym]...), LatestBlock: 1}
		res.StatusCode = http.StatusOK
		return &relaycore.RelayResponse{RelayResult: res}, nil
	}
}

// ---------------------------------------------------------------------------------------------
// one execution

type outcome struct {
	waitErr   bool
	isErr     bool
	errText   string
	data      []byte // returned data (response returned)
	nilReply  bool
	provider  string
	cvCount   int
	consumed  []int // labels of the consumed responses (from the results manager), sorted
	buckets   [3]int
	bucketBad string
}

func (o *outcome) sig() string {
	if o.isErr {
		return fmt.Sprintf("err|%v", o.consumed)
	}
	return fmt.Sprintf("ok|%s|%s|%v", o.provider, o.data, o.consumed)
}

var routerKey = lavasession.NewRouterKey(nil)

// execute builds a fresh processor, pre-loads the responses in arrival order and reads the result.
// ms[label] is the symbol of the response of provider `label`; order is the arrival permutation of labels.
func execute(pm chainlib.ProtocolMessage, ms []int, order []int, t int) outcome {
	n := len(ms)
	ctx := context.Background()
	used := lavasession.NewUsedProviders(nil)
	sm := &stateMachine{pm: pm, used: used, params: &common.CrossValidationParams{AgreementThreshold: t, MaxParticipants: n}}
	rp := relaycore.NewRelayProcessor(ctx, sm.params, nil, metrics, metrics, retries, sm)
	if err := used.TryLockSelection(ctx); err != nil {
		panic("c33: cannot lock selection on a fresh UsedProviders: " + err.Error())
	}
	sessions := lavasession.ConsumerSessionsMap{}
	for l := 0; l < n; l++ {
		sessions[provider(l)] = &lavasession.SessionInfo{}
	}
	used.AddUsed(sessions, nil)
	for _, l := range order {
		resp, perr := makeResponse(l, ms[l])
		used.RemoveUsed(provider(l), routerKey, perr)
		rp.SetResponse(resp)
	}
	// everything the processor can ever receive is already in its channel: the deadline cannot fire
	wctx, cancel := context.WithTimeout(ctx, 10*time.Minute)
	werr := rp.WaitForResults(wctx)
	cancel()
	var o outcome
	o.waitErr = werr != nil
	res, perr := rp.ProcessingResult()
	succ, nerrs, perrs := rp.GetResultsData()
	o.buckets = [3]int{len(succ), len(nerrs), len(perrs)}
	lab := func(addr string, wantBucket int) int {
		var l int
		if _, err := fmt.Sscanf(addr, "lava@p%d", &l); err != nil || l < 0 || l >= n {
			o.bucketBad = "unknown provider " + addr
			return -1
		}
		b := 0
		switch ms[l] {
		case symNodeErr:
			b = 1
		case symProtoErr:
			b = 2
		}
		if b != wantBucket {
			o.bucketBad = fmt.Sprintf("response %s of %s filed in bucket %d", symNames[ms[l]], addr, wantBucket)
		}
		return l
	}
	for _, r := range succ {
		o.consumed = append(o.consumed, lab(r.ProviderInfo.ProviderAddress, 0))
	}
	for _, r := range nerrs {
		o.consumed = append(o.consumed, lab(r.ProviderInfo.ProviderAddress, 1))
	}
	for _, r := range perrs {
		o.consumed = append(o.consumed, lab(r.ProviderInfo.ProviderAddress, 2))
	}
	sort.Ints(o.consumed)
	if perr != nil {
		o.isErr = true
		o.errText = perr.Error()
		return o
	}
	if res == nil || res.Reply == nil {
		o.nilReply = true
		return o
	}
	o.data = res.Reply.Data
	o.provider = res.ProviderInfo.ProviderAddress
	o.cvCount = res.CrossValidation
	return o
}

// ---------------------------------------------------------------------------------------------
// oracle (from the property text)

type verdict struct {
	key  string
	what string
}

func groupCounts(ms []int, labels []int) (g [numSyms]int) {
	for _, l := range labels {
		g[ms[l]]++
	}
	return g
}

func maxOf(g [numSyms]int, syms ...int) int {
	m := 0
	for _, s := range syms {
		if g[s] > m {
			m = g[s]
		}
	}
	return m
}

func judge(ms []int, order []int, t int, o *outcome) *verdict {
	n := len(ms)
	if o.waitErr {
		return &verdict{"wait-cancelled-with-all-responses-loaded", "WaitForResults did not finish although all responses of the batch were in the channel"}
	}
	if o.bucketBad != "" {
		return &verdict{"harness-classification", o.bucketBad}
	}
	// the consumed responses must be a prefix of the arrival order (FIFO channel, single reader)
	k := len(o.consumed)
	if k > n {
		return &verdict{"harness-consumed-more-than-sent", fmt.Sprintf("consumed %d of %d", k, n)}
	}
	pref := append([]int(nil), order[:k]...)
	sort.Ints(pref)
	for i := range pref {
		if pref[i] != o.consumed[i] {
			return &verdict{"harness-consumed-not-a-prefix", fmt.Sprintf("consumed %v, arrival order %v", o.consumed, order)}
		}
	}
	all := make([]int, n)
	for i := range all {
		all[i] = i
	}
	gK := groupCounts(ms, o.consumed) // over the responses actually consumed
	gS := groupCounts(ms, all)        // over all sent responses
	quorumSent := maxOf(gS, symA, symB, symC, symEmpty) >= t

	if o.isErr {
		// "Otherwise it returns an error, whatever the order": all responses were available to the processor,
		// so an error is only justified when no group of identical successful responses reaches t at all.
		if quorumSent {
			return &verdict{"error-despite-agreeing-quorum", fmt.Sprintf("an error was returned after consuming %d of %d responses although %d identical successful responses were sent (t=%d): %s", k, n, maxOf(gS, symA, symB, symC, symEmpty), t, firstLine(o.errText))}
		}
		return nil
	}
	// a response was returned
	if !quorumSent {
		return &verdict{"response-without-any-quorum-sent", fmt.Sprintf("a response was returned although no group of identical successful responses reaches t=%d over all sent responses", t)}
	}
	if o.nilReply {
		return &verdict{"response-without-reply", "nil error but no reply"}
	}
	sym := -1
	for s := symA; s <= symEmpty; s++ {
		if bytes.Equal(o.data, symData[s]) {
			sym = s
		}
	}
	if sym < 0 {
		return &verdict{"returned-data-of-no-successful-response", fmt.Sprintf("returned data %q is not the data of a successful response", o.data)}
	}
	if gK[sym] < t {
		return &verdict{"returned-group-below-threshold", fmt.Sprintf("returned %s whose group has %d identical successful members among the consumed responses, threshold %d", symNames[sym], gK[sym], t)}
	}
	bestNonEmpty := maxOf(gK, symA, symB, symC)
	if sym == symEmpty {
		if bestNonEmpty >= t {
			return &verdict{"empty-returned-although-nonempty-group-reaches-threshold", fmt.Sprintf("the empty response was returned although a non-empty group has %d >= t=%d members", bestNonEmpty, t)}
		}
	} else if gK[sym] < bestNonEmpty {
		return &verdict{"returned-group-not-largest", fmt.Sprintf("returned %s (group of %d) although a non-empty group of %d exists", symNames[sym], gK[sym], bestNonEmpty)}
	}
	// the returned result must be one of the consumed responses of that group
	var l int
	if _, err := fmt.Sscanf(o.provider, "lava@p%d", &l); err != nil || l < 0 || l >= n || ms[l] != sym {
		return &verdict{"returned-result-provider-mismatch", fmt.Sprintf("returned data %s is attributed to provider %q which did not send it", symNames[sym], o.provider)}
	}
	found := false
	for _, c := range o.consumed {
		if c == l {
			found = true
		}
	}
	if !found {
		return &verdict{"returned-result-not-consumed", fmt.Sprintf("returned the response of %q which was not consumed", o.provider)}
	}
	return nil
}

func firstLine(s string) string {
	if i := strings.IndexByte(s, '\n'); i >= 0 {
		s = s[:i]
	}
	if len(s) > 160 {
		s = s[:160]
	}
	return s
}

// ---------------------------------------------------------------------------------------------
// enumeration

func multisets(n int) [][]int {
	var out [][]int
	cur := make([]int, n)
	var rec func(pos, min int)
	rec = func(pos, min int) {
		if pos == n {
			out = append(out, append([]int(nil), cur...))
			return
		}
		for s := min; s < numSyms; s++ {
			cur[pos] = s
			rec(pos+1, s)
		}
	}
	rec(0, 0)
	return out
}

// permutations calls f with every permutation of 0..n-1 (lexicographic); f must not keep the slice.
func permutations(n int, f func([]int)) {
	p := make([]int, n)
	for i := range p {
		p[i] = i
	}
	for {
		f(p)
		i := n - 2
		for i >= 0 && p[i] >= p[i+1] {
			i--
		}
		if i < 0 {
			return
		}
		j := n - 1
		for p[j] <= p[i] {
			j--
		}
		p[i], p[j] = p[j], p[i]
		for a, b := i+1, n-1; a < b; a, b = a+1, b-1 {
			p[a], p[b] = p[b], p[a]
		}
	}
}

type job struct {
	ms []int
	t  int
}

type stats struct {
	cases, executions, transitions    int64
	responses, emptyReturned, errors  int64
	earlyExit, allConsumed            int64
	varied                            int64
	errWithSuccessesBelowT            int64 // guarded branch: error with >=1 success consumed
	nonEmptyWithCompetitor            int64 // a response returned while another non-empty group was consumed too
	emptyWithNonEmptyConsumed         int64
	states                            map[string]struct{}
	outcomes                          map[string]struct{}
	violations                        []ev.Violation
	variedSample, sampleOK, sampleErr interface{}
	sampleEmpty                       interface{}
}

func names(ms []int, order []int) []string {
	out := make([]string, len(order))
	for i, l := range order {
		out[i] = fmt.Sprintf("p%d:%s", l, symNames[ms[l]])
	}
	return out
}

func runJob(pm chainlib.ProtocolMessage, j job, repeats int, st *stats) {
	n := len(j.ms)
	permutations(n, func(order []int) {
		st.cases++
		var first outcome
		var firstSig string
		for r := 0; r < repeats; r++ {
			o := execute(pm, j.ms, order, j.t)
			st.executions++
			st.transitions += int64(len(o.consumed))
			if v := judge(j.ms, order, j.t, &o); v != nil {
				st.violations = append(st.violations, ev.Violation{Key: v.key, What: v.what, Replay: map[string]interface{}{
					"threshold": j.t, "arrival_order": names(j.ms, order), "consumed_labels": o.consumed,
					"returned_error": o.isErr, "returned_data": string(o.data), "returned_provider": o.provider, "error": firstLine(o.errText),
				}})
			}
			if r == 0 {
				first, firstSig = o, o.sig()
			} else if s := o.sig(); s != firstSig {
				st.varied++
				if st.variedSample == nil {
					st.variedSample = map[string]interface{}{"threshold": j.t, "arrival_order": names(j.ms, order), "first": firstSig, "other": s}
				}
				break
			}
		}
		o := first
		k := len(o.consumed)
		if k < n {
			st.earlyExit++
		} else {
			st.allConsumed++
		}
		// state = (n, t, consumed prefix as a symbol sequence)
		var sb strings.Builder
		fmt.Fprintf(&sb, "%d/%d:", n, j.t)
		for i := 0; i < k && i < n; i++ {
			sb.WriteString(symNames[j.ms[order[i]]][:1])
			st.states[sb.String()] = struct{}{}
		}
		gK := groupCounts(j.ms, o.consumed)
		kind := "error"
		sample := map[string]interface{}{"threshold": j.t, "arrival_order": names(j.ms, order), "consumed": k}
		if o.isErr {
			st.errors++
			if gK[symA]+gK[symB]+gK[symC]+gK[symEmpty] > 0 {
				st.errWithSuccessesBelowT++
				if st.sampleErr == nil {
					sample["result"] = "error: " + firstLine(o.errText)
					st.sampleErr = sample
				}
			}
		} else {
			st.responses++
			kind = "data:" + string(o.data)
			sample["result"] = fmt.Sprintf("data %q from %s, agreement %d", o.data, o.provider, o.cvCount)
			if len(o.data) == 0 {
				st.emptyReturned++
				if gK[symA]+gK[symB]+gK[symC] > 0 {
					st.emptyWithNonEmptyConsumed++
					if st.sampleEmpty == nil {
						st.sampleEmpty = sample
					}
				}
			} else {
				others := 0
				for s := symA; s <= symC; s++ {
					if gK[s] > 0 {
						others++
					}
				}
				if others > 1 {
					st.nonEmptyWithCompetitor++
					if st.sampleOK == nil && k == n {
						st.sampleOK = sample
					}
				}
			}
		}
		st.outcomes[fmt.Sprintf("%d|%v|%s", j.t, gK, kind)] = struct{}{}
	})
}

func run(run *ev.Run) {
	utils.SetGlobalLoggingLevel("fatal") // errors are still built by the code under test, only the output is dropped
	maxN, repeats := 5, 4
	if ev.Tier() == "thorough" {
		maxN, repeats = 6, 3
	}
	var jobs []job
	nMultisets := 0
	for n := 1; n <= maxN; n++ {
		for _, ms := range multisets(n) {
			nMultisets++
			for t := 1; t <= n; t++ {
				jobs = append(jobs, job{ms, t})
			}
		}
	}
	workers := runtime.GOMAXPROCS(0)
	if workers > 16 {
		workers = 16
	}
	ch := make(chan job, len(jobs))
	// largest jobs first
	for i := len(jobs) - 1; i >= 0; i-- {
		ch <- jobs[i]
	}
	close(ch)
	results := make([]*stats, workers)
	var wg sync.WaitGroup
	var setupErr error
	var mu sync.Mutex
	for w := 0; w < workers; w++ {
		wg.Add(1)
		go func(w int) {
			defer wg.Done()
			st := &stats{states: map[string]struct{}{}, outcomes: map[string]struct{}{}}
			results[w] = st
			mu.Lock()
			pm, err := newProtocolMessage() // one protocol message per worker
			if err != nil {
				setupErr = err
			}
			mu.Unlock()
			if err != nil {
				return
			}
			for j := range ch {
				runJob(pm, j, repeats, st)
			}
		}(w)
	}
	wg.Wait()
	if setupErr != nil {
		run.Violate(ev.Violation{Key: "harness-setup", What: "cannot build the LAV1 rest protocol message: " + setupErr.Error()})
		return
	}
	tot := &stats{states: map[string]struct{}{}, outcomes: map[string]struct{}{}}
	for _, st := range results {
		tot.cases += st.cases
		tot.executions += st.executions
		tot.transitions += st.transitions
		tot.responses += st.responses
		tot.emptyReturned += st.emptyReturned
		tot.errors += st.errors
		tot.earlyExit += st.earlyExit
		tot.allConsumed += st.allConsumed
		tot.varied += st.varied
		tot.errWithSuccessesBelowT += st.errWithSuccessesBelowT
		tot.nonEmptyWithCompetitor += st.nonEmptyWithCompetitor
		tot.emptyWithNonEmptyConsumed += st.emptyWithNonEmptyConsumed
		for k := range st.states {
			tot.states[k] = struct{}{}
		}
		for k := range st.outcomes {
			tot.outcomes[k] = struct{}{}
		}
		for _, v := range st.violations {
			run.Violate(v)
		}
		if tot.variedSample == nil {
			tot.variedSample = st.variedSample
		}
		if tot.sampleOK == nil {
			tot.sampleOK = st.sampleOK
		}
		if tot.sampleErr == nil {
			tot.sampleErr = st.sampleErr
		}
		if tot.sampleEmpty == nil {
			tot.sampleEmpty = st.sampleEmpty
		}
	}
	run.Set("states", int64(len(tot.states)))
	run.Set("transitions", tot.transitions)
	run.Set("traces_validated_against_impl", tot.cases)
	run.Set("executions", tot.executions)
	run.Set("repeats_per_case", int64(repeats))
	run.Set("multisets", int64(nMultisets))
	run.Set("multiset_threshold_pairs", int64(len(jobs)))
	run.Set("cases", tot.cases)
	run.Set("distinct_outcomes", int64(len(tot.outcomes)))
	run.Set("responses_returned", tot.responses)
	run.Set("empty_response_returned", tot.emptyReturned)
	run.Set("empty_returned_with_nonempty_consumed", tot.emptyWithNonEmptyConsumed)
	run.Set("nonempty_returned_with_competing_group_consumed", tot.nonEmptyWithCompetitor)
	run.Set("errors_returned", tot.errors)
	run.Set("errors_with_successes_below_threshold", tot.errWithSuccessesBelowT)
	run.Set("early_exit_cases", tot.earlyExit)
	run.Set("all_consumed_cases", tot.allConsumed)
	run.Set("result_varied_between_repeats", tot.varied)
	if tot.variedSample != nil {
		run.Set("result_varied_example", tot.variedSample)
	}
	run.Set("exhaustive", true)
	run.Set("bound", fmt.Sprintf("response multisets of size n<=%d over {A,B,C,empty,nodeErr,protoErr} x threshold t in 1..n x all n! arrival permutations of the provider-labelled responses; each case executed %d times on a fresh processor", maxN, repeats))
	run.Set("state_definition", "state = (n, t, sequence of response kinds consumed so far); transition = one response consumed by WaitForResults (counted over all executions, repeats included); trace = one (multiset, threshold, arrival permutation) run through SetResponse* / WaitForResults / ProcessingResult")
	for _, s := range []interface{}{tot.sampleOK, tot.sampleEmpty, tot.sampleErr} {
		if s != nil {
			run.Sample(s)
		}
	}
	run.Assume("arrival order = order in which responses are put into the processor's FIFO response channel before WaitForResults runs (single reader); the set of consumed responses is read back from the real results manager and checked to be a prefix of the arrival order")
	run.Assume("REST protocol message of the LAV1 spec (blocks/17): a 200 reply is a success, a 500 reply a node error, a response with Err set a protocol error; the batch size reported by UsedProviders equals n")
	run.Assume("ties between equally large groups are resolved by ranging over a Go map inside responsesCrossValidation: either answer is accepted; map orders are not controlled here, each case is repeated and variation is recorded (result_varied_between_repeats)")
	run.Assume("clause 'error => no identical successful group reaches t over all sent responses' reads the statement's 'otherwise it returns an error, whatever the order' as an equivalence; all responses are available to the processor before it is asked for the result")
}

func init() {
	reg.Register(reg.Check{Property: "C33", Level: "model_checking", Run: run})
}
