// Package c30: the chain tracker mirrors the node's canonical chain — explicit-state search over node
// behaviours (new blocks, gaps, reorganisations, lagging views, one injected fetch error per poll) with the
// real ChainTracker driven poll by poll against a simulated node. No timers, no goroutines.
package c30

import (
	"context"
	"crypto/sha256"
	"errors"
	"fmt"
	"sort"
	"strings"
	"sync"
	"time"

	"github.com/lavanet/lava/v5/protocol/chaintracker"
	"github.com/lavanet/lava/v5/protocol/lavasession"
	"github.com/lavanet/lava/v5/utils"
	lavarand "github.com/lavanet/lava/v5/utils/rand"
	spectypes "github.com/lavanet/lava/v5/x/spec/types"

	"verifmc/engine/bfs"
	"verifmc/engine/ev"
	"verifmc/engine/reg"
)

const startTip = int64(1000)

// ---------------------------------------------------------------------------------------------
// simulated node: a list of block hashes by height. Every block ever created gets a fresh hash, so
// "equal hash => equal block => equal ancestors" holds as on a real chain.

type node struct {
	base      int64    // height of hashes[0]
	hashes    []string // heights base..tip
	uniq      int
	mem       int64 // 0: archive; otherwise only the last mem blocks are served
	reportLag int64 // the node reports tip-reportLag as its latest (lagging view, one poll only)
	serveAll  bool  // lagging view still serves the blocks above the reported latest
	// per poll
	calls    int
	failAt   int // 1-based index of the fetch call that fails, 0: none
	failed   bool
	belowLog int // fetches below base (must stay 0: the harness keeps enough history)
	// the node reorganises midDepth blocks right after it answered the midAt-th fetch call of the poll (0: never)
	midAt, midDepth int
	midDone         bool
}

func newNode(mem int64, history int64) *node {
	n := &node{base: startTip - history, mem: mem}
	for h := n.base; h <= startTip; h++ {
		n.hashes = append(n.hashes, n.fresh(h))
	}
	return n
}

func (n *node) fresh(h int64) string {
	n.uniq++
	return fmt.Sprintf("H%d.%d", h, n.uniq)
}

func (n *node) tip() int64      { return n.base + int64(len(n.hashes)) - 1 }
func (n *node) reported() int64 { return n.tip() - n.reportLag }

// current canonical hash of height h ("" when the node has no such block)
func (n *node) hashAt(h int64) string {
	if h < n.base || h > n.tip() {
		return ""
	}
	return n.hashes[h-n.base]
}

func (n *node) grow(k int) {
	for i := 0; i < k; i++ {
		n.hashes = append(n.hashes, n.fresh(n.tip()+1))
	}
}

// reorg replaces the top depth blocks by fresh ones
func (n *node) reorg(depth int) {
	if depth > len(n.hashes) {
		panic("harness: reorg deeper than the kept history")
	}
	n.hashes = n.hashes[:len(n.hashes)-depth]
	n.grow(depth)
}

func (n *node) FetchEndpoint() lavasession.RPCProviderEndpoint {
	return lavasession.RPCProviderEndpoint{ChainID: "VRF", ApiInterface: "jsonrpc"}
}

func (n *node) CustomMessage(ctx context.Context, path string, data []byte, connectionType string, apiName string) ([]byte, error) {
	return nil, errors.New("not implemented")
}

func (n *node) inject() error {
	n.calls++
	if n.failAt != 0 && n.calls == n.failAt {
		n.failed = true
		return errors.New("injected temporary fetch error")
	}
	return nil
}

// afterCall runs once the current fetch call has computed its answer.
func (n *node) afterCall() {
	if n.midAt != 0 && n.calls == n.midAt && !n.midDone {
		n.midDone = true
		n.reorg(n.midDepth)
	}
}

func (n *node) FetchLatestBlockNum(ctx context.Context) (int64, error) {
	if err := n.inject(); err != nil {
		return 0, err
	}
	defer n.afterCall()
	return n.reported(), nil
}

func (n *node) FetchBlockHashByNum(ctx context.Context, h int64) (string, error) {
	if err := n.inject(); err != nil {
		return "", err
	}
	if h > n.tip() || (h > n.reported() && !n.serveAll) {
		return "", fmt.Errorf("block %d not found (latest %d)", h, n.reported())
	}
	if n.mem > 0 && h <= n.tip()-n.mem {
		return "", fmt.Errorf("block %d pruned (latest %d, memory %d)", h, n.tip(), n.mem)
	}
	if h < n.base {
		n.belowLog++
		return "", fmt.Errorf("block %d below the simulated history", h)
	}
	res := n.hashes[h-n.base]
	n.afterCall()
	return res, nil
}

// ---------------------------------------------------------------------------------------------
// tracker fixture

type fixture struct {
	m       int64
	nd      *node
	ct      *chaintracker.ChainTracker
	forkLog []int64
	cbLog   []string
}

var setupOnce sync.Once

func setup() {
	setupOnce.Do(func() {
		utils.SetGlobalLoggingLevel("fatal")
		lavarand.SetSpecificSeed(1)
	})
}

func newFixture(m int64, nodeMem int64) (*fixture, error) {
	setup()
	f := &fixture{m: m}
	f.nd = newNode(nodeMem, 4*m+4)
	cfg := chaintracker.ChainTrackerConfig{
		BlocksToSave:          uint64(m),
		AverageBlockTime:      time.Second,
		ServerBlockMemory:     uint64(m) + 20,
		ParseDirectiveEnabled: true,
		ForkCallback:          func(b int64) { f.forkLog = append(f.forkLog, b) },
		NewLatestCallback:     func(from, to int64, hash string) { f.cbLog = append(f.cbLog, fmt.Sprintf("new(%d,%d)", from, to)) },
		ConsistencyCallback:   func(old, b int64) { f.cbLog = append(f.cbLog, fmt.Sprintf("consistency(%d,%d)", old, b)) },
		OldBlockCallback:      func(time.Time) { f.cbLog = append(f.cbLog, "old") },
		FetchErrorCallback:    func() { f.cbLog = append(f.cbLog, "fetcherr") },
	}
	ict, err := chaintracker.NewChainTracker(context.Background(), f.nd, cfg)
	if err != nil {
		return nil, err
	}
	ct, ok := ict.(*chaintracker.ChainTracker)
	if !ok {
		return nil, fmt.Errorf("NewChainTracker returned %T", ict)
	}
	f.ct = ct
	return f, nil
}

type snap struct {
	latest int64
	queue  []chaintracker.BlockStore
}

func (f *fixture) snapshot() snap {
	return snap{latest: f.ct.GetAtomicLatestBlockNum(), queue: f.ct.VerifDumpQueue()}
}

func (s snap) String() string {
	var b strings.Builder
	fmt.Fprintf(&b, "latest=%d [", s.latest)
	for i, e := range s.queue {
		if i > 0 {
			b.WriteString(" ")
		}
		fmt.Fprintf(&b, "%d:%s", e.Block, e.Hash)
	}
	b.WriteString("]")
	return b.String()
}

func (f *fixture) nodeView() string {
	var b strings.Builder
	fmt.Fprintf(&b, "reported=%d tip=%d [", f.nd.reported(), f.nd.tip())
	for h := f.nd.tip() - 2*f.m; h <= f.nd.tip(); h++ {
		fmt.Fprintf(&b, " %d:%s", h, f.nd.hashAt(h))
	}
	b.WriteString(" ]")
	return b.String()
}

func viol(key, what string) ev.Violation {
	return ev.Violation{Property: "C30", Key: key, What: what}
}

// mirror oracle: tracker latest = node latest; exactly m consecutive heights ending there, each hash the
// node's current hash of that height.
func (f *fixture) checkMirror(where string, s snap) []ev.Violation {
	want := f.nd.reported()
	if s.latest != want {
		return []ev.Violation{viol(where+":latest-mismatch", fmt.Sprintf("after a successful %s tracker latest is %d, node latest is %d; tracker %s; node %s", where, s.latest, want, s, f.nodeView()))}
	}
	if l2, _ := f.ct.GetLatestBlockNum(); l2 != want {
		return []ev.Violation{viol(where+":latest-mismatch", fmt.Sprintf("GetLatestBlockNum=%d, node latest %d", l2, want))}
	}
	if int64(len(s.queue)) != f.m {
		return []ev.Violation{viol(where+":queue-length", fmt.Sprintf("after a successful %s the tracker holds %d hashes, configured %d; tracker %s; node %s", where, len(s.queue), f.m, s, f.nodeView()))}
	}
	for i, e := range s.queue {
		wantH := want - f.m + 1 + int64(i)
		if e.Block != wantH {
			return []ev.Violation{viol(where+":queue-not-consecutive", fmt.Sprintf("after a successful %s queue entry %d is height %d, expected %d; tracker %s; node %s", where, i, e.Block, wantH, s, f.nodeView()))}
		}
		if nh := f.nd.hashAt(e.Block); e.Hash != nh {
			return []ev.Violation{viol(where+":stale-hash", fmt.Sprintf("after a successful %s the stored hash of height %d (%d below latest) is %q, the node's current hash is %q; tracker %s; node %s", where, e.Block, want-e.Block, e.Hash, nh, s, f.nodeView()))}
		}
	}
	return nil
}

// query oracle: every (from,to,specific) of the grid returns exactly the requested range plus the specific
// block, ascending, with the stored hashes — or an error.
func (f *fixture) queryArgs(latest int64) [][]int64 {
	rel := []int64{spectypes.NOT_APPLICABLE}
	for k := int64(0); k <= f.m; k++ {
		rel = append(rel, spectypes.LATEST_BLOCK-k)
	}
	abs := []int64{spectypes.NOT_APPLICABLE}
	for k := int64(-1); k <= f.m; k++ {
		abs = append(abs, latest-k)
	}
	return [][]int64{rel, abs}
}

func resolveArg(a, latest int64) int64 {
	if a <= spectypes.LATEST_BLOCK {
		return latest - (spectypes.LATEST_BLOCK - a)
	}
	return a
}

type qstats struct{ ok, errs int64 }

func (f *fixture) checkQueries(where string, s snap, qs *qstats) []ev.Violation {
	stored := map[int64]string{}
	for _, e := range s.queue {
		stored[e.Block] = e.Hash
	}
	for _, args := range f.queryArgs(s.latest) {
		if v := f.checkQueryGrid(s, stored, args, qs); v != nil {
			return v
		}
	}
	return nil
}

func (f *fixture) checkQueryGrid(s snap, stored map[int64]string, args []int64, qs *qstats) []ev.Violation {
	for _, from := range args {
		for _, to := range args {
			for _, spec := range args {
				latest, res, _, err := f.ct.GetLatestBlockData(from, to, spec)
				if err != nil {
					qs.errs++
					continue
				}
				qs.ok++
				desc := func() string {
					return fmt.Sprintf("GetLatestBlockData(from=%d,to=%d,specific=%d) with tracker %s", from, to, spec, s)
				}
				if latest != s.latest {
					return []ev.Violation{viol("query:latest-mismatch", fmt.Sprintf("%s returned latest %d", desc(), latest))}
				}
				wantSet := map[int64]bool{}
				if from != spectypes.NOT_APPLICABLE && to != spectypes.NOT_APPLICABLE {
					for h := resolveArg(from, s.latest); h <= resolveArg(to, s.latest); h++ {
						wantSet[h] = true
					}
				}
				if spec != spectypes.NOT_APPLICABLE {
					wantSet[resolveArg(spec, s.latest)] = true
				}
				var want []int64
				for h := range wantSet {
					want = append(want, h)
				}
				sort.Slice(want, func(i, j int) bool { return want[i] < want[j] })
				var got []string
				bad := len(res) != len(want)
				for i, e := range res {
					if e == nil {
						bad = true
						got = append(got, "nil")
						continue
					}
					got = append(got, fmt.Sprintf("%d:%s", e.Block, e.Hash))
					if bad {
						continue
					}
					if e.Block != want[i] {
						bad = true
					} else if h, ok := stored[e.Block]; !ok || h != e.Hash {
						bad = true
					}
				}
				if bad {
					shape := "range"
					if from == spectypes.NOT_APPLICABLE || to == spectypes.NOT_APPLICABLE {
						shape = "specific-only"
					} else if spec != spectypes.NOT_APPLICABLE {
						shape = "range+specific"
					}
					return []ev.Violation{viol("query:wrong-result:"+shape, fmt.Sprintf("%s returned %v without error, requested heights are %v", desc(), got, want))}
				}
			}
		}
	}
	return nil
}

// fork-callback oracle: fired => some stored hash changed (a height of the queue before the poll whose
// hash differs afterwards, or whose hash is no longer the node's hash of that height).
func (f *fixture) checkFork(before, after snap) []ev.Violation {
	if len(f.forkLog) == 0 {
		return nil
	}
	afterMap := map[int64]string{}
	for _, e := range after.queue {
		afterMap[e.Block] = e.Hash
	}
	for _, e := range before.queue {
		if h, ok := afterMap[e.Block]; ok && h != e.Hash {
			return nil
		}
		if nh := f.nd.hashAt(e.Block); nh != "" && nh != e.Hash {
			return nil
		}
	}
	return []ev.Violation{viol("fork-callback-without-hash-change", fmt.Sprintf("fork callback fired %v but no stored hash changed: before %s, after %s, node %s", f.forkLog, before, after, f.nodeView()))}
}

// ---------------------------------------------------------------------------------------------
// BFS scenario

type action struct {
	name     string
	reorg    int // replace the top reorg blocks
	shrink   int // replace the top shrink+1 blocks by shrink blocks (latest goes back by one on a new branch)
	grow     int
	lag      int64
	serveAll bool
}

type opdef struct {
	name   string
	act    action
	failAt int
	midAt  int // the node reorganises 2 blocks right after answering this fetch call of the poll (0: never)
}

type scen struct {
	m        int64
	nodeMem  int64
	ops      []opdef
	names    []string
	f        *fixture
	resetErr string
	path     []byte            // ops applied since Reset
	queried  map[string]qstats // paths whose final state already passed the (read-only, deterministic) query grid in this process
}

func uniqInts(in []int) []int {
	seen := map[int]bool{}
	var out []int
	for _, x := range in {
		if x > 0 && !seen[x] {
			seen[x] = true
			out = append(out, x)
		}
	}
	return out
}

func newScen(m int64, pruned bool) *scen {
	s := &scen{m: m, queried: map[string]qstats{}}
	if pruned {
		s.nodeMem = m
	}
	M := int(m)
	var acts []action
	acts = append(acts, action{name: "same"})
	for _, g := range uniqInts([]int{1, 2, M - 1, M, M + 1}) {
		acts = append(acts, action{name: fmt.Sprintf("+%d", g), grow: g})
	}
	for r := 1; r <= M+1; r++ {
		for _, g := range append([]int{0}, uniqInts([]int{1, 2, M})...) {
			acts = append(acts, action{name: fmt.Sprintf("reorg%d+%d", r, g), reorg: r, grow: g})
		}
	}
	acts = append(acts, action{name: "reorg2-shrink1", shrink: 1})
	acts = append(acts, action{name: "lag1", lag: 1})
	acts = append(acts, action{name: "lag1-serving", lag: 1, serveAll: true})
	for _, a := range acts {
		for fa := 0; fa <= M+2; fa++ {
			n := a.name
			if fa > 0 {
				n += fmt.Sprintf("|fail@%d", fa)
			}
			s.ops = append(s.ops, opdef{name: n, act: a, failAt: fa})
			s.names = append(s.names, n)
		}
	}
	// the node changes WHILE it is being polled: one new block before the poll, and a reorganisation of its top two
	// blocks right after it answered the k-th fetch call of that poll
	for k := 1; k <= M+2; k++ {
		n := fmt.Sprintf("+1|reorg2-after-call@%d", k)
		s.ops = append(s.ops, opdef{name: n, act: action{name: "+1", grow: 1}, midAt: k})
		s.names = append(s.names, n)
	}
	return s
}

func (s *scen) Ops() []string { return s.names }

func (s *scen) Fork() func() { return nil } // the tracker cannot be copied: the engine replays the path

func (s *scen) Reset() {
	f, err := newFixture(s.m, s.nodeMem)
	s.resetErr = ""
	if err != nil {
		s.resetErr = err.Error()
		s.f = nil
		return
	}
	s.f = f
	s.path = s.path[:0]
	if err := f.ct.VerifFetchInit(context.Background()); err != nil {
		s.resetErr = "initial fetch failed: " + err.Error()
	}
}

func (s *scen) Apply(op int) bfs.Step {
	if s.resetErr != "" {
		return bfs.Step{Accepted: true, Prune: true, Obs: "reset-error", Viol: []ev.Violation{viol("harness:reset", s.resetErr)}}
	}
	o := s.ops[op]
	f := s.f
	nd := f.nd
	s.path = append(s.path, byte(op>>8), byte(op))
	// node action
	nd.reportLag, nd.serveAll = 0, false
	switch {
	case o.act.shrink > 0:
		nd.hashes = nd.hashes[:len(nd.hashes)-(o.act.shrink+1)]
		nd.grow(o.act.shrink)
	default:
		if o.act.reorg > 0 {
			nd.reorg(o.act.reorg)
		}
		nd.grow(o.act.grow)
	}
	nd.reportLag, nd.serveAll = o.act.lag, o.act.serveAll

	before := f.snapshot()
	nd.calls, nd.failAt, nd.failed = 0, o.failAt, false
	nd.midAt, nd.midDepth, nd.midDone = o.midAt, 2, false
	f.forkLog, f.cbLog = nil, nil
	err := f.ct.VerifPoll(context.Background())
	after := f.snapshot()
	if o.failAt > 0 && !nd.failed {
		// the poll made fewer fetch calls than the injection index: same behaviour as the op without injection
		return bfs.Step{Accepted: false, Obs: "inject-unreached"}
	}
	nd.midAt = 0
	if o.midAt > 0 {
		if !nd.midDone {
			return bfs.Step{Accepted: false, Obs: "mid-poll-reorg-unreached"}
		}
		if nd.belowLog > 0 {
			return bfs.Step{Accepted: true, Prune: true, Obs: "harness-history", Viol: []ev.Violation{viol("harness:history-too-short", "the tracker asked for a block below the simulated history")}}
		}
		// the poll raced with the node: what the tracker holds right now may be a mix of both views; nothing is demanded
		// of this poll, the following polls (on a node that is quiet again) must bring the tracker back in line
		return bfs.Step{Accepted: true, Obs: "raced-with-reorg"}
	}
	if nd.belowLog > 0 {
		return bfs.Step{Accepted: true, Prune: true, Obs: "harness-history", Viol: []ev.Violation{viol("harness:history-too-short", "the tracker asked for a block below the simulated history")}}
	}
	if v := f.checkFork(before, after); v != nil {
		return bfs.Step{Accepted: true, Obs: "fork-spurious", Viol: v}
	}
	forked := ""
	if len(f.forkLog) > 0 {
		forked = "+forkcb"
	}
	if err != nil {
		changed := ""
		if before.String() != after.String() {
			changed = "-state-changed"
		}
		return bfs.Step{Accepted: true, Obs: "poll-error" + changed + forked}
	}
	if nd.reported() < before.latest {
		// the node's latest went back: outside the node behaviours the property quantifies over. The poll
		// returns nil while the tracker keeps its state; nothing is demanded here, later polls are checked.
		kept := "-kept"
		if before.String() != after.String() {
			kept = "-changed"
		}
		return bfs.Step{Accepted: true, Obs: "ok-node-went-back" + kept + forked}
	}
	if v := f.checkMirror("poll", after); v != nil {
		return bfs.Step{Accepted: true, Obs: "mirror-violation", Viol: v}
	}
	// the query grid is read-only and the history is deterministic: when the engine replays a path whose
	// final state already passed the grid in this process, the grid is not run again
	qs, done := s.queried[string(s.path)]
	if !done {
		if v := f.checkQueries("poll", after, &qs); v != nil {
			return bfs.Step{Accepted: true, Obs: "query-violation", Viol: v}
		}
		if len(s.queried) > 200000 {
			s.queried = map[string]qstats{}
		}
		s.queried[string(s.path)] = qs
	}
	return bfs.Step{Accepted: true, Obs: fmt.Sprintf("ok-fetches=%d%s-queries(ok=%d,err=%d)", nd.calls, forked, qs.ok, qs.errs)}
}

// Hash: the tracker only compares its stored hashes with the node's hashes of the same heights and all
// arithmetic is on height differences, so the state is taken modulo translation of heights and renaming
// of hashes: distance node tip - tracker latest, and per stored entry its offset and whether it still
// equals the node's current hash (a stale hash can never match again: every new block has a fresh hash).
func (s *scen) Hash() []byte {
	h := sha256.New()
	if s.f == nil {
		fmt.Fprint(h, "nofixture")
		return h.Sum(nil)[:16]
	}
	sn := s.f.snapshot()
	fmt.Fprintf(h, "lag=%d;n=%d;", s.f.nd.tip()-sn.latest, len(sn.queue))
	for _, e := range sn.queue {
		st := "stale"
		nh := s.f.nd.hashAt(e.Block)
		if nh == "" {
			st = "absent"
		} else if nh == e.Hash {
			st = "same"
		}
		fmt.Fprintf(h, "%d:%s;", e.Block-sn.latest, st)
	}
	return h.Sum(nil)[:16]
}

// ---------------------------------------------------------------------------------------------
// initial fetch with one injected error at every position (enumerated, not part of the BFS)

func runInit(run *ev.Run, ms []int64) {
	var evals, okInits, failedInits int64
	var qs qstats
	for _, m := range ms {
		for _, pruned := range []bool{false, true} {
			for failAt := 0; failAt <= int(2*m)+4; failAt++ {
				nm := int64(0)
				if pruned {
					nm = m
				}
				f, err := newFixture(m, nm)
				if err != nil {
					run.Violate(viol("harness:init", err.Error()))
					return
				}
				f.nd.failAt = failAt
				err = f.ct.VerifFetchInit(context.Background())
				evals++
				if err != nil {
					failedInits++
					continue
				}
				okInits++
				sn := f.snapshot()
				vs := f.checkMirror("init", sn)
				if vs == nil {
					vs = f.checkQueries("init", sn, &qs)
				}
				for _, v := range vs {
					v.Replay = map[string]interface{}{"phase": "initial fetch", "blocksToSave": m, "pruned_node": pruned, "fail_at_fetch_call": failAt, "what": v.What}
					run.Violate(v)
				}
				if len(f.forkLog) > 0 {
					run.Violate(viol("init:fork-callback", "fork callback fired during the initial fetch"))
				}
			}
		}
	}
	run.Set("init.evaluations", evals)
	run.Set("init.successful", okInits)
	run.Set("init.failed", failedInits)
	run.Set("init.queries_ok", qs.ok)
	run.Set("init.queries_error", qs.errs)
}

func scenName(m int64, pruned bool) string {
	if pruned {
		return fmt.Sprintf("c30/m%d-pruned", m)
	}
	return fmt.Sprintf("c30/m%d", m)
}

func init() {
	for _, m := range []int64{3, 4, 5} {
		for _, pruned := range []bool{false, true} {
			m, pruned := m, pruned
			bfs.Register(scenName(m, pruned), func() bfs.Scenario { return newScen(m, pruned) })
		}
	}
	reg.Register(reg.Check{Property: "C30", Level: "model_checking", Run: func(run *ev.Run) {
		depth := 4
		ms := []int64{3, 4}
		budget := 200 * time.Second // far above the expected ~15 s; only reached on an overloaded machine
		if ev.Tier() == "thorough" {
			depth = 10
			ms = []int64{3, 4, 5}
			budget = 14 * time.Minute
		}
		start := time.Now()
		runInit(run, ms)
		exh := true
		left := 2 * len(ms)
		var qgrid []string
		for _, m := range ms {
			for _, pruned := range []bool{false, true} {
				name := scenName(m, pruned)
				remaining := budget - time.Since(start)
				if remaining < time.Second {
					remaining = time.Second
				}
				// the frontier is small (tens of states): 8 workers are enough and keep process start-up cheap
				cfg := bfs.Config{Scenario: name, MaxDepth: depth, Deadline: remaining / time.Duration(left), Workers: 8}
				left--
				st := bfs.Explore(cfg, run)
				bfs.Report(run, strings.TrimPrefix(name, "c30/"), cfg, st)
				exh = exh && st.Exhaustive
			}
			qgrid = append(qgrid, fmt.Sprintf("m=%d: %d^3+%d^3", m, m+2, m+3))
		}
		run.Set("exhaustive", exh)
		run.Set("bound", fmt.Sprintf("blocksToSave in %v, archive node and node pruned to blocksToSave blocks; all sequences of up to %d polls; before each poll the node does one of: nothing, +1/+2/+(m-1)/+m/+(m+1) blocks, reorg of depth 1..m+1 with 0/1/2/m new blocks on top, reorg of depth 2 onto a branch one block shorter, reports latest-1 (with/without serving the block above), or produces one block and reorganises its top two blocks right after answering the k-th fetch call of the poll (k=1..m+2); each poll without error or with one injected fetch error at the i-th fetch call for every i; after every successful poll all (from,to,specific) over {NOT_APPLICABLE, LATEST-k (k=0..m)} and all over {NOT_APPLICABLE, absolute latest-k (k=-1..m)} (%s); initial fetch with one injected error at every call position", ms, depth, strings.Join(qgrid, ", ")))
		run.Assume("one node state per poll: the node does not change while a poll is running")
		run.Assume("every block ever produced has a fresh hash (equal hash => equal block => equal ancestors); a branch that was reorganised away does not come back")
		run.Assume("states are merged modulo translation of heights and renaming of hashes (the tracker only compares hashes of equal heights and uses height differences)")
		run.Assume("polls at which the node reports a latest below the tracker's latest are outside the property's node behaviours: nothing is demanded of that poll, the following polls are checked")
		run.Assume("callbacks are invoked synchronously by the poll; wall-clock values (latestChangeTime, block gaps) are not observed")
	}})
}
