// Package c12: subscriptions live exactly as long as paid for — BFS over purchase / expiry histories on the
// real subscription + plans + projects keepers against a small reference model (months remaining, pending
// advance purchase, exact charges, month length, monthly CU bounds).
package c12

import (
	"fmt"
	"os"
	"strconv"
	"strings"
	"time"

	sdk "github.com/cosmos/cosmos-sdk/types"
	"github.com/lavanet/lava/v5/testutil/common"
	"github.com/lavanet/lava/v5/utils/sigs"
	planstypes "github.com/lavanet/lava/v5/x/plans/types"
	subscriptiontypes "github.com/lavanet/lava/v5/x/subscription/types"

	"verifmc/engine/bfs"
	"verifmc/engine/chain"
	"verifmc/engine/ev"
	"verifmc/engine/reg"
)

const (
	kBuy = iota
	kAdvance
	kAutoRenew
	kPlanAdd
	kChargeCu
	kBefore
	kAfter
	kEpoch
	kDrain
	kFund
)

type opdef struct {
	name   string
	kind   int
	plan   string
	months int
	auto   bool
	cu     uint64
}

// model is the reference model written from the property statement.
type model struct {
	exists  bool
	months  int    // monthly expiries the subscription still has to survive
	plan    string // plan index the subscription is on
	hasFut  bool   // pending advance purchase
	futPlan string
	futMon  int
	futPaid int64 // what was paid for the pending advance purchase
	expiry  int64 // last observed month expiry (unix seconds) of the subscription
}

type scen struct {
	m0    model // model at the start state (zero for the plain fixture)
	w     *chain.World
	ops   []opdef
	names []string
	cons  sigs.Account
	sink  sigs.Account
	plans map[string]planstypes.Plan
	m     model
}

const drainLeave = 120

func mkPlan(index string, price int64, totalCu uint64, discount uint64) planstypes.Plan {
	p := common.CreateMockPlan()
	p.Index = index
	p.Price = sdk.NewCoin(p.Price.Denom, sdk.NewInt(price))
	p.AnnualDiscountPercentage = discount
	p.PlanPolicy.TotalCuLimit = totalCu
	p.PlanPolicy.EpochCuLimit = totalCu / 10
	return p
}

var opTable = []opdef{
	{name: "buy(A,1m)", kind: kBuy, plan: "a", months: 1},
	{name: "buy(A,1m,autoRenew)", kind: kBuy, plan: "a", months: 1, auto: true},
	{name: "buy(A,2m)", kind: kBuy, plan: "a", months: 2},
	{name: "buy(A,12m)", kind: kBuy, plan: "a", months: 12},
	{name: "buy(B,1m)", kind: kBuy, plan: "b", months: 1},
	{name: "advance(A,1m)", kind: kAdvance, plan: "a", months: 1},
	{name: "advance(B,2m)", kind: kAdvance, plan: "b", months: 2},
	{name: "autoRenewal(on)", kind: kAutoRenew, auto: true},
	{name: "autoRenewal(on,B)", kind: kAutoRenew, auto: true, plan: "b"},
	{name: "autoRenewal(off)", kind: kAutoRenew},
	{name: "gov:plan-add(A,new version: price 150, cu 1500)", kind: kPlanAdd, plan: "a"},
	{name: "use-cu(300)", kind: kChargeCu, cu: 300},
	{name: "use-cu(5000)", kind: kChargeCu, cu: 5000},
	{name: "->5s-before-month-expiry", kind: kBefore},
	{name: "->5s-after-month-expiry", kind: kAfter},
	{name: "->next-epoch", kind: kEpoch},
	{name: "creator-drains-funds(leaves 120)", kind: kDrain},
	{name: "creator-receives-funds(+1000)", kind: kFund},
}

// build creates the world; startDay != 0 moves the chain to 2025-01-<startDay> 12:00:00 UTC first.
func build(startDay int, prefix ...string) *scen {
	s := &scen{plans: map[string]planstypes.Plan{}}
	w := chain.NewWorld()
	s.w = w
	a, b := mkPlan("a", 100, 1000, 10), mkPlan("b", 200, 2000, 0)
	s.plans["a"], s.plans["b"] = a, b
	w.StdFixture(chain.StdOpts{Providers: 0, Consumers: 0, Plan: &a})
	w.Must("add plan B", w.AddPlanGov(false, b))
	s.cons, _ = w.AddAccount(common.CONSUMER, 0, 10000000)
	s.sink, _ = w.AddAccount(common.CONSUMER, 1, 0)
	if startDay != 0 {
		target := time.Date(2025, time.January, startDay, 12, 0, 0, 0, time.UTC)
		if p := w.NextBlock(target.Sub(w.Ctx.BlockTime())); p != "" {
			panic("fixture: " + p)
		}
	}
	if p := w.AdvanceToNextEpoch(chain.BlockDt); p != "" {
		panic("fixture: " + p)
	}
	w.MarkFixture()
	s.ops = opTable
	for _, o := range s.ops {
		s.names = append(s.names, o.name)
	}
	for _, name := range prefix {
		idx := -1
		for i, n := range s.names {
			if n == name {
				idx = i
			}
		}
		if idx < 0 {
			panic("c12: unknown prefix op " + name)
		}
		if st := s.Apply(idx); !st.Accepted || len(st.Viol) > 0 {
			panic(fmt.Sprintf("fixture: prefix op %s: %+v", name, st))
		}
	}
	if len(prefix) > 0 {
		w.MarkFixture()
		s.m0 = s.m
	}
	return s
}

func (s *scen) Ops() []string { return s.names }
func (s *scen) Reset()        { s.w.Reset(); s.m = s.m0 }
func (s *scen) Fork() func() {
	r := s.w.Fork()
	m := s.m
	return func() { r(); s.m = m }
}
func (s *scen) Hash() []byte {
	return append(s.w.StateHash(), []byte(fmt.Sprintf("%+v", s.m))...)
}

func (s *scen) nextEpoch() uint64 {
	w := s.w
	ne, err := w.Keepers.Epochstorage.GetNextEpoch(w.Ctx, uint64(w.Ctx.BlockHeight()))
	if err != nil {
		return uint64(w.Ctx.BlockHeight())
	}
	return ne
}

// latest: the most recent version of the subscription (including one that takes effect at the next epoch;
// removals and upgrades are scheduled for the next epoch start), the way CreateSubscription looks it up.
func (s *scen) latest() (subscriptiontypes.Subscription, bool) {
	sub, _, found := s.w.Keepers.Subscription.GetSubscriptionForBlock(s.w.Ctx, s.cons.Addr.String(), s.nextEpoch())
	return sub, found
}

func (s *scen) balance() int64 { return s.w.Balance(s.cons.Addr) }

// price: what the property says a purchase of `months` of the current version of plan costs.
func (s *scen) price(plan string, months int) (int64, bool) {
	p, ok := s.w.Keepers.Plans.FindPlan(s.w.Ctx, plan, uint64(s.w.Ctx.BlockHeight()))
	if !ok {
		return 0, false
	}
	total := p.Price.Amount.Int64() * int64(months)
	if months >= 12 {
		total = total * int64(100-p.AnnualDiscountPercentage) / 100
	}
	return total, true
}

// refNextMonth: same time of day on the same day of the next calendar month, days 29-31 counted as day 28.
func refNextMonth(t time.Time) int64 {
	t = t.UTC()
	d := t.Day()
	if d > 28 {
		d = 28
	}
	return time.Date(t.Year(), t.Month(), d, t.Hour(), t.Minute(), t.Second(), 0, time.UTC).AddDate(0, 1, 0).Unix()
}

func viol(key, what string) ev.Violation { return ev.Violation{Property: "C12", Key: key, What: what} }

// invariants that hold after every operation
func (s *scen) always(phase string) []ev.Violation {
	w := s.w
	var out []ev.Violation
	lat, found := s.latest()
	if found != s.m.exists {
		out = append(out, viol("existence-mismatch:"+phase, fmt.Sprintf("after %s: subscription exists=%v but by the months paid for it should exist=%v (model months remaining %d)", phase, found, s.m.exists, s.m.months)))
		return out
	}
	_, perr := w.Keepers.Projects.GetProjectForDeveloper(w.Ctx, s.cons.Addr.String(), s.nextEpoch())
	if (perr == nil) != found {
		out = append(out, viol("projects-mismatch:"+phase, fmt.Sprintf("after %s: subscription exists=%v but its admin project found=%v", phase, found, perr == nil)))
	}
	if !found {
		return out
	}
	if int(lat.DurationLeft) != s.m.months {
		out = append(out, viol("duration-left-mismatch:"+phase, fmt.Sprintf("after %s: DurationLeft=%d, months paid for and not yet consumed=%d", phase, lat.DurationLeft, s.m.months)))
	}
	if (lat.FutureSubscription != nil) != s.m.hasFut {
		out = append(out, viol("advance-purchase-mismatch:"+phase, fmt.Sprintf("after %s: pending advance purchase present=%v, expected=%v", phase, lat.FutureSubscription != nil, s.m.hasFut)))
	}
	for _, blk := range []uint64{uint64(w.Ctx.BlockHeight()), s.nextEpoch()} {
		if sub, _, ok := w.Keepers.Subscription.GetSubscriptionForBlock(w.Ctx, s.cons.Addr.String(), blk); ok && sub.MonthCuLeft > sub.MonthCuTotal {
			out = append(out, viol("month-cu-out-of-bounds:"+phase, fmt.Sprintf("after %s: MonthCuLeft=%d > MonthCuTotal=%d", phase, sub.MonthCuLeft, sub.MonthCuTotal)))
		}
	}
	// month length: whenever the month expiry moves, it must be one calendar month after the moment it was set
	if int64(lat.MonthExpiryTime) != s.m.expiry {
		now := w.Ctx.BlockTime()
		want := refNextMonth(now)
		got := int64(lat.MonthExpiryTime)
		days := float64(got-now.Unix()) / 86400
		if got != want || days < 28 || days > 31 {
			out = append(out, viol("month-length:"+phase, fmt.Sprintf("after %s at %s: month expiry set to %s (%.2f days ahead), expected %s", phase, now.Format(time.RFC3339), time.Unix(got, 0).UTC().Format(time.RFC3339), days, time.Unix(want, 0).UTC().Format(time.RFC3339))))
		}
		s.m.expiry = got
	}
	return out
}

func step(obs string, v []ev.Violation) bfs.Step {
	if len(v) > 0 {
		return bfs.Step{Accepted: true, Obs: "violation", Viol: v}
	}
	return bfs.Step{Accepted: true, Obs: obs}
}

func (s *scen) blockPanic(p string) bfs.Step {
	l := firstLine(p)
	if chain.IsMockBankPanic(p) {
		return bfs.Step{Accepted: true, Obs: "block-panic-bank", Viol: []ev.Violation{viol("block-panic-overdraft", "block processing tried to overdraw an account (mock bank panic): "+l)}}
	}
	return bfs.Step{Accepted: true, Obs: "block-panic", Viol: []ev.Violation{{Property: "C37", Key: "block-panic:" + l, What: "panic in block processing: " + l}}}
}

// blockStep produces one block dt later and evaluates the model: the subscription's month expiry occurs in
// the first block whose time is at or after the expiry; before that nothing may change.
// cause is "" when no expiry occurred in this block.
func (s *scen) blockStep(dt time.Duration) (panicMsg string, cause string, v []ev.Violation) {
	w := s.w
	before, had := s.latest()
	bal0 := s.balance()
	autoOn := had && before.IsAutoRenewalOn()
	nextPlan := before.AutoRenewalNextPlan
	if p := w.NextBlock(dt); p != "" {
		return p, "", nil
	}
	paid := bal0 - s.balance()
	if !had || w.Ctx.BlockTime().Unix() < int64(before.MonthExpiryTime) {
		if paid != 0 {
			v = append(v, viol("charge-without-purchase:block", fmt.Sprintf("creator balance moved by %d in a block without a month expiry", -paid)))
		}
		if had {
			after, has := s.latest()
			if !has || after.DurationLeft != before.DurationLeft || after.MonthExpiryTime != before.MonthExpiryTime || after.MonthCuLeft != before.MonthCuLeft {
				v = append(v, viol("early-expiry", fmt.Sprintf("%d s before the month expiry the subscription changed: exists=%v DurationLeft %d->%d, MonthCuLeft %d->%d, expiry %d->%d", int64(before.MonthExpiryTime)-w.Ctx.BlockTime().Unix(), has, before.DurationLeft, after.DurationLeft, before.MonthCuLeft, after.MonthCuLeft, before.MonthExpiryTime, after.MonthExpiryTime)))
			}
		}
		return "", "", append(v, s.always("block")...)
	}
	// ---- a month expiry occurred in this block
	pending := ""
	if before.Block > uint64(w.Ctx.BlockHeight()) {
		// the most recent version of the subscription is scheduled for the next epoch start and not in force yet:
		// the chain produced no epoch start between the previous change (upgrade / month boundary) and this expiry
		pending = "+pending-version"
	}
	cause = "continue"
	if s.m.months > 0 {
		s.m.months--
	}
	if s.m.months == 0 {
		switch {
		case s.m.hasFut:
			cause = "advance-activation"
			s.m.months, s.m.plan = s.m.futMon, s.m.futPlan
			s.m.hasFut, s.m.futPlan, s.m.futMon, s.m.futPaid = false, "", 0, 0
			if paid != 0 {
				v = append(v, viol("charge-mismatch:advance-activation", fmt.Sprintf("activating an advance purchase charged the creator %d again", paid)))
			}
		case autoOn:
			cause = "renewal"
			price, planOK := s.price(nextPlan, 1)
			switch {
			case planOK && paid == price:
				s.m.months, s.m.plan = 1, nextPlan
			case paid == 0:
				cause = "renewal-failed"
				s.m.exists = false
				if planOK && bal0 >= price {
					v = append(v, viol("renewal-refused-with-funds", fmt.Sprintf("auto-renewal onto plan %s (price %d) did not happen although the creator had %d", nextPlan, price, bal0)))
				}
			default:
				v = append(v, viol("charge-mismatch:renewal", fmt.Sprintf("auto-renewal onto plan %s charged %d, the plan's price for one month is %d (found=%v)", nextPlan, paid, price, planOK)))
				s.m.months, s.m.plan = 1, nextPlan
			}
		default:
			cause = "expired"
			s.m.exists = false
			if paid != 0 {
				v = append(v, viol("charge-without-purchase:expiry", fmt.Sprintf("expiry charged the creator %d", paid)))
			}
		}
	} else if paid != 0 {
		v = append(v, viol("charge-without-purchase:month", fmt.Sprintf("a month boundary with %d paid months left charged the creator %d", s.m.months, paid)))
	}
	if !s.m.exists {
		s.m = model{}
	}
	cause += pending
	v = append(v, s.always("month-expiry("+cause+")")...)
	if len(v) == 0 && s.m.exists {
		after, _ := s.latest()
		if after.MonthCuLeft != after.MonthCuTotal {
			v = append(v, viol("month-cu-not-reset:"+cause, fmt.Sprintf("after the month boundary (%s) MonthCuLeft=%d, MonthCuTotal=%d", cause, after.MonthCuLeft, after.MonthCuTotal)))
		}
		if plan, ok := w.Keepers.Plans.FindPlan(w.Ctx, after.PlanIndex, after.PlanBlock); ok && after.MonthCuTotal != plan.PlanPolicy.TotalCuLimit {
			v = append(v, viol("month-cu-total-not-plan-total:"+cause, fmt.Sprintf("after the month boundary (%s) the subscription is on plan %s@%d whose monthly CU total is %d, but its MonthCuTotal/MonthCuLeft were reset to %d", cause, after.PlanIndex, after.PlanBlock, plan.PlanPolicy.TotalCuLimit, after.MonthCuTotal)))
		}
		if after.PlanIndex != s.m.plan {
			v = append(v, viol("plan-mismatch:"+cause, fmt.Sprintf("after the month boundary (%s) the subscription is on plan %s, expected %s", cause, after.PlanIndex, s.m.plan)))
		}
	}
	return "", cause, v
}

func (s *scen) Apply(op int) bfs.Step {
	o := s.ops[op]
	w := s.w
	addr := s.cons.Addr.String()
	before, had := s.latest()
	bal0 := s.balance()
	switch o.kind {
	case kEpoch:
		start := w.EpochStartNow()
		obs := "epoch"
		for i := 0; i < 100 && w.EpochStartNow() == start; i++ {
			p, cause, v := s.blockStep(chain.BlockDt)
			if p != "" {
				return s.blockPanic(p)
			}
			if len(v) > 0 {
				return step("", v)
			}
			if cause != "" {
				obs = "epoch+expiry:" + cause
			}
		}
		return step(obs, nil)

	case kBefore, kAfter:
		if !had {
			return bfs.Step{Accepted: false, Obs: "jump-no-sub"}
		}
		off := 5 * time.Second
		if o.kind == kBefore {
			off = -off
		}
		dt := time.Unix(int64(before.MonthExpiryTime), 0).Add(off).Sub(w.Ctx.BlockTime())
		if dt <= 0 {
			return bfs.Step{Accepted: false, Obs: "jump-too-late"}
		}
		p, cause, v := s.blockStep(dt)
		if p != "" {
			return s.blockPanic(p)
		}
		if o.kind == kBefore {
			return step("before-expiry", v)
		}
		return step("after-expiry:"+cause, v)

	case kBuy, kAdvance:
		price, planOK := s.price(o.plan, o.months)
		res := w.Buy(s.cons, s.cons, o.plan, o.months, o.auto, o.kind == kAdvance)
		if res.Panic != "" {
			return bfs.Step{Accepted: false, Obs: "tx-panic", Viol: []ev.Violation{viol("tx-panic:"+o.name, o.name+" panicked: "+firstLine(res.Panic))}}
		}
		if !res.OK() {
			return bfs.Step{Accepted: false, Obs: "buy-rejected"}
		}
		paid := bal0 - s.balance()
		var v []ev.Violation
		kind := ""
		want := price
		if o.kind == kAdvance {
			kind = "advance"
			if s.m.hasFut {
				kind = "advance-replace"
				want = price - s.m.futPaid
			}
			s.m.hasFut, s.m.futPlan, s.m.futMon, s.m.futPaid = true, o.plan, o.months, price
		} else {
			switch {
			case !s.m.exists:
				kind = "buy-new"
				s.m = model{exists: true, months: o.months, plan: o.plan}
			case s.m.plan == o.plan:
				kind = "extend"
				s.m.months += o.months
			default:
				kind = "upgrade"
				s.m.months, s.m.plan = o.months, o.plan
			}
		}
		if !planOK || paid != want {
			v = append(v, viol("charge-mismatch:"+kind, fmt.Sprintf("%s (%s) charged the creator %d, expected %d (plan price x months after the annual discount%s)", o.name, kind, paid, want, map[bool]string{true: ", minus what was paid for the replaced advance purchase", false: ""}[kind == "advance-replace"])))
		}
		v = append(v, s.always(kind)...)
		return step(kind, v)

	case kAutoRenew:
		res := w.Tx(func() error {
			msg := &subscriptiontypes.MsgAutoRenewal{Creator: addr, Consumer: addr, Enable: o.auto, Index: o.plan}
			if err := msg.ValidateBasic(); err != nil {
				return err
			}
			_, err := w.Servers.SubscriptionServer.AutoRenewal(w.GoCtx, msg)
			return err
		})
		if res.Panic != "" {
			return bfs.Step{Accepted: false, Obs: "tx-panic", Viol: []ev.Violation{viol("tx-panic:"+o.name, o.name+" panicked: "+firstLine(res.Panic))}}
		}
		if !res.OK() {
			return bfs.Step{Accepted: false, Obs: "autorenew-rejected"}
		}
		var v []ev.Violation
		if d := s.balance() - bal0; d != 0 {
			v = append(v, viol("charge-without-purchase:autorenew", fmt.Sprintf("%s moved the creator balance by %d", o.name, d)))
		}
		return step("autorenew", append(v, s.always("auto-renewal-change")...))

	case kPlanAdd:
		p := s.plans[o.plan]
		p.Price = sdk.NewCoin(p.Price.Denom, sdk.NewInt(150))
		p.PlanPolicy.TotalCuLimit = 1500
		p.PlanPolicy.EpochCuLimit = 150
		res := w.AddPlanGov(false, p)
		if !res.OK() {
			return bfs.Step{Accepted: false, Obs: "plan-add-rejected"}
		}
		return step("plan-add", s.always("plan-add"))

	case kChargeCu:
		if _, ok := w.Keepers.Subscription.GetSubscription(w.Ctx, addr); !ok {
			return bfs.Step{Accepted: false, Obs: "use-cu-no-sub"}
		}
		res := w.Tx(func() error {
			_, err := w.Keepers.Subscription.ChargeComputeUnitsToSubscription(w.Ctx, addr, uint64(w.Ctx.BlockHeight()), o.cu)
			return err
		})
		if !res.OK() {
			return bfs.Step{Accepted: false, Obs: "use-cu-rejected"}
		}
		return step("use-cu", s.always("use-cu"))

	case kFund:
		res := w.Tx(func() error {
			amt := sdk.NewCoins(sdk.NewCoin(w.TokenDenom(), sdk.NewInt(1000)))
			if err := w.Keepers.BankKeeper.SubFromBalance(s.sink.Addr, amt); err != nil {
				return err
			}
			return w.Keepers.BankKeeper.AddToBalance(s.cons.Addr, amt)
		})
		if !res.OK() {
			return bfs.Step{Accepted: false, Obs: "fund-rejected"}
		}
		return step("fund", s.always("fund"))
	case kDrain:
		if bal0 <= drainLeave {
			return bfs.Step{Accepted: false, Obs: "drain-nothing"}
		}
		res := w.Tx(func() error {
			// a plain bank send (the mock bank has no SendCoins)
			amt := sdk.NewCoins(sdk.NewCoin(w.TokenDenom(), sdk.NewInt(bal0-drainLeave)))
			if err := w.Keepers.BankKeeper.SubFromBalance(s.cons.Addr, amt); err != nil {
				return err
			}
			return w.Keepers.BankKeeper.AddToBalance(s.sink.Addr, amt)
		})
		if !res.OK() {
			return bfs.Step{Accepted: false, Obs: "drain-rejected"}
		}
		return step("drain", s.always("drain"))
	}
	panic("unknown op")
}

// deadlineScale: VERIF_DEADLINE_SCALE=<n> stretches the internal deadlines (development aid for measuring
// the full bound on a loaded machine); the default is 1.
func deadlineScale(d time.Duration) time.Duration {
	if n, err := strconv.Atoi(os.Getenv("VERIF_DEADLINE_SCALE")); err == nil && n > 1 {
		return d * time.Duration(n)
	}
	return d
}

func firstLine(s string) string {
	if i := strings.IndexByte(s, '\n'); i >= 0 {
		return s[:i]
	}
	return s
}

func init() {
	variants := []struct {
		name string
		day  int
	}{{"may01", 0}, {"jan29", 29}, {"jan30", 30}, {"jan31", 31}}
	for _, v := range variants {
		v := v
		bfs.Register("c12/"+v.name, func() bfs.Scenario { return build(v.day) })
	}
	// start state: an auto-renewing subscription was renewed once and then removed because its creator could not pay
	// the second renewal; the creator has received funds again
	bfs.Register("c12/renewal-failed", func() bfs.Scenario {
		return build(0, "buy(A,1m,autoRenew)", "creator-drains-funds(leaves 120)", "->5s-after-month-expiry", "->5s-after-month-expiry", "->next-epoch", "creator-receives-funds(+1000)")
	})
	reg.Register(reg.Check{Property: "C12", Level: "model_checking", Run: func(run *ev.Run) {
		type job struct {
			name     string
			depth    int
			deadline time.Duration
		}
		jobs := []job{{"may01", 5, 50 * time.Second}, {"jan31", 4, 20 * time.Second}, {"renewal-failed", 4, 30 * time.Second}}
		if ev.Tier() == "thorough" {
			jobs = []job{{"may01", 7, 10 * time.Minute}, {"jan29", 5, 75 * time.Second}, {"jan30", 5, 75 * time.Second}, {"jan31", 5, 75 * time.Second}, {"renewal-failed", 6, 3 * time.Minute}}
		}
		exh := true
		var bounds []string
		for _, j := range jobs {
			cfg := bfs.Config{Scenario: "c12/" + j.name, MaxDepth: j.depth, Deadline: deadlineScale(j.deadline)}
			st := bfs.Explore(cfg, run)
			bfs.Report(run, j.name, cfg, st)
			exh = exh && st.Exhaustive
			bounds = append(bounds, fmt.Sprintf("%s: depth %d", j.name, j.depth))
		}
		run.Set("exhaustive", exh)
		run.Set("bound", fmt.Sprintf("all histories up to the stated depth over %d ops (buy A 1/2/12 months with/without auto-renewal, buy B = upgrade, advance purchase A 1m / B 2m, auto-renewal on / on with plan B / off, new version of plan A with another price and CU total, use 300 / 5000 CU, jump to 5 s before / 5 s after the month expiry, next epoch, creator drains funds, creator receives funds); a further start state follows a failed auto-renewal; chain start dates %s; plans A (100, 10%% annual discount, 1000 CU) and B (200, no discount, 2000 CU)", len(opTable), strings.Join(bounds, ", ")))
		run.Assume("mock bank/account keeper of testutil/keeper; transactions atomic as in baseapp (emulated by the driver); one consumer who is also the creator/payer; the subscription is observed in its most recent version (changes scheduled for the next epoch start included); CU is consumed through Keeper.ChargeComputeUnitsToSubscription (the call relay payment makes)")
	}})
}
