// Package c32: archive routing follows the configured block rule — bounded-exhaustive grid of
// (rule, latest block, requested block, method) through the real JsonRPCChainParser built from the
// checked-in Ethereum spec; the oracle is the property statement's formula, literally.
package c32

import (
	"fmt"
	"os"
	"sort"
	"strings"

	"github.com/lavanet/lava/v5/protocol/chainlib"
	"github.com/lavanet/lava/v5/protocol/chainlib/extensionslib"
	"github.com/lavanet/lava/v5/utils"
	specutils "github.com/lavanet/lava/v5/utils/keeper"
	spectypes "github.com/lavanet/lava/v5/x/spec/types"

	"verifmc/engine/ev"
	"verifmc/engine/reg"
)

func repoRoot() string {
	if r := os.Getenv("VERIF_REPO"); r != "" {
		return r + "/"
	}
	return "/repo/"
}

// newParser builds the real JSON-RPC chain parser on the ETH1 spec with the archive rule distance
// of every collection set to `rule`, and the archive extension allowed by policy.
func newParser(rule uint64) (*chainlib.JsonRPCChainParser, error) {
	spec, err := specutils.GetASpec("ETH1", repoRoot(), nil, nil)
	if err != nil {
		return nil, err
	}
	n := 0
	for _, c := range spec.ApiCollections {
		for _, e := range c.Extensions {
			if e.Name == extensionslib.ArchiveExtension {
				e.Rule = &spectypes.Rule{Block: rule}
				n++
			}
		}
	}
	if n == 0 {
		return nil, fmt.Errorf("ETH1 spec has no archive extension")
	}
	p, err := chainlib.NewJrpcChainParser()
	if err != nil {
		return nil, err
	}
	p.SetSpec(spec)
	p.SetPolicyFromAddonAndExtensionMap(map[string]struct{}{extensionslib.ArchiveExtension: {}})
	return p, nil
}

// requested-block classes
const (
	kNumeric = iota
	kEarliest
	kLatest
	kPending
	kSafe
	kFinalized
	kDefault // block parameter omitted
	kNone    // method has no block at all
)

var kindName = map[int]string{kNumeric: "numeric", kEarliest: "earliest", kLatest: "latest", kPending: "pending", kSafe: "safe",
	kFinalized: "finalized", kDefault: "omitted", kNone: "noblock"}

type request struct {
	method string
	kind   int
	block  int64 // for kNumeric
}

func (r request) json() string {
	tag := ""
	switch r.kind {
	case kNumeric:
		tag = fmt.Sprintf(`"0x%x"`, r.block)
	case kEarliest:
		tag = `"earliest"`
	case kLatest:
		tag = `"latest"`
	case kPending:
		tag = `"pending"`
	case kSafe:
		tag = `"safe"`
	case kFinalized:
		tag = `"finalized"`
	}
	sep := ","
	if tag == "" {
		sep = ""
	}
	switch r.method {
	case "eth_call":
		return `{"jsonrpc":"2.0","id":1,"method":"eth_call","params":[{"to":"0x6b175474e89094c44da98b954eedeac495271d0f","data":"0x70a08231"}` + sep + tag + `]}`
	case "eth_getBalance":
		return `{"jsonrpc":"2.0","id":1,"method":"eth_getBalance","params":["0x6b175474e89094c44da98b954eedeac495271d0f"` + sep + tag + `]}`
	default:
		return `{"jsonrpc":"2.0","id":1,"method":"` + r.method + `","params":[]}`
	}
}

// wantBlock is the block value the chain message must report for the request to be the input we think it is
// (harness sanity only; -100 = do not care).
func (r request) wantBlock() int64 {
	switch r.kind {
	case kNumeric:
		return r.block
	case kEarliest:
		return spectypes.EARLIEST_BLOCK
	case kLatest:
		return spectypes.LATEST_BLOCK
	case kPending:
		return spectypes.PENDING_BLOCK
	case kSafe:
		return spectypes.SAFE_BLOCK
	case kFinalized:
		return spectypes.FINALIZED_BLOCK
	}
	return -100
}

// expected is the property statement:
// marked iff it asks for the earliest block, or it asks for a specific block and either the latest block is unknown,
// the block is more than the rule distance behind latest, or it is an eth_call more than 126 blocks behind latest.
// Requests for the latest block or for no specific block are never marked.
func expected(r request, latest, rule uint64) bool {
	switch r.kind {
	case kEarliest:
		return true
	case kNumeric:
		if latest == 0 {
			return true
		}
		behind := int64(latest) - r.block // signed distance behind the latest block
		if behind > int64(rule) {
			return true
		}
		if r.method == "eth_call" && behind > 126 {
			return true
		}
		return false
	default:
		return false
	}
}

func hasArchive(m chainlib.ChainMessage) bool {
	for _, e := range m.GetExtensions() {
		if e.Name == extensionslib.ArchiveExtension {
			return true
		}
	}
	return false
}

func key(r request, want, got bool, latest uint64) string {
	dir := "missing"
	if got && !want {
		dir = "spurious"
	}
	if r.method == "eth_call" && dir == "spurious" && latest > 0 && latest < 126 {
		// every spurious mark of an eth_call on a chain younger than 126 blocks
		return "eth_call-126-underflow"
	}
	return fmt.Sprintf("%s-%s-%s", r.method, dir, kindName[r.kind])
}

func run(run *ev.Run) {
	utils.SetGlobalLoggingLevel("fatal")
	thorough := ev.Tier() == "thorough"
	rules := []uint64{1, 10, 127, 1000}
	latests := []uint64{0, 1, 5, 10, 11, 100, 125, 126, 127, 128, 200, 1000, 1001, 5000}
	if thorough {
		latests = nil
		for l := uint64(0); l <= 1300; l++ {
			latests = append(latests, l)
		}
		latests = append(latests, 5000, 1<<31, 1<<40)
	}
	fullBelow := uint64(0) // for latest <= fullBelow every numeric block 0..latest+1 is enumerated
	if thorough {
		fullBelow = 1300
	}
	var evals, nontrivial, marked, unmarked, skipped, errs, batchEvals int64
	seenNontrivial := map[string]bool{}
	mismatchByKey := map[string]int64{}
	mismatchShapes := map[string]string{} // key/requested-class -> first example
	for _, rule := range rules {
		p, err := newParser(rule)
		if err != nil {
			run.Violate(ev.Violation{Key: "harness-setup", What: "cannot build parser: " + err.Error()})
			return
		}
		for _, latest := range latests {
			L := int64(latest)
			R := int64(rule)
			numeric := map[int64]bool{}
			for _, b := range []int64{0, 1, 2, L - R - 2, L - R - 1, L - R, L - R + 1, L - 128, L - 127, L - 126, L - 125, L - 2, L - 1, L, L + 1, L + 2, L + 1000} {
				if b >= 0 {
					numeric[b] = true
				}
			}
			if latest <= fullBelow {
				for b := int64(0); b <= L+1; b++ {
					numeric[b] = true
				}
			}
			blocks := make([]int64, 0, len(numeric))
			for b := range numeric {
				blocks = append(blocks, b)
			}
			sort.Slice(blocks, func(i, j int) bool { return blocks[i] < blocks[j] })
			var reqs []request
			for _, m := range []string{"eth_call", "eth_getBalance"} {
				for _, k := range []int{kEarliest, kLatest, kPending, kSafe, kFinalized, kDefault} {
					reqs = append(reqs, request{method: m, kind: k})
				}
				for _, b := range blocks {
					reqs = append(reqs, request{method: m, kind: kNumeric, block: b})
				}
			}
			reqs = append(reqs, request{method: "net_version", kind: kNone}, request{method: "eth_blockNumber", kind: kNone})
			for _, r := range reqs {
				body := r.json()
				msg, err := p.ParseMsg("", []byte(body), "POST", nil, extensionslib.ExtensionInfo{LatestBlock: latest})
				evals++
				if err != nil {
					errs++
					continue
				}
				if wb := r.wantBlock(); wb != -100 {
					if lb, _ := msg.RequestedBlock(); lb != wb {
						skipped++ // the parser did not see the block we meant to send: not a case of the grid
						continue
					}
				}
				want := expected(r, latest, rule)
				got := hasArchive(msg)
				if got {
					marked++
				} else {
					unmarked++
				}
				if r.kind == kNumeric && latest > 0 {
					id := fmt.Sprintf("%d/%d/%s/%d", rule, latest, r.method, r.block)
					if !seenNontrivial[id] {
						seenNontrivial[id] = true
						nontrivial++
					}
				}
				if evals%997 == 1 {
					run.Sample(map[string]interface{}{"rule": rule, "latest": latest, "request": body, "expected_archive": want, "got_archive": got})
				}
				if want != got {
					k := key(r, want, got, latest)
					mismatchByKey[k]++
					if sh := k + "/" + kindName[r.kind]; mismatchShapes[sh] == "" {
						mismatchShapes[sh] = fmt.Sprintf("rule=%d latest=%d %s expected=%v got=%v", rule, latest, body, want, got)
					}
					run.Violate(ev.Violation{
						Key:    key(r, want, got, latest),
						What:   fmt.Sprintf("%s block=%s(%d) latest=%d rule=%d: archive expected %v, parser says %v", r.method, kindName[r.kind], r.block, latest, rule, want, got),
						Replay: map[string]interface{}{"rule": rule, "latest_block": latest, "request": body, "expected_archive": want, "got_archive": got},
					})
				}
			}
			// two-member batches whose earliest and latest requested blocks differ: a numeric block next to the "latest"
			// tag or to the latest block itself, in both orders. The statement speaks of the message's earliest requested
			// block: the batch needs archive iff its numeric member alone does.
			// (only with a known latest block: with latest == 0 batches lose the archive mark of a member - that is the
			// recorded C31 finding archive-lost-in-batch and is not repeated here)
			for _, b := range blocks {
				if latest == 0 {
					break
				}
				old := request{method: "eth_getBalance", kind: kNumeric, block: b}
				for _, other := range []request{{method: "eth_getBalance", kind: kLatest}, {method: "eth_getBalance", kind: kNumeric, block: L}} {
					if other.kind == kNumeric && (L <= 0 || b >= L) {
						continue
					}
					for _, order := range [][2]request{{old, other}, {other, old}} {
						body := "[" + order[0].json() + "," + strings.Replace(order[1].json(), `"id":1`, `"id":2`, 1) + "]"
						msg, err := p.ParseMsg("", []byte(body), "POST", nil, extensionslib.ExtensionInfo{LatestBlock: latest})
						batchEvals++
						if err != nil {
							errs++
							continue
						}
						want := expected(old, latest, rule)
						got := hasArchive(msg)
						if want != got {
							k := "batch:" + key(old, want, got, latest)
							if b == 0 {
								k += ":genesis-block" // block 0 is the message container's "earliest not set" value
							}
							mismatchByKey[k]++
							run.Violate(ev.Violation{
								Key:    k,
								What:   fmt.Sprintf("batch of eth_getBalance(0x%x) and eth_getBalance(%s) latest=%d rule=%d: archive expected %v (the numeric member alone gives that), parser says %v", b, kindName[other.kind], latest, rule, want, got),
								Replay: map[string]interface{}{"rule": rule, "latest_block": latest, "request": body, "expected_archive": want, "got_archive": got},
							})
						}
					}
				}
			}
		}
	}
	run.Set("batch_evaluations", batchEvals)
	run.Set("evaluations", evals)
	run.Set("distinct_nontrivial", nontrivial)
	run.Set("marked_archive", marked)
	run.Set("not_marked", unmarked)
	run.Set("parse_errors", errs)
	run.Set("mismatches_by_key", mismatchByKey)
	run.Set("mismatch_first_example_by_key_and_class", mismatchShapes)
	run.Set("skipped_block_not_as_sent", skipped)
	run.Set("rule", "every (rule distance, latest block, method, requested block) of the grid is parsed by the real JsonRPCChainParser (ETH1 spec, archive allowed, no extension override) and GetExtensions() is compared with the statement's formula; non-trivial = distinct cases with a numeric requested block and a known latest block (the distance arithmetic decides)")
	run.Set("exhaustive", errs == 0 && skipped == 0)
	bound := fmt.Sprintf("rule in %v; %d latest-block values (%d..%d); methods eth_call, eth_getBalance (+ net_version, eth_blockNumber); requested in {earliest, latest, pending, safe, finalized, omitted, numeric boundary set around 0, latest-rule, latest-126, latest}; plus two-member batches (numeric block, latest tag / latest block) in both orders", rules, len(latests), latests[0], latests[len(latests)-1])
	if fullBelow > 0 {
		bound += fmt.Sprintf(" and every numeric block 0..latest+1 for latest <= %d", fullBelow)
	}
	run.Set("bound", bound)
	run.Assume("the requested block reported by the parsed message equals the block written in the request (checked per case; mismatching cases are counted in skipped_block_not_as_sent)")
	run.Assume("latest block comes from ExtensionInfo.LatestBlock as in the consumer's ParseRelay path; ExtensionOverride is nil")
}

func init() {
	reg.Register(reg.Check{Property: "C32", Level: "exploration", Run: run})
}
