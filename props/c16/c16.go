// Package c16: epoch boundaries are consistent under parameter changes.
//
// Exhaustive enumeration of parameter-change histories on the real keepers: up to N governance
// parameter-change proposals (EpochBlocks in {2,3,5}, EpochsToSave in {1,2,3}, through the real
// spec.HandleParameterChangeProposal) placed at every combination (with repetition) of the 14 blocks
// following the fixture, then the chain runs on to block +40. Every block is a full chain.NextBlock
// (all begin/end blockers in app.go order). The oracle is evaluated after every block and after
// every proposal.
//
// The BFS ops are macro operations ("advance k blocks, then change X to v", and "run to block +40")
// so that the search depth is N+1; all block-level states in between are still checked.
package c16

import (
	"fmt"
	"sort"
	"strings"
	"time"

	"github.com/lavanet/lava/v5/testutil/common"
	epochstoragetypes "github.com/lavanet/lava/v5/x/epochstorage/types"

	"verifmc/engine/bfs"
	"verifmc/engine/chain"
	"verifmc/engine/ev"
	"verifmc/engine/reg"
)

const (
	horizon    = 14 // proposals are placed at relative blocks 1..horizon
	runTo      = 40 // every history runs to relative block runTo
	genesisEB  = 4
	genesisETS = 3
)

var (
	ebValues  = []uint64{2, 3, 5, 9}
	etsValues = []uint64{1, 2, 3, 7}
)

type opdef struct {
	name  string
	final bool
	adv   int    // blocks to advance before the proposal
	key   string // "EpochBlocks" | "EpochsToSave"
	val   uint64
}

// model is the Go-side state of the oracle (saved/restored by Fork, part of Hash).
type model struct {
	E            []uint64          // blocks at which epoch-start processing was observed, ascending
	inForce      map[uint64]uint64 // e -> blocks-to-save in force at e per the model (raw params when block e began)
	snap         map[uint64]uint64 // e -> BlocksToSave(e) as reported by the keeper at block e itself
	rawEB        uint64
	rawETS       uint64
	prevEarliest uint64
	changes      int
	pending      []ev.Violation
	// vacuity counters of this path
	drops      int
	tightDrops int
	lens       map[uint64]bool
}

func (m *model) clone() *model {
	c := *m
	c.E = append([]uint64(nil), m.E...)
	c.inForce = map[uint64]uint64{}
	for k, v := range m.inForce {
		c.inForce[k] = v
	}
	c.snap = map[uint64]uint64{}
	for k, v := range m.snap {
		c.snap[k] = v
	}
	c.lens = map[uint64]bool{}
	for k, v := range m.lens {
		c.lens[k] = v
	}
	c.pending = append([]ev.Violation(nil), m.pending...)
	return &c
}

type scen struct {
	w          *chain.World
	maxChanges int
	ops        []opdef
	names      []string
	h0         uint64
	m0         *model // model at the fixture state
	m          *model
}

func build(maxChanges int) *scen {
	s := &scen{maxChanges: maxChanges}
	w := chain.NewWorld()
	s.w = w
	s.m = &model{inForce: map[uint64]uint64{}, snap: map[uint64]uint64{}, lens: map[uint64]bool{}, rawEB: genesisEB, rawETS: genesisETS}
	w.SetEpochParams(genesisEB, genesisETS)
	// genesis: the epoch details start at the genesis height
	g := uint64(w.Ctx.BlockHeight())
	if w.Keepers.Epochstorage.GetEpochStart(w.Ctx) != g || w.Keepers.Epochstorage.GetEarliestEpochStart(w.Ctx) != g {
		panic(fmt.Sprintf("fixture: genesis epoch details (start %d, earliest %d) differ from genesis height %d",
			w.Keepers.Epochstorage.GetEpochStart(w.Ctx), w.Keepers.Epochstorage.GetEarliestEpochStart(w.Ctx), g))
	}
	s.m.E = []uint64{g}
	s.m.inForce[g] = genesisEB * genesisETS
	s.m.snap[g] = genesisEB * genesisETS
	s.m.prevEarliest = g
	w.AddValidator(0, 1000000) // advances one block
	s.observe()
	w.Must("add spec", w.AddSpecGov(chain.MockSpec("mock")))
	plan := common.CreateMockPlan()
	w.Must("add plan", w.AddPlanGov(false, plan))
	pacc, _ := w.AddAccount(common.PROVIDER, 0, 10000000)
	w.Must("stake", w.Stake(pacc, "mock", 100000, 1, nil, 100))
	cacc, _ := w.AddAccount(common.CONSUMER, 0, 10000000)
	w.Must("buy", w.Buy(cacc, cacc, plan.Index, 1, false, false))
	for uint64(w.Ctx.BlockHeight()) < g+2*genesisEB {
		if p := w.NextBlock(chain.BlockDt); p != "" {
			panic("fixture: block panic " + p)
		}
		s.observe()
	}
	if v := s.check(); len(v) > 0 {
		panic("fixture: oracle fails on the fixture itself: " + v[0].What)
	}
	s.m.pending = nil
	s.h0 = uint64(w.Ctx.BlockHeight())
	if s.w.EpochStartNow() != s.h0 {
		panic("fixture: fixture does not end on an epoch start")
	}
	w.MarkFixture()
	s.m0 = s.m.clone()

	for k := 0; k < horizon; k++ {
		for _, v := range ebValues {
			s.ops = append(s.ops, opdef{name: fmt.Sprintf("+%d;EpochBlocks=%d", k, v), adv: k, key: string(epochstoragetypes.KeyEpochBlocks), val: v})
		}
		for _, v := range etsValues {
			s.ops = append(s.ops, opdef{name: fmt.Sprintf("+%d;EpochsToSave=%d", k, v), adv: k, key: string(epochstoragetypes.KeyEpochsToSave), val: v})
		}
	}
	s.ops = append(s.ops, opdef{name: fmt.Sprintf("run-to-%d", runTo), final: true})
	for _, o := range s.ops {
		s.names = append(s.names, o.name)
	}
	return s
}

func (s *scen) Ops() []string { return s.names }
func (s *scen) Reset()        { s.w.Reset(); s.m = s.m0.clone() }
func (s *scen) Fork() func() {
	r := s.w.Fork()
	saved := s.m.clone()
	return func() { r(); s.m = saved }
}

func (s *scen) Hash() []byte {
	h := s.w.StateHash()
	var sb strings.Builder
	fmt.Fprintf(&sb, "|%v|%d|%d|", s.m.E, s.m.prevEarliest, s.m.changes)
	keys := []string{}
	for _, v := range s.m.pending {
		keys = append(keys, v.Property+":"+v.Key)
	}
	sort.Strings(keys)
	sb.WriteString(strings.Join(keys, ";"))
	es := make([]uint64, 0, len(s.m.inForce))
	for e := range s.m.inForce {
		es = append(es, e)
	}
	sort.Slice(es, func(i, j int) bool { return es[i] < es[j] })
	for _, e := range es {
		fmt.Fprintf(&sb, "|%d:%d:%d", e, s.m.inForce[e], s.m.snap[e])
	}
	return append(h, []byte(sb.String())...)
}

func (s *scen) rel() int { return int(uint64(s.w.Ctx.BlockHeight()) - s.h0) }

// observe records whether epoch-start processing ran in the block that has just begun.
func (s *scen) observe() {
	w, m := s.w, s.m
	h := uint64(w.Ctx.BlockHeight())
	if w.Keepers.Epochstorage.GetEpochStart(w.Ctx) != h {
		return
	}
	if n := len(m.E); n > 0 && m.E[n-1] >= h {
		return
	}
	if n := len(m.E); n > 0 {
		m.lens[h-m.E[n-1]] = true
	}
	m.E = append(m.E, h)
	// blocks-to-save in force at epoch h. Model: a parameter change takes effect at the first epoch start
	// after it, i.e. the values in force at h are the raw parameters at the moment block h began.
	m.inForce[h] = m.rawEB * m.rawETS
	// and what the keeper itself reports for h at block h
	if bts, err := w.Keepers.Epochstorage.BlocksToSave(w.Ctx, h); err == nil {
		m.snap[h] = bts
	} else {
		m.snap[h] = m.inForce[h]
	}
}

func (m *model) add(key, what string) {
	for _, v := range m.pending {
		if v.Key == key {
			return
		}
	}
	m.pending = append(m.pending, ev.Violation{Property: "C16", Key: key, What: what})
}

func (m *model) inE(b uint64) bool {
	i := sort.Search(len(m.E), func(i int) bool { return m.E[i] >= b })
	return i < len(m.E) && m.E[i] == b
}

// maxLE returns max{e in E, e <= b}.
func (m *model) maxLE(b uint64) (uint64, bool) {
	i := sort.Search(len(m.E), func(i int) bool { return m.E[i] > b })
	if i == 0 {
		return 0, false
	}
	return m.E[i-1], true
}

// check evaluates the oracle at the current state; violations are appended to pending and returned.
func (s *scen) check() []ev.Violation {
	w, m := s.w, s.m
	k := w.Keepers.Epochstorage
	h := uint64(w.Ctx.BlockHeight())
	before := len(m.pending)
	ctxs := func() string {
		return fmt.Sprintf("height %d (fixture end %d), E=%v, raw EpochBlocks=%d EpochsToSave=%d, fixations=%v", h, s.h0, m.E, m.rawEB, m.rawETS, fixations(w))
	}

	// --- earliest epoch start: only moves forward, never drops an epoch younger than its window
	earliest := k.GetEarliestEpochStart(w.Ctx)
	if earliest < m.prevEarliest {
		m.add("earliest-epoch-start-decreased", fmt.Sprintf("EarliestEpochStart went from %d back to %d at %s", m.prevEarliest, earliest, ctxs()))
	}
	winPrev, okPrev := m.inForce[m.prevEarliest]
	if sn, ok := m.snap[m.prevEarliest]; ok && sn < winPrev {
		winPrev = sn
	}
	if !okPrev {
		winPrev = ^uint64(0) // previous earliest is not a processed epoch start: no explanation available
	}
	for _, e := range m.E {
		if e < m.prevEarliest || e >= earliest {
			continue
		}
		// e was dropped in this block
		win := m.inForce[e]
		if sn := m.snap[e]; sn < win {
			win = sn
		}
		m.drops++
		if h-e == win {
			m.tightDrops++
		}
		if h-e < win {
			// failing shape: is the epoch at least as old as the window in force at the (older) epoch that was the
			// earliest one before this block? Then the drop is explained by applying that older epoch's window to e.
			key := "epoch-dropped-younger-than-its-window"
			if e != m.prevEarliest && h-e >= winPrev {
				key = "epoch-dropped-by-window-of-older-epoch"
			}
			m.add(key, fmt.Sprintf("epoch %d was dropped from memory at height %d (age %d) although the blocks-to-save in force at that epoch is %d (model %d, keeper's own answer at that epoch %d); EarliestEpochStart %d -> %d, window in force at the previous earliest epoch %d is %d; %s",
				e, h, h-e, win, m.inForce[e], m.snap[e], m.prevEarliest, earliest, m.prevEarliest, winPrev, ctxs()))
		}
	}
	if earliest > m.prevEarliest {
		m.prevEarliest = earliest
	}

	// --- every block in memory maps to exactly the observed epoch start at or before it
	for b := earliest; b <= h; b++ {
		start, _, err := k.GetEpochStartForBlock(w.Ctx, b)
		if err != nil {
			m.add("epoch-start-lookup-error", fmt.Sprintf("GetEpochStartForBlock(%d) fails (%v) although %d is within [EarliestEpochStart=%d, height]; %s", b, err, b, earliest, ctxs()))
			continue
		}
		want, ok := m.maxLE(b)
		switch {
		case start > b:
			m.add("epoch-start-later-than-block", fmt.Sprintf("GetEpochStartForBlock(%d) = %d > block; %s", b, start, ctxs()))
		case start == b && !m.inE(b):
			m.add("reported-epoch-start-never-processed", fmt.Sprintf("GetEpochStartForBlock(%d) = %d says block %d is an epoch start, but epoch-start processing never ran at %d; %s", b, start, b, b, ctxs()))
		case start != b && m.inE(b):
			m.add("processed-epoch-start-not-reported", fmt.Sprintf("epoch-start processing ran at block %d but GetEpochStartForBlock(%d) = %d; %s", b, b, start, ctxs()))
		case ok && start != want:
			m.add("block-maps-to-wrong-epoch", fmt.Sprintf("GetEpochStartForBlock(%d) = %d, the latest processed epoch start at or before %d is %d; %s", b, start, b, want, ctxs()))
		}
		next, err := k.GetNextEpoch(w.Ctx, b)
		if err != nil {
			m.add("next-epoch-lookup-error", fmt.Sprintf("GetNextEpoch(%d) fails (%v) although %d is within [EarliestEpochStart=%d, height]; %s", b, err, b, earliest, ctxs()))
		} else if next <= b {
			m.add("next-epoch-not-later-than-block", fmt.Sprintf("GetNextEpoch(%d) = %d; %s", b, next, ctxs()))
		}
	}
	return m.pending[before:]
}

func fixations(w *chain.World) string {
	var parts []string
	for _, f := range w.Keepers.Epochstorage.GetAllFixatedParams(w.Ctx) {
		parts = append(parts, fmt.Sprintf("%s@%d=%x", f.Index, f.FixationBlock, f.Parameter))
	}
	return strings.Join(parts, ",")
}

func panicStep(p string) bfs.Step {
	// the alphabet consists of epoch parameter changes only: a block that panics is an epoch grid failure (the block's
	// epoch-start processing did not run to completion) as well as a chain halt
	return bfs.Step{Accepted: true, Prune: true, Obs: "block-panic", Viol: []ev.Violation{
		{Property: "C16", Key: "epoch-processing-panicked", What: "block processing panicked after a history of epoch parameter changes: " + firstLine(p)},
		{Property: "C37", Key: "block-panic:" + firstLine(p), What: "panic in block processing: " + firstLine(p)}}}
}

func (s *scen) block() string {
	if p := s.w.NextBlock(chain.BlockDt); p != "" {
		return p
	}
	s.observe()
	s.check()
	return ""
}

func (s *scen) Apply(op int) bfs.Step {
	o := s.ops[op]
	w, m := s.w, s.m
	if o.final {
		for s.rel() < runTo {
			if p := s.block(); p != "" {
				return panicStep(p)
			}
		}
		obs := fmt.Sprintf("final:changes=%d,epoch-lengths=%d,drops=%t,drop-at-window-edge=%t,viol=%d", m.changes, len(m.lens), m.drops > 0, m.tightDrops > 0, len(m.pending))
		return bfs.Step{Accepted: true, Prune: true, Obs: obs, Viol: m.pending}
	}
	if len(m.pending) > 0 {
		panic("harness: a violating state was expanded")
	}
	r := s.rel() + o.adv
	if m.changes >= s.maxChanges || r < 1 || r > horizon {
		return bfs.Step{Accepted: false, Obs: "out-of-bound"}
	}
	for i := 0; i < o.adv; i++ {
		if p := s.block(); p != "" {
			return panicStep(p)
		}
		if len(m.pending) > 0 {
			// reported at once (before the proposal); the engine does not expand a violating state
			return bfs.Step{Accepted: true, Prune: true, Obs: "block-violation", Viol: m.pending}
		}
	}
	res := w.ParamChangeGov(epochstoragetypes.ModuleName, o.key, fmt.Sprintf("\"%d\"", o.val))
	if !res.OK() {
		panic(fmt.Sprintf("harness: parameter change %s rejected: err=%v panic=%s", o.name, res.Err, res.Panic))
	}
	if o.key == string(epochstoragetypes.KeyEpochBlocks) {
		m.rawEB = o.val
	} else {
		m.rawETS = o.val
	}
	m.changes++
	s.check() // a proposal alone must not move any boundary
	if len(m.pending) > 0 {
		// reported at once; the engine does not expand a violating state
		return bfs.Step{Accepted: true, Prune: true, Obs: "proposal-violation", Viol: m.pending}
	}
	return bfs.Step{Accepted: true, Obs: "proposal"}
}

func firstLine(s string) string {
	if i := strings.IndexByte(s, '\n'); i >= 0 {
		return s[:i]
	}
	return s
}

func init() {
	bfs.Register("c16-2", func() bfs.Scenario { return build(2) })
	bfs.Register("c16-3", func() bfs.Scenario { return build(3) })
	bfs.Register("c16-4", func() bfs.Scenario { return build(4) })
	bfs.Register("c16-5", func() bfs.Scenario { return build(5) })
	reg.Register(reg.Check{Property: "C16", Level: "model_checking", Run: func(run *ev.Run) {
		n, deadline := 3, 4*time.Minute
		if ev.Tier() == "thorough" {
			n, deadline = 5, 25*time.Minute
		}
		cfg := bfs.Config{Scenario: fmt.Sprintf("c16-%d", n), MaxDepth: n + 1, Deadline: deadline}
		st := bfs.Explore(cfg, run)
		bfs.Report(run, "", cfg, st)
		hist := st.AcceptedPerOp[fmt.Sprintf("run-to-%d", runTo)]
		run.Set("histories", hist)
		run.Set("blocks_per_history", runTo)
		run.Set("block_level_oracle_evaluations_at_least", hist*int64(runTo-horizon))
		run.Set("exhaustive", st.Exhaustive)
		run.Set("bound", fmt.Sprintf("all histories of up to %d parameter-change proposals (EpochBlocks in %v, EpochsToSave in %v; genesis %d/%d) placed at every combination with repetition of the %d blocks after the fixture (block 8, an epoch start), each run to block +%d; oracle evaluated after every block and every proposal for all blocks in [EarliestEpochStart, height]",
			n, ebValues, etsValues, genesisEB, genesisETS, horizon, runTo))
		run.Assume("one proposal changes one parameter (two proposals may land in the same block); blocks are 30 s apart; testutil keeper wiring with mock bank; 'blocks-to-save in force at epoch e' is taken as min(raw EpochBlocks*EpochsToSave when block e began, keeper's own BlocksToSave(e) evaluated at block e); the genesis epoch counts as processed")
	}})
}
