// Package c36: the relay cache never serves the wrong or corrupted reply.
//
// Bounded-exhaustive enumeration against the real RelayerCacheServer (ecosystem/cache/handlers.go) with cache keys
// from the real chainlib.HashCacheRequest and the real gzip compression of protocol/common:
//
//	phase 1 (request pairs): the full cartesian grid G of RelayPrivateData x chain id is stored (every request i with
//	  its own reply i), then every request j of G is looked up. A hit that carries reply i is legitimate only when
//	  i and j are the same request modulo the ignorable fields (JSON-RPC id, salt, seen block, request/task/tx id) on
//	  the same chain at the same requested block. One populate-all / probe-all pass decides all |G|^2 ordered pairs.
//	phase 2 (histories): every sequence of <= D SetRelay/GetRelay operations that ends in a Get over
//	  {finalized, non-finalized+hash, non-finalized without hash} x payload sizes around the compression threshold x
//	  get {finalized flag} x {same hash, other hash, no hash}, each sequence in a fresh key namespace.
//
// Oracle (from the property text): hit => the reply is one that was stored for the same chain/request/block, is
// byte-identical to what was stored, and does not come from a non-finalized entry stored with a block hash unless the
// get carries exactly that hash; HashCacheRequest leaves its argument deeply equal to what it was.
// Misses are never violations (safety property); nothing depends on wall-clock time (TTLs are 24h).
package c36

import (
	"bytes"
	"context"
	"fmt"
	"reflect"
	"runtime"
	"strconv"
	"strings"
	"sync"
	"sync/atomic"
	"time"

	"github.com/lavanet/lava/v5/ecosystem/cache"
	"github.com/lavanet/lava/v5/protocol/chainlib"
	"github.com/lavanet/lava/v5/protocol/common"
	"github.com/lavanet/lava/v5/utils"
	pairingtypes "github.com/lavanet/lava/v5/x/pairing/types"

	"verifmc/engine/ev"
	"verifmc/engine/reg"
)

func init() {
	reg.Register(reg.Check{Property: "C36", Level: "exploration", Run: Run})
}

// ---------------------------------------------------------------------------------------------------------------
// harness around the real server

type harness struct {
	ctx context.Context
	cs  *cache.CacheServer
	srv *cache.RelayerCacheServer
}

func newHarness() *harness {
	cs := &cache.CacheServer{CacheMaxCost: 2 * 1024 * 1024 * 1024}
	long := 24 * time.Hour
	cs.InitCache(context.Background(), long, long, long, long, cache.DisabledFlagOption, 1.0, 1.0)
	return &harness{ctx: context.Background(), cs: cs, srv: &cache.RelayerCacheServer{CacheServer: cs}}
}

const replyLatestBlock = 1000 // >= every requested/seen block used, so the seen-block freshness test never refuses

type stored struct {
	serial    int64
	finalized bool
	hash      []byte
	size      sizeClass // phase 2: the payload is bigPayload(serial, size)
}

func serialMeta(name string, serial int64) []pairingtypes.Metadata {
	return []pairingtypes.Metadata{{Name: name, Value: strconv.FormatInt(serial, 10)}}
}

// set sends a RelayCacheSet through a protobuf round trip (as the gRPC transport would) into the real handler and
// waits for ristretto to apply it.
func (h *harness) set(hash []byte, chain string, block, seen int64, fin bool, blockHash []byte, serial int64, data []byte, scratch *[]byte) error {
	msg := &pairingtypes.RelayCacheSet{
		RequestHash: hash,
		BlockHash:   blockHash,
		Response: &pairingtypes.RelayReply{
			Data:                  data,
			Sig:                   []byte("sig"),
			LatestBlock:           replyLatestBlock,
			FinalizedBlocksHashes: []byte("fbh-" + strconv.FormatInt(serial, 10)),
			SigBlocks:             []byte("sb-" + strconv.FormatInt(serial, 10)),
			Metadata:              serialMeta("serial", serial),
		},
		Finalized:        fin,
		OptionalMetadata: serialMeta("oserial", serial),
		RequestedBlock:   block,
		ChainId:          chain,
		SeenBlock:        seen,
		AverageBlockTime: int64(10 * time.Second),
	}
	size := msg.Size()
	if cap(*scratch) < size {
		*scratch = make([]byte, size+size/8)
	}
	bz := (*scratch)[:size]
	if n, err := msg.MarshalToSizedBuffer(bz); err != nil || n != size {
		return fmt.Errorf("marshal: %v (%d/%d)", err, n, size)
	}
	wire := &pairingtypes.RelayCacheSet{}
	if err := wire.Unmarshal(bz); err != nil { // Unmarshal copies every byte field: the server owns its own data
		return err
	}
	_, err := h.srv.SetRelay(h.ctx, wire)
	h.cs.VerifWait()
	return err
}

func (h *harness) get(hash []byte, chain string, block, seen int64, fin bool, blockHash []byte) (*pairingtypes.CacheRelayReply, error) {
	msg := &pairingtypes.RelayCacheGet{
		RequestHash: hash, BlockHash: blockHash, Finalized: fin, RequestedBlock: block, ChainId: chain, SeenBlock: seen,
	}
	bz, err := msg.Marshal()
	if err != nil {
		return nil, err
	}
	wire := &pairingtypes.RelayCacheGet{}
	if err := wire.Unmarshal(bz); err != nil {
		return nil, err
	}
	return h.srv.GetRelay(h.ctx, wire)
}

// replySerial identifies which stored entry a hit claims to be (-1: unidentifiable).
func replySerial(r *pairingtypes.CacheRelayReply) int64 {
	if r == nil || r.Reply == nil || len(r.Reply.Metadata) != 1 || r.Reply.Metadata[0].Name != "serial" {
		return -1
	}
	v, err := strconv.ParseInt(r.Reply.Metadata[0].Value, 10, 64)
	if err != nil {
		return -1
	}
	return v
}

// sameAsStored: every reply field except the signature (which the cache clears by design) equals what was stored.
func sameAsStored(r *pairingtypes.CacheRelayReply, serial int64, dataEqual func(got []byte) bool) string {
	s := strconv.FormatInt(serial, 10)
	switch {
	case !dataEqual(r.Reply.Data):
		return "data"
	case r.Reply.LatestBlock != replyLatestBlock:
		return "latest_block"
	case string(r.Reply.FinalizedBlocksHashes) != "fbh-"+s:
		return "finalized_blocks_hashes"
	case string(r.Reply.SigBlocks) != "sb-"+s:
		return "sig_blocks"
	case len(r.OptionalMetadata) != 1 || r.OptionalMetadata[0].Name != "oserial" || r.OptionalMetadata[0].Value != s:
		return "optional_metadata"
	}
	return ""
}

// hashChecked computes the cache key hash with the real HashCacheRequest and checks that the request object is left
// deeply equal to an independently built twin.
func hashChecked(run *ev.Run, req, twin *pairingtypes.RelayPrivateData, chain string, describe func() interface{}) ([]byte, bool) {
	hash, _, err := chainlib.HashCacheRequest(req, chain)
	if err != nil {
		run.Violate(ev.Violation{Key: "hash-error", What: "HashCacheRequest failed: " + err.Error(), Replay: describe()})
		return nil, false
	}
	if !reflect.DeepEqual(req, twin) {
		field := "?"
		rv, tv := reflect.ValueOf(req).Elem(), reflect.ValueOf(twin).Elem()
		for i := 0; i < rv.NumField(); i++ {
			if !reflect.DeepEqual(rv.Field(i).Interface(), tv.Field(i).Interface()) {
				field = rv.Type().Field(i).Name
				break
			}
		}
		run.Violate(ev.Violation{Key: "hash-mutates-request:" + field,
			What:   fmt.Sprintf("HashCacheRequest left the request changed in field %s: after=%+v before=%+v", field, req, twin),
			Replay: describe()})
		return hash, false
	}
	return hash, true
}

// ---------------------------------------------------------------------------------------------------------------
// phase 1: the request grid

type dim struct {
	name      string
	vals      []string // printable value names
	ignorable bool     // ignorable by the property text (the JSON-RPC id only for JSON-RPC style interfaces)
}

const (
	dChain = iota
	dIface
	dConn
	dURL
	dMethod
	dParams
	dShape
	dID
	dBlock
	dSalt
	dMeta
	dAddon
	dExt
	dSeen
	dReqID
	dTask
	dTx
	nDims
)

var dims = [nDims]dim{
	dChain:  {"chain", []string{"ETH1", "LAV1"}, false},
	dIface:  {"api_interface", []string{"jsonrpc", "tendermintrpc", "rest"}, false},
	dConn:   {"connection_type", []string{"POST", "GET"}, false},
	dURL:    {"api_url", []string{"", "/v1/x"}, false},
	dMethod: {"method", []string{"eth_getBalance", "eth_getCode"}, false},
	dParams: {"params", []string{`["0xabc","latest"]`, `["0xabd","latest"]`}, false},
	dShape:  {"shape", []string{"single", "batch2"}, false},
	dID:     {"jsonrpc_id", []string{"1", `"x"`, "absent", "2"}, true},
	dBlock:  {"requested_block", []string{"100", "101", "4294967396", "0"}, false},
	dSalt:   {"salt", []string{"nil", "0102"}, true},
	dMeta:   {"metadata", []string{"none", "a=b", "a=c", "traceparent=t1;x=1", "traceparent=t2;x=1"}, false},
	dAddon:  {"addon", []string{"", "debug"}, false},
	dExt:    {"extensions", []string{"none", "archive"}, false},
	dSeen:   {"seen_block", []string{"0", "99"}, true},
	dReqID:  {"request_id", []string{"", "r-1"}, true},
	dTask:   {"task_id", []string{"nil", "t-1"}, true},
	dTx:     {"tx_id", []string{"nil", "x-1"}, true},
}

type grid struct {
	radix   [nDims]int
	size    int     // size of the full product
	members []int32 // the enumerated requests (indices into the full product)
}

// newGrid: the thorough tier uses the whole cartesian product; the quick tier the sub-grid of all requests that
// differ from the base request (all digits 0) in at most quickWeight fields (so pairs differ in up to 2*quickWeight).
const quickWeight = 4

func newGrid(tier string) *grid {
	g := &grid{size: 1}
	for i, d := range dims {
		g.radix[i] = len(d.vals)
		g.size *= g.radix[i]
	}
	for idx := 0; idx < g.size; idx++ {
		if tier == "quick" {
			w := 0
			for _, v := range g.digits(idx) {
				if v != 0 {
					w++
				}
			}
			if w > quickWeight {
				continue
			}
		}
		g.members = append(g.members, int32(idx))
	}
	return g
}

func (g *grid) digits(idx int) (d [nDims]int) {
	for i := nDims - 1; i >= 0; i-- {
		d[i] = idx % g.radix[i]
		idx /= g.radix[i]
	}
	return d
}

// class is the identity of the request modulo the ignorable fields (the canonical "same request, same chain, same
// requested block" of the property text), as an index into the grid with the ignorable digits zeroed.
func (g *grid) class(d [nDims]int) int {
	idx := 0
	for i := 0; i < nDims; i++ {
		v := d[i]
		if dims[i].ignorable && !(i == dID && dims[dIface].vals[d[dIface]] == "rest") {
			v = 0 // for REST the body's "id" member is not a JSON-RPC id: it is part of the request
		}
		idx = idx*g.radix[i] + v
	}
	return idx
}

func jsonBody(d [nDims]int) []byte {
	one := func(id, method, params string) string {
		if id == "absent" {
			return `{"jsonrpc":"2.0","method":"` + method + `","params":` + params + `}`
		}
		return `{"jsonrpc":"2.0","id":` + id + `,"method":"` + method + `","params":` + params + `}`
	}
	id := dims[dID].vals[d[dID]]
	first := one(id, dims[dMethod].vals[d[dMethod]], dims[dParams].vals[d[dParams]])
	if d[dShape] == 0 {
		return []byte(first)
	}
	id2 := id
	switch id {
	case "1":
		id2 = "7"
	case "2":
		id2 = "8"
	case `"x"`:
		id2 = `"y"`
	}
	return []byte("[" + first + "," + one(id2, "net_version", "[]") + "]")
}

func parseI(s string) int64 { v, _ := strconv.ParseInt(s, 10, 64); return v }

func buildReq(d [nDims]int) (*pairingtypes.RelayPrivateData, string) {
	r := &pairingtypes.RelayPrivateData{
		ConnectionType: dims[dConn].vals[d[dConn]],
		ApiUrl:         dims[dURL].vals[d[dURL]],
		Data:           jsonBody(d),
		RequestBlock:   parseI(dims[dBlock].vals[d[dBlock]]),
		ApiInterface:   dims[dIface].vals[d[dIface]],
		Addon:          dims[dAddon].vals[d[dAddon]],
		SeenBlock:      parseI(dims[dSeen].vals[d[dSeen]]),
		RequestId:      dims[dReqID].vals[d[dReqID]],
	}
	if d[dSalt] == 1 {
		r.Salt = []byte{1, 2}
	}
	switch d[dMeta] {
	case 1:
		r.Metadata = []pairingtypes.Metadata{{Name: "a", Value: "b"}}
	case 2:
		r.Metadata = []pairingtypes.Metadata{{Name: "a", Value: "c"}}
	case 3: // a well-known per-request header in front of another one
		r.Metadata = []pairingtypes.Metadata{{Name: "traceparent", Value: "t1"}, {Name: "x", Value: "1"}}
	case 4:
		r.Metadata = []pairingtypes.Metadata{{Name: "traceparent", Value: "t2"}, {Name: "x", Value: "1"}}
	}
	if d[dExt] == 1 {
		r.Extensions = []string{"archive"}
	}
	if d[dTask] == 1 {
		r.XTaskId = &pairingtypes.RelayPrivateData_TaskId{TaskId: "t-1"}
	}
	if d[dTx] == 1 {
		r.XTxId = &pairingtypes.RelayPrivateData_TxId{TxId: "x-1"}
	}
	return r, dims[dChain].vals[d[dChain]]
}

func describeDigits(d [nDims]int) map[string]string {
	m := map[string]string{}
	for i := range dims {
		m[dims[i].name] = dims[i].vals[d[i]]
	}
	return m
}

func smallPayload(serial int64) []byte {
	return []byte(`{"jsonrpc":"2.0","id":1,"result":"C36-` + strconv.FormatInt(serial, 10) + `"}`)
}

func parallel(n, workers int, deadline time.Time, f func(w, i int)) (completed bool) {
	var next int64
	var wg sync.WaitGroup
	var timedOut atomic.Bool
	for w := 0; w < workers; w++ {
		wg.Add(1)
		go func(w int) {
			defer wg.Done()
			for {
				i := int(atomic.AddInt64(&next, 1) - 1)
				if i >= n {
					return
				}
				if time.Now().After(deadline) {
					timedOut.Store(true)
					return
				}
				f(w, i)
			}
		}(w)
	}
	wg.Wait()
	return !timedOut.Load()
}

func phase1(run *ev.Run, h *harness, tier, pfx string, workers int, deadline time.Time) bool {
	g := newGrid(tier)
	hashes := make([][]byte, g.size)
	scratch := make([][]byte, workers)
	done := parallel(len(g.members), workers, deadline, func(w, mi int) {
		i := int(g.members[mi])
		d := g.digits(i)
		req, chain := buildReq(d)
		twin, _ := buildReq(d)
		hash, _ := hashChecked(run, req, twin, chain, func() interface{} { return describeDigits(d) })
		if hash == nil {
			return
		}
		hashes[i] = hash
		// half of the entries finalized, half non-finalized without hash (both may be served to anyone asking for the key)
		if err := h.set(hash, chain, req.RequestBlock, req.SeenBlock, i%2 == 0, nil, int64(i), smallPayload(int64(i)), &scratch[w]); err != nil {
			run.Violate(ev.Violation{Key: "harness-set-error", What: "SetRelay failed: " + err.Error(), Replay: describeDigits(d)})
		}
	})
	if !done {
		return false
	}
	classSeen := make([]uint32, g.size) // class index -> verified hit seen
	var hits, misses, crossVariant, distinctClasses, distinctKeys int64
	keys := sync.Map{}
	done = parallel(len(g.members), workers, deadline, func(w, mj int) {
		j := int(g.members[mj])
		if hashes[j] == nil {
			return
		}
		d := g.digits(j)
		req, chain := buildReq(d)
		if _, loaded := keys.LoadOrStore(string(hashes[j])+"|"+strconv.FormatInt(req.RequestBlock, 10), true); !loaded {
			atomic.AddInt64(&distinctKeys, 1)
		}
		rep, err := h.get(hashes[j], chain, req.RequestBlock, req.SeenBlock, j%2 == 0, nil)
		if err != nil {
			run.Violate(ev.Violation{Key: "harness-get-error", What: "GetRelay failed: " + err.Error(), Replay: describeDigits(d)})
			return
		}
		if rep == nil || rep.Reply == nil {
			atomic.AddInt64(&misses, 1)
			return
		}
		atomic.AddInt64(&hits, 1)
		i := replySerial(rep)
		if i < 0 || i >= int64(g.size) || hashes[i] == nil {
			run.Violate(ev.Violation{Key: "p1-reply-unidentifiable", What: fmt.Sprintf("hit with a reply that was never stored: %+v", rep.Reply), Replay: describeDigits(d)})
			return
		}
		di := g.digits(int(i))
		if g.class(di) != g.class(d) {
			var diff []string
			for k := range dims {
				if di[k] != d[k] && !(dims[k].ignorable && !(k == dID && dims[dIface].vals[d[dIface]] == "rest")) {
					diff = append(diff, dims[k].name)
				}
			}
			run.Violate(ev.Violation{Key: "served-other-request:" + strings.Join(diff, "+"),
				What:   fmt.Sprintf("get for request %v returned the reply stored for request %v, which differs in %v", describeDigits(d), describeDigits(di), diff),
				Replay: map[string]interface{}{"stored_for": describeDigits(di), "get": describeDigits(d), "differs_in": diff}})
			return
		}
		if f := sameAsStored(rep, i, func(got []byte) bool { return bytes.Equal(got, smallPayload(i)) }); f != "" {
			run.Violate(ev.Violation{Key: "p1-reply-differs:" + f, What: fmt.Sprintf("reply field %s differs from what was stored (got %q)", f, rep.Reply.Data),
				Replay: map[string]interface{}{"stored_for": describeDigits(di), "get": describeDigits(d)}})
			return
		}
		if int(i) != j {
			atomic.AddInt64(&crossVariant, 1)
		}
		if atomic.CompareAndSwapUint32(&classSeen[g.class(d)], 0, 1) {
			atomic.AddInt64(&distinctClasses, 1)
		}
	})
	run.Set(pfx+"grid_requests", int64(len(g.members)))
	run.Set(pfx+"ordered_pairs_decided", int64(len(g.members))*int64(len(g.members)))
	run.Set(pfx+"hits_verified", hits)
	run.Set(pfx+"misses", misses)
	run.Set(pfx+"hits_served_from_an_ignorable_variant", crossVariant)
	run.Set(pfx+"distinct_request_classes_hit", distinctClasses)
	run.Set(pfx+"distinct_cache_keys", distinctKeys)
	var radix []string
	for i := range dims {
		radix = append(radix, fmt.Sprintf("%s:%d", dims[i].name, g.radix[i]))
	}
	p1grid := "full product of " + strings.Join(radix, " ")
	if tier == "quick" {
		p1grid = fmt.Sprintf("all requests with at most %d fields different from the base request, out of the product of ", quickWeight) + strings.Join(radix, " ")
	}
	run.Set(pfx+"grid", p1grid)
	if done {
		run.Sample(map[string]interface{}{"phase": 1, "request": describeDigits(g.digits(int(g.members[len(g.members)/3]))), "note": "stored with its own reply, then looked up; a hit must carry a reply stored for an equivalent request"})
		if hits == 0 || crossVariant == 0 {
			run.Violate(ev.Violation{Key: "harness-vacuous-p1", What: fmt.Sprintf("phase 1 observed hits=%d crossVariant=%d: the oracle was never exercised", hits, crossVariant)})
		}
	}
	return done
}

// ---------------------------------------------------------------------------------------------------------------
// phase 2: set/get histories on one key

type sizeClass struct {
	name         string
	n            int
	compressible bool
}

type op struct {
	name  string
	isSet bool
	// set
	finalized bool
	hashIx    int // 0 none, 1 h1, 2 h2
	size      sizeClass
	// get: finalized, hashIx
}

var blockHashes = [][]byte{nil, []byte("hash-one-0123456789abcdef"), []byte("hash-two-0123456789abcdef")}
var hashNames = []string{"nohash", "h1", "h2"}

func allSizes() map[string]sizeClass {
	T := common.CompressionThreshold
	m := map[string]sizeClass{}
	for _, c := range []sizeClass{{"10", 10, true}, {"T-1", T - 1, true}, {"T", T, true}, {"T+1", T + 1, true}, {"T+1rnd", T + 1, false}, {"3T", 3 * T, true}} {
		m[c.name] = c
	}
	return m
}

// part is one exhaustive family of histories: all sequences of length <= depth ending in a get over its alphabet.
type part struct {
	name   string
	depth  int
	sizes  []string
	withH2 bool // also non-finalized sets carrying the second block hash
}

func parts(tier string) []part {
	if tier == "thorough" {
		return []part{
			{"small-deep", 5, []string{"10"}, true},
			{"sizes", 3, []string{"10", "T-1", "T", "T+1", "T+1rnd", "3T"}, true},
			{"big-deep", 4, []string{"10", "T+1"}, false},
		}
	}
	return []part{
		{"small-deep", 3, []string{"10"}, true},
		{"sizes", 2, []string{"T-1", "T", "T+1", "T+1rnd"}, false},
	}
}

func alphabet(p part) []op {
	type kind struct {
		name string
		fin  bool
		hash int
	}
	kinds := []kind{{"F", true, 1}, {"N+h1", false, 1}, {"N", false, 0}}
	if p.withH2 {
		kinds = append(kinds, kind{"N+h2", false, 2})
	}
	var ops []op
	for _, k := range kinds {
		for _, sn := range p.sizes {
			ops = append(ops, op{name: "set(" + k.name + "," + sn + ")", isSet: true, finalized: k.fin, hashIx: k.hash, size: allSizes()[sn]})
		}
	}
	for _, fin := range []bool{true, false} {
		for hx := 0; hx < 3; hx++ {
			n := "get(nonfinal,"
			if fin {
				n = "get(final,"
			}
			ops = append(ops, op{name: n + hashNames[hx] + ")", finalized: fin, hashIx: hx})
		}
	}
	return ops
}

var fillerC, fillerR []byte

func initFillers(max int) {
	fillerC = make([]byte, max)
	pat := []byte(`{"blockNumber":"0x10d4f","transactionIndex":"0x1","logs":[],"status":"0x1"},`)
	for i := range fillerC {
		fillerC[i] = pat[i%len(pat)]
	}
	fillerR = make([]byte, max)
	x := uint64(0x9E3779B97F4A7C15)
	for i := range fillerR {
		x ^= x << 13
		x ^= x >> 7
		x ^= x << 17
		fillerR[i] = byte(x >> 24)
	}
}

// bigPayload materialises payload (serial, size class) into buf: a 14-digit serial header followed by filler.
func bigPayload(serial int64, s sizeClass, buf *[]byte) []byte {
	if cap(*buf) < s.n {
		*buf = make([]byte, s.n)
	}
	b := (*buf)[:s.n]
	if s.compressible {
		copy(b, fillerC)
	} else {
		copy(b, fillerR)
	}
	copy(b, fmt.Sprintf("%014d|", serial))
	return b
}

// bigPayloadEquals compares got with bigPayload(serial, s) byte by byte without materialising the latter.
func bigPayloadEquals(got []byte, serial int64, s sizeClass) bool {
	if len(got) != s.n {
		return false
	}
	filler := fillerR
	if s.compressible {
		filler = fillerC
	}
	hdr := fmt.Sprintf("%014d|", serial)
	if len(hdr) > s.n {
		hdr = hdr[:s.n]
	}
	return string(got[:len(hdr)]) == hdr && bytes.Equal(got[len(hdr):], filler[len(hdr):s.n])
}

var serialCounter int64 = 1 << 40 // disjoint from phase 1 serials

func seqRequest(ns int, variant int) *pairingtypes.RelayPrivateData {
	return &pairingtypes.RelayPrivateData{
		ConnectionType: "POST",
		ApiUrl:         "/seq/" + strconv.Itoa(ns),
		Data:           []byte(`{"jsonrpc":"2.0","id":` + strconv.Itoa(variant+1) + `,"method":"eth_getBlockByNumber","params":["0x64",true]}`),
		RequestBlock:   100,
		ApiInterface:   "jsonrpc",
		Salt:           []byte{byte(variant), 7},
		SeenBlock:      int64(90 + variant),
		RequestId:      "rid-" + strconv.Itoa(variant),
	}
}

type p2stats struct {
	seqs, gets, hits, refusals, emptyMiss, nontrivial, compressedHits int64
	hitsBySize                                                        sync.Map
}

type workerBufs struct{ payload, wire []byte }

func runSequence(run *ev.Run, h *harness, ops []op, seq []int, ns int, st *p2stats, wb *workerBufs) {
	names := func() []string {
		var n []string
		for _, ix := range seq {
			n = append(n, ops[ix].name)
		}
		return n
	}
	var entries []stored
	var lastHash []byte
	hitOrRefusal := false
	for pos, ix := range seq {
		o := ops[ix]
		req, twin := seqRequest(ns, pos), seqRequest(ns, pos)
		hash, _ := hashChecked(run, req, twin, "ETH1", func() interface{} { return names() })
		if hash == nil {
			return
		}
		lastHash = hash
		if o.isSet {
			serial := atomic.AddInt64(&serialCounter, 1)
			data := bigPayload(serial, o.size, &wb.payload)
			entries = append(entries, stored{serial: serial, finalized: o.finalized, hash: blockHashes[o.hashIx], size: o.size})
			if err := h.set(hash, "ETH1", req.RequestBlock, req.SeenBlock, o.finalized, blockHashes[o.hashIx], serial, data, &wb.wire); err != nil {
				run.Violate(ev.Violation{Key: "harness-set-error", What: "SetRelay failed: " + err.Error(), Replay: names()})
				return
			}
			continue
		}
		atomic.AddInt64(&st.gets, 1)
		rep, err := h.get(hash, "ETH1", req.RequestBlock, req.SeenBlock, o.finalized, blockHashes[o.hashIx])
		if err != nil {
			run.Violate(ev.Violation{Key: "harness-get-error", What: "GetRelay failed: " + err.Error(), Replay: names()})
			return
		}
		if rep == nil || rep.Reply == nil {
			if len(entries) > 0 {
				if atomic.AddInt64(&st.refusals, 1) == 1 {
					run.Sample(map[string]interface{}{"phase": 2, "history": names(), "observed": fmt.Sprintf("op %d missed although the key has entries", pos)})
				}
				hitOrRefusal = true
			} else {
				atomic.AddInt64(&st.emptyMiss, 1)
			}
			continue
		}
		atomic.AddInt64(&st.hits, 1)
		hitOrRefusal = true
		serial := replySerial(rep)
		var e *stored
		for k := range entries {
			if entries[k].serial == serial {
				e = &entries[k]
			}
		}
		if e == nil {
			run.Violate(ev.Violation{Key: "p2-reply-not-stored-for-key",
				What:   fmt.Sprintf("op %d %s returned a reply (serial %d, %d bytes) that was not stored for this request in this history", pos, o.name, serial, len(rep.Reply.Data)),
				Replay: names()})
			continue
		}
		sizeName := e.size.name
		if f := sameAsStored(rep, serial, func(got []byte) bool { return bigPayloadEquals(got, serial, e.size) }); f != "" {
			run.Violate(ev.Violation{Key: "p2-reply-differs:" + f + ":len" + sizeClassOfLen(e.size.n),
				What:   fmt.Sprintf("op %d %s: reply field %s differs from the stored reply (stored %d bytes, got %d bytes)", pos, o.name, f, e.size.n, len(rep.Reply.Data)),
				Replay: names()})
			continue
		}
		if !e.finalized && e.hash != nil && !bytes.Equal(e.hash, blockHashes[o.hashIx]) {
			run.Violate(ev.Violation{Key: "hash-guard:stored-nonfinal-" + hashNameOf(e.hash) + ":get-" + hashNames[o.hashIx],
				What:   fmt.Sprintf("op %d %s returned the non-finalized entry stored with block hash %q", pos, o.name, e.hash),
				Replay: names()})
			continue
		}
		c, _ := st.hitsBySize.LoadOrStore(sizeName, new(int64))
		atomic.AddInt64(c.(*int64), 1)
		if e.size.n > common.CompressionThreshold {
			if atomic.AddInt64(&st.compressedHits, 1) == 1 {
				run.Sample(map[string]interface{}{"phase": 2, "history": names(), "observed": fmt.Sprintf("op %d hit: %d reply bytes identical to the stored payload (stored gzip-compressed when compressible)", pos, len(rep.Reply.Data))})
			}
		}
	}
	atomic.AddInt64(&st.seqs, 1)
	if hitOrRefusal {
		atomic.AddInt64(&st.nontrivial, 1)
	}
	if lastHash != nil {
		h.srv.VerifDelRelay(lastHash, 100)
	}
}

func sizeClassOfLen(n int) string {
	T := common.CompressionThreshold
	switch {
	case n < T:
		return "<T"
	case n == T:
		return "=T"
	}
	return ">T"
}

func hashNameOf(hh []byte) string {
	for i, b := range blockHashes {
		if bytes.Equal(b, hh) && b != nil {
			return hashNames[i]
		}
	}
	return "nohash"
}

func phase2(run *ev.Run, h *harness, tier string, workers int, deadline time.Time) bool {
	initFillers(3*common.CompressionThreshold + 16)
	st := &p2stats{}
	bufs := make([]workerBufs, workers)
	done := true
	nsBase, enumerated := 0, 0
	var descr []string
	usedSizes := map[string]bool{}
	for _, p := range parts(tier) {
		ops := alphabet(p)
		var getIx []int
		for i, o := range ops {
			if !o.isSet {
				getIx = append(getIx, i)
			} else {
				usedSizes[o.size.name] = true
			}
		}
		// all sequences of length 1..depth whose last op is a get (a trailing set is never observed)
		var seqs [][]int
		var rec func(prefix []int, remaining int)
		rec = func(prefix []int, remaining int) {
			for _, gi := range getIx {
				seqs = append(seqs, append(append([]int{}, prefix...), gi))
			}
			if remaining <= 1 {
				return
			}
			for i := range ops {
				rec(append(append([]int{}, prefix...), i), remaining-1)
			}
		}
		rec(nil, p.depth)
		base := nsBase
		ok := parallel(len(seqs), workers, deadline, func(w, i int) {
			runSequence(run, h, ops, seqs[i], base+i, st, &bufs[w])
		})
		done = done && ok
		nsBase += len(seqs)
		enumerated += len(seqs)
		var opn []string
		for _, o := range ops {
			opn = append(opn, o.name)
		}
		descr = append(descr, fmt.Sprintf("%s: all %d histories of length <= %d ending in a get over %d operations", p.name, len(seqs), p.depth, len(ops)))
		run.Sample(map[string]interface{}{"phase": 2, "part": p.name, "alphabet": opn})
	}
	run.Set("p2_parts", descr)
	run.Set("p2_sequences", st.seqs)
	run.Set("p2_sequences_enumerated", int64(enumerated))
	run.Set("p2_gets", st.gets)
	run.Set("p2_hits_verified_bytewise", st.hits)
	run.Set("p2_hits_above_compression_threshold", st.compressedHits)
	run.Set("p2_misses_with_entries_present", st.refusals)
	run.Set("p2_misses_on_empty_key", st.emptyMiss)
	run.Set("p2_sequences_nontrivial", st.nontrivial)
	bySize := map[string]int64{}
	st.hitsBySize.Range(func(k, v interface{}) bool { bySize[k.(string)] = atomic.LoadInt64(v.(*int64)); return true })
	run.Set("p2_hits_by_payload_size", bySize)
	if done {
		for sn := range usedSizes {
			if bySize[sn] == 0 {
				run.Violate(ev.Violation{Key: "harness-vacuous-p2", What: "no verified hit for payload size class " + sn})
			}
		}
		if st.refusals == 0 {
			run.Violate(ev.Violation{Key: "harness-vacuous-p2", What: "the block-hash guard was never exercised"})
		}
	}
	return done
}

// ---------------------------------------------------------------------------------------------------------------

func max64(a, b int64) int64 {
	if a > b {
		return a
	}
	return b
}

func Run(run *ev.Run) {
	utils.SetGlobalLoggingLevel("error")
	tier := ev.Tier()
	workers := runtime.NumCPU()
	if workers > 16 {
		workers = 16
	}
	budget := 50 * time.Second
	if tier == "thorough" {
		budget = 14 * time.Minute
	}
	t0 := time.Now()
	deadline := t0.Add(budget)
	h := newHarness() // never closed: ristretto's Close() clears ~1GB of sketches; the process ends right after the check

	// phase 1 may use at most 40% of the budget so that phase 2 always runs; the thorough tier first decides the
	// quick sub-grid (so that a complete pass exists even when the full product does not finish in time)
	ok1 := phase1(run, h, "quick", "p1_", workers, t0.Add(budget*2/5))
	if tier == "thorough" {
		ok1 = phase1(run, h, tier, "p1full_", workers, t0.Add(budget*2/5)) && ok1
	}
	t1 := time.Since(t0)
	ok2 := phase2(run, h, tier, workers, deadline)
	run.Set("wall_phase1_s", t1.Seconds())
	run.Set("wall_phase2_s", (time.Since(t0) - t1).Seconds())

	evals := run.Get("p1_grid_requests") + run.Get("p1full_grid_requests") + run.Get("p2_sequences")
	run.Set("evaluations", evals)
	run.Set("distinct_nontrivial", max64(run.Get("p1_distinct_request_classes_hit"), run.Get("p1full_distinct_request_classes_hit"))+run.Get("p2_sequences_nontrivial"))
	run.Set("rule", "phase 1: every request of the grid p1_grid (thorough: also p1full_grid) is stored with its own reply and then looked up through the real SetRelay/GetRelay with keys from the real HashCacheRequest; a request class (request modulo id/salt/seen block/request,task,tx id) is non-trivial when a lookup of it hit and the hit was checked against the stored reply and against the class of the request it was stored for. phase 2: every Set/Get sequence of the families in p2_parts (alphabets in the samples), each in its own key namespace; a sequence is non-trivial when at least one Get hit (reply compared byte-wise with the stored reply, block-hash rule checked) or missed while entries for the key existed.")
	run.Set("exhaustive", ok1 && ok2)
	run.Set("bound", fmt.Sprintf("phase 1: grid of %d requests (all ordered pairs; see p1_grid / p1full_grid); phase 2: %d histories (see p2_parts); requested blocks >= 0 only",
		max64(run.Get("p1_grid_requests"), run.Get("p1full_grid_requests")), run.Get("p2_sequences_enumerated")))
	run.Assume("symbolic requested blocks (latest/pending/safe/finalized/earliest < 0) are out of scope: their resolution uses a latest-block entry with a hard-coded 500ms wall-clock expiry")
	run.Assume("all TTLs are 24h and total stored cost stays far below MaxCost (2GiB), so no entry expires or is evicted during the run; ristretto Wait() after every SetRelay")
	run.Assume("handlers are called in-process after a protobuf marshal/unmarshal round trip of the request message (gRPC transport itself not exercised)")
	run.Assume("ristretto's own 128-bit key hashing is trusted not to collide")
}
