// Package c31: JSON-RPC batches are summarised order-independently — every multiset of members from a
// fixed alphabet, in every order, through the real JsonRPCChainParser built from the checked-in Ethereum
// spec, compared with the same members parsed alone.
package c31

import (
	"fmt"
	"os"
	"sort"
	"strings"
	"sync"
	"sync/atomic"
	"time"

	"github.com/lavanet/lava/v5/protocol/chainlib"
	"github.com/lavanet/lava/v5/protocol/chainlib/extensionslib"
	"github.com/lavanet/lava/v5/utils"
	specutils "github.com/lavanet/lava/v5/utils/keeper"
	spectypes "github.com/lavanet/lava/v5/x/spec/types"

	"verifmc/engine/ev"
	"verifmc/engine/reg"
)

func repoRoot() string {
	if r := os.Getenv("VERIF_REPO"); r != "" {
		return r + "/"
	}
	return "/repo/"
}

// newParser builds the real JSON-RPC chain parser on the unmodified ETH1 spec; withArchive allows the
// archive extension by policy (as a consumer whose plan includes archive), otherwise no extension is configured.
func newParser(withArchive bool) (*chainlib.JsonRPCChainParser, error) {
	spec, err := specutils.GetASpec("ETH1", repoRoot(), nil, nil)
	if err != nil {
		return nil, err
	}
	p, err := chainlib.NewJrpcChainParser()
	if err != nil {
		return nil, err
	}
	p.SetSpec(spec)
	services := map[string]struct{}{"debug": {}, "trace": {}}
	if withArchive {
		services[extensionslib.ArchiveExtension] = struct{}{}
	}
	p.SetPolicyFromAddonAndExtensionMap(services)
	return p, nil
}

type member struct {
	name  string // short name used in samples/replays
	body  string // JSON object with %d for the id
	block int64  // the block the member asks for: >= 0 numeric, < 0 the spec constant of its tag
}

func className(b int64) string {
	switch b {
	case spectypes.NOT_APPLICABLE:
		return "na"
	case spectypes.LATEST_BLOCK:
		return "latest"
	case spectypes.EARLIEST_BLOCK:
		return "earliest"
	case spectypes.PENDING_BLOCK:
		return "pending"
	case spectypes.SAFE_BLOCK:
		return "safe"
	case spectypes.FINALIZED_BLOCK:
		return "finalized"
	}
	if b >= 0 {
		return "num"
	}
	return fmt.Sprintf("neg%d", b)
}

func alphabet(tags []string) []member {
	tagBlock := map[string]int64{"latest": spectypes.LATEST_BLOCK, "earliest": spectypes.EARLIEST_BLOCK, "pending": spectypes.PENDING_BLOCK,
		"safe": spectypes.SAFE_BLOCK, "finalized": spectypes.FINALIZED_BLOCK}
	blk := func(tag string) int64 {
		if b, ok := tagBlock[tag]; ok {
			return b
		}
		var v int64
		fmt.Sscanf(tag, "0x%x", &v)
		return v
	}
	ms := []member{
		{"eth_blockNumber", `{"jsonrpc":"2.0","id":%d,"method":"eth_blockNumber","params":[]}`, spectypes.LATEST_BLOCK},
		{"net_version", `{"jsonrpc":"2.0","id":%d,"method":"net_version","params":[]}`, spectypes.NOT_APPLICABLE},
	}
	for _, t := range tags {
		ms = append(ms, member{"eth_getBalance(" + t + ")", `{"jsonrpc":"2.0","id":%d,"method":"eth_getBalance","params":["0x6b175474e89094c44da98b954eedeac495271d0f","` + t + `"]}`, blk(t)})
	}
	for _, t := range tags {
		ms = append(ms, member{"eth_getBlockByNumber(" + t + ")", `{"jsonrpc":"2.0","id":%d,"method":"eth_getBlockByNumber","params":["` + t + `",false]}`, blk(t)})
	}
	for _, t := range tags {
		ms = append(ms, member{"eth_call(" + t + ")", `{"jsonrpc":"2.0","id":%d,"method":"eth_call","params":[{"to":"0x6b175474e89094c44da98b954eedeac495271d0f","data":"0x70a08231"},"` + t + `"]}`, blk(t)})
	}
	// add-on (debug) methods
	ms = append(ms,
		member{"debug_traceBlockByNumber(0x64)", `{"jsonrpc":"2.0","id":%d,"method":"debug_traceBlockByNumber","params":["0x64",{}]}`, 100},
		member{"debug_traceBlockByNumber(latest)", `{"jsonrpc":"2.0","id":%d,"method":"debug_traceBlockByNumber","params":["latest",{}]}`, spectypes.LATEST_BLOCK},
	)
	return ms
}

func batchJSON(ms []member, idx []int) string {
	var sb strings.Builder
	sb.WriteByte('[')
	for i, m := range idx {
		if i > 0 {
			sb.WriteByte(',')
		}
		fmt.Fprintf(&sb, ms[m].body, i+1)
	}
	sb.WriteByte(']')
	return sb.String()
}

// ordKey orders witnesses: by member indices, then by latest block.
func ordKey(latest uint64, perm []int) string {
	var sb strings.Builder
	for _, i := range perm {
		fmt.Fprintf(&sb, "%03d.", i)
	}
	fmt.Fprintf(&sb, "|%012d", latest)
	return sb.String()
}

func names(ms []member, idx []int) []string {
	out := make([]string, len(idx))
	for i, m := range idx {
		out[i] = ms[m].name
	}
	return out
}

func hasArchive(m chainlib.ChainMessage) bool {
	for _, e := range m.GetExtensions() {
		if e.Name == extensionslib.ArchiveExtension {
			return true
		}
	}
	return false
}

// nextPerm advances idx to the next distinct permutation in lexicographic order (false after the last one).
func nextPerm(a []int) bool {
	i := len(a) - 2
	for i >= 0 && a[i] >= a[i+1] {
		i--
	}
	if i < 0 {
		return false
	}
	j := len(a) - 1
	for a[j] <= a[i] {
		j--
	}
	a[i], a[j] = a[j], a[i]
	for l, r := i+1, len(a)-1; l < r; l, r = l+1, r-1 {
		a[l], a[r] = a[r], a[l]
	}
	return true
}

// signature: the sorted distinct block classes of the multiset (numeric values collapsed to "num", a second
// different numeric value shown as "num2") — the failing shape used in violation keys.
func signature(ms []member, set []int) string {
	seen := map[string]bool{}
	nums := map[int64]bool{}
	for _, m := range set {
		b := ms[m].block
		if b >= 0 {
			nums[b] = true
			continue
		}
		seen[className(b)] = true
	}
	if len(nums) >= 1 {
		seen["num"] = true
	}
	if len(nums) >= 2 {
		seen["num2"] = true
	}
	out := make([]string, 0, len(seen))
	for c := range seen {
		out = append(out, c)
	}
	sort.Strings(out)
	return strings.Join(out, "+")
}

type alone struct {
	cu      uint64
	archive map[uint64]bool // by latestBlock
}

type checker struct {
	run     *ev.Run
	ms      []member
	plain   *chainlib.JsonRPCChainParser
	arch    *chainlib.JsonRPCChainParser
	latests []uint64
	alone   []alone

	parses, multisets, nontrivial, rejected, mixedErr int64
	// a kind of failure is reported once, keyed kind@<smallest batch size at which it occurs>, so that the set of
	// keys stays small and stable while a regression that makes a kind fail on smaller batches gets a new key
	mu           sync.Mutex
	kindMinSize  map[string]int
	witnessOrder map[string]string
	pending      map[string]ev.Violation
	counts       map[string]int64
	shapes       map[string]int64 // kind:block-classes of failing batches of size 2 (diagnostics)
}

func (c *checker) violate(kind string, size int, sig string, order string, what string, replay interface{}) {
	c.mu.Lock()
	defer c.mu.Unlock()
	c.counts[kind]++
	if size <= 2 {
		c.shapes[kind+":"+sig]++
	}
	cur, ok := c.kindMinSize[kind]
	if ok && size > cur {
		return
	}
	if !ok || size < cur || order < c.witnessOrder[kind] {
		// deterministic witness: smallest size, then smallest batch text
		c.kindMinSize[kind] = size
		c.witnessOrder[kind] = order
		c.pending[kind] = ev.Violation{Key: fmt.Sprintf("%s@%d", kind, size), What: what, Replay: replay}
	}
}

func (c *checker) parseAlone() error {
	c.alone = make([]alone, len(c.ms))
	for i, m := range c.ms {
		body := fmt.Sprintf(m.body, 1)
		pm, err := c.plain.ParseMsg("", []byte(body), "POST", nil, extensionslib.ExtensionInfo{LatestBlock: 0})
		if err != nil {
			return fmt.Errorf("member %s does not parse alone: %v", m.name, err)
		}
		if lb, _ := pm.RequestedBlock(); lb != m.block {
			return fmt.Errorf("member %s parsed alone asks for block %d, the harness meant %d", m.name, lb, m.block)
		}
		c.alone[i].cu = pm.GetApi().ComputeUnits
		c.alone[i].archive = map[uint64]bool{}
		for _, l := range c.latests {
			am, err := c.arch.ParseMsg("", []byte(body), "POST", nil, extensionslib.ExtensionInfo{LatestBlock: l})
			if err != nil {
				return fmt.Errorf("member %s does not parse alone: %v", m.name, err)
			}
			c.alone[i].archive[l] = hasArchive(am)
		}
	}
	return nil
}

type outcome struct {
	order    []int
	lat, ear int64
}

// checkMultiset parses every distinct order of the multiset `set` (sorted member indices).
func (c *checker) checkMultiset(set []int) {
	ms := c.ms
	size := len(set)
	sig := signature(ms, set)
	var cuSum uint64
	numeric := []int64{}
	for _, m := range set {
		cuSum += c.alone[m].cu
		if ms[m].block >= 0 {
			numeric = append(numeric, ms[m].block)
		}
	}
	atomic.AddInt64(&c.multisets, 1)
	perm := append([]int{}, set...)
	nperm := 0
	// (1) compute units, on the parser without extensions (an extension multiplies the CU of whatever it is attached to)
	for ok := true; ok; ok = nextPerm(perm) {
		nperm++
		body := batchJSON(ms, perm)
		pm, err := c.plain.ParseMsg("", []byte(body), "POST", nil, extensionslib.ExtensionInfo{LatestBlock: 0})
		atomic.AddInt64(&c.parses, 1)
		if err != nil {
			continue
		}
		if got := pm.GetApi().ComputeUnits; got != cuSum {
			c.violate("cu-not-sum", size, sig, ordKey(0, perm), fmt.Sprintf("batch %v has %d CU, its members parsed alone sum to %d", names(ms, perm), got, cuSum),
				map[string]interface{}{"batch": body, "cu": got, "sum_of_members": cuSum})
		}
	}
	if nperm >= 2 && len(numeric) > 0 {
		atomic.AddInt64(&c.nontrivial, 1)
	}
	// (2)-(4) on the parser with the archive extension allowed
	for _, latest := range c.latests {
		anyArchive := false
		for _, m := range set {
			anyArchive = anyArchive || c.alone[m].archive[latest]
		}
		copy(perm, set)
		var first *outcome
		nerr, nok := 0, 0
		reportedLat, reportedEar := false, false
		for ok := true; ok; ok = nextPerm(perm) {
			body := batchJSON(ms, perm)
			pm, err := c.arch.ParseMsg("", []byte(body), "POST", nil, extensionslib.ExtensionInfo{LatestBlock: latest})
			atomic.AddInt64(&c.parses, 1)
			if err != nil {
				nerr++
				continue
			}
			nok++
			lat, ear := pm.RequestedBlock()
			replay := map[string]interface{}{"batch": body, "latest_block": latest, "requested_latest": lat, "requested_earliest": ear, "archive": hasArchive(pm)}
			// (3) the summarised range covers every numeric member
			for _, b := range numeric {
				if ear >= 0 && ear > b {
					c.violate("earliest-above-member", size, sig, ordKey(latest, perm), fmt.Sprintf("batch %v: summarised earliest %d is above member block %d", names(ms, perm), ear, b), replay)
				}
				if lat >= 0 && lat < b {
					c.violate("latest-below-member", size, sig, ordKey(latest, perm), fmt.Sprintf("batch %v: summarised latest %d is below member block %d", names(ms, perm), lat, b), replay)
				}
			}
			// (4) archive needed by a member alone => needed by the batch
			if anyArchive && !hasArchive(pm) {
				c.violate("archive-lost-in-batch", size, sig, ordKey(latest, perm), fmt.Sprintf("batch %v (latest block %d): a member alone needs archive, the batch (requested latest %d earliest %d) does not", names(ms, perm), latest, lat, ear), replay)
			}
			// (2) order independence
			if first == nil {
				first = &outcome{append([]int{}, perm...), lat, ear}
				continue
			}
			replay = map[string]interface{}{"batch": body, "latest_block": latest, "requested_latest": lat, "requested_earliest": ear, "archive": hasArchive(pm)}
			if lat != first.lat && !reportedLat {
				reportedLat = true
				replay["other_order"] = batchJSON(ms, first.order)
				replay["other_requested_latest"] = first.lat
				c.violate("order-dependent-latest", size, sig, ordKey(latest, perm), fmt.Sprintf("%v gives latest %d but %v gives %d", names(ms, first.order), first.lat, names(ms, perm), lat), replay)
			}
			if ear != first.ear && !reportedEar {
				reportedEar = true
				replay["other_order"] = batchJSON(ms, first.order)
				replay["other_requested_earliest"] = first.ear
				c.violate("order-dependent-earliest", size, sig, ordKey(latest, perm), fmt.Sprintf("%v gives earliest %d but %v gives %d", names(ms, first.order), first.ear, names(ms, perm), ear), replay)
			}
		}
		if nerr > 0 {
			atomic.AddInt64(&c.rejected, int64(nerr))
			if nok > 0 {
				atomic.AddInt64(&c.mixedErr, 1)
			}
		}
	}
}

func run(run *ev.Run) {
	utils.SetGlobalLoggingLevel("fatal")
	start := time.Now()
	maxSize := 4
	deadline := 10 * time.Minute
	fullUpTo := 3 // batches up to this size use the whole alphabet, larger ones the sub-alphabet `big`
	big := []string{"eth_blockNumber", "net_version", "eth_getBalance(", "eth_call(latest)", "eth_call(earliest)", "eth_call(0x1)", "eth_call(0x3e8)",
		"eth_getBlockByNumber(0x64)", "debug_traceBlockByNumber(0x64)"}
	tags := []string{"latest", "earliest", "pending", "safe", "finalized", "0x1", "0x64", "0x3e8"}
	if ev.Tier() == "thorough" {
		maxSize = 5
		deadline = 14 * time.Minute
		fullUpTo = 4
	}
	plain, err := newParser(false)
	if err == nil {
		var arch *chainlib.JsonRPCChainParser
		arch, err = newParser(true)
		if err == nil {
			c := &checker{run: run, ms: alphabet(tags), plain: plain, arch: arch, latests: []uint64{0, 100, 5000},
				kindMinSize: map[string]int{}, witnessOrder: map[string]string{}, pending: map[string]ev.Violation{}, counts: map[string]int64{}, shapes: map[string]int64{}}
			if err = c.parseAlone(); err == nil {
				explore(c, maxSize, fullUpTo, big, start.Add(deadline))
				return
			}
		}
	}
	run.Violate(ev.Violation{Key: "harness-setup", What: err.Error()})
}

func explore(c *checker, maxSize, fullUpTo int, big []string, deadline time.Time) {
	run := c.run
	n := len(c.ms)
	work := make(chan []int, 1024)
	var wg sync.WaitGroup
	var timedOut int32
	for w := 0; w < 16; w++ {
		wg.Add(1)
		go func() {
			defer wg.Done()
			for set := range work {
				if atomic.LoadInt32(&timedOut) != 0 {
					continue
				}
				c.checkMultiset(set)
			}
		}()
	}
	completed := 0
	all := make([]int, n)
	for i := range all {
		all[i] = i
	}
	var sub []int // the members allowed in batches of size 5
	for i, m := range c.ms {
		for _, pfx := range big {
			if strings.HasPrefix(m.name, pfx) {
				sub = append(sub, i)
				break
			}
		}
	}
	for size := 1; size <= maxSize; size++ {
		idxs := all
		if size > fullUpTo {
			idxs = sub
		}
		n := len(idxs)
		// all non-decreasing index tuples of this size = all multisets
		set := make([]int, size)
		for {
			if time.Now().After(deadline) {
				atomic.StoreInt32(&timedOut, 1)
				break
			}
			mapped := make([]int, size)
			for k, v := range set {
				mapped[k] = idxs[v]
			}
			work <- mapped
			i := size - 1
			for i >= 0 && set[i] == n-1 {
				i--
			}
			if i < 0 {
				break
			}
			v := set[i] + 1
			for ; i < size; i++ {
				set[i] = v
			}
		}
		if atomic.LoadInt32(&timedOut) != 0 {
			break
		}
		completed = size
	}
	close(work)
	wg.Wait()
	exhaustive := atomic.LoadInt32(&timedOut) == 0
	for _, v := range c.pending {
		run.Violate(v)
	}
	for _, s := range [][]int{{3, 8}, {2, 16, 28}, {0, 9, 21, 26}} {
		ok := true
		for _, i := range s {
			ok = ok && i < n
		}
		if !ok {
			continue
		}
		body := batchJSON(c.ms, s)
		if pm, err := c.arch.ParseMsg("", []byte(body), "POST", nil, extensionslib.ExtensionInfo{LatestBlock: 5000}); err == nil {
			lat, ear := pm.RequestedBlock()
			run.Sample(map[string]interface{}{"batch": body, "latest_block": 5000, "requested_latest": lat, "requested_earliest": ear, "archive": hasArchive(pm), "cu_with_extensions": pm.GetApi().ComputeUnits})
		}
	}
	run.Set("evaluations", c.parses)
	run.Set("multisets", c.multisets)
	run.Set("distinct_nontrivial", c.nontrivial)
	run.Set("rejected_batches", c.rejected)
	run.Set("multisets_rejected_in_some_orders_only", c.mixedErr)
	run.Set("failures_by_kind", c.counts)
	run.Set("smallest_failing_size_by_kind", c.kindMinSize)
	run.Set("failing_shapes_of_size_2", c.shapes)
	run.Set("exhaustive", exhaustive)
	run.Set("rule", "every multiset of 1..N members of the alphabet is parsed as a JSON-RPC batch in every distinct order by the real JsonRPCChainParser (ETH1 spec) for each latest-block value, and compared with its members parsed alone; evaluations = ParseMsg calls on batches; non-trivial = distinct multisets with >= 2 distinct orders and >= 1 numeric member (order and range oracles both exercised)")
	names := []string{}
	for _, m := range c.ms {
		names = append(names, m.name)
	}
	bound := fmt.Sprintf("batch size 1..%d (completed up to %d) over %d members %v; latest block in %v; all orders", fullUpTo, min(completed, fullUpTo), n, names, c.latests)
	if maxSize > fullUpTo {
		bound += fmt.Sprintf("; batch size %d..%d (completed up to %d) over the %d members whose name starts with one of %v", fullUpTo+1, maxSize, completed, len(sub), big)
	}
	run.Set("bound", bound)
	run.Assume("compute units are compared on a parser with no extension configured, because an attached extension multiplies the CU of the whole message; blocks, order independence and archive are checked with the archive extension allowed by policy")
	run.Assume("a failure kind is keyed by the smallest batch size at which it occurs (kind@size, witness = smallest such batch); other failing batches of the kind are counted in failures_by_kind / failing_shapes_of_size_2")
	run.Assume("batches the parser rejects (members from two different add-ons) are counted, not judged")
}

func init() {
	reg.Register(reg.Check{Property: "C31", Level: "exploration", Run: run})
}
