// Package c25: relay signatures bind every signed field, and checking a signature has no side effects.
//
// Bounded-exhaustive enumeration of field mutations on the real code:
//   - consumer side: sessions are built and signed by lavaprotocol.ConstructRelayRequest / sigs.Sign, then
//     every combination of <= K single-field mutations (one per field) is applied and the signer is
//     recovered with sigs.ExtractSignerAddress (what the provider does);
//   - provider side: replies are signed by lavaprotocol.SignRelayResponse, the consumer-side pair
//     (request, reply) is mutated the same way and checked with lavaprotocol.VerifyRelayReply.
//
// Oracle (from the property text, never from DataToSign): the verdict is "valid" iff no mutation of a
// field the property lists as signed was applied; and the checked objects marshal to the same bytes
// before and after the check.
package c25

import (
	"bytes"
	"context"
	"crypto/sha256"
	"fmt"
	"reflect"
	"runtime"
	"sort"
	"strconv"
	"strings"
	"sync"
	"sync/atomic"

	sdk "github.com/cosmos/cosmos-sdk/types"
	"github.com/lavanet/lava/v5/protocol/lavaprotocol"
	"github.com/lavanet/lava/v5/protocol/lavasession"
	"github.com/lavanet/lava/v5/protocol/qos"
	"github.com/lavanet/lava/v5/utils"
	"github.com/lavanet/lava/v5/utils/sigs"
	pairingtypes "github.com/lavanet/lava/v5/x/pairing/types"
	spectypes "github.com/lavanet/lava/v5/x/spec/types"

	"verifmc/engine/ev"
	"verifmc/engine/reg"
)

type (
	session = pairingtypes.RelaySession
	pdata   = pairingtypes.RelayPrivateData
)

// exchange is what the consumer hands to VerifyRelayReply
type exchange struct {
	req   *pairingtypes.RelayRequest
	reply *pairingtypes.RelayReply
}

// mut is one named replacement of one field (or, for "boundary" mutations, of two neighbouring fields).
type mut[T any] struct {
	name   string   // "Field/variant"
	fields []string // fields it occupies: two mutations of one combination never share a field
	signed bool     // does the property list the field as covered by the signature?
	apply  func(*T)
}

// ---------------------------------------------------------------- deep copies / canonical bytes

func must(err error) {
	if err != nil {
		panic(err)
	}
}

func cloneSession(s *session) *session {
	if s == nil {
		return nil
	}
	b, err := s.Marshal()
	must(err)
	n := &session{}
	must(n.Unmarshal(b))
	return n
}

func cloneData(d *pdata) *pdata {
	if d == nil {
		return nil
	}
	b, err := d.Marshal()
	must(err)
	n := &pdata{}
	must(n.Unmarshal(b))
	return n
}

func cloneReply(r *pairingtypes.RelayReply) *pairingtypes.RelayReply {
	b, err := r.Marshal()
	must(err)
	n := &pairingtypes.RelayReply{}
	must(n.Unmarshal(b))
	return n
}

func cloneExchange(e *exchange) *exchange {
	return &exchange{
		req:   &pairingtypes.RelayRequest{RelaySession: cloneSession(e.req.RelaySession), RelayData: cloneData(e.req.RelayData)},
		reply: cloneReply(e.reply),
	}
}

func sessionBytes(s *session) []byte { b, err := s.Marshal(); must(err); return b }

func exchangeBytes(e *exchange) []byte {
	a, err := e.req.Marshal()
	must(err)
	b, err := e.reply.Marshal()
	must(err)
	return append(append(a, 0xff, 0xfe), b...)
}

// the part of a session the property lists as signed: everything but Sig and Badge
func sessionSignedPart(s *session) []byte {
	c := cloneSession(s)
	c.Sig, c.Badge = nil, nil
	return sessionBytes(c)
}

// the part of an exchange the property lists as signed: reply data, reply metadata, request data minus salt
func exchangeSignedPart(e *exchange) []byte {
	d := cloneData(e.req.RelayData)
	d.Salt = nil
	db, err := d.Marshal()
	must(err)
	r := &pairingtypes.RelayReply{Data: e.reply.Data, Metadata: e.reply.Metadata}
	rb, err := r.Marshal()
	must(err)
	return append(append(db, 0xff, 0xfe), rb...)
}

// diffFields names the exported struct fields in which two values differ (both sides are first
// normalised through a marshal round trip by the callers).
func diffFields(prefix string, a, b interface{}) []string {
	va, vb := reflect.ValueOf(a), reflect.ValueOf(b)
	if va.Kind() == reflect.Ptr {
		if va.IsNil() || vb.IsNil() {
			if va.IsNil() != vb.IsNil() {
				return []string{prefix}
			}
			return nil
		}
		va, vb = va.Elem(), vb.Elem()
	}
	var out []string
	for i := 0; i < va.NumField(); i++ {
		if !va.Type().Field(i).IsExported() {
			continue
		}
		if !reflect.DeepEqual(va.Field(i).Interface(), vb.Field(i).Interface()) {
			out = append(out, prefix+"."+va.Type().Field(i).Name)
		}
	}
	return out
}

// ---------------------------------------------------------------- fixtures

type world struct {
	consumer sigs.Account
	provider sigs.Account
	stranger sigs.Account
}

func dec(s string) sdk.Dec { return sdk.MustNewDecFromStr(s) }

func newWorld() *world {
	zr := sigs.NewZeroReader(25)
	return &world{
		consumer: sigs.GenerateDeterministicFloatingKey(zr),
		provider: sigs.GenerateDeterministicFloatingKey(zr),
		stranger: sigs.GenerateDeterministicFloatingKey(zr),
	}
}

func (w *world) baseData() *pdata {
	d := &pdata{
		ConnectionType: "GET",
		ApiUrl:         "/cosmos/base/tendermint/v1beta1/blocks/17",
		Data:           []byte(`{"k":"v"}`),
		RequestBlock:   17,
		ApiInterface:   "rest",
		Metadata:       []pairingtypes.Metadata{{Name: "x-hdr", Value: "one"}, {Name: "y-hdr", Value: "two"}},
		Addon:          "archive",
		Extensions:     []string{"ext1", "ext2"},
		SeenBlock:      16,
		RequestId:      "rid-1",
	}
	lavaprotocol.SetSalt(d, 0x1122334455667788)
	lavaprotocol.SetTaskId(d, "task-1")
	lavaprotocol.SetTxId(d, "tx-1")
	return d
}

func (w *world) minimalData() *pdata {
	d := &pdata{
		Data:         []byte(`{"jsonrpc":"2.0","method":"eth_blockNumber","params":[],"id":1}`),
		RequestBlock: spectypes.LATEST_BLOCK,
		ApiInterface: "jsonrpc",
	}
	lavaprotocol.SetSalt(d, 7)
	return d
}

type sessionBase struct {
	name string
	s    *session
}

func (w *world) sessionBases() []sessionBase {
	providerAddr := w.provider.Addr.String()
	// 1. plain session through the real request builder
	scs := &lavasession.SingleConsumerSession{CuSum: 20, LatestRelayCu: 10, QoSManager: qos.NewQoSManager(), SessionId: 123, RelayNum: 2}
	req, err := lavaprotocol.ConstructRelayRequest(context.Background(), w.consumer.SK, "lava", "LAV1", w.baseData(), providerAddr, scs, 100, nil)
	must(err)
	plain := req.RelaySession

	// 2. with a badge (the badge is explicitly not part of the consumer signature)
	badge := cloneSession(plain)
	badge.Sig = nil
	badge.SessionId, badge.RelayNum, badge.CuSum = 456, 1, 10
	badge.Badge = &pairingtypes.Badge{CuAllocation: 1000, Epoch: 100, Address: w.consumer.Addr.String(), LavaChainId: "lava", ProjectSig: []byte("project-signature-bytes"), VirtualEpoch: 0}
	sig, err := sigs.Sign(w.consumer.SK, *badge)
	must(err)
	badge.Sig = sig

	// 3. with QoS reports and reported providers
	full := cloneSession(plain)
	full.Sig = nil
	full.SessionId, full.RelayNum, full.CuSum = 789, 5, 55
	full.QosReport = &pairingtypes.QualityOfServiceReport{Latency: dec("1.5"), Availability: dec("0.95"), Sync: dec("2")}
	full.QosExcellenceReport = &pairingtypes.QualityOfServiceReport{Latency: dec("0.25"), Availability: dec("1"), Sync: dec("0.5")}
	full.UnresponsiveProviders = []*pairingtypes.ReportedProvider{
		{Address: "lava@unresponsive1", Disconnections: 1, Errors: 2, TimestampS: 1000},
		{Address: "lava@unresponsive2", Disconnections: 0, Errors: 7, TimestampS: 1001},
	}
	sig, err = sigs.Sign(w.consumer.SK, *full)
	must(err)
	full.Sig = sig
	return []sessionBase{{"plain", plain}, {"badge", badge}, {"qos+reported", full}}
}

type exchangeBase struct {
	name string
	e    *exchange
}

func (w *world) exchangeBases(sess *session) []exchangeBase {
	mk := func(name string, d *pdata, reply *pairingtypes.RelayReply) exchangeBase {
		request := &pairingtypes.RelayRequest{RelaySession: cloneSession(sess), RelayData: d}
		// provider side (works on its own copy of what came over the wire)
		provReq := &pairingtypes.RelayRequest{RelaySession: cloneSession(sess), RelayData: cloneData(d)}
		signed, err := lavaprotocol.SignRelayResponse(w.consumer.Addr, *provReq, w.provider.SK, cloneReply(reply))
		must(err)
		// consumer side, as relayInner does before verifying
		lavaprotocol.UpdateRequestedBlock(request.RelayData, signed)
		return exchangeBase{name, &exchange{req: request, reply: signed}}
	}
	return []exchangeBase{
		mk("rest-full", w.baseData(), &pairingtypes.RelayReply{
			Data: []byte(`{"block":{"header":{"height":"17"}}}`), LatestBlock: 100,
			FinalizedBlocksHashes: []byte(`{"90":"h90"}`), SigBlocks: []byte("sigblocks"),
			Metadata: []pairingtypes.Metadata{{Name: "r-hdr", Value: "rv"}, {Name: "s-hdr", Value: "sv"}},
		}),
		mk("jsonrpc-latest", w.minimalData(), &pairingtypes.RelayReply{
			Data: []byte(`{"jsonrpc":"2.0","id":1,"result":"0x64"}`), LatestBlock: 100,
		}),
	}
}

// ---------------------------------------------------------------- mutation catalogues

func sm(name string, signed bool, apply func(*session), fields ...string) mut[session] {
	if len(fields) == 0 {
		fields = []string{strings.SplitN(name, "/", 2)[0]}
	}
	return mut[session]{name: name, fields: fields, signed: signed, apply: apply}
}

func qosMuts(field string, get func(*session) **pairingtypes.QualityOfServiceReport, base *session) []mut[session] {
	var out []mut[session]
	if *get(base) == nil {
		out = append(out, sm(field+"/set", true, func(s *session) {
			*get(s) = &pairingtypes.QualityOfServiceReport{Latency: dec("3"), Availability: dec("0.5"), Sync: dec("4")}
		}))
		return out
	}
	out = append(out,
		sm(field+"/nil", true, func(s *session) { *get(s) = nil }),
		sm(field+"/latency", true, func(s *session) { (*get(s)).Latency = (*get(s)).Latency.Add(dec("0.000000000000000001")) }),
		sm(field+"/availability", true, func(s *session) { (*get(s)).Availability = dec("0.5") }),
		sm(field+"/sync", true, func(s *session) { (*get(s)).Sync = (*get(s)).Sync.MulInt64(10) }),
		sm(field+"/swap-latency-sync", true, func(s *session) { q := *get(s); q.Latency, q.Sync = q.Sync, q.Latency }),
	)
	return out
}

func (w *world) sessionMuts(base *session) []mut[session] {
	ms := []mut[session]{
		sm("SpecId/other", true, func(s *session) { s.SpecId = "LAV2" }),
		sm("SpecId/empty", true, func(s *session) { s.SpecId = "" }),
		sm("SpecId/case", true, func(s *session) { s.SpecId = strings.ToLower(s.SpecId) }),
		sm("SpecId|ContentHash/boundary", true, func(s *session) {
			n := len(s.SpecId)
			s.ContentHash = append([]byte{s.SpecId[n-1]}, s.ContentHash...)
			s.SpecId = s.SpecId[:n-1]
		}, "SpecId", "ContentHash"),
		sm("ContentHash/flip-first-bit", true, func(s *session) { s.ContentHash[0] ^= 1 }),
		sm("ContentHash/flip-last-bit", true, func(s *session) { s.ContentHash[len(s.ContentHash)-1] ^= 0x80 }),
		sm("ContentHash/truncate", true, func(s *session) { s.ContentHash = s.ContentHash[:len(s.ContentHash)-1] }),
		sm("ContentHash/nil", true, func(s *session) { s.ContentHash = nil }),
		sm("SessionId/+1", true, func(s *session) { s.SessionId++ }),
		sm("SessionId/0", true, func(s *session) { s.SessionId = 0 }),
		sm("SessionId|CuSum/boundary", true, func(s *session) {
			last := s.SessionId % 10
			s.SessionId /= 10
			v, err := strconv.ParseUint(fmt.Sprintf("%d%d", last, s.CuSum), 10, 64)
			must(err)
			s.CuSum = v
		}, "SessionId", "CuSum"),
		sm("CuSum/+1", true, func(s *session) { s.CuSum++ }),
		sm("CuSum/-1", true, func(s *session) { s.CuSum-- }),
		sm("CuSum/max", true, func(s *session) { s.CuSum = ^uint64(0) }),
		sm("Provider/other", true, func(s *session) { s.Provider = w.stranger.Addr.String() }),
		sm("Provider/empty", true, func(s *session) { s.Provider = "" }),
		sm("Provider/append", true, func(s *session) { s.Provider += "x" }),
		sm("RelayNum/+1", true, func(s *session) { s.RelayNum++ }),
		sm("RelayNum/-1", true, func(s *session) { s.RelayNum-- }),
		sm("RelayNum/0", true, func(s *session) { s.RelayNum = 0 }),
		sm("Epoch/+1", true, func(s *session) { s.Epoch++ }),
		sm("Epoch/negated", true, func(s *session) { s.Epoch = -s.Epoch }),
		sm("Epoch/0", true, func(s *session) { s.Epoch = 0 }),
		sm("LavaChainId/other", true, func(s *session) { s.LavaChainId = "lava-testnet" }),
		sm("LavaChainId/empty", true, func(s *session) { s.LavaChainId = "" }),
		sm("UnresponsiveProviders/append", true, func(s *session) {
			s.UnresponsiveProviders = append(s.UnresponsiveProviders, &pairingtypes.ReportedProvider{Address: "lava@framed", Errors: 1, TimestampS: 5})
		}),
	}
	ms = append(ms, qosMuts("QosReport", func(s *session) **pairingtypes.QualityOfServiceReport { return &s.QosReport }, base)...)
	ms = append(ms, qosMuts("QosExcellenceReport", func(s *session) **pairingtypes.QualityOfServiceReport { return &s.QosExcellenceReport }, base)...)
	if len(base.UnresponsiveProviders) >= 2 {
		ms = append(ms,
			sm("UnresponsiveProviders/drop-last", true, func(s *session) {
				s.UnresponsiveProviders = s.UnresponsiveProviders[:len(s.UnresponsiveProviders)-1]
			}),
			sm("UnresponsiveProviders/drop-all", true, func(s *session) { s.UnresponsiveProviders = nil }),
			sm("UnresponsiveProviders/address", true, func(s *session) { s.UnresponsiveProviders[0].Address = "lava@framed" }),
			sm("UnresponsiveProviders/disconnections", true, func(s *session) { s.UnresponsiveProviders[0].Disconnections++ }),
			sm("UnresponsiveProviders/errors", true, func(s *session) { s.UnresponsiveProviders[1].Errors++ }),
			sm("UnresponsiveProviders/timestamp", true, func(s *session) { s.UnresponsiveProviders[0].TimestampS++ }),
			sm("UnresponsiveProviders/swap", true, func(s *session) {
				s.UnresponsiveProviders[0], s.UnresponsiveProviders[1] = s.UnresponsiveProviders[1], s.UnresponsiveProviders[0]
			}),
		)
	}
	// not covered by the consumer signature according to the property: the badge
	if base.Badge == nil {
		ms = append(ms, sm("Badge/set", false, func(s *session) {
			s.Badge = &pairingtypes.Badge{CuAllocation: 5, Epoch: 1, Address: "lava@someone", LavaChainId: "lava", ProjectSig: []byte("ps")}
		}))
	} else {
		ms = append(ms,
			sm("Badge/nil", false, func(s *session) { s.Badge = nil }),
			sm("Badge/cu-allocation", false, func(s *session) { s.Badge.CuAllocation++ }),
			sm("Badge/address", false, func(s *session) { s.Badge.Address = "lava@someone" }),
			sm("Badge/project-sig", false, func(s *session) { s.Badge.ProjectSig[0] ^= 1 }),
		)
	}
	return ms
}

func em(name string, signed bool, apply func(*exchange), fields ...string) mut[exchange] {
	if len(fields) == 0 {
		fields = []string{strings.SplitN(name, "/", 2)[0]}
	}
	return mut[exchange]{name: name, fields: fields, signed: signed, apply: apply}
}

// textOfHeadField renders, through the request's own text form, the first non-empty field of the request
// data followed by the separating blank, and clears that field.  Used to build the input of the
// "boundary" mutation only.
func stripHeadField(d *pdata) (string, bool) {
	c := cloneData(d)
	c.Salt = nil
	before := c.String()
	switch {
	case d.ConnectionType != "":
		d.ConnectionType, c.ConnectionType = "", ""
	case d.ApiUrl != "":
		d.ApiUrl, c.ApiUrl = "", ""
	case len(d.Data) > 0:
		d.Data, c.Data = nil, nil
	default:
		return "", false
	}
	after := c.String()
	if !strings.HasSuffix(before, after) {
		return "", false
	}
	return before[:len(before)-len(after)], true
}

func (w *world) exchangeMuts(base *exchange) []mut[exchange] {
	d := func(e *exchange) *pdata { return e.req.RelayData }
	ms := []mut[exchange]{
		// request data: covered by the provider signature
		em("RelayData.ConnectionType/other", true, func(e *exchange) { d(e).ConnectionType = "POST" }),
		em("RelayData.ApiUrl/other", true, func(e *exchange) { d(e).ApiUrl = "/cosmos/base/tendermint/v1beta1/blocks/18" }),
		em("RelayData.ApiUrl/append", true, func(e *exchange) { d(e).ApiUrl += "0" }),
		em("RelayData.Data/append", true, func(e *exchange) { d(e).Data = append(d(e).Data, ' ') }),
		em("RelayData.Data/truncate", true, func(e *exchange) { d(e).Data = d(e).Data[:len(d(e).Data)-1] }),
		em("RelayData.Data/nil", true, func(e *exchange) { d(e).Data = nil }),
		em("RelayData.RequestBlock/+1", true, func(e *exchange) { d(e).RequestBlock++ }),
		em("RelayData.RequestBlock/latest", true, func(e *exchange) { d(e).RequestBlock = spectypes.LATEST_BLOCK }),
		em("RelayData.ApiInterface/other", true, func(e *exchange) { d(e).ApiInterface = "grpc" }),
		em("RelayData.ApiInterface/empty", true, func(e *exchange) { d(e).ApiInterface = "" }),
		em("RelayData.Metadata/append", true, func(e *exchange) {
			d(e).Metadata = append(d(e).Metadata, pairingtypes.Metadata{Name: "z-hdr", Value: "three"})
		}),
		em("RelayData.Addon/other", true, func(e *exchange) { d(e).Addon = "debug" }),
		em("RelayData.Extensions/append", true, func(e *exchange) { d(e).Extensions = append(d(e).Extensions, "ext3") }),
		em("RelayData.SeenBlock/+1", true, func(e *exchange) { d(e).SeenBlock++ }),
		em("RelayData.SeenBlock/-1", true, func(e *exchange) { d(e).SeenBlock-- }),
		em("RelayData.RequestId/other", true, func(e *exchange) { d(e).RequestId = "rid-2" }),
		em("RelayData.TaskId/other", true, func(e *exchange) { lavaprotocol.SetTaskId(d(e), "task-2") }),
		em("RelayData.TxId/other", true, func(e *exchange) { lavaprotocol.SetTxId(d(e), "tx-2") }),
		// reply data / metadata: covered
		em("Reply.Data/append", true, func(e *exchange) { e.reply.Data = append(e.reply.Data, ' ') }),
		em("Reply.Data/truncate", true, func(e *exchange) { e.reply.Data = e.reply.Data[:len(e.reply.Data)-1] }),
		em("Reply.Data/flip-bit", true, func(e *exchange) { e.reply.Data[len(e.reply.Data)/2] ^= 1 }),
		em("Reply.Data/nil", true, func(e *exchange) { e.reply.Data = nil }),
		em("Reply.Metadata/append", true, func(e *exchange) {
			e.reply.Metadata = append(e.reply.Metadata, pairingtypes.Metadata{Name: "t-hdr", Value: "tv"})
		}),
		em("Reply.Metadata/append-empty-entry", true, func(e *exchange) {
			e.reply.Metadata = append(e.reply.Metadata, pairingtypes.Metadata{})
		}),
		// the byte(s) at the reply-data / request-data boundary move from one side to the other
		em("Reply.Data|RelayData/boundary", true, func(e *exchange) {
			head, ok := stripHeadField(d(e))
			if !ok {
				panic("c25 harness: boundary mutation not applicable")
			}
			e.reply.Data = append(e.reply.Data, head...)
		}, "Reply.Data", "RelayData.ConnectionType", "RelayData.ApiUrl", "RelayData.Data"),
		// not covered according to the property: salt, the session riding in the request, and the other reply fields
		em("RelayData.Salt/nil", false, func(e *exchange) { d(e).Salt = nil }),
		em("RelayData.Salt/other", false, func(e *exchange) { lavaprotocol.SetSalt(d(e), 42) }),
		em("RelayData.Salt/short", false, func(e *exchange) { d(e).Salt = []byte{9} }),
		em("Request.RelaySession/nil", false, func(e *exchange) { e.req.RelaySession = nil }),
		em("Request.RelaySession/cu+1", false, func(e *exchange) { e.req.RelaySession.CuSum++ }),
		em("Reply.LatestBlock/+1", false, func(e *exchange) { e.reply.LatestBlock++ }),
		em("Reply.FinalizedBlocksHashes/other", false, func(e *exchange) { e.reply.FinalizedBlocksHashes = []byte(`{"90":"evil"}`) }),
		em("Reply.SigBlocks/other", false, func(e *exchange) { e.reply.SigBlocks = []byte("other") }),
	}
	bd := base.req.RelayData
	if bd.ConnectionType != "" {
		ms = append(ms,
			em("RelayData.ConnectionType/empty", true, func(e *exchange) { d(e).ConnectionType = "" }),
			em("RelayData.ConnectionType|ApiUrl/boundary", true, func(e *exchange) {
				c := d(e).ConnectionType
				d(e).ApiUrl = c[len(c)-1:] + d(e).ApiUrl
				d(e).ConnectionType = c[:len(c)-1]
			}, "RelayData.ConnectionType", "RelayData.ApiUrl"))
	}
	if len(bd.Metadata) >= 2 {
		ms = append(ms,
			em("RelayData.Metadata/drop-last", true, func(e *exchange) { d(e).Metadata = d(e).Metadata[:len(d(e).Metadata)-1] }),
			em("RelayData.Metadata/value", true, func(e *exchange) { d(e).Metadata[0].Value += "!" }),
			em("RelayData.Metadata/name-value-boundary", true, func(e *exchange) {
				m := &d(e).Metadata[0]
				m.Value = m.Name[len(m.Name)-1:] + m.Value
				m.Name = m.Name[:len(m.Name)-1]
			}),
			em("RelayData.Metadata/swap", true, func(e *exchange) { d(e).Metadata[0], d(e).Metadata[1] = d(e).Metadata[1], d(e).Metadata[0] }),
		)
	}
	if bd.Addon != "" {
		ms = append(ms, em("RelayData.Addon/empty", true, func(e *exchange) { d(e).Addon = "" }))
	}
	if len(bd.Extensions) >= 2 {
		ms = append(ms,
			em("RelayData.Extensions/drop-last", true, func(e *exchange) { d(e).Extensions = d(e).Extensions[:len(d(e).Extensions)-1] }),
			em("RelayData.Extensions/join", true, func(e *exchange) { d(e).Extensions = []string{strings.Join(d(e).Extensions, "")} }),
			em("RelayData.Extensions/swap", true, func(e *exchange) { d(e).Extensions[0], d(e).Extensions[1] = d(e).Extensions[1], d(e).Extensions[0] }),
		)
	}
	if bd.RequestId != "" {
		ms = append(ms, em("RelayData.RequestId/empty", true, func(e *exchange) { d(e).RequestId = "" }))
	}
	if bd.XTaskId != nil {
		ms = append(ms, em("RelayData.TaskId/unset", true, func(e *exchange) { d(e).XTaskId = nil }))
	}
	if bd.XTxId != nil {
		ms = append(ms, em("RelayData.TxId/unset", true, func(e *exchange) { d(e).XTxId = nil }))
	}
	if len(base.reply.Metadata) >= 2 {
		ms = append(ms,
			em("Reply.Metadata/drop-last", true, func(e *exchange) { e.reply.Metadata = e.reply.Metadata[:len(e.reply.Metadata)-1] }),
			em("Reply.Metadata/drop-all", true, func(e *exchange) { e.reply.Metadata = nil }),
			em("Reply.Metadata/value", true, func(e *exchange) { e.reply.Metadata[0].Value += "!" }),
			em("Reply.Metadata/name", true, func(e *exchange) { e.reply.Metadata[1].Name += "!" }),
			em("Reply.Metadata/swap", true, func(e *exchange) {
				e.reply.Metadata[0], e.reply.Metadata[1] = e.reply.Metadata[1], e.reply.Metadata[0]
			}),
			em("Reply.Metadata/name-value-boundary", true, func(e *exchange) {
				m := &e.reply.Metadata[0]
				m.Value = m.Name[len(m.Name)-1:] + m.Value
				m.Name = m.Name[:len(m.Name)-1]
			}),
			// one header (n,v) becomes the two headers (n,"") and ("",v)
			em("Reply.Metadata/split-entry", true, func(e *exchange) {
				m := e.reply.Metadata[0]
				rest := append([]pairingtypes.Metadata{}, e.reply.Metadata[1:]...)
				e.reply.Metadata = append([]pairingtypes.Metadata{{Name: m.Name}, {Value: m.Value}}, rest...)
			}),
		)
	}
	return ms
}

// ---------------------------------------------------------------- enumeration

// combos enumerates every set of <= k mutations that pairwise occupy different fields (including the empty set).
func combos[T any](ms []mut[T], k int, emit func([]int)) {
	var cur []int
	used := map[string]bool{}
	var rec func(start int)
	rec = func(start int) {
		emit(append([]int{}, cur...))
		if len(cur) == k {
			return
		}
	next:
		for i := start; i < len(ms); i++ {
			for _, f := range ms[i].fields {
				if used[f] {
					continue next
				}
			}
			for _, f := range ms[i].fields {
				used[f] = true
			}
			cur = append(cur, i)
			rec(i + 1)
			cur = cur[:len(cur)-1]
			for _, f := range ms[i].fields {
				delete(used, f)
			}
		}
	}
	rec(0)
}

type outcome struct {
	kind   string   // "accepts-changed" | "rejects-unchanged" | "mutates"
	names  []string // mutation names that matter for the kind (signed ones for accepts-changed, all for rejects-unchanged), or modified fields
	base   string
	all    []string // every mutation applied
	detail string
}

type collector struct {
	mu        sync.Mutex
	outs      []outcome
	distinct  map[[16]byte]struct{}
	evals     int64
	changedN  int64 // evaluations with a signed field changed (must be rejected)
	sameN     int64 // evaluations with only unsigned fields changed or nothing changed (must be accepted)
	rejectedN int64
	acceptedN int64
}

func (c *collector) add(o outcome) { c.mu.Lock(); c.outs = append(c.outs, o); c.mu.Unlock() }

func (c *collector) seen(b []byte) {
	h := sha256.Sum256(b)
	var k [16]byte
	copy(k[:], h[:16])
	c.mu.Lock()
	c.distinct[k] = struct{}{}
	c.mu.Unlock()
}

func parallel(jobs [][]int, f func(int, []int)) {
	var wg sync.WaitGroup
	var next int64 = -1
	for w := 0; w < runtime.NumCPU(); w++ {
		wg.Add(1)
		go func() {
			defer wg.Done()
			for {
				i := atomic.AddInt64(&next, 1)
				if int(i) >= len(jobs) {
					return
				}
				f(int(i), jobs[i])
			}
		}()
	}
	wg.Wait()
}

func names[T any](ms []mut[T], idx []int, onlySigned bool) []string {
	out := []string{}
	for _, i := range idx {
		if !onlySigned || ms[i].signed {
			out = append(out, ms[i].name)
		}
	}
	sort.Strings(out)
	return out
}

func (w *world) runSessions(r *ev.Run, k int, c *collector) (nMuts int) {
	for _, b := range w.sessionBases() {
		base := b.s
		ms := w.sessionMuts(base)
		nMuts += len(ms)
		baseSigned := sessionSignedPart(base)
		var jobs [][]int
		combos(ms, k, func(idx []int) { jobs = append(jobs, idx) })
		bname := b.name
		parallel(jobs, func(jobNo int, idx []int) {
			m := cloneSession(base)
			anySigned := false
			for _, i := range idx {
				ms[i].apply(m)
				anySigned = anySigned || ms[i].signed
			}
			// harness sanity: the catalogue's idea of "a signed field changed" agrees with the bytes
			if bytes.Equal(sessionSignedPart(m), baseSigned) == anySigned {
				panic(fmt.Sprintf("c25 harness: mutation set %v on %s does not change what it claims", names(ms, idx, false), bname))
			}
			before := sessionBytes(m)
			addrV, errV := sigs.ExtractSignerAddress(*m) // by value
			addrP, errP := sigs.ExtractSignerAddress(m)  // by pointer, as rpcprovider does
			after := sessionBytes(m)
			okV := errV == nil && addrV.Equals(w.consumer.Addr)
			okP := errP == nil && addrP.Equals(w.consumer.Addr)
			atomic.AddInt64(&c.evals, 1)
			if len(idx) > 0 {
				c.seen(append([]byte("S"+bname), before...))
			}
			if jobNo == len(jobs)*2/3 || jobNo == len(jobs)-1 {
				r.Sample(map[string]interface{}{"object": "session " + bname, "mutations": names(ms, idx, false), "signed_field_changed": anySigned,
					"recovered_consumer": okV && okP, "mutated_session": m.String()})
			}
			if !bytes.Equal(before, after) {
				post := cloneSession(m)
				pre := &session{}
				must(pre.Unmarshal(before))
				c.add(outcome{kind: "mutates", names: diffFields("RelaySession", pre, post), base: bname, all: names(ms, idx, false)})
			}
			if anySigned {
				atomic.AddInt64(&c.changedN, 1)
				if okV || okP {
					atomic.AddInt64(&c.acceptedN, 1)
					c.add(outcome{kind: "accepts-changed", names: names(ms, idx, true), base: bname, all: names(ms, idx, false)})
				} else {
					atomic.AddInt64(&c.rejectedN, 1)
				}
			} else {
				atomic.AddInt64(&c.sameN, 1)
				if !okV || !okP {
					atomic.AddInt64(&c.rejectedN, 1)
					c.add(outcome{kind: "rejects-unchanged", names: names(ms, idx, false), base: bname, all: names(ms, idx, false),
						detail: fmt.Sprintf("recovered %v/%v err %v/%v, consumer %v", addrV, addrP, errV, errP, w.consumer.Addr)})
				} else {
					atomic.AddInt64(&c.acceptedN, 1)
				}
			}
		})
	}
	return nMuts
}

func (w *world) runExchanges(r *ev.Run, k int, c *collector) (nMuts int) {
	providerAddr := w.provider.Addr.String()
	ctx := context.Background()
	for _, b := range w.exchangeBases(w.sessionBases()[0].s) {
		base := b.e
		ms := w.exchangeMuts(base)
		nMuts += len(ms)
		baseSigned := exchangeSignedPart(base)
		var jobs [][]int
		combos(ms, k, func(idx []int) { jobs = append(jobs, idx) })
		bname := b.name
		parallel(jobs, func(jobNo int, idx []int) {
			m := cloneExchange(base)
			anySigned := false
			for _, i := range idx {
				ms[i].apply(m)
				anySigned = anySigned || ms[i].signed
			}
			if bytes.Equal(exchangeSignedPart(m), baseSigned) == anySigned {
				panic(fmt.Sprintf("c25 harness: mutation set %v on %s does not change what it claims", names(ms, idx, false), bname))
			}
			pre := cloneExchange(m)
			before := exchangeBytes(m)
			err := lavaprotocol.VerifyRelayReply(ctx, m.reply, m.req, providerAddr)
			after := exchangeBytes(m)
			ok := err == nil
			atomic.AddInt64(&c.evals, 1)
			if len(idx) > 0 {
				c.seen(append([]byte("E"+bname), before...))
			}
			if jobNo == len(jobs)*2/3 {
				r.Sample(map[string]interface{}{"object": "exchange " + bname, "mutations": names(ms, idx, false), "signed_field_changed": anySigned,
					"verify_relay_reply_ok": ok, "request_data": pre.req.RelayData.String(), "reply_data": string(pre.reply.Data)})
			}
			if !bytes.Equal(before, after) {
				post := cloneExchange(m)
				var fields []string
				fields = append(fields, diffFields("Request.RelaySession", pre.req.RelaySession, post.req.RelaySession)...)
				fields = append(fields, diffFields("Request.RelayData", pre.req.RelayData, post.req.RelayData)...)
				fields = append(fields, diffFields("Reply", pre.reply, post.reply)...)
				c.add(outcome{kind: "mutates", names: fields, base: bname, all: names(ms, idx, false),
					detail: fmt.Sprintf("request salt before %x after %x", pre.req.RelayData.Salt, m.req.RelayData.Salt)})
			}
			if anySigned {
				atomic.AddInt64(&c.changedN, 1)
				if ok {
					atomic.AddInt64(&c.acceptedN, 1)
					c.add(outcome{kind: "accepts-changed", names: names(ms, idx, true), base: bname, all: names(ms, idx, false),
						detail: fmt.Sprintf("reply.Data=%q reply.Metadata=%v request data={%s}", m.reply.Data, m.reply.Metadata, pre.req.RelayData.String())})
				} else {
					atomic.AddInt64(&c.rejectedN, 1)
				}
			} else {
				atomic.AddInt64(&c.sameN, 1)
				if !ok {
					atomic.AddInt64(&c.rejectedN, 1)
					c.add(outcome{kind: "rejects-unchanged", names: names(ms, idx, false), base: bname, all: names(ms, idx, false), detail: err.Error()})
				} else {
					atomic.AddInt64(&c.acceptedN, 1)
				}
			}
		})
	}
	return nMuts
}

// report turns outcomes into violations. For accepts-changed / rejects-unchanged only the minimal
// mutation sets are reported (a set is dropped when a proper subset of it already shows the same
// failure), so that each root cause has one stable key.
func report(r *ev.Run, prefix string, outs []outcome) {
	byKind := map[string]map[string]outcome{}
	for _, o := range outs {
		k := strings.Join(o.names, "+")
		if byKind[o.kind] == nil {
			byKind[o.kind] = map[string]outcome{}
		}
		prev, ok := byKind[o.kind][k]
		// deterministic representative: fewest mutations overall, then lexicographic
		if !ok || len(o.all) < len(prev.all) || (len(o.all) == len(prev.all) && strings.Join(append([]string{o.base}, o.all...), ",") < strings.Join(append([]string{prev.base}, prev.all...), ",")) {
			byKind[o.kind][k] = o
		}
	}
	for kind, sets := range byKind {
		var keys []string
		for k := range sets {
			keys = append(keys, k)
		}
		sort.Strings(keys)
		for _, k := range keys {
			o := sets[k]
			if kind != "mutates" {
				minimal := true
				for k2, o2 := range sets {
					if k2 != k && len(o2.names) < len(o.names) && subset(o2.names, o.names) {
						minimal = false
						break
					}
				}
				if !minimal {
					continue
				}
			}
			var key, what string
			switch kind {
			case "accepts-changed":
				key = prefix + "-accepts-changed:" + k
				what = fmt.Sprintf("%s signature still verifies after changing signed field(s) [%s] (base %q, all mutations applied: %v) %s", prefix, k, o.base, o.all, o.detail)
			case "rejects-unchanged":
				key = prefix + "-rejects-unchanged:" + k
				what = fmt.Sprintf("%s signature no longer verifies although no signed field changed (base %q, mutations of unsigned fields: %v) %s", prefix, o.base, o.all, o.detail)
			case "mutates":
				key = prefix + "-check-mutates:" + k
				what = fmt.Sprintf("checking the %s signature modified the checked object in field(s) [%s] (base %q, mutations applied before the check: %v) %s", prefix, k, o.base, o.all, o.detail)
			}
			r.Violate(ev.Violation{Key: key, What: what, Replay: map[string]interface{}{"base": o.base, "mutations": o.all, "kind": kind, "detail": o.detail}})
		}
	}
}

func subset(a, b []string) bool {
	in := map[string]bool{}
	for _, x := range b {
		in[x] = true
	}
	for _, x := range a {
		if !in[x] {
			return false
		}
	}
	return true
}

func run(r *ev.Run) {
	r.MaxSamples = 8
	utils.SetGlobalLoggingLevel("fatal")
	k := 3
	if ev.Tier() == "thorough" {
		k = 4
	}
	w := newWorld()

	cs := &collector{distinct: map[[16]byte]struct{}{}}
	nS := w.runSessions(r, k, cs)
	report(r, "session", cs.outs)
	ce := &collector{distinct: map[[16]byte]struct{}{}}
	nE := w.runExchanges(r, k, ce)
	report(r, "reply", ce.outs)

	r.Set("evaluations", cs.evals+ce.evals)
	r.Set("distinct_nontrivial", int64(len(cs.distinct)+len(ce.distinct)))
	r.Set("rule", "a case is one (base, set of <= K field mutations on pairwise different fields); it is non-trivial and distinct when at least one mutation was applied and the marshalled mutated object differs from every other case (counted by hash of the bytes); each case is run through the real ExtractSignerAddress / VerifyRelayReply and compared with: valid <=> no signed field mutated; bytes before == bytes after")
	r.Set("exhaustive", true)
	r.Set("bound", fmt.Sprintf("3 base sessions (plain via ConstructRelayRequest, badge, qos+reported providers) x all sets of <= %d mutations from a catalogue of %d (summed over bases); 2 base exchanges (rest with metadata, jsonrpc with LATEST block) x all sets of <= %d mutations from %d", k, nS, k, nE))
	r.Set("session_cases", cs.evals)
	r.Set("session_cases_signed_field_changed", cs.changedN)
	r.Set("session_cases_only_unsigned_changed_or_none", cs.sameN)
	r.Set("session_verdict_valid", cs.acceptedN)
	r.Set("session_verdict_invalid", cs.rejectedN)
	r.Set("reply_cases", ce.evals)
	r.Set("reply_cases_signed_field_changed", ce.changedN)
	r.Set("reply_cases_only_unsigned_changed_or_none", ce.sameN)
	r.Set("reply_verdict_valid", ce.acceptedN)
	r.Set("reply_verdict_invalid", ce.rejectedN)
	r.Assume("signed / unsigned classification of fields is taken from the property text: session = all fields but Sig and Badge; reply = Reply.Data, Reply.Metadata, request RelayData minus Salt")
	r.Assume("only the catalogue's replacement values are tried for each field (2-7 per field, including moving one byte across a field boundary); keys are fixed deterministic test keys")
	r.Assume("side effects of *signing* (SignRelayResponse also edits the request it is given) are outside the property, which speaks about checking only")
}

func init() {
	reg.Register(reg.Check{Property: "C25", Level: "exploration", Run: run})
}
